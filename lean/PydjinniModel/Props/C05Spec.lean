import PydjinniModel.Props.C05Front
import PydjinniModel.Props.C11Closed
/-!
# C05 — the operational model reports exactly the violations of the declarative specification

`Front/Sem.lean` (visitor `walk*`, resolution loop, post-checks `check*`, composed in `Imports.finishFile`) and
`Front/Spec.lean` (`refRule`, `sigRules`, `declRules`, `violations`) describe the same rules in two vocabularies. This
file is the bridge between them; all statements are membership equivalences between diagnostics (class, rule tag,
file, position all agree), for arbitrary member counts, nesting depths and namespace depths.

* `reported_walkT`           one written type reference, at any depth below it: unknown type / generic arity of every
                             `dataType` node, the signature rules of every inline function type, its targets
* `reported_enum`, `reported_flags`, `reported_record`, `reported_interface`, `reported_function`, `reported_error`
                             kind by kind
* `reported_walkDecl` / `walkDecl_eq_declRules`   **per declaration**: visit-time ∪ reference-level ∪ post-resolution
                             diagnostics = `declRules`
* `reported_walkContents`    lifted over namespaces at any depth
* `registerAll_eq_progRegistry`   the registry a file is finished with is `progRegistry` of the one-file program
* `finishFile_eq_violations` (and `…_of_fresh`)   **per file**: `finishFile` succeeds, binds lexically, and its
                             diagnostics are exactly `violations`
* `accepted_iff_no_violation`
* `C05SpecExamples`          two concrete files (kernel-evaluated on both sides)

No disagreement between the model and the specification was found: no declaration kind or rule is excluded.
Multiplicities agree as well: `Props/C05SpecPerm.lean` (`finishFile_perm_violations`).
-/
namespace Pydjinni.Front

/-! ### vocabulary -/

/-- what the front end reports for the collected material `c` once references are bound by `m`:
    visit-time diagnostics, reference-level diagnostics, post-resolution rule violations
    (the right-hand side of `finishFile_spec`) -/
def Reported (m : Resolved) (reg : Registry) (c : Collected) (x : Diag) : Prop :=
  x ∈ c.diags ∨ (∃ r ∈ c.refs, x ∈ refDiags reg r) ∨ ∃ u ∈ c.units, UnitViolation m u x

/-- `m` binds every reference of `c` to what lexical scoping denotes in `reg` (the conclusion of `finishFile_spec`) -/
def Binds (m : Resolved) (reg : Registry) (refs : List RefSite) : Prop :=
  ∀ r ∈ refs, m.get r.file r.pos = lexicalLookup reg r.ns r.name

/-- the specification environment that corresponds to a visit -/
abbrev specEnvOf (e : Env) (reg : Registry) : SpecEnv :=
  { keys := e.keys, defaultDeriving := e.defaultDeriving, reg := reg }

@[simp] theorem Collected.diags_append (a b : Collected) : (a ++ b).diags = a.diags ++ b.diags := rfl
@[simp] theorem Collected.units_append (a b : Collected) : (a ++ b).units = a.units ++ b.units := rfl
@[simp] theorem Collected.diags_empty : ({} : Collected).diags = [] := rfl
@[simp] theorem Collected.units_empty : ({} : Collected).units = [] := rfl

theorem reported_append (m : Resolved) (reg : Registry) (a b : Collected) (x : Diag) :
    Reported m reg (a ++ b) x ↔ Reported m reg a x ∨ Reported m reg b x := by
  unfold Reported
  simp only [Collected.diags_append, Collected.refs_append, Collected.units_append, List.mem_append]
  constructor
  · rintro ((h | h) | ⟨r, hr | hr, hx⟩ | ⟨u, hu | hu, hx⟩)
    · exact Or.inl (Or.inl h)
    · exact Or.inr (Or.inl h)
    · exact Or.inl (Or.inr (Or.inl ⟨r, hr, hx⟩))
    · exact Or.inr (Or.inr (Or.inl ⟨r, hr, hx⟩))
    · exact Or.inl (Or.inr (Or.inr ⟨u, hu, hx⟩))
    · exact Or.inr (Or.inr (Or.inr ⟨u, hu, hx⟩))
  · rintro ((h | ⟨r, hr, hx⟩ | ⟨u, hu, hx⟩) | (h | ⟨r, hr, hx⟩ | ⟨u, hu, hx⟩))
    · exact Or.inl (Or.inl h)
    · exact Or.inr (Or.inl ⟨r, Or.inl hr, hx⟩)
    · exact Or.inr (Or.inr ⟨u, Or.inl hu, hx⟩)
    · exact Or.inl (Or.inr h)
    · exact Or.inr (Or.inl ⟨r, Or.inr hr, hx⟩)
    · exact Or.inr (Or.inr ⟨u, Or.inr hu, hx⟩)

theorem reported_empty (m : Resolved) (reg : Registry) (x : Diag) : ¬ Reported m reg {} x := by
  unfold Reported; simp

theorem Binds.left {m : Resolved} {reg : Registry} {a b : List RefSite} (h : Binds m reg (a ++ b)) : Binds m reg a :=
  fun r hr => h r (List.mem_append_left _ hr)

theorem Binds.right {m : Resolved} {reg : Registry} {a b : List RefSite} (h : Binds m reg (a ++ b)) : Binds m reg b :=
  fun r hr => h r (List.mem_append_right _ hr)

/-! ### what the visitor collects below a type reference: units and visit-time diagnostics -/

/-- the entry of `type_decls` that the visitor appends for an inline / named function signature -/
def fnUnit (e : Env) (ns : List String) (sig : FnSig) : UnitAt :=
  { file := e.file, ns := ns, unit := .fn (sigOfFn sig) }

/-- the written target flags of a function signature (the anonymous function of `fnFlagsOf`) -/
def sigFlags : FnSig → Option (List String × Pos)
  | .mk (some f) p _ _ _ => some (f, p)
  | _ => none

/-- the visit-time diagnostics of one function signature -/
def fnTargetDiags (e : Env) (sig : FnSig) : List Diag :=
  match sigFlags sig with
  | some (f, p) => targetDiags e f p
  | none => []

theorem walkF_units (e : Env) (ns : List String) (flags : Option (List String)) (fpos : Pos) (params : List Param)
    (thr : Option (List TypeRef)) (ret : Option TypeRef) :
    (walkF e ns (.mk flags fpos params thr ret)).units
      = (walkOT e ns ret).units ++ (walkPs e ns params).units ++ (walkOTs e ns thr).units
          ++ [fnUnit e ns (.mk flags fpos params thr ret)] := by
  cases flags <;> simp [walkF, fnUnit, sigOfFn] <;> rfl

theorem walkF_diags (e : Env) (ns : List String) (flags : Option (List String)) (fpos : Pos) (params : List Param)
    (thr : Option (List TypeRef)) (ret : Option TypeRef) :
    (walkF e ns (.mk flags fpos params thr ret)).diags
      = fnTargetDiags e (.mk flags fpos params thr ret)
          ++ (walkOT e ns ret).diags ++ (walkPs e ns params).diags ++ (walkOTs e ns thr).diags := by
  cases flags <;> simp [walkF, fnTargetDiags, sigFlags] <;> rfl

mutual
theorem units_walkT (e : Env) (ns : List String) (t : TypeRef) (u : UnitAt) :
    u ∈ (walkT e ns t).units ↔ u ∈ (fnNodesT t).map (fnUnit e ns) := by
  cases t with
  | data name args opt pos =>
    simp only [walkT, Collected.units_append, fnNodesT, List.append_nil]
    exact units_walkTs e ns args u
  | fn sig pos =>
    simp only [walkT, fnNodesT, List.map_cons, List.mem_cons]
    exact units_walkF e ns sig u
theorem units_walkTs (e : Env) (ns : List String) (ts : List TypeRef) (u : UnitAt) :
    u ∈ (walkTs e ns ts).units ↔ u ∈ (fnNodesTs ts).map (fnUnit e ns) := by
  cases ts with
  | nil => simp [walkTs, fnNodesTs]
  | cons t ts =>
    simp only [walkTs, Collected.units_append, fnNodesTs, List.map_append, List.mem_append]
    rw [units_walkT e ns t u, units_walkTs e ns ts u]
theorem units_walkF (e : Env) (ns : List String) (sig : FnSig) (u : UnitAt) :
    u ∈ (walkF e ns sig).units ↔ u = fnUnit e ns sig ∨ u ∈ (fnNodesF sig).map (fnUnit e ns) := by
  cases sig with
  | mk flags fpos params thr ret =>
    rw [walkF_units]
    simp only [fnNodesF, List.map_append, List.mem_append, List.mem_singleton]
    rw [units_walkOT e ns ret u, units_walkPs e ns params u, units_walkOTs e ns thr u]
    constructor
    · rintro (((h | h) | h) | h)
      · exact Or.inr (Or.inr h)
      · exact Or.inr (Or.inl (Or.inl h))
      · exact Or.inr (Or.inl (Or.inr h))
      · exact Or.inl h
    · rintro (h | (h | h) | h)
      · exact Or.inr h
      · exact Or.inl (Or.inl (Or.inr h))
      · exact Or.inl (Or.inr h)
      · exact Or.inl (Or.inl (Or.inl h))
theorem units_walkPs (e : Env) (ns : List String) (ps : List Param) (u : UnitAt) :
    u ∈ (walkPs e ns ps).units ↔ u ∈ (fnNodesPs ps).map (fnUnit e ns) := by
  cases ps with
  | nil => simp [walkPs, fnNodesPs]
  | cons p ps =>
    cases p with
    | mk n t pos =>
      simp only [walkPs, Collected.units_append, fnNodesPs, List.map_append, List.mem_append]
      rw [units_walkT e ns t u, units_walkPs e ns ps u]
theorem units_walkOT (e : Env) (ns : List String) (o : Option TypeRef) (u : UnitAt) :
    u ∈ (walkOT e ns o).units ↔ u ∈ (fnNodesOT o).map (fnUnit e ns) := by
  cases o with
  | none => simp [walkOT, fnNodesOT]
  | some t => simp only [walkOT, fnNodesOT]; exact units_walkT e ns t u
theorem units_walkOTs (e : Env) (ns : List String) (o : Option (List TypeRef)) (u : UnitAt) :
    u ∈ (walkOTs e ns o).units ↔ u ∈ (fnNodesOTs o).map (fnUnit e ns) := by
  cases o with
  | none => simp [walkOTs, fnNodesOTs]
  | some ts => simp only [walkOTs, fnNodesOTs]; exact units_walkTs e ns ts u
end

mutual
theorem diags_walkT (e : Env) (ns : List String) (t : TypeRef) (x : Diag) :
    x ∈ (walkT e ns t).diags ↔ x ∈ (fnNodesT t).flatMap (fnTargetDiags e) := by
  cases t with
  | data name args opt pos =>
    simp only [walkT, Collected.diags_append, fnNodesT, List.append_nil]
    exact diags_walkTs e ns args x
  | fn sig pos =>
    simp only [walkT, fnNodesT, List.flatMap_cons, List.mem_append]
    exact diags_walkF e ns sig x
theorem diags_walkTs (e : Env) (ns : List String) (ts : List TypeRef) (x : Diag) :
    x ∈ (walkTs e ns ts).diags ↔ x ∈ (fnNodesTs ts).flatMap (fnTargetDiags e) := by
  cases ts with
  | nil => simp [walkTs, fnNodesTs]
  | cons t ts =>
    simp only [walkTs, Collected.diags_append, fnNodesTs, List.flatMap_append, List.mem_append]
    rw [diags_walkT e ns t x, diags_walkTs e ns ts x]
theorem diags_walkF (e : Env) (ns : List String) (sig : FnSig) (x : Diag) :
    x ∈ (walkF e ns sig).diags ↔ x ∈ fnTargetDiags e sig ∨ x ∈ (fnNodesF sig).flatMap (fnTargetDiags e) := by
  cases sig with
  | mk flags fpos params thr ret =>
    rw [walkF_diags]
    simp only [fnNodesF, List.flatMap_append, List.mem_append]
    rw [diags_walkOT e ns ret x, diags_walkPs e ns params x, diags_walkOTs e ns thr x]
    constructor
    · rintro (((h | h) | h) | h)
      · exact Or.inl h
      · exact Or.inr (Or.inr h)
      · exact Or.inr (Or.inl (Or.inl h))
      · exact Or.inr (Or.inl (Or.inr h))
    · rintro (h | (h | h) | h)
      · exact Or.inl (Or.inl (Or.inl h))
      · exact Or.inl (Or.inr h)
      · exact Or.inr h
      · exact Or.inl (Or.inl (Or.inr h))
theorem diags_walkPs (e : Env) (ns : List String) (ps : List Param) (x : Diag) :
    x ∈ (walkPs e ns ps).diags ↔ x ∈ (fnNodesPs ps).flatMap (fnTargetDiags e) := by
  cases ps with
  | nil => simp [walkPs, fnNodesPs]
  | cons p ps =>
    cases p with
    | mk n t pos =>
      simp only [walkPs, Collected.diags_append, fnNodesPs, List.flatMap_append, List.mem_append]
      rw [diags_walkT e ns t x, diags_walkPs e ns ps x]
theorem diags_walkOT (e : Env) (ns : List String) (o : Option TypeRef) (x : Diag) :
    x ∈ (walkOT e ns o).diags ↔ x ∈ (fnNodesOT o).flatMap (fnTargetDiags e) := by
  cases o with
  | none => simp [walkOT, fnNodesOT]
  | some t => simp only [walkOT, fnNodesOT]; exact diags_walkT e ns t x
theorem diags_walkOTs (e : Env) (ns : List String) (o : Option (List TypeRef)) (x : Diag) :
    x ∈ (walkOTs e ns o).diags ↔ x ∈ (fnNodesOTs o).flatMap (fnTargetDiags e) := by
  cases o with
  | none => simp [walkOTs, fnNodesOTs]
  | some ts => simp only [walkOTs, fnNodesOTs]; exact diags_walkTs e ns ts x
end

/-! ### rule by rule: the two vocabularies say the same -/

theorem filterMap_none_some_eq {α β : Type} (l : List α) (p : α → Bool) (D : β) :
    l.filterMap (fun t => if p t then none else some D) = (l.filter (fun t => !p t)).map (fun _ => D) := by
  induction l with
  | nil => rfl
  | cons a l ih =>
    cases h : p a
    · simp [h, ih]
    · simp [h, ih]

/-- unknown targets: the visitor's list is the specification's list -/
theorem targetDiags_eq_unknownTargets (e : Env) (reg : Registry) (flags : List String) (pos : Pos) :
    targetDiags e flags pos = unknownTargets (specEnvOf e reg) e.file flags pos := by
  unfold targetDiags unknownTargets mk
  exact filterMap_none_some_eq _ _ _

/-- unknown type / generic arity: the specification's rule on a `dataType` node is the resolution loop's
    verdict on the reference site recorded for that node -/
theorem refRule_eq_refDiags (e : Env) (reg : Registry) (ns : List String) (n : TypeRef) :
    refRule (specEnvOf e reg) e.file ns n = (match siteOf e ns n with | some r => refDiags reg r | none => []) := by
  cases n with
  | data name args o pos =>
    simp only [refRule, siteOf, refDiags, mk]
    cases lexicalLookup reg ns name <;> rfl
  | fn sig pos => rfl

theorem mem_sigRules_iff (se : SpecEnv) (file : String) (ns : List String) (s : SigU) (x : Diag) :
    x ∈ sigRules se file ns s ↔
      (∃ t, s.ret = some t ∧ specPrim se ns t = some .error ∧ x = pdiag "return-error" file (posOf t))
      ∨ (∃ l, s.throwing = some l ∧ ∃ t ∈ l, (∃ p, specPrim se ns t = some p ∧ p ≠ .error) ∧ x = pdiag "throws-non-error" file (posOf t))
      ∨ (∃ t ∈ s.params, specPrim se ns t = some .error ∧ x = pdiag "param-error" file (posOf t)) := by
  unfold sigRules
  simp only [List.mem_append, List.mem_map, List.mem_filter, mk, pdiag]
  constructor
  · rintro ((⟨t, ⟨ht, hp⟩, rfl⟩ | h) | ⟨t, ⟨ht, hp⟩, rfl⟩)
    · exact Or.inr (Or.inr ⟨t, ht, by simpa using hp, rfl⟩)
    · left
      cases hr : s.ret with
      | none => simp [hr] at h
      | some t =>
        simp only [hr] at h
        split at h
        · rename_i hp
          simp at h
          exact ⟨t, rfl, by simpa using hp, h⟩
        · simp at h
    · right; left
      cases hth : s.throwing with
      | none => simp [hth] at ht
      | some l =>
        simp only [hth, Option.getD_some] at ht
        refine ⟨l, rfl, t, ht, ?_, rfl⟩
        cases hsp : specPrim se ns t with
        | none => simp [hsp] at hp
        | some p => simp only [hsp] at hp; exact ⟨p, rfl, by simpa using hp⟩
  · rintro (⟨t, hr, hp, rfl⟩ | ⟨l, hl, t, ht, ⟨p, hp, hne⟩, rfl⟩ | ⟨t, ht, hp, rfl⟩)
    · left; right; simp [hr, hp]
    · right
      refine ⟨t, ⟨by simpa [hl] using ht, ?_⟩, rfl⟩
      simp [hp, hne]
    · left; left
      exact ⟨t, ⟨ht, by simp [hp]⟩, rfl⟩

/-- error as parameter / return type, non-error after `throws`: when the resolution map agrees with lexical
    scoping on the types of the signature, the post-check and the specification report the same -/
theorem mem_sigRules_iff_sigViolation (se : SpecEnv) (m : Resolved) (file : String) (ns : List String) (s : SigU)
    (hag : ∀ u ∈ sigTypes s, primOf m file u = specPrim se ns u) (x : Diag) :
    x ∈ sigRules se file ns s ↔ SigViolation m file s x := by
  rw [mem_sigRules_iff]
  unfold SigViolation
  have hret : ∀ t, s.ret = some t → primOf m file t = specPrim se ns t := fun t ht =>
    hag t (by simp [sigTypes, ht])
  have hthr : ∀ l, s.throwing = some l → ∀ t ∈ l, primOf m file t = specPrim se ns t := fun l hl t ht =>
    hag t (by simp [sigTypes, hl, ht])
  have hpar : ∀ t ∈ s.params, primOf m file t = specPrim se ns t := fun t ht =>
    hag t (by simp [sigTypes, ht])
  constructor
  · rintro (⟨t, hr, hp, rfl⟩ | ⟨l, hl, t, ht, ⟨p, hp, hne⟩, rfl⟩ | ⟨t, ht, hp, rfl⟩)
    · exact Or.inl ⟨t, hr, by rw [hret t hr]; exact hp, rfl⟩
    · exact Or.inr (Or.inl ⟨l, hl, t, ht, ⟨p, by rw [hthr l hl t ht]; exact hp, hne⟩, rfl⟩)
    · exact Or.inr (Or.inr ⟨t, ht, by rw [hpar t ht]; exact hp, rfl⟩)
  · rintro (⟨t, hr, hp, rfl⟩ | ⟨l, hl, t, ht, ⟨p, hp, hne⟩, rfl⟩ | ⟨t, ht, hp, rfl⟩)
    · exact Or.inl ⟨t, hr, by rw [← hret t hr]; exact hp, rfl⟩
    · exact Or.inr (Or.inl ⟨l, hl, t, ht, ⟨p, by rw [← hthr l hl t ht]; exact hp, hne⟩, rfl⟩)
    · exact Or.inr (Or.inr ⟨t, ht, by rw [← hpar t ht]; exact hp, rfl⟩)

/-! ### the resolution map agrees with lexical scoping on every node the visitor walked -/

/-- a `dataType` node below a walked type: `type_def.primitive` is what the specification reads -/
theorem primOf_eq_specPrim_of_node (e : Env) (reg : Registry) (m : Resolved) (ns : List String) (t : TypeRef)
    (hb : Binds m reg (walkT e ns t).refs) (n : TypeRef) (hn : isFn n = false → n ∈ dataNodesT t) :
    primOf m e.file n = specPrim (specEnvOf e reg) ns n := by
  cases n with
  | fn sig pos => rfl
  | data name args o pos =>
    have hr : (⟨name, ns, args.length, e.file, pos⟩ : RefSite) ∈ (walkT e ns t).refs :=
      (refs_walkT_complete e ns t _).mpr ⟨_, hn rfl, rfl⟩
    have := hb _ hr
    simp only [primOf, specPrim]
    rw [this]

theorem primOf_eq_specPrim_top (e : Env) (reg : Registry) (m : Resolved) (ns : List String) (t : TypeRef)
    (hb : Binds m reg (walkT e ns t).refs) : primOf m e.file t = specPrim (specEnvOf e reg) ns t :=
  primOf_eq_specPrim_of_node e reg m ns t hb t (mem_dataNodesT_self t)

/-! ### one walked type reference -/

/-- the specification's rules that concern one written type reference and everything below it:
    reference rules on every `dataType` node, signature rules on every inline function, targets of every inline function -/
def typeRules (se : SpecEnv) (file : String) (ns : List String) (t : TypeRef) : List Diag :=
  (dataNodesT t).flatMap (refRule se file ns)
  ++ ((fnNodesT t).map sigOfFn).flatMap (sigRules se file ns)
  ++ ((fnNodesT t).filterMap sigFlags).flatMap (fun fp => unknownTargets se file fp.1 fp.2)

theorem mem_fnTargetDiags_iff (e : Env) (reg : Registry) (sig : FnSig) (x : Diag) :
    x ∈ fnTargetDiags e sig ↔ ∃ fp, sigFlags sig = some fp ∧ x ∈ unknownTargets (specEnvOf e reg) e.file fp.1 fp.2 := by
  unfold fnTargetDiags
  cases h : sigFlags sig with
  | none => simp
  | some fp =>
    obtain ⟨f, p⟩ := fp
    simp only [Option.some.injEq, exists_eq_left']
    rw [targetDiags_eq_unknownTargets e reg]

theorem walkT_diags_iff (e : Env) (reg : Registry) (ns : List String) (t : TypeRef) (x : Diag) :
    x ∈ (walkT e ns t).diags ↔
      x ∈ ((fnNodesT t).filterMap sigFlags).flatMap (fun fp => unknownTargets (specEnvOf e reg) e.file fp.1 fp.2) := by
  rw [diags_walkT]
  simp only [List.mem_flatMap, List.mem_filterMap]
  constructor
  · rintro ⟨sig, hs, hx⟩
    obtain ⟨fp, hfp, hx⟩ := (mem_fnTargetDiags_iff e reg sig x).mp hx
    exact ⟨fp, ⟨sig, hs, hfp⟩, hx⟩
  · rintro ⟨fp, ⟨sig, hs, hfp⟩, hx⟩
    exact ⟨sig, hs, (mem_fnTargetDiags_iff e reg sig x).mpr ⟨fp, hfp, hx⟩⟩

theorem walkT_refs_iff (e : Env) (reg : Registry) (ns : List String) (t : TypeRef) (x : Diag) :
    (∃ r ∈ (walkT e ns t).refs, x ∈ refDiags reg r) ↔ x ∈ (dataNodesT t).flatMap (refRule (specEnvOf e reg) e.file ns) := by
  simp only [List.mem_flatMap]
  constructor
  · rintro ⟨r, hr, hx⟩
    obtain ⟨n, hn, hs⟩ := (refs_walkT_complete e ns t r).mp hr
    refine ⟨n, hn, ?_⟩
    rw [refRule_eq_refDiags, hs]
    exact hx
  · rintro ⟨n, hn, hx⟩
    rw [refRule_eq_refDiags] at hx
    cases hs : siteOf e ns n with
    | none => rw [hs] at hx; simp at hx
    | some r =>
      rw [hs] at hx
      exact ⟨r, (refs_walkT_complete e ns t r).mpr ⟨n, hn, hs⟩, hx⟩

theorem unitViolation_fnUnit (m : Resolved) (e : Env) (ns : List String) (sig : FnSig) (x : Diag) :
    UnitViolation m (fnUnit e ns sig) x ↔ SigViolation m e.file (sigOfFn sig) x := Iff.rfl

theorem walkT_units_iff (e : Env) (reg : Registry) (m : Resolved) (ns : List String) (t : TypeRef)
    (hb : Binds m reg (walkT e ns t).refs) (x : Diag) :
    (∃ u ∈ (walkT e ns t).units, UnitViolation m u x) ↔
      x ∈ ((fnNodesT t).map sigOfFn).flatMap (sigRules (specEnvOf e reg) e.file ns) := by
  have hag : ∀ sig ∈ fnNodesT t, ∀ u ∈ sigTypes (sigOfFn sig), primOf m e.file u = specPrim (specEnvOf e reg) ns u :=
    fun sig hs u hu => primOf_eq_specPrim_of_node e reg m ns t hb u (sigTypes_fnNodesT t sig hs u hu)
  simp only [List.mem_flatMap, List.mem_map]
  constructor
  · rintro ⟨u, hu, hx⟩
    rw [units_walkT] at hu
    obtain ⟨sig, hs, rfl⟩ := List.mem_map.mp hu
    refine ⟨sigOfFn sig, ⟨sig, hs, rfl⟩, ?_⟩
    rw [mem_sigRules_iff_sigViolation _ m _ _ _ (hag sig hs)]
    exact hx
  · rintro ⟨s, ⟨sig, hs, rfl⟩, hx⟩
    refine ⟨fnUnit e ns sig, (units_walkT e ns t _).mpr (List.mem_map.mpr ⟨sig, hs, rfl⟩), ?_⟩
    rw [mem_sigRules_iff_sigViolation _ m _ _ _ (hag sig hs)] at hx
    exact hx

/-- **One type reference**: what the front end reports about a written type reference — at any depth below it —
    is what the specification's rules say about it. -/
theorem reported_walkT (e : Env) (reg : Registry) (m : Resolved) (ns : List String) (t : TypeRef)
    (hb : Binds m reg (walkT e ns t).refs) (x : Diag) :
    Reported m reg (walkT e ns t) x ↔ x ∈ typeRules (specEnvOf e reg) e.file ns t := by
  unfold Reported typeRules
  rw [walkT_diags_iff e reg, walkT_refs_iff e reg, walkT_units_iff e reg m ns t hb]
  simp only [List.mem_append]
  constructor
  · rintro (h | h | h)
    · exact Or.inr h
    · exact Or.inl (Or.inl h)
    · exact Or.inl (Or.inr h)
  · rintro ((h | h) | h)
    · exact Or.inr (Or.inl h)
    · exact Or.inr (Or.inr h)
    · exact Or.inl h

/-! ### lists of written types: the member walkers -/

/-- up to order, `c` is what the visitor collects for the written types `L`, plus the visit-time diagnostics `extra` -/
structure Covers (e : Env) (ns : List String) (c : Collected) (L : List TypeRef) (extra : List Diag) : Prop where
  refs : ∀ r, r ∈ c.refs ↔ ∃ t ∈ L, r ∈ (walkT e ns t).refs
  units : ∀ u, u ∈ c.units ↔ ∃ t ∈ L, u ∈ (walkT e ns t).units
  diags : ∀ x, x ∈ c.diags ↔ (∃ t ∈ L, x ∈ (walkT e ns t).diags) ∨ x ∈ extra

theorem Covers.nil (e : Env) (ns : List String) : Covers e ns {} [] [] :=
  ⟨by simp, by simp, by simp⟩

theorem Covers.single (e : Env) (ns : List String) (t : TypeRef) : Covers e ns (walkT e ns t) [t] [] :=
  ⟨by simp, by simp, by simp⟩

theorem Covers.diagsOnly (e : Env) (ns : List String) (D : List Diag) : Covers e ns { diags := D } [] D :=
  ⟨by simp, by simp, by simp⟩

theorem Covers.append {e : Env} {ns : List String} {a b : Collected} {L1 L2 : List TypeRef} {x1 x2 : List Diag}
    (ha : Covers e ns a L1 x1) (hb : Covers e ns b L2 x2) : Covers e ns (a ++ b) (L1 ++ L2) (x1 ++ x2) := by
  refine ⟨fun r => ?_, fun u => ?_, fun x => ?_⟩
  · simp only [Collected.refs_append, List.mem_append, ha.refs, hb.refs]
    constructor
    · rintro (⟨t, ht, h⟩ | ⟨t, ht, h⟩)
      · exact ⟨t, Or.inl ht, h⟩
      · exact ⟨t, Or.inr ht, h⟩
    · rintro ⟨t, ht | ht, h⟩
      · exact Or.inl ⟨t, ht, h⟩
      · exact Or.inr ⟨t, ht, h⟩
  · simp only [Collected.units_append, List.mem_append, ha.units, hb.units]
    constructor
    · rintro (⟨t, ht, h⟩ | ⟨t, ht, h⟩)
      · exact ⟨t, Or.inl ht, h⟩
      · exact ⟨t, Or.inr ht, h⟩
    · rintro ⟨t, ht | ht, h⟩
      · exact Or.inl ⟨t, ht, h⟩
      · exact Or.inr ⟨t, ht, h⟩
  · simp only [Collected.diags_append, List.mem_append, ha.diags, hb.diags]
    constructor
    · rintro ((⟨t, ht, h⟩ | h) | (⟨t, ht, h⟩ | h))
      · exact Or.inl ⟨t, Or.inl ht, h⟩
      · exact Or.inr (Or.inl h)
      · exact Or.inl ⟨t, Or.inr ht, h⟩
      · exact Or.inr (Or.inr h)
    · rintro (⟨t, ht | ht, h⟩ | h | h)
      · exact Or.inl (Or.inl ⟨t, ht, h⟩)
      · exact Or.inr (Or.inl ⟨t, ht, h⟩)
      · exact Or.inl (Or.inr h)
      · exact Or.inr (Or.inr h)

theorem covers_walkTs (e : Env) (ns : List String) (ts : List TypeRef) : Covers e ns (walkTs e ns ts) ts [] := by
  induction ts with
  | nil => exact Covers.nil e ns
  | cons t ts ih => simp only [walkTs]; exact (Covers.single e ns t).append ih

theorem covers_walkPs (e : Env) (ns : List String) (ps : List Param) :
    Covers e ns (walkPs e ns ps) (ps.map paramType) [] := by
  induction ps with
  | nil => exact Covers.nil e ns
  | cons p ps ih => cases p with | mk n t pos => simp only [walkPs]; exact (Covers.single e ns t).append ih

theorem covers_walkOT (e : Env) (ns : List String) (o : Option TypeRef) : Covers e ns (walkOT e ns o) o.toList [] := by
  cases o with
  | none => exact Covers.nil e ns
  | some t => exact Covers.single e ns t

theorem covers_walkOTs (e : Env) (ns : List String) (o : Option (List TypeRef)) :
    Covers e ns (walkOTs e ns o) (o.getD []) [] := by
  cases o with
  | none => exact Covers.nil e ns
  | some ts => exact covers_walkTs e ns ts

theorem covers_walkProps (e : Env) (ns : List String) (ps : List Prop') :
    Covers e ns (walkProps e ns ps) (ps.map (·.ty)) [] := by
  induction ps with
  | nil => exact Covers.nil e ns
  | cons p ps ih => simp only [walkProps]; exact (Covers.single e ns p.ty).append ih

theorem covers_walkCodes (e : Env) (ns : List String) (cs : List ErrCode) :
    Covers e ns (walkCodes e ns cs) (cs.flatMap (fun c => c.params.map paramType)) [] := by
  induction cs with
  | nil => exact Covers.nil e ns
  | cons c cs ih => simp only [walkCodes, List.flatMap_cons]; exact (covers_walkPs e ns c.params).append ih

/-- the `function`-as-field diagnostics of a field list -/
def fnFieldDiags (e : Env) (fs : List Field) : List Diag :=
  fs.flatMap (fun f => if isFn f.ty then [{ cls := "ParsingException", rule := "fn-field", file := e.file, pos := posOf f.ty }] else [])

theorem covers_walkFields (e : Env) (ns : List String) (fs : List Field) :
    Covers e ns (walkFields e ns fs) (fs.map (·.ty)) (fnFieldDiags e fs) := by
  induction fs with
  | nil => exact Covers.nil e ns
  | cons f fs ih =>
    simp only [walkFields, walkField, fnFieldDiags, List.flatMap_cons, List.map_cons]
    have h1 : Covers e ns
        (if isFn f.ty then ({ diags := [{ cls := "ParsingException", rule := "fn-field", file := e.file, pos := posOf f.ty }] } : Collected) else {})
        [] (if isFn f.ty then [{ cls := "ParsingException", rule := "fn-field", file := e.file, pos := posOf f.ty }] else []) := by
      cases isFn f.ty
      · exact Covers.nil e ns
      · exact Covers.diagsOnly e ns _
    exact ((Covers.single e ns f.ty).append h1).append ih

/-- the types written in a method: parameters, return type, `throws` list -/
def methodTypes (m : Method) : List TypeRef := m.params.map paramType ++ m.ret.toList ++ (m.throwing.getD [])

/-- the `static` ∧ `const` diagnostics of a method list -/
def staticConstDiags (e : Env) (ms : List Method) : List Diag :=
  ms.flatMap (fun m => if m.isStatic && m.isConst then [{ cls := "ParsingException", rule := "static-const", file := e.file, pos := m.pos }] else [])

theorem covers_walkMethods (e : Env) (ns : List String) (ms : List Method) :
    Covers e ns (walkMethods e ns ms) (ms.flatMap methodTypes) (staticConstDiags e ms) := by
  induction ms with
  | nil => exact Covers.nil e ns
  | cons m ms ih =>
    simp only [walkMethods, walkMethod, staticConstDiags, List.flatMap_cons, methodTypes]
    have h1 : Covers e ns
        (if m.isStatic && m.isConst then ({ diags := [{ cls := "ParsingException", rule := "static-const", file := e.file, pos := m.pos }] } : Collected) else {})
        [] (if m.isStatic && m.isConst then [{ cls := "ParsingException", rule := "static-const", file := e.file, pos := m.pos }] else []) := by
      cases (m.isStatic && m.isConst)
      · exact Covers.nil e ns
      · exact Covers.diagsOnly e ns _
    have h2 := (((covers_walkPs e ns m.params).append (covers_walkOT e ns m.ret)).append (covers_walkOTs e ns m.throwing)).append h1
    simp only [List.append_nil] at h2
    exact h2.append ih

/-- **A list of written types**: when `c` covers the types `L`, the front end reports about `c` exactly the type rules
    of every member of `L` and the extra visit-time diagnostics. -/
theorem reported_covers {e : Env} {ns : List String} {c : Collected} {L : List TypeRef} {extra : List Diag}
    (hc : Covers e ns c L extra) (reg : Registry) (m : Resolved) (hb : Binds m reg c.refs) (x : Diag) :
    Reported m reg c x ↔ (∃ t ∈ L, x ∈ typeRules (specEnvOf e reg) e.file ns t) ∨ x ∈ extra := by
  have hbt : ∀ t ∈ L, Binds m reg (walkT e ns t).refs := fun t ht r hr => hb r ((hc.refs r).mpr ⟨t, ht, hr⟩)
  unfold Reported
  constructor
  · rintro (h | ⟨r, hr, hx⟩ | ⟨u, hu, hx⟩)
    · rcases (hc.diags x).mp h with ⟨t, ht, h⟩ | h
      · exact Or.inl ⟨t, ht, (reported_walkT e reg m ns t (hbt t ht) x).mp (Or.inl h)⟩
      · exact Or.inr h
    · obtain ⟨t, ht, h⟩ := (hc.refs r).mp hr
      exact Or.inl ⟨t, ht, (reported_walkT e reg m ns t (hbt t ht) x).mp (Or.inr (Or.inl ⟨r, h, hx⟩))⟩
    · obtain ⟨t, ht, h⟩ := (hc.units u).mp hu
      exact Or.inl ⟨t, ht, (reported_walkT e reg m ns t (hbt t ht) x).mp (Or.inr (Or.inr ⟨u, h, hx⟩))⟩
  · rintro (⟨t, ht, h⟩ | h)
    · rcases (reported_walkT e reg m ns t (hbt t ht) x).mpr h with h | ⟨r, hr, hx⟩ | ⟨u, hu, hx⟩
      · exact Or.inl ((hc.diags x).mpr (Or.inl ⟨t, ht, h⟩))
      · exact Or.inr (Or.inl ⟨r, (hc.refs r).mpr ⟨t, ht, hr⟩, hx⟩)
      · exact Or.inr (Or.inr ⟨u, (hc.units u).mpr ⟨t, ht, hu⟩, hx⟩)
    · exact Or.inl ((hc.diags x).mpr (Or.inr h))

/-- a top-level written type of `c`: `type_def.primitive` is what the specification reads -/
theorem Covers.primOf_eq {e : Env} {ns : List String} {c : Collected} {L : List TypeRef} {extra : List Diag}
    (hc : Covers e ns c L extra) (reg : Registry) (m : Resolved) (hb : Binds m reg c.refs) (t : TypeRef) (ht : t ∈ L) :
    primOf m e.file t = specPrim (specEnvOf e reg) ns t :=
  primOf_eq_specPrim_top e reg m ns t (fun r hr => hb r ((hc.refs r).mpr ⟨t, ht, hr⟩))

/-! ### the specification side: `declRules` = type rules of the written types + method signatures + kind rules -/

/-- the kind-specific rules of `declRules` (its last summand) -/
def kindRules (e : SpecEnv) (file : String) (ns : List String) : Decl → List Diag
  | .flags _ _ items _ =>
    (items.filter (fun i => match i.modifier with | some m => !(m == "all" || m == "none") | none => false)).map
      (fun i => mk "ParsingException" "flag-modifier" file i.modifierPos)
  | .record _ _ flags fpos fields der _ =>
    let ord := ((match der with | some l => l.map Prod.fst | none => []) ++ e.defaultDeriving).contains "ord"
    unknownTargets e file flags fpos
    ++ ((der.getD []).filter (fun x => !(x.1 == "eq" || x.1 == "ord"))).map (fun x => mk "ParsingException" "deriving" file x.2)
    ++ (fields.filter (fun f => isFn f.ty)).map (fun f => mk "ParsingException" "fn-field" file (posOf f.ty))
    ++ (fields.filter (fun f => specPrim e ns f.ty == some .error)).map (fun f => mk "ParsingException" "field-error" file (posOf f.ty))
    ++ (fields.filter (fun f => specPrim e ns f.ty == some .interface)).map (fun f => mk "ParsingException" "field-interface" file (posOf f.ty))
    ++ (if ord then (fields.filter (fun f => specPrim e ns f.ty == some .collection)).map (fun f => mk "ParsingException" "ord-collection" file f.pos) else [])
  | .interface _ _ main flags fpos methods _ pos =>
    let cppOnly := targetsOrAll e.keys flags == ["cpp"]
    unknownTargets e file flags fpos
    ++ (if main && !cppOnly then [mk "ParsingException" "main-cpp" file pos] else [])
    ++ (methods.filter (fun m => m.isStatic && m.isConst)).map (fun m => mk "ParsingException" "static-const" file m.pos)
    ++ (if cppOnly then [] else (methods.filter (·.isStatic)).map (fun m => mk "ParsingException" "static-cpp" file m.pos))
  | _ => []

theorem declRules_eq (e : SpecEnv) (file : String) (ns : List String) (d : Decl) :
    declRules e file ns d =
      ((topTypes d).flatMap dataNodesT).flatMap (refRule e file ns)
      ++ (sigsOf d).flatMap (sigRules e file ns)
      ++ (fnFlagsOf d).flatMap (fun fp => unknownTargets e file fp.1 fp.2)
      ++ kindRules e file ns d := by
  cases d <;> rfl

theorem fnFlagsOf_eq (d : Decl) (h : ∀ n c sig pos, d ≠ .function n c sig pos) :
    fnFlagsOf d = ((topTypes d).flatMap fnNodesT).filterMap sigFlags := by
  have hl : ∀ (l : List FnSig),
      l.filterMap (fun | .mk (some f) p _ _ _ => some (f, p) | _ => none) = l.filterMap sigFlags := by
    intro l
    congr 1
  cases d with
  | function n c sig pos => exact absurd rfl (h n c sig pos)
  | enum n c items pos => exact hl _
  | flags n c items pos => exact hl _
  | record n c fl fp fields der pos => exact hl _
  | interface n c main fl fp methods props pos => exact hl _
  | error n c codes pos => exact hl _

theorem fnFlagsOf_function (n : String) (c : List String) (sig : FnSig) (pos : Pos) :
    fnFlagsOf (.function n c sig pos) = (sig :: fnNodesF sig).filterMap sigFlags := by
  show (sig :: fnNodesF sig).filterMap (fun | .mk (some f) p _ _ _ => some (f, p) | _ => none) = _
  congr 1

theorem mem_listRules_iff (se : SpecEnv) (file : String) (ns : List String) (L : List TypeRef) (x : Diag) :
    ((x ∈ (L.flatMap dataNodesT).flatMap (refRule se file ns)
        ∨ x ∈ ((L.flatMap fnNodesT).map sigOfFn).flatMap (sigRules se file ns))
      ∨ x ∈ ((L.flatMap fnNodesT).filterMap sigFlags).flatMap (fun fp => unknownTargets se file fp.1 fp.2))
    ↔ ∃ t ∈ L, x ∈ typeRules se file ns t := by
  simp only [typeRules, List.mem_append, List.mem_flatMap, List.mem_map, List.mem_filterMap]
  constructor
  · rintro ((⟨n, ⟨t, ht, hn⟩, hx⟩ | ⟨s, ⟨sig, ⟨t, ht, hs⟩, rfl⟩, hx⟩) | ⟨fp, ⟨sig, ⟨t, ht, hs⟩, hfp⟩, hx⟩)
    · exact ⟨t, ht, Or.inl (Or.inl ⟨n, hn, hx⟩)⟩
    · exact ⟨t, ht, Or.inl (Or.inr ⟨_, ⟨sig, hs, rfl⟩, hx⟩)⟩
    · exact ⟨t, ht, Or.inr ⟨fp, ⟨sig, hs, hfp⟩, hx⟩⟩
  · rintro ⟨t, ht, (⟨n, hn, hx⟩ | ⟨s, ⟨sig, hs, rfl⟩, hx⟩) | ⟨fp, ⟨sig, hs, hfp⟩, hx⟩⟩
    · exact Or.inl (Or.inl ⟨n, ⟨t, ht, hn⟩, hx⟩)
    · exact Or.inl (Or.inr ⟨_, ⟨sig, ⟨t, ht, hs⟩, rfl⟩, hx⟩)
    · exact Or.inr ⟨fp, ⟨sig, ⟨t, ht, hs⟩, hfp⟩, hx⟩

/-- the specification's rules of a declaration that is not a named function, regrouped: type rules of every written
    type, signature rules of the signatures `S` written directly (methods), kind rules -/
theorem mem_declRules_iff (se : SpecEnv) (file : String) (ns : List String) (d : Decl) (S : List SigU)
    (hs : sigsOf d = S ++ ((topTypes d).flatMap fnNodesT).map sigOfFn)
    (hf : ∀ n c sig pos, d ≠ .function n c sig pos) (x : Diag) :
    x ∈ declRules se file ns d ↔
      (∃ t ∈ topTypes d, x ∈ typeRules se file ns t) ∨ (∃ s ∈ S, x ∈ sigRules se file ns s) ∨ x ∈ kindRules se file ns d := by
  rw [declRules_eq, hs, fnFlagsOf_eq d hf, ← mem_listRules_iff]
  simp only [List.mem_append, List.flatMap_append]
  have hS : x ∈ S.flatMap (sigRules se file ns) ↔ ∃ s ∈ S, x ∈ sigRules se file ns s := List.mem_flatMap
  rw [hS]
  constructor
  · rintro (((h | h | h) | h) | h)
    · exact Or.inl (Or.inl (Or.inl h))
    · exact Or.inr (Or.inl h)
    · exact Or.inl (Or.inl (Or.inr h))
    · exact Or.inl (Or.inr h)
    · exact Or.inr (Or.inr h)
  · rintro (((h | h) | h) | h | h)
    · exact Or.inl (Or.inl (Or.inl h))
    · exact Or.inl (Or.inl (Or.inr (Or.inr h)))
    · exact Or.inl (Or.inr h)
    · exact Or.inl (Or.inl (Or.inr (Or.inl h)))
    · exact Or.inr h

/-- a named function: the specification's rules are the type rules of the function type -/
theorem declRules_function (se : SpecEnv) (file : String) (ns : List String) (n : String) (c : List String)
    (sig : FnSig) (pos : Pos) :
    declRules se file ns (.function n c sig pos) = typeRules se file ns (.fn sig pos) := by
  rw [declRules_eq, fnFlagsOf_function]
  have h1 : (topTypes (.function n c sig pos)).flatMap dataNodesT = dataNodesF sig := by
    cases sig with
    | mk fl fp params thr ret =>
      simp only [topTypes, dataNodesF, dataNodesPs_eq, dataNodesOT_eq, dataNodesOTs_eq, List.flatMap_append]
  rw [h1]
  simp only [typeRules, dataNodesT, fnNodesT, sigsOf, kindRules, List.map_cons, List.append_nil]

/-! ### visit-time and post-resolution rules of each kind, in the specification's words -/

theorem reported_diagsOnly (m : Resolved) (reg : Registry) (D : List Diag) (x : Diag) :
    Reported m reg { diags := D } x ↔ x ∈ D := by
  unfold Reported; simp

theorem reported_reg1 (m : Resolved) (reg : Registry) (e : Env) (ns : List String) (n : String) (p : Prim) (pos : Pos)
    (U : CheckUnit) (x : Diag) :
    Reported m reg (reg1 e ns n p pos U) x ↔ UnitViolation m { file := e.file, ns := ns, unit := U } x := by
  unfold Reported reg1; simp

theorem mem_flatMap_ite_iff {α β : Type} (l : List α) (p : α → Bool) (g : α → β) (x : β) :
    x ∈ l.flatMap (fun a => if p a then [g a] else []) ↔ x ∈ (l.filter p).map g := by
  simp only [List.mem_flatMap, List.mem_map, List.mem_filter]
  constructor
  · rintro ⟨a, ha, hx⟩
    cases hp : p a
    · simp [hp] at hx
    · simp [hp] at hx; exact ⟨a, ⟨ha, hp⟩, hx.symm⟩
  · rintro ⟨a, ⟨ha, hp⟩, rfl⟩
    exact ⟨a, ha, by simp [hp]⟩

/-- flag modifiers -/
theorem mem_flagModDiags_spec (e : Env) (items : List FlagItem) (x : Diag) :
    x ∈ flagModDiags e items ↔
      x ∈ (items.filter (fun i => match i.modifier with | some m => !(m == "all" || m == "none") | none => false)).map
        (fun i => mk "ParsingException" "flag-modifier" e.file i.modifierPos) := by
  rw [mem_flagModDiags_iff]
  simp only [List.mem_map, List.mem_filter, mk]
  constructor
  · rintro ⟨i, hi, mo, hm, h1, h2, rfl⟩
    exact ⟨i, ⟨hi, by simp [hm, h1, h2]⟩, rfl⟩
  · rintro ⟨i, ⟨hi, hp⟩, rfl⟩
    cases hm : i.modifier with
    | none => simp [hm] at hp
    | some mo =>
      simp only [hm, Bool.not_eq_true', Bool.or_eq_false_iff, beq_eq_false_iff_ne, ne_eq] at hp
      exact ⟨i, hi, mo, hm, hp.1, hp.2, rfl⟩

/-- unknown deriving names -/
theorem mem_derivingDiags_spec (e : Env) (der : Option (List (String × Pos))) (x : Diag) :
    x ∈ (match der with | some l => derivingDiags e l | none => []) ↔
      x ∈ ((der.getD []).filter (fun y => !(y.1 == "eq" || y.1 == "ord"))).map (fun y => mk "ParsingException" "deriving" e.file y.2) := by
  cases der with
  | none => simp
  | some l =>
    simp only [Option.getD_some]
    rw [mem_derivingDiags_iff]
    simp only [List.mem_map, List.mem_filter, mk]
    constructor
    · rintro ⟨y, hy, h1, h2, rfl⟩
      exact ⟨y, ⟨hy, by simp [h1, h2]⟩, rfl⟩
    · rintro ⟨y, ⟨hy, hp⟩, rfl⟩
      simp only [Bool.not_eq_true', Bool.or_eq_false_iff, beq_eq_false_iff_ne, ne_eq] at hp
      exact ⟨y, hy, hp.1, hp.2, rfl⟩

/-- `function` as a record field type -/
theorem mem_fnFieldDiags_spec (e : Env) (fields : List Field) (x : Diag) :
    x ∈ fnFieldDiags e fields ↔
      x ∈ (fields.filter (fun f => isFn f.ty)).map (fun f => mk "ParsingException" "fn-field" e.file (posOf f.ty)) :=
  mem_flatMap_ite_iff fields (fun f => isFn f.ty) (fun f => mk "ParsingException" "fn-field" e.file (posOf f.ty)) x

/-- `static` together with `const` -/
theorem mem_staticConstDiags_spec (e : Env) (ms : List Method) (x : Diag) :
    x ∈ staticConstDiags e ms ↔
      x ∈ (ms.filter (fun m => m.isStatic && m.isConst)).map (fun m => mk "ParsingException" "static-const" e.file m.pos) :=
  mem_flatMap_ite_iff ms (fun m => m.isStatic && m.isConst) (fun m => mk "ParsingException" "static-const" e.file m.pos) x

/-- `static` only on C++-only interfaces -/
theorem mem_staticDiags_spec (e : Env) (cppOnly : Bool) (ms : List Method) (x : Diag) :
    x ∈ staticDiags e cppOnly ms ↔
      x ∈ (if cppOnly then [] else (ms.filter (·.isStatic)).map (fun m => mk "ParsingException" "static-cpp" e.file m.pos)) := by
  rw [mem_staticDiags_iff]
  cases cppOnly
  · simp only [true_and, Bool.false_eq_true, if_false, List.mem_map, List.mem_filter, mk]
    constructor
    · rintro ⟨mth, hm, hs, rfl⟩; exact ⟨mth, ⟨hm, hs⟩, rfl⟩
    · rintro ⟨mth, ⟨hm, hs⟩, rfl⟩; exact ⟨mth, hm, hs, rfl⟩
  · simp

/-- the `ord` switch of a record: unknown deriving names do not matter -/
theorem derivingOf_contains_ord (e : Env) (der : Option (List (String × Pos))) :
    (derivingOf e der).contains "ord"
      = ((match der with | some l => l.map Prod.fst | none => []) ++ e.defaultDeriving).contains "ord" := by
  cases der with
  | none => rfl
  | some l =>
    rw [Bool.eq_iff_iff]
    simp only [derivingOf, List.contains_iff_mem, List.mem_append, List.mem_filter]
    constructor
    · rintro (⟨h, _⟩ | h)
      · exact Or.inl h
      · exact Or.inr h
    · rintro (h | h)
      · exact Or.inl ⟨h, by decide⟩
      · exact Or.inr h

/-- function / interface / error as record field type, collections under `ord` -/
theorem mem_checkFields_spec (se : SpecEnv) (m : Resolved) (file : String) (ns : List String) (ord : Bool)
    (fields : List Field) (hag : ∀ f ∈ fields, primOf m file f.ty = specPrim se ns f.ty) (x : Diag) :
    x ∈ checkFields m file ord (fields.map (fun f => (f.pos, f.ty))) ↔
      x ∈ (fields.filter (fun f => specPrim se ns f.ty == some .error)).map (fun f => mk "ParsingException" "field-error" file (posOf f.ty))
        ++ (fields.filter (fun f => specPrim se ns f.ty == some .interface)).map (fun f => mk "ParsingException" "field-interface" file (posOf f.ty))
        ++ (if ord then (fields.filter (fun f => specPrim se ns f.ty == some .collection)).map (fun f => mk "ParsingException" "ord-collection" file f.pos) else []) := by
  rw [mem_checkFields_iff]
  simp only [List.mem_append]
  constructor
  · rintro ⟨fp, hfp, h⟩
    obtain ⟨f, hf, rfl⟩ := List.mem_map.mp hfp
    have ha := hag f hf
    rcases h with ⟨hp, rfl⟩ | ⟨hp, rfl⟩ | ⟨ho, hp, rfl⟩
    · exact Or.inl (Or.inl (List.mem_map.mpr ⟨f, List.mem_filter.mpr ⟨hf, by simp [← ha, hp]⟩, rfl⟩))
    · exact Or.inl (Or.inr (List.mem_map.mpr ⟨f, List.mem_filter.mpr ⟨hf, by simp [← ha, hp]⟩, rfl⟩))
    · right
      rw [if_pos ho]
      exact List.mem_map.mpr ⟨f, List.mem_filter.mpr ⟨hf, by simp [← ha, hp]⟩, rfl⟩
  · rintro ((h | h) | h)
    · obtain ⟨f, hf, rfl⟩ := List.mem_map.mp h
      obtain ⟨hf, hp⟩ := List.mem_filter.mp hf
      exact ⟨(f.pos, f.ty), List.mem_map.mpr ⟨f, hf, rfl⟩, Or.inl ⟨by rw [hag f hf]; simpa using hp, rfl⟩⟩
    · obtain ⟨f, hf, rfl⟩ := List.mem_map.mp h
      obtain ⟨hf, hp⟩ := List.mem_filter.mp hf
      exact ⟨(f.pos, f.ty), List.mem_map.mpr ⟨f, hf, rfl⟩, Or.inr (Or.inl ⟨by rw [hag f hf]; simpa using hp, rfl⟩)⟩
    · cases ord with
      | false => simp at h
      | true =>
        simp only [if_true] at h
        obtain ⟨f, hf, rfl⟩ := List.mem_map.mp h
        obtain ⟨hf, hp⟩ := List.mem_filter.mp hf
        exact ⟨(f.pos, f.ty), List.mem_map.mpr ⟨f, hf, rfl⟩, Or.inr (Or.inr ⟨rfl, by rw [hag f hf]; simpa using hp, rfl⟩)⟩

/-! ### per declaration, kind by kind -/

theorem mem_declRules_iff_nil (se : SpecEnv) (file : String) (ns : List String) (d : Decl)
    (hs : sigsOf d = ((topTypes d).flatMap fnNodesT).map sigOfFn)
    (hf : ∀ n c sig pos, d ≠ .function n c sig pos) (x : Diag) :
    x ∈ declRules se file ns d ↔ (∃ t ∈ topTypes d, x ∈ typeRules se file ns t) ∨ x ∈ kindRules se file ns d := by
  rw [mem_declRules_iff se file ns d [] (by rw [hs]; rfl) hf]
  simp

theorem unitViolation_other (m : Resolved) (file : String) (ns : List String) (x : Diag) :
    ¬ UnitViolation m { file := file, ns := ns, unit := .other } x := fun h => h

section kinds
variable (e : Env) (reg : Registry) (m : Resolved) (ns : List String) (x : Diag)

/-- enumerations: nothing is ever reported, and the specification has no rule -/
theorem reported_enum (n : String) (c : List String) (items : List Item) (pos : Pos) :
    Reported m reg (walkDecl e ns (.enum n c items pos)) x
      ↔ x ∈ declRules (specEnvOf e reg) e.file ns (.enum n c items pos) := by
  rw [mem_declRules_iff_nil _ _ _ _ rfl (by intro _ _ _ _ h; cases h)]
  simp only [walkDecl]
  rw [reported_reg1]
  simp [unitViolation_other, topTypes, kindRules]

/-- flags: the modifier rule -/
theorem reported_flags (n : String) (c : List String) (items : List FlagItem) (pos : Pos) :
    Reported m reg (walkDecl e ns (.flags n c items pos)) x
      ↔ x ∈ declRules (specEnvOf e reg) e.file ns (.flags n c items pos) := by
  rw [mem_declRules_iff_nil _ _ _ _ rfl (by intro _ _ _ _ h; cases h)]
  simp only [walkDecl]
  rw [reported_append, reported_diagsOnly, reported_reg1, mem_flagModDiags_spec]
  simp [unitViolation_other, topTypes, kindRules]

/-- named functions: references, signatures and targets at any depth -/
theorem reported_function (n : String) (c : List String) (sig : FnSig) (pos : Pos)
    (hb : Binds m reg (walkDecl e ns (.function n c sig pos)).refs) :
    Reported m reg (walkDecl e ns (.function n c sig pos)) x
      ↔ x ∈ declRules (specEnvOf e reg) e.file ns (.function n c sig pos) := by
  rw [declRules_function]
  have hw : walkT e ns (.fn sig pos) = walkF e ns sig := by simp only [walkT]
  have h := reported_walkT e reg m ns (.fn sig pos) (by rw [hw]; exact hb) x
  rw [hw] at h
  exact h

/-- error domains: the parameter types of the codes (error-code parameter lists are not signatures) -/
theorem reported_error (n : String) (c : List String) (codes : List ErrCode) (pos : Pos)
    (hb : Binds m reg (walkDecl e ns (.error n c codes pos)).refs) :
    Reported m reg (walkDecl e ns (.error n c codes pos)) x
      ↔ x ∈ declRules (specEnvOf e reg) e.file ns (.error n c codes pos) := by
  have hc := covers_walkCodes e ns codes
  have hb' : Binds m reg (walkCodes e ns codes).refs := fun r hr => hb r (by
    simp only [walkDecl, Collected.refs_append, List.mem_append]; exact Or.inl hr)
  rw [mem_declRules_iff_nil _ _ _ _ rfl (by intro _ _ _ _ h; cases h)]
  simp only [walkDecl]
  rw [reported_append, reported_covers hc reg m hb', reported_reg1]
  simp [unitViolation_other, topTypes, kindRules]

/-- records: references at any depth, inline function types, targets, deriving names, function / interface / error
    as field type, collections under `ord` -/
theorem reported_record (n : String) (c : List String) (fl : List String) (fp : Pos) (fields : List Field)
    (der : Option (List (String × Pos))) (pos : Pos)
    (hb : Binds m reg (walkDecl e ns (.record n c fl fp fields der pos)).refs) :
    Reported m reg (walkDecl e ns (.record n c fl fp fields der pos)) x
      ↔ x ∈ declRules (specEnvOf e reg) e.file ns (.record n c fl fp fields der pos) := by
  have hc := covers_walkFields e ns fields
  have hb' : Binds m reg (walkFields e ns fields).refs := fun r hr => hb r (by
    simp only [walkDecl, Collected.refs_append, List.mem_append]; exact Or.inl (Or.inl hr))
  have hag : ∀ f ∈ fields, primOf m e.file f.ty = specPrim (specEnvOf e reg) ns f.ty := fun f hf =>
    hc.primOf_eq reg m hb' f.ty (List.mem_map.mpr ⟨f, hf, rfl⟩)
  rw [mem_declRules_iff_nil _ _ _ _ rfl (by intro _ _ _ _ h; cases h)]
  simp only [walkDecl]
  rw [reported_append, reported_append, reported_covers hc reg m hb', reported_diagsOnly, reported_reg1]
  have hU : UnitViolation m ⟨e.file, ns, .record (fields.map (fun f => (f.pos, f.ty))) ((derivingOf e der).contains "ord")⟩ x
      ↔ x ∈ checkFields m e.file ((derivingOf e der).contains "ord") (fields.map (fun f => (f.pos, f.ty))) := Iff.rfl
  rw [hU, derivingOf_contains_ord, mem_checkFields_spec (specEnvOf e reg) m e.file ns _ fields hag]
  simp only [List.mem_append, mem_fnFieldDiags_spec, targetDiags_eq_unknownTargets e reg, kindRules, topTypes]
  constructor
  · rintro (((h | h) | (h | h)) | ((h | h) | h))
    · exact Or.inl h
    · exact Or.inr (Or.inl (Or.inl (Or.inl (Or.inr h))))
    · exact Or.inr (Or.inl (Or.inl (Or.inl (Or.inl (Or.inr ((mem_derivingDiags_spec e der x).mp h))))))
    · exact Or.inr (Or.inl (Or.inl (Or.inl (Or.inl (Or.inl h)))))
    · exact Or.inr (Or.inl (Or.inl (Or.inr h)))
    · exact Or.inr (Or.inl (Or.inr h))
    · exact Or.inr (Or.inr h)
  · rintro (h | (((((h | h) | h) | h) | h) | h))
    · exact Or.inl (Or.inl (Or.inl h))
    · exact Or.inl (Or.inr (Or.inr h))
    · exact Or.inl (Or.inr (Or.inl ((mem_derivingDiags_spec e der x).mpr h)))
    · exact Or.inl (Or.inl (Or.inr h))
    · exact Or.inr (Or.inl (Or.inl h))
    · exact Or.inr (Or.inl (Or.inr h))
    · exact Or.inr (Or.inr h)

/-- the signature rules on the methods of an interface -/
theorem unitViolation_iface_iff (L : List TypeRef) (methods : List Method)
    (hL : ∀ t ∈ L, primOf m e.file t = specPrim (specEnvOf e reg) ns t)
    (hsub : ∀ mth ∈ methods, ∀ t ∈ methodTypes mth, t ∈ L) :
    UnitViolation m ⟨e.file, ns, .iface (methods.map sigOfMethod)⟩ x
      ↔ ∃ s ∈ methods.map sigOfMethod, x ∈ sigRules (specEnvOf e reg) e.file ns s := by
  have hag : ∀ mth ∈ methods, ∀ u ∈ sigTypes (sigOfMethod mth), primOf m e.file u = specPrim (specEnvOf e reg) ns u :=
    fun mth hm u hu => hL u (hsub mth hm u hu)
  have hU : UnitViolation m ⟨e.file, ns, .iface (methods.map sigOfMethod)⟩ x
      ↔ ∃ s ∈ methods.map sigOfMethod, SigViolation m e.file s x := Iff.rfl
  rw [hU]
  constructor
  · rintro ⟨s, hs, hx⟩
    obtain ⟨mth, hm, rfl⟩ := List.mem_map.mp hs
    exact ⟨_, hs, (mem_sigRules_iff_sigViolation _ m _ _ _ (hag mth hm) x).mpr hx⟩
  · rintro ⟨s, hs, hx⟩
    obtain ⟨mth, hm, rfl⟩ := List.mem_map.mp hs
    exact ⟨_, hs, (mem_sigRules_iff_sigViolation _ m _ _ _ (hag mth hm) x).mp hx⟩

/-- interfaces: references at any depth (methods and properties), signatures of methods and of inline function
    types, targets, `main` / `static` on C++-only interfaces, `static` with `const` -/
theorem reported_interface (n : String) (c : List String) (main : Bool) (fl : List String) (fp : Pos)
    (methods : List Method) (props : List Prop') (pos : Pos)
    (hb : Binds m reg (walkDecl e ns (.interface n c main fl fp methods props pos)).refs) :
    Reported m reg (walkDecl e ns (.interface n c main fl fp methods props pos)) x
      ↔ x ∈ declRules (specEnvOf e reg) e.file ns (.interface n c main fl fp methods props pos) := by
  have hc := (covers_walkMethods e ns methods).append (covers_walkProps e ns props)
  have hb' : Binds m reg (walkMethods e ns methods ++ walkProps e ns props).refs := fun r hr => hb r (by
    simp only [walkDecl, Collected.refs_append, List.mem_append] at hr ⊢; exact Or.inl (Or.inl hr))
  have hL : ∀ t ∈ methods.flatMap methodTypes ++ props.map (·.ty), primOf m e.file t = specPrim (specEnvOf e reg) ns t :=
    fun t ht => hc.primOf_eq reg m hb' t ht
  have hsub : ∀ mth ∈ methods, ∀ t ∈ methodTypes mth, t ∈ methods.flatMap methodTypes ++ props.map (·.ty) :=
    fun mth hm t ht => List.mem_append_left _ (List.mem_flatMap.mpr ⟨mth, hm, ht⟩)
  rw [mem_declRules_iff _ _ _ _ (methods.map sigOfMethod) rfl (by intro _ _ _ _ h; cases h)]
  simp only [walkDecl]
  rw [reported_append, reported_append, reported_covers hc reg m hb', reported_diagsOnly, reported_reg1,
    unitViolation_iface_iff e reg m ns x _ methods hL hsub]
  have htop : topTypes (.interface n c main fl fp methods props pos) = methods.flatMap methodTypes ++ props.map (·.ty) := rfl
  rw [htop]
  simp only [List.mem_append, List.append_nil, mem_staticConstDiags_spec, mem_staticDiags_spec,
    targetDiags_eq_unknownTargets e reg, kindRules]
  constructor
  · rintro (((h | h) | ((h | h) | h)) | h)
    · exact Or.inl h
    · exact Or.inr (Or.inr (Or.inl (Or.inr h)))
    · exact Or.inr (Or.inr (Or.inl (Or.inl (Or.inl h))))
    · exact Or.inr (Or.inr (Or.inl (Or.inl (Or.inr h))))
    · exact Or.inr (Or.inr (Or.inr h))
    · exact Or.inr (Or.inl h)
  · rintro (h | h | (((h | h) | h) | h))
    · exact Or.inl (Or.inl (Or.inl h))
    · exact Or.inr h
    · exact Or.inl (Or.inr (Or.inl (Or.inl h)))
    · exact Or.inl (Or.inr (Or.inl (Or.inr h)))
    · exact Or.inl (Or.inl (Or.inr h))
    · exact Or.inl (Or.inr (Or.inr h))

end kinds

/-- **Per declaration.** For a declaration `d` of any kind, visited in namespace `ns`, and a resolution map that binds
    every reference of the declaration to what lexical scoping denotes in `reg`: the diagnostics of the front end
    (visit-time, reference-level, post-resolution) are exactly the specification's `declRules` of `d`, with the same
    class, rule, file and position. -/
theorem reported_walkDecl (e : Env) (reg : Registry) (m : Resolved) (ns : List String) (d : Decl)
    (hb : Binds m reg (walkDecl e ns d).refs) (x : Diag) :
    Reported m reg (walkDecl e ns d) x ↔ x ∈ declRules (specEnvOf e reg) e.file ns d := by
  cases d with
  | enum n c items pos => exact reported_enum e reg m ns x n c items pos
  | flags n c items pos => exact reported_flags e reg m ns x n c items pos
  | record n c fl fp fields der pos => exact reported_record e reg m ns x n c fl fp fields der pos hb
  | interface n c main fl fp methods props pos => exact reported_interface e reg m ns x n c main fl fp methods props pos hb
  | function n c sig pos => exact reported_function e reg m ns x n c sig pos hb
  | error n c codes pos => exact reported_error e reg m ns x n c codes pos hb

/-- `reported_walkDecl` with everything spelled out -/
theorem walkDecl_eq_declRules (env : Env) (reg : Registry) (m : Resolved) (ns : List String) (d : Decl)
    (hb : ∀ r ∈ (walkDecl env ns d).refs, m.get r.file r.pos = lexicalLookup reg r.ns r.name) :
    ∀ x, (x ∈ (walkDecl env ns d).diags ∨ (∃ r ∈ (walkDecl env ns d).refs, x ∈ refDiags reg r)
            ∨ ∃ u ∈ (walkDecl env ns d).units, UnitViolation m u x)
      ↔ x ∈ declRules { keys := env.keys, defaultDeriving := env.defaultDeriving, reg := reg } env.file ns d :=
  fun x => reported_walkDecl env reg m ns d hb x

/-! ### per file: namespaces at any depth -/

mutual
theorem reported_walkContent (e : Env) (reg : Registry) (m : Resolved) (ns : List String) (c : Content)
    (hb : Binds m reg (walkContent e ns c).refs) (x : Diag) :
    Reported m reg (walkContent e ns c) x
      ↔ ∃ p ∈ declsOfContent ns c, x ∈ declRules (specEnvOf e reg) e.file p.1 p.2 := by
  cases c with
  | decl d =>
    simp only [walkContent] at hb ⊢
    simp only [declsOfContent, List.mem_singleton, exists_eq_left]
    exact reported_walkDecl e reg m ns d hb x
  | ns name cm children pos =>
    simp only [walkContent] at hb ⊢
    simp only [declsOfContent]
    exact reported_walkContents e reg m _ children hb x
theorem reported_walkContents (e : Env) (reg : Registry) (m : Resolved) (ns : List String) (cs : List Content)
    (hb : Binds m reg (walkContents e ns cs).refs) (x : Diag) :
    Reported m reg (walkContents e ns cs) x
      ↔ ∃ p ∈ declsOfContents ns cs, x ∈ declRules (specEnvOf e reg) e.file p.1 p.2 := by
  cases cs with
  | nil =>
    simp only [walkContents, declsOfContents, List.not_mem_nil, false_and, exists_false, iff_false]
    exact reported_empty m reg x
  | cons c cs =>
    simp only [walkContents, Collected.refs_append] at hb
    simp only [walkContents, declsOfContents, List.mem_append]
    rw [reported_append, reported_walkContent e reg m ns c hb.left x, reported_walkContents e reg m ns cs hb.right x]
    constructor
    · rintro (⟨p, hp, h⟩ | ⟨p, hp, h⟩)
      · exact ⟨p, Or.inl hp, h⟩
      · exact ⟨p, Or.inr hp, h⟩
    · rintro ⟨p, hp | hp, h⟩
      · exact Or.inl ⟨p, hp, h⟩
      · exact Or.inr ⟨p, hp, h⟩
end

/-! ### the registry of the specification is the registry the file is finished with -/

theorem regDefs_walkDecl (e : Env) (ns : List String) (d : Decl) :
    (walkDecl e ns d).regs.map siteDef = [{ key := declKey ns d, prim := declPrim d, arity := 0 }] := by
  cases d with
  | enum n c items pos => simp [walkDecl, reg1, declKey, declPrim, siteDef]
  | flags n c items pos => simp [walkDecl, reg1, declKey, declPrim, siteDef]
  | record n c fl fp fields der pos => simp [walkDecl, reg1, declKey, declPrim, siteDef, regs_walkFields]
  | interface n c main fl fp methods props pos =>
    simp [walkDecl, reg1, declKey, declPrim, siteDef, regs_walkMethods, regs_walkProps]
  | function n c sig pos => simp [walkDecl, declKey, declPrim, siteDef, regs_walkF]
  | error n c codes pos => simp [walkDecl, reg1, declKey, declPrim, siteDef, regs_walkCodes]

mutual
theorem regDefs_walkContent (e : Env) (ns : List String) (c : Content) :
    (walkContent e ns c).regs.map siteDef
      = (declsOfContent ns c).map (fun p => { key := declKey p.1 p.2, prim := declPrim p.2, arity := 0 }) := by
  cases c with
  | decl d => simp [walkContent, declsOfContent, regDefs_walkDecl]
  | ns name cm children pos => simp only [walkContent, declsOfContent]; exact regDefs_walkContents e _ children
theorem regDefs_walkContents (e : Env) (ns : List String) (cs : List Content) :
    (walkContents e ns cs).regs.map siteDef
      = (declsOfContents ns cs).map (fun p => { key := declKey p.1 p.2, prim := declPrim p.2, arity := 0 }) := by
  cases cs with
  | nil => rfl
  | cons c cs =>
    simp only [walkContents, declsOfContents, Collected.regs_append', List.map_append]
    rw [regDefs_walkContent e ns c, regDefs_walkContents e ns cs]
end

theorem progDecls_single (file : String) (contents : List Content) :
    progDecls [{ file := file, contents := contents }]
      = (declsOfContents [] contents).map (fun p => (file, p.1, p.2)) := by
  simp [progDecls]

/-- registering a file's declarations on top of `pre` gives the registry the specification reads the
    one-file program against: same definitions, same order -/
theorem registerAll_eq_progRegistry (e : Env) (pre reg : Registry) (contents : List Content)
    (h : registerAll pre (walkContents e [] contents).regs = .ok reg) :
    reg = progRegistry pre [{ file := e.file, contents := contents }] := by
  rw [registerAll_ok_eq pre reg _ h, regDefs_walkContents]
  simp [progRegistry, progDecls_single, List.map_map, Function.comp_def]

theorem mem_violations_single (keys dd : List String) (pre : Registry) (file : String) (contents : List Content) (x : Diag) :
    x ∈ violations keys dd pre [{ file := file, contents := contents }]
      ↔ ∃ p ∈ declsOfContents [] contents,
          x ∈ declRules { keys := keys, defaultDeriving := dd, reg := progRegistry pre [{ file := file, contents := contents }] } file p.1 p.2 := by
  unfold violations
  rw [progDecls_single]
  simp only [List.mem_flatMap, List.mem_map]
  constructor
  · rintro ⟨q, ⟨p, hp, rfl⟩, hx⟩
    exact ⟨p, hp, hx⟩
  · rintro ⟨p, hp, hx⟩
    exact ⟨_, ⟨p, hp, rfl⟩, hx⟩

/-! ### end to end -/

/-- **What `Parser.parse()` reports for a file's own content is exactly the specification's `violations`.**
    With the file's declarations registered on top of `st.reg` (no duplicate), references at pairwise distinct
    positions and nothing bound yet, `finishFile`
    * succeeds,
    * ends with the registry `progRegistry st.reg [file]` the specification reads the one-file program against,
    * binds every reference to what lexical scoping denotes in that registry, and
    * reports a diagnostic (class, rule, file, position) iff it is a violation of the specification. -/
theorem finishFile_eq_violations (cfg : Cfg) (file : APath) (contents : List Content) (st : PState) (reg : Registry)
    (hres : st.resolved = [])
    (hreg : registerAll st.reg (walkContents { file := showPath file, keys := cfg.keys, defaultDeriving := cfg.defaultDeriving } [] contents).regs = .ok reg)
    (hnd : ((walkContents { file := showPath file, keys := cfg.keys, defaultDeriving := cfg.defaultDeriving } [] contents).refs.map
              (fun r => (r.file, r.pos))).Nodup) :
    let c := walkContents { file := showPath file, keys := cfg.keys, defaultDeriving := cfg.defaultDeriving } [] contents
    ∃ m ds, finishFile cfg file contents {} st
        = .ok ({ units := c.units, refs := c.refs, errors := ds }, { st with reg := reg, resolved := m })
      ∧ reg = progRegistry st.reg [{ file := showPath file, contents := contents }]
      ∧ (∀ r ∈ c.refs, m.get r.file r.pos = lexicalLookup reg r.ns r.name)
      ∧ ∀ x, x ∈ ds ↔ x ∈ violations cfg.keys cfg.defaultDeriving st.reg [{ file := showPath file, contents := contents }] := by
  intro c
  obtain ⟨m, ds, hfin, hbind, hds⟩ := finishFile_spec cfg file contents st reg hres hreg hnd
  have hregeq := registerAll_eq_progRegistry
    { file := showPath file, keys := cfg.keys, defaultDeriving := cfg.defaultDeriving } st.reg reg contents hreg
  refine ⟨m, ds, hfin, hregeq, hbind, fun x => ?_⟩
  rw [hds x, mem_violations_single]
  have h := reported_walkContents { file := showPath file, keys := cfg.keys, defaultDeriving := cfg.defaultDeriving }
    reg m [] contents hbind x
  rw [← hregeq]
  exact h

/-- `finishFile_eq_violations` with the registration hypothesis replaced by what it means (`file_registers_iff`):
    the qualified names of the file's declarations are pairwise distinct and not yet taken -/
theorem finishFile_eq_violations_of_fresh (cfg : Cfg) (file : APath) (contents : List Content) (st : PState)
    (hres : st.resolved = [])
    (hkeys : ((declsOfContents [] contents).map (fun x => declKey x.1 x.2)).Nodup)
    (hfresh : ∀ x ∈ declsOfContents [] contents, declKey x.1 x.2 ∉ st.reg.map (·.key))
    (hnd : ((walkContents { file := showPath file, keys := cfg.keys, defaultDeriving := cfg.defaultDeriving } [] contents).refs.map
              (fun r => (r.file, r.pos))).Nodup) :
    let c := walkContents { file := showPath file, keys := cfg.keys, defaultDeriving := cfg.defaultDeriving } [] contents
    let reg := progRegistry st.reg [{ file := showPath file, contents := contents }]
    ∃ m ds, finishFile cfg file contents {} st
        = .ok ({ units := c.units, refs := c.refs, errors := ds }, { st with reg := reg, resolved := m })
      ∧ (∀ r ∈ c.refs, m.get r.file r.pos = lexicalLookup reg r.ns r.name)
      ∧ ∀ x, x ∈ ds ↔ x ∈ violations cfg.keys cfg.defaultDeriving st.reg [{ file := showPath file, contents := contents }] := by
  intro c reg
  obtain ⟨reg', hreg⟩ := (file_registers_iff
    { file := showPath file, keys := cfg.keys, defaultDeriving := cfg.defaultDeriving } st.reg contents).mpr ⟨hkeys, hfresh⟩
  obtain ⟨m, ds, hfin, hregeq, hbind, hds⟩ := finishFile_eq_violations cfg file contents st reg' hres hreg hnd
  have hr : reg' = reg := hregeq
  subst hr
  exact ⟨m, ds, hfin, hbind, hds⟩

/-- **Accepted iff no violation**: under the hypotheses of `finishFile_eq_violations`, the file's own content is
    accepted — `finishFile` returns with an empty diagnostics list — iff the specification finds no violation. -/
theorem accepted_iff_no_violation (cfg : Cfg) (file : APath) (contents : List Content) (st : PState) (reg : Registry)
    (hres : st.resolved = [])
    (hreg : registerAll st.reg (walkContents { file := showPath file, keys := cfg.keys, defaultDeriving := cfg.defaultDeriving } [] contents).regs = .ok reg)
    (hnd : ((walkContents { file := showPath file, keys := cfg.keys, defaultDeriving := cfg.defaultDeriving } [] contents).refs.map
              (fun r => (r.file, r.pos))).Nodup) :
    (∃ r st', finishFile cfg file contents {} st = .ok (r, st') ∧ r.errors = [])
      ↔ violations cfg.keys cfg.defaultDeriving st.reg [{ file := showPath file, contents := contents }] = [] := by
  obtain ⟨m, ds, hfin, _, _, hds⟩ := finishFile_eq_violations cfg file contents st reg hres hreg hnd
  constructor
  · rintro ⟨r, st', hr, he⟩
    rw [hfin] at hr
    cases hr
    simp only at he
    subst he
    apply List.eq_nil_iff_forall_not_mem.mpr
    intro x hx
    exact absurd ((hds x).mpr hx) (by simp)
  · intro hv
    refine ⟨_, _, hfin, ?_⟩
    apply List.eq_nil_iff_forall_not_mem.mpr
    intro x hx
    have := (hds x).mp hx
    rw [hv] at this
    exact absurd this (by simp)

/-! ### non-vacuity -/

namespace C05SpecExamples

def p (l c : Nat) : Pos := ⟨l, c, l, c + 1⟩
def builtins : Registry := [⟨"i32", .primitive, 0⟩, ⟨"list", .collection, 1⟩]
def path : APath := ["w", "x.pydjinni"]
def st0 : PState := { reg := builtins }
def cfg1 : Cfg := { cwd := [], includeDirs := [], keys := ["cpp", "java"], defaultDeriving := [] }
def cfg2 : Cfg := { cwd := [], includeDirs := [], keys := ["cpp", "java"], defaultDeriving := ["ord"] }

def contents1 : List Content :=
  [ .decl (.flags "fl" [] [⟨"a", some "bogus", p 1 4, [], p 1 0⟩, ⟨"b", some "all", p 2 4, [], p 2 0⟩] (p 1 0)),
    .decl (.error "err" []
      [⟨"c", [.mk "x" (.data "nope" [] false (p 4 8)) (p 4 6),
              .mk "y" (.data "i32" [.data "i32" [] false (p 4 20)] false (p 4 16)) (p 4 14)], [], p 4 2⟩] (p 3 0)),
    .decl (.record "rec" [] [] (p 6 0)
      [⟨"f", .data "err" [] false (p 7 5), [], p 7 2⟩,
       ⟨"g", .data "list" [.data "i32" [] false (p 8 10)] false (p 8 5), [], p 8 2⟩]
      (some [("ord", p 9 12)]) (p 6 0)) ]

def inner2 : List Content :=
      [ .decl (.interface "ifc" [] true ["+java"] (p 3 10)
          [ ⟨"m1", true, true, false, [.mk "x" (.data "err" [] false (p 4 10)) (p 4 8)],
              some [.data "i32" [] false (p 4 30)], some (.data ".err" [] false (p 4 40)), [], p 4 2⟩ ]
          [ ⟨"pr", .fn (.mk (some ["+zz"]) (p 5 20) [.mk "q" (.data "err" [] false (p 5 30)) (p 5 28)] none none) (p 5 10), [], p 5 2⟩ ]
          (p 3 0)),
        .decl (.function "cb" []
          (.mk (some ["+qq"]) (p 6 5) [] (some [.data "ifc" [] false (p 6 30)])
            (some (.data "list" [.fn (.mk none (p 6 50) [] none (some (.data "err" [] false (p 6 60)))) (p 6 45)] false (p 6 40))))
          (p 6 0)),
        .decl (.record "rec" [] ["+yy"] (p 7 8)
          [⟨"f", .fn (.mk none (p 8 6) [] none none) (p 8 5), [], p 8 2⟩,
           ⟨"g", .data "ifc" [] false (p 9 5), [], p 9 2⟩,
           ⟨"h", .data "list" [] false (p 10 5), [], p 10 2⟩]
          (some [("hash", p 11 12)]) (p 7 0)) ]

def contents2 : List Content := [ .decl (.error "err" [] [] (p 1 0)), .ns "a" [] inner2 (p 2 0) ]

/-- the diagnostics list `finishFile` returns (`none`: it aborted) -/
def errorsOf (r : Except Abort (PResult × PState)) : Option (List Diag) :=
  match r with | .ok (r, _) => some r.errors | .error _ => none


def d1 (r : String) (l c : Nat) : Diag := mk "ParsingException" r "/w/x.pydjinni" (p l c)

def expected1 : List Diag :=
  [ d1 "flag-modifier" 1 4, mk "TypeResolvingException" "unknown-type" "/w/x.pydjinni" (p 4 8), d1 "no-generics" 4 16,
    d1 "field-error" 7 5, d1 "ord-collection" 8 2 ]

/-- **Both sides are the same non-empty list** (five different rules: a visit-time rule, two reference rules, two
    post-resolution rules), computed by the kernel from the two definitions independently. -/
example :
    errorsOf (finishFile cfg1 path contents1 {} st0) = some expected1
    ∧ violations cfg1.keys cfg1.defaultDeriving st0.reg [{ file := showPath path, contents := contents1 }] = expected1 := by
  constructor <;> decide +kernel

/-- the hypotheses of `finishFile_eq_violations_of_fresh` hold for this file -/
example := finishFile_eq_violations_of_fresh cfg1 path contents1 st0 rfl (by decide +kernel) (by decide +kernel) (by decide +kernel)

open C11ClosedExamples in
theorem walk2 (e : Env) : walkContents e [] contents2
    = walkDecl e [] (.error "err" [] [] (p 1 0)) ++ (walkContents e ["a"] inner2 ++ {}) := by
  simp only [contents2, walkContents, walkContent, split_a, List.nil_append]

open C11ClosedExamples in
theorem decls2 : declsOfContents [] contents2 = ([], .error "err" [] [] (p 1 0)) :: declsOfContents ["a"] inner2 := by
  simp only [contents2, declsOfContents, declsOfContent, split_a, List.nil_append, List.append_nil, List.singleton_append]

def expected2Sem : List Diag :=
  [ d1 "static-const" 4 2, d1 "unknown-target" 5 20, d1 "main-cpp" 3 0, d1 "static-cpp" 4 2, d1 "unknown-target" 6 5,
    d1 "fn-field" 8 5, d1 "deriving" 11 12, d1 "unknown-target" 7 8, d1 "param-error" 5 30, d1 "return-error" 4 40,
    d1 "throws-non-error" 4 30, d1 "param-error" 4 10, d1 "return-error" 6 60, d1 "throws-non-error" 6 30,
    d1 "field-interface" 9 5, d1 "ord-collection" 10 2 ]

def expected2Spec : List Diag :=
  [ d1 "param-error" 4 10, d1 "return-error" 4 40, d1 "throws-non-error" 4 30, d1 "param-error" 5 30,
    d1 "unknown-target" 5 20, d1 "main-cpp" 3 0, d1 "static-const" 4 2, d1 "static-cpp" 4 2, d1 "throws-non-error" 6 30,
    d1 "return-error" 6 60, d1 "unknown-target" 6 5, d1 "unknown-target" 7 8, d1 "deriving" 11 12, d1 "fn-field" 8 5,
    d1 "field-interface" 9 5, d1 "ord-collection" 10 2 ]

theorem sem2 : errorsOf (finishFile cfg2 path contents2 {} st0) = some expected2Sem := by
  unfold finishFile
  simp only [walk2]
  decide +kernel

theorem spec2 : violations cfg2.keys cfg2.defaultDeriving st0.reg [{ file := showPath path, contents := contents2 }] = expected2Spec := by
  unfold violations progRegistry
  rw [progDecls_single, decls2]
  decide +kernel

/-- sixteen diagnostics of twelve different rules, through a namespace, a property of inline function type, an inline
    function inside a generic argument of a named function's return type, and the default deriving: the same
    diagnostics on both sides (the order differs: the visitor reports by phase, the specification by declaration) -/
example : expected2Sem.Perm expected2Spec := by decide +kernel

/-- the hypotheses of `finishFile_eq_violations_of_fresh` hold for this file, too -/
example := finishFile_eq_violations_of_fresh cfg2 path contents2 st0 rfl
  (by rw [decls2]; decide +kernel) (by rw [decls2]; decide +kernel) (by simp only [walk2]; decide +kernel)
end C05SpecExamples

end Pydjinni.Front
