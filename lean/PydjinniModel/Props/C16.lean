import PydjinniModel.Front.Imports
import PydjinniModel.Props.C06
/-!
# C16 — imports: each file is loaded once, cycles are diagnosed, search order is fixed

* `candidates_order`, `findFile_first`      search order: literal path, directory of the importing file, include directories;
                                            the first candidate that is an existing regular file wins
* `doLoads_cycle_reported`                  a directive that resolves to a file currently being parsed is reported as a circular import
                                            (for every cycle length: the stack holds the whole chain of importers)
* `doLoads_once`                            a directive that resolves to a file already imported contributes nothing
* `parseOne_imported_mono`, `parseOne_imported_nodup`   the imported set only grows and never holds a file twice
* `parseOne_fuel_sufficient`, `front_terminates`        **termination**: the recursion depth is bounded by the number of files not yet
                                            imported; with fuel `|files| + 2` the import recursion never runs out of fuel
-/
namespace Pydjinni.Front

theorem candidates_order (cfg : Cfg) (sp : APath) (lit : String) :
    (candidates cfg sp lit).map (·.path) =
      joinPath cfg.cwd (parsePath lit) :: joinPath sp.dropLast (parsePath lit)
        :: cfg.includeDirs.map (fun d => joinPath (joinPath cfg.cwd d) (parsePath lit)) := by
  simp [candidates]

/-- The first candidate, in search order, that is an existing regular file wins. -/
theorem findFile_first (cfg : Cfg) (fs : FS) (sp : APath) (lit : String) (c : Cand) (q : APath)
    (h : findFile cfg fs sp lit = some (c, q)) :
    ∃ pre post, candidates cfg sp lit = pre ++ c :: post
      ∧ (∀ c' ∈ pre, fs.regularFile c'.path = none) ∧ fs.regularFile c.path = some q := by
  unfold findFile at h
  rw [List.findSome?_eq_some_iff] at h
  obtain ⟨pre, x, post, hsplit, hx, hpre⟩ := h
  cases hq : fs.regularFile x.path with
  | none => simp [hq] at hx
  | some q' =>
    simp [hq] at hx
    obtain ⟨rfl, rfl⟩ := hx
    exact ⟨pre, post, hsplit, fun c' hc' => by simpa using hpre c' hc', hq⟩

theorem findFile_none_iff (cfg : Cfg) (fs : FS) (sp : APath) (lit : String) :
    findFile cfg fs sp lit = none ↔ ∀ c ∈ candidates cfg sp lit, fs.regularFile c.path = none := by
  unfold findFile
  simp [List.findSome?_eq_none_iff]

theorem regularFile_isFile (fs : FS) (p q : APath) (h : fs.regularFile p = some q) : fs.isFile q = true := by
  unfold FS.regularFile at h
  split at h
  · split at h
    · rename_i hq; cases h; exact hq
    · cases h
  · cases h

theorem isFile_mem (fs : FS) (q : APath) (h : fs.isFile q = true) : q ∈ fs.files.map (·.1) := by
  unfold FS.isFile FS.get at h
  cases hf : fs.files.find? (fun f => f.1 == q) with
  | none => simp [hf] at h
  | some x =>
    have hm := List.mem_of_find?_eq_some hf
    have hp := List.find?_some hf
    simp at hp
    exact List.mem_map.mpr ⟨x, hm, hp⟩

/-- A directive that resolves to a file on the stack of files being parsed is diagnosed as a
    circular import at the directive, and the file is not parsed again. -/
theorem doLoads_cycle_reported (cfg : Cfg) (fs : FS) (rec : ParseFn) (stack : List APath) (file spelled : APath)
    (l : LoadAt) (ls : List LoadAt) (res : PResult) (st : PState) (c : Cand) (p : APath)
    (hfind : findFile cfg fs spelled (filepathText l.lit) = some (c, p))
    (hself : (c.spelledAbsolute && c.path == spelled) = false) (himp : l.isImport = true) (hstack : stack.contains p = true) :
    doLoads cfg fs rec stack file spelled (l :: ls) res st =
      doLoads cfg fs rec stack file spelled ls
        { res with errors := res.errors ++ [{ cls := "ParsingException", rule := "circular-import", file := showPath file, pos := l.pos }] } st := by
  have hs : p ∈ stack := by simpa using hstack
  simp [doLoads, hfind, hself, himp, hs]

/-- A directive that resolves to a file that was already imported (along any other path)
    contributes nothing: no second parse, no declarations, no diagnostics. -/
theorem doLoads_once (cfg : Cfg) (fs : FS) (rec : ParseFn) (stack : List APath) (file spelled : APath)
    (l : LoadAt) (ls : List LoadAt) (res : PResult) (st : PState) (c : Cand) (p : APath)
    (hfind : findFile cfg fs spelled (filepathText l.lit) = some (c, p))
    (hself : (c.spelledAbsolute && c.path == spelled) = false) (himp : l.isImport = true)
    (hstack : stack.contains p = false) (hdone : st.imported.contains p = true) :
    doLoads cfg fs rec stack file spelled (l :: ls) res st = doLoads cfg fs rec stack file spelled ls res st := by
  have hs : ¬ p ∈ stack := by simpa using hstack
  have hd : p ∈ st.imported := by simpa using hdone
  simp [doLoads, hfind, hself, himp, hs, hd]

/-- A directive whose candidates all miss is reported as file-not-found at the path token. -/
theorem doLoads_missing_reported (cfg : Cfg) (fs : FS) (rec : ParseFn) (stack : List APath) (file spelled : APath)
    (l : LoadAt) (ls : List LoadAt) (res : PResult) (st : PState)
    (hfind : findFile cfg fs spelled (filepathText l.lit) = none) :
    doLoads cfg fs rec stack file spelled (l :: ls) res st =
      doLoads cfg fs rec stack file spelled ls
        { res with errors := res.errors ++ [{ cls := "FileNotFoundException", rule := "missing-file", file := showPath file, pos := l.pathPos }] } st := by
  simp [doLoads, hfind]

/-! ### the imported set -/

def ImpInv (st st' : PState) : Prop :=
  (∀ p ∈ st.imported, p ∈ st'.imported) ∧ (st.imported.Nodup → st'.imported.Nodup)

theorem ImpInv.refl (st : PState) : ImpInv st st := ⟨fun _ h => h, id⟩
theorem ImpInv.trans {a b c : PState} (h1 : ImpInv a b) (h2 : ImpInv b c) : ImpInv a c :=
  ⟨fun p hp => h2.1 p (h1.1 p hp), fun h => h2.2 (h1.2 h)⟩

theorem finishFile_imported (cfg : Cfg) (file : APath) (contents : List Content) (res : PResult) (st : PState)
    (r : PResult) (st' : PState) (h : finishFile cfg file contents res st = .ok (r, st')) : st'.imported = st.imported := by
  unfold finishFile at h
  simp only at h
  split at h
  · cases h
  · split at h
    · cases h
    · split at h
      · cases h
      · cases h; rfl

theorem doLoads_imported (cfg : Cfg) (fs : FS) (rec : ParseFn)
    (hrec : ∀ s f sp st r st', rec s f sp st = .ok (r, st') → ImpInv st st')
    (stack : List APath) (file spelled : APath) (loads : List LoadAt) (res : PResult) (st : PState)
    (r : PResult) (st' : PState) (h : doLoads cfg fs rec stack file spelled loads res st = .ok (r, st')) : ImpInv st st' := by
  induction loads generalizing res st with
  | nil => simp [doLoads] at h; rw [← h.2]; exact ImpInv.refl _
  | cons l ls ih =>
    simp only [doLoads] at h
    split at h
    · exact ih _ _ h
    · split at h
      · exact ih _ _ h
      · split at h
        · split at h
          · exact ih _ _ h
          · split at h
            · exact ih _ _ h
            · rename_i c p _ _ hnot
              split at h
              · cases h
              · rename_i r1 st1 hr
                have h1 := hrec _ _ _ _ _ _ hr
                have h2 := ih _ _ h
                refine ImpInv.trans ⟨?_, ?_⟩ (ImpInv.trans h1 h2)
                · intro q hq; simp [hq]
                · intro hnd
                  simp only
                  rw [List.nodup_append]
                  refine ⟨hnd, by simp, ?_⟩
                  intro a ha b hb
                  simp at hb
                  subst hb
                  intro hab; subst hab
                  simp [ha] at hnot
        · split at h
          · split at h
            · cases h
            · have h3 := ih _ _ h
              exact h3
          · exact ih _ _ h
          · exact ih _ _ h

/-- The imported set only grows, and a file is never entered twice. -/
theorem parseOne_imported (cfg : Cfg) (fs : FS) (fuel : Nat) (stack : List APath) (file spelled : APath) (st : PState)
    (r : PResult) (st' : PState) (h : parseOne cfg fs fuel stack file spelled st = .ok (r, st')) : ImpInv st st' := by
  induction fuel generalizing stack file spelled st r st' with
  | zero => simp [parseOne] at h
  | succ n ih =>
    simp only [parseOne] at h
    split at h
    · split at h
      · cases h
      · split at h
        · cases h
        · split at h
          · cases h
          · rename_i res1 st1 hd
            have h1 := doLoads_imported cfg fs (parseOne cfg fs n) (fun s f sp st r st' hh => ih s f sp st r st' hh) _ _ _ _ _ _ _ _ hd
            have h2 := finishFile_imported _ _ _ _ _ _ _ h
            exact ⟨fun p hp => by rw [h2]; exact h1.1 p hp, fun hn => by rw [h2]; exact h1.2 hn⟩
    · simp only [Except.ok.injEq, Prod.mk.injEq] at h
      rw [← h.2]; exact ImpInv.refl _
    · cases h

theorem parseOne_imported_mono (cfg : Cfg) (fs : FS) (fuel : Nat) (stack : List APath) (file spelled : APath) (st : PState)
    (r : PResult) (st' : PState) (h : parseOne cfg fs fuel stack file spelled st = .ok (r, st')) :
    ∀ p ∈ st.imported, p ∈ st'.imported := (parseOne_imported cfg fs fuel stack file spelled st r st' h).1

/-- **Each file once**: the set of imported files never holds a file twice. -/
theorem parseOne_imported_nodup (cfg : Cfg) (fs : FS) (fuel : Nat) (stack : List APath) (file spelled : APath) (st : PState)
    (r : PResult) (st' : PState) (h : parseOne cfg fs fuel stack file spelled st = .ok (r, st')) (hn : st.imported.Nodup) :
    st'.imported.Nodup := (parseOne_imported cfg fs fuel stack file spelled st r st' h).2 hn

/-! ### termination -/

/-- number of files of the file system not yet imported -/
def remaining (fs : FS) (imp : List APath) : Nat := ((fs.files.map (·.1)).filter (fun p => !imp.contains p)).length

theorem filter_length_mono {α : Type} (l : List α) (p q : α → Bool) (h : ∀ a, p a = true → q a = true) :
    (l.filter p).length ≤ (l.filter q).length := by
  induction l with
  | nil => simp
  | cons a l ih =>
    simp only [List.filter_cons]
    cases hp : p a <;> cases hq : q a
    · simpa using ih
    · simp only [Bool.false_eq_true, if_false, if_true, List.length_cons]; omega
    · have := h a hp; simp [hq] at this
    · simp only [if_true, List.length_cons]; omega

theorem remaining_mono (fs : FS) (a b : List APath) (h : ∀ p ∈ a, p ∈ b) : remaining fs b ≤ remaining fs a := by
  unfold remaining
  apply filter_length_mono
  intro p hp
  simp only [Bool.not_eq_true', List.contains_eq_mem, decide_eq_false_iff_not] at hp ⊢
  exact fun hm => hp (h p hm)

theorem remaining_add (fs : FS) (imp : List APath) (p : APath) (hp : p ∈ fs.files.map (·.1)) (hn : imp.contains p = false) :
    remaining fs (imp ++ [p]) < remaining fs imp := by
  unfold remaining
  generalize fs.files.map (·.1) = l at hp
  induction l with
  | nil => cases hp
  | cons x xs ih =>
    have hle : (xs.filter (fun q => !(imp ++ [p]).contains q)).length ≤ (xs.filter (fun q => !imp.contains q)).length := by
      apply filter_length_mono
      intro q hq
      simp only [Bool.not_eq_true', List.contains_eq_mem, decide_eq_false_iff_not, List.mem_append, List.mem_singleton, not_or] at hq ⊢
      exact hq.1
    by_cases hx : x = p
    · subst hx
      have h1 : (!(imp ++ [x]).contains x) = false := by simp
      have h2 : (!imp.contains x) = true := by rw [hn]; rfl
      rw [List.filter_cons, List.filter_cons, h1, h2]
      simp only [Bool.false_eq_true, if_false, if_true, List.length_cons]
      omega
    · have hp' : p ∈ xs := by
        rcases List.mem_cons.mp hp with h | h
        · exact absurd h.symm hx
        · exact h
      have ih' := ih hp'
      have hc : (!(imp ++ [p]).contains x) = (!imp.contains x) := by
        simp [hx]
      rw [List.filter_cons, List.filter_cons, hc]
      split
      · simp only [List.length_cons]; omega
      · exact ih'

theorem doLoads_fuel (cfg : Cfg) (fs : FS) (rec : ParseFn) (n : Nat)
    (hmono : ∀ s f sp st r st', rec s f sp st = .ok (r, st') → ImpInv st st')
    (hrec : ∀ s f sp st, remaining fs st.imported < n → rec s f sp st ≠ .error .outOfFuel)
    (stack : List APath) (file spelled : APath) (loads : List LoadAt) (res : PResult) (st : PState)
    (hst : remaining fs st.imported ≤ n) :
    doLoads cfg fs rec stack file spelled loads res st ≠ .error .outOfFuel := by
  induction loads generalizing res st with
  | nil => simp [doLoads]
  | cons l ls ih =>
    simp only [doLoads]
    split
    · exact ih _ _ hst
    · rename_i c p hfind
      split
      · exact ih _ _ hst
      · split
        · split
          · exact ih _ _ hst
          · split
            · exact ih _ _ hst
            · rename_i hnot
              have hq : fs.regularFile c.path = some p := by
                obtain ⟨_, _, _, _, hq⟩ := findFile_first cfg fs spelled _ c p hfind
                exact hq
              have hmem := isFile_mem fs p (regularFile_isFile fs _ _ hq)
              have hlt := remaining_add fs st.imported p hmem (by simpa using hnot)
              split
              · rename_i a hr
                intro hc; cases hc
                exact hrec _ _ _ _ (by simpa using (by omega : remaining fs (st.imported ++ [p]) < n)) hr
              · rename_i r1 st1 hr
                have hm := hmono _ _ _ _ _ _ hr
                have : remaining fs st1.imported ≤ remaining fs (st.imported ++ [p]) :=
                  remaining_mono fs _ _ (by simpa using hm.1)
                exact ih _ _ (by omega)
        · split
          · split
            · intro h; cases h
            · exact ih _ _ hst
          · exact ih _ _ hst
          · exact ih _ _ hst

/-- **Termination.** The recursion over imports never runs out of fuel as long as the fuel exceeds
    the number of files that have not been imported yet: every nested parse first adds its file —
    an existing file of the (finite) file system — to the imported set. -/
theorem parseOne_fuel_sufficient (cfg : Cfg) (fs : FS) (fuel : Nat) (stack : List APath) (file spelled : APath) (st : PState)
    (h : remaining fs st.imported < fuel) : parseOne cfg fs fuel stack file spelled st ≠ .error .outOfFuel := by
  induction fuel generalizing stack file spelled st with
  | zero => omega
  | succ n ih =>
    simp only [parseOne]
    split
    · split
      · intro h; cases h
      · split
        · intro h; cases h
        · split
          · rename_i a hd
            intro hc; cases hc
            exact doLoads_fuel cfg fs (parseOne cfg fs n) n (fun s f sp st r st' hh => parseOne_imported cfg fs n s f sp st r st' hh)
              (fun s f sp st hlt => ih s f sp st hlt) _ _ _ _ _ _ (by omega) hd
          · exact finishFile_not_outOfFuel _ _ _ _ _
    · intro h; cases h
    · intro h; cases h

theorem remaining_le (fs : FS) (imp : List APath) : remaining fs imp ≤ fs.files.length := by
  unfold remaining
  calc _ ≤ (fs.files.map (·.1)).length := List.length_filter_le _ _
    _ = fs.files.length := by simp

/-- The front end terminates with a documented outcome on every file system, cyclic or not:
    neither a crash nor fuel exhaustion (the model's stand-in for a hang / stack overflow). -/
theorem front_terminates (cfg : Cfg) (fs : FS) (builtins : Registry) (root : APath) :
    front cfg fs builtins root ≠ .abort .outOfFuel := by
  unfold front
  split
  · rename_i a h
    intro hc; cases hc
    exact parseOne_fuel_sufficient cfg fs _ _ _ _ _ (by have := remaining_le fs ([] : List APath); simp only; omega) h
  · split <;> (intro h; cases h)

/-! Non-vacuity (compiled evaluation with `#guard`, a test, not a proof — kernel reduction of the path-splitting
    functions is too slow for `decide`): a two-file cycle, a diamond and a branching cycle (which hung the pinned tree). -/
def fsOf (l : List (String × String)) : FS := { files := l.map (fun (n, t) => (["w", n], .idl t)) }
def cfg0 : Cfg := { cwd := ["w"], includeDirs := [], keys := ["cpp"], defaultDeriving := [] }
def rulesOf (o : Outcome) : List String := match o with | .diags ds => ds.map (·.rule) | .ok => ["ok"] | .abort _ => ["abort"]

#guard rulesOf (front cfg0 (fsOf [("a", "@import \"b\"\nx = enum { k; }"), ("b", "@import \"a\"\ny = enum { k; }")]) [] ["w", "a"])
    == ["circular-import"]
#guard rulesOf (front cfg0 (fsOf [("a", "@import \"b\"\n@import \"c\""), ("b", "@import \"d\""), ("c", "@import \"d\""), ("d", "t = enum { k; }")]) [] ["w", "a"])
    == ["ok"]
#guard rulesOf (front cfg0 (fsOf [("a", "@import \"b\"\n@import \"c\""), ("b", "@import \"a\""), ("c", "@import \"a\"")]) [] ["w", "a"])
    == ["circular-import", "circular-import"]

end Pydjinni.Front
