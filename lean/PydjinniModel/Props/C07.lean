import PydjinniModel.Gen.JniSpec
import PydjinniModel.Gen.Tables
/-! # C07 — theorems (under construction) -/
namespace Pydjinni.Gen
end Pydjinni.Gen
