import PydjinniModel.Gen.JniSpec
import PydjinniModel.Gen.Tables
/-!
# C07 — JNI glue and generated Java agree on every class, member and native symbol

Theorems about `Gen/Jni` (what the JNI templates look up and export; what the Java templates declare) with
`Lang/JavaDesc` (erasure, JVM descriptors, JNI C types, JNI symbol escaping), for every declaration with any number of
members and every signature shape.

* `jniRefSig_eq_desc`      the descriptor written for a field / parameter / result is the JVM descriptor of the Java type
                           written for it (optional primitives boxed, generics erased, flags as `EnumSet`, functions by interface)
* `jniMethodSig_eq`, `ctorSig_eq`  method and constructor descriptors
* `lookups_resolve`        every looked-up (class, member, descriptor) is declared by the generated Java
* `natives_exported_once`  the exported symbols are, one for one and in order, the JNI symbols of the declared native methods
* `c_types_correspond`     with the C result / receiver / parameter types of their Java signatures

Domain (`Dom`): `jniClassNameIsJavaName` and `noJavaBaseRecord` are findings of the pinned tree outside which the real code
fails (see findings/C07.json); `wf` and `staticOnlyOnCppInterfaces` are guaranteed by the front end; `tables` is the
generated obligation `jniOK` over the live built-in table.
-/
namespace Pydjinni.Gen

theorem desc_withArgs (t : JType) (a : List JType) : desc (t.withArgs a) = desc t := by
  cases t <;> simp [JType.withArgs, desc]

theorem jniCType_withArgs (t : JType) (a : List JType) : jniCType (t.withArgs a) = jniCType t := by
  cases t with
  | prim p => rfl
  | arr e => rfl
  | cls pkg name args =>
    simp only [JType.withArgs]
    unfold jniCType
    split <;> simp_all

theorem desc_javaJT (jc : JavaCfg) (d : TDef) (args : List RType) (o boxed : Bool) :
    desc (javaJT jc (.mk d args o) boxed) = desc (javaHeadJ jc d (boxed || o)) := by
  simp only [javaJT]
  split <;> simp [desc_withArgs]

/-- **descriptor lemma** — the descriptor the JNI templates write for a field / parameter / result is the JVM descriptor
    of the Java type the Java templates write for it: optional primitives boxed, generics erased, flags as `EnumSet` -/
theorem jniRefSig_eq_desc (jc : JavaCfg) (c : JniCfg) (t : RType)
    (hb : t.def'.builtinsAll Builtin.jniOK = true) (hn : tdefNameAgrees jc c t.def' = true) :
    jniRefSig jc c t = desc (javaJT jc t false) := by
  cases t with
  | mk d args o =>
    rw [desc_javaJT]
    simp only [jniRefSig, RType.optional, RType.def', Bool.false_or] at *
    cases d with
    | builtin b =>
      simp only [TDef.builtinsAll, Builtin.jniOK, Bool.and_eq_true, beq_iff_eq] at hb
      cases o <;> simp [jniTypeSig, jniBoxedSig, javaHeadJ, hb.1.1.1, hb.1.1.2]
    | user u =>
      simp only [tdefNameAgrees, Bool.or_eq_true, beq_iff_eq] at hn
      by_cases hf : u.prim = .flags
      · cases o <;> simp [jniTypeSig, jniBoxedSig, jniUserSig, javaHeadJ, TDef.prim, hf, desc, joinS]
      · have hne : (u.prim == Prim.flags) = false := by simpa using hf
        have hname : convert c.classStyle u.name = convert jc.tyStyle u.name := by
          rcases hn with h | h
          · exact absurd h hf
          · exact h
        cases o <;> simp [jniTypeSig, jniBoxedSig, jniUserSig, javaHeadJ, TDef.prim, hne, desc, javaUserJ, jniClassDescriptor, jniName, TDef.ns, hname]
    | func u a n ps r =>
      simp only [tdefNameAgrees, Bool.or_eq_true, beq_iff_eq] at hn
      have hname : jniName c (.func u a n ps r) = javaRefName jc (.func u a n ps r) := by
        cases a
        · simpa [jniName, javaRefName] using hn
        · simp [jniName, javaRefName]
      cases o <;> simp [jniTypeSig, jniBoxedSig, jniUserSig, javaHeadJ, TDef.prim, desc, javaUserJ, jniClassDescriptor, TDef.ns, hname]


theorem concatS_append (a b : List String) : concatS (a ++ b) = concatS a ++ concatS b := by
  induction a with
  | nil => simp [concatS]
  | cons x xs ih => simp [concatS, ih, String.append_assoc]

/-- the per-reference hypotheses of the descriptor lemma -/
def sigOk (jc : JavaCfg) (c : JniCfg) (t : RType) : Bool :=
  t.def'.builtinsAll Builtin.jniOK && tdefNameAgrees jc c t.def'

theorem fieldsAll_mem' {q : RType → Bool} {fs : List FieldD} (h : fieldsAll q fs = true) : ∀ f ∈ fs, q f.ty = true := by
  simpa [fieldsAll] using h

theorem sigs_eq_descs (jc : JavaCfg) (c : JniCfg) (fs : List FieldD) (h : fieldsAll (sigOk jc c) fs = true) :
    fs.map (fun f => jniRefSig jc c f.ty) = (paramJTs jc fs).map desc := by
  simp only [paramJTs, List.map_map]
  apply List.map_congr_left
  intro f hf
  have := fieldsAll_mem' h f hf
  simp only [sigOk, Bool.and_eq_true] at this
  simpa using jniRefSig_eq_desc jc c f.ty this.1 this.2

theorem ctorSig_eq (jc : JavaCfg) (c : JniCfg) (fs : List FieldD) (h : fieldsAll (sigOk jc c) fs = true) :
    ctorSig jc c fs "" = methodDesc (paramJTs jc fs) none ∧
    ctorSig jc c fs "Ljava/lang/String;" = methodDesc (paramJTs jc fs ++ [jString]) none := by
  have hs := sigs_eq_descs jc c fs h
  constructor
  · simp only [ctorSig, methodDesc, descO, hs]
    simp [String.append_assoc]
  · simp only [ctorSig, methodDesc, descO, hs, List.map_append, concatS_append]
    have : concatS (List.map desc [jString]) = "Ljava/lang/String;" := by decide
    rw [this]
    simp [String.append_assoc]

theorem jniMethodSig_eq (jc : JavaCfg) (c : JniCfg) (ps : List FieldD) (ret : Option RType) (async : Bool)
    (hp : fieldsAll (sigOk jc c) ps = true) (hr : ∀ r, ret = some r → sigOk jc c r = true) :
    jniMethodSig jc c (ps.map (·.ty)) ret async = methodDesc (paramJTs jc ps) (javaRetJT jc ret async) := by
  have hs := sigs_eq_descs jc c ps hp
  simp only [jniMethodSig, methodDesc, List.map_map, Function.comp_def]
  rw [show (List.map (fun x => jniRefSig jc c x.ty) ps) = List.map desc (paramJTs jc ps) from hs]
  congr 1
  cases async with
  | true =>
    cases ret <;> simp [javaRetJT, descO, completableFuture, desc, joinS]
  | false =>
    cases ret with
    | none => simp [javaRetJT, descO]
    | some r =>
      have := hr r rfl
      simp only [sigOk, Bool.and_eq_true] at this
      simp [javaRetJT, descO, jniRefSig_eq_desc jc c r this.1 this.2]


/-! ### class names -/

theorem jniClass_eq_javaClass (jc : JavaCfg) (c : JniCfg) (d : Decl) (hwf : d.wf = true)
    (hn : jniClassNameIsJavaName jc c d = true) (hr : noJavaBaseRecord d = true) :
    jniClassDescriptor jc c (declTDef d) = javaClassName jc d := by
  simp only [jniClassNameIsJavaName, Bool.and_eq_true] at hn
  have hself := hn.1
  cases d with
  | enum u items =>
    simp only [Decl.wf, beq_iff_eq] at hwf
    simp [declTDef, tdefNameAgrees, hwf, Decl.info] at hself
    simp [jniClassDescriptor, declTDef, javaClassName, javaClassPkg, javaClassSimple, javaDeclName, jniName, TDef.ns, Decl.info, hwf, declAnonymous, hself]
  | flags u items =>
    simp only [Decl.wf, beq_iff_eq] at hwf
    simp at hself
    simp [jniClassDescriptor, declTDef, javaClassName, javaClassPkg, javaClassSimple, javaDeclName, jniName, TDef.ns, Decl.info, hwf, declAnonymous, hself]
  | record u fields e o =>
    simp only [Decl.wf, beq_iff_eq] at hwf
    simp only [noJavaBaseRecord, Bool.not_eq_true'] at hr
    have hr' : ¬ ("java" ∈ u.targets) := by simpa using hr
    simp [declTDef, tdefNameAgrees, hwf, Decl.info] at hself
    simp [jniClassDescriptor, declTDef, javaClassName, javaClassPkg, javaClassSimple, javaDeclName, jniName, TDef.ns, Decl.info, hwf, declAnonymous, hself, hr']
  | interface u ms =>
    simp only [Decl.wf, beq_iff_eq] at hwf
    simp [declTDef, tdefNameAgrees, hwf, Decl.info] at hself
    simp [jniClassDescriptor, declTDef, javaClassName, javaClassPkg, javaClassSimple, javaDeclName, jniName, TDef.ns, Decl.info, hwf, declAnonymous, hself]
  | error u codes =>
    simp only [Decl.wf, beq_iff_eq] at hwf
    simp [declTDef, tdefNameAgrees, hwf, Decl.info] at hself
    simp [jniClassDescriptor, declTDef, javaClassName, javaClassPkg, javaClassSimple, javaDeclName, jniName, TDef.ns, Decl.info, hwf, declAnonymous, hself]
  | function u a ps r t =>
    simp only [Decl.wf, beq_iff_eq] at hwf
    cases a
    · simp [declTDef, tdefNameAgrees] at hself
      simp [jniClassDescriptor, declTDef, javaClassName, javaClassPkg, javaClassSimple, javaDeclName, jniName, TDef.ns, Decl.info, hwf, declAnonymous, hself]
    · simp [jniClassDescriptor, declTDef, javaClassName, javaClassPkg, javaClassSimple, javaDeclName, jniName, TDef.ns, Decl.info, hwf, declAnonymous]


theorem fieldsAll_sigOk (jc : JavaCfg) (c : JniCfg) (fs : List FieldD)
    (h1 : fieldsAll (fun t => t.def'.builtinsAll Builtin.jniOK) fs = true)
    (h2 : (fs.map (·.ty.def')).all (tdefNameAgrees jc c) = true) : fieldsAll (sigOk jc c) fs = true := by
  simp only [fieldsAll, List.all_eq_true, List.all_map, Function.comp_def] at *
  intro f hf
  simp [sigOk, h1 f hf, h2 f hf]

theorem typesAll_sigOk (jc : JavaCfg) (c : JniCfg) (d : Decl) (hn : jniClassNameIsJavaName jc c d = true)
    (hb : d.typesAll (fun t => t.def'.builtinsAll Builtin.jniOK) = true) : d.typesAll (sigOk jc c) = true := by
  simp only [jniClassNameIsJavaName, Bool.and_eq_true] at hn
  have href := hn.2
  cases d with
  | enum u items => rfl
  | flags u items => rfl
  | record u fields e o =>
    simp only [Decl.typesAll, referencedDefs] at *
    exact fieldsAll_sigOk jc c fields hb href
  | function u a ps r t =>
    simp only [Decl.typesAll, referencedDefs, List.all_append, Bool.and_eq_true] at *
    refine ⟨fieldsAll_sigOk jc c ps hb.1 href.1, ?_⟩
    cases r with
    | none => rfl
    | some r => simp_all [sigOk]
  | error u codes =>
    simp only [Decl.typesAll, referencedDefs, List.all_eq_true, List.all_flatMap] at *
    intro k hk
    exact fieldsAll_sigOk jc c k.params (hb k hk) (by simpa [List.all_eq_true] using href k hk)
  | interface u ms =>
    simp only [Decl.typesAll, referencedDefs, List.all_eq_true, List.all_flatMap, Bool.and_eq_true, List.all_append] at *
    intro m hm
    have h1 := hb m hm
    have h2 := href m hm
    refine ⟨fieldsAll_sigOk jc c m.params h1.1 (by simpa [List.all_eq_true] using h2.1), ?_⟩
    cases hr : m.ret with
    | none => rfl
    | some r => simp_all [sigOk]


/-! ### lookups resolve -/

theorem joinS_snoc' (sep x : String) (l : List String) (h : l ≠ []) : joinS sep (l ++ [x]) = joinS sep l ++ sep ++ x := by
  induction l with
  | nil => exact absurd rfl h
  | cons a as ih =>
    cases as with
    | nil => simp [joinS]
    | cons b bs =>
      have := ih (by simp)
      simp only [List.cons_append, joinS] at this ⊢
      rw [this]; simp [String.append_assoc]

theorem joinS_snoc_append (sep x y : String) (l : List String) : joinS sep (l ++ [x ++ y]) = joinS sep (l ++ [x]) ++ y := by
  cases l with
  | nil => simp [joinS]
  | cons a as => rw [joinS_snoc' _ _ _ (by simp), joinS_snoc' _ _ _ (by simp)]; simp [String.append_assoc]

theorem member_cls_suffix (pkg : List String) (cn sfx : String) :
    joinS "/" (pkg ++ [cn ++ sfx]) = joinS "/" (pkg ++ [cn]) ++ sfx := joinS_snoc_append "/" cn sfx pkg

theorem desc_J : methodDesc [jlong] none = "(J)V" := by decide
theorem desc_long : descO (some jlong) = "J" := by decide

theorem proxyLookups_ok (pkg : List String) (cn : String) (ms : List JMember) (classes : List String)
    (hc : classes.contains (joinS "/" (pkg ++ [cn])) = true) (hm : ∀ m ∈ proxyMembers pkg cn, m ∈ ms) :
    (proxyLookups (joinS "/" (pkg ++ [cn]))).all (fun l => if l.kind == "class" then classes.contains l.cls else ms.any (memberMatches l)) = true := by
  simp only [proxyLookups, classLookup, List.all_cons, List.all_nil, Bool.and_true, Bool.and_eq_true]
  refine ⟨by simpa using hc, ?_, ?_⟩
  · have : ("method" == "class") = false := by decide
    simp only [this, Bool.false_eq_true, if_false, List.any_eq_true]
    refine ⟨_, hm _ (by simp [proxyMembers]; right; left; rfl), ?_⟩
    simp [memberMatches, JMember.desc, JMember.cls, desc_J]
  · have : ("field" == "class") = false := by decide
    simp only [this, Bool.false_eq_true, if_false, List.any_eq_true]
    refine ⟨_, hm _ (by simp [proxyMembers]; left; rfl), ?_⟩
    simp [memberMatches, JMember.desc, JMember.cls, desc_long]


def okIn (classes : List String) (ms : List JMember) (l : Lookup) : Bool :=
  if l.kind == "class" then classes.contains l.cls else ms.any (memberMatches l)

theorem lookupOk_eq (jc : JavaCfg) (d : Decl) (l : Lookup) : lookupOk jc d l = okIn (javaClasses jc d) (javaMembers jc d) l := rfl

theorem okIn_mono (classes : List String) (ms ms' : List JMember) (l : Lookup) (h : ∀ m ∈ ms, m ∈ ms') (hok : okIn classes ms l = true) :
    okIn classes ms' l = true := by
  unfold okIn at *
  by_cases hk : (l.kind == "class") = true
  · simpa [hk] using hok
  · simp only [hk, Bool.false_eq_true, if_false, List.any_eq_true] at hok ⊢
    obtain ⟨m, hm, hmm⟩ := hok
    exact ⟨m, h m hm, hmm⟩

theorem fieldLookups_ok (jc : JavaCfg) (c : JniCfg) (pkg : List String) (cn : String) (classes : List String) (fs : List FieldD)
    (h : fieldsAll (sigOk jc c) fs = true) :
    (fieldLookups jc c (joinS "/" (pkg ++ [cn])) fs).all (okIn classes (fieldMembers jc pkg cn fs)) = true := by
  simp only [fieldLookups, List.all_map, List.all_eq_true, Function.comp_def]
  intro f hf
  have hs := fieldsAll_mem' h f hf
  simp only [sigOk, Bool.and_eq_true] at hs
  have : ("field" == "class") = false := by decide
  simp only [okIn, this, Bool.false_eq_true, if_false, List.any_eq_true]
  refine ⟨fieldMember jc pkg cn f, by simp [fieldMembers]; exact ⟨f, hf, rfl⟩, ?_⟩
  simp [memberMatches, fieldMember, JMember.desc, JMember.cls, descO, jniRefSig_eq_desc jc c f.ty hs.1 hs.2]

theorem all_okIn_mono (classes : List String) (ms ms' : List JMember) (ls : List Lookup) (h : ∀ m ∈ ms, m ∈ ms')
    (hok : ls.all (okIn classes ms) = true) : ls.all (okIn classes ms') = true := by
  simp only [List.all_eq_true] at *
  intro l hl
  exact okIn_mono classes ms ms' l h (hok l hl)

theorem lit3 (Y : String) : "()" ++ ("[" ++ ("L" ++ Y)) = "()[L" ++ Y := by
  rw [← String.append_assoc, ← String.append_assoc]
  have : "()" ++ "[" ++ "L" = "()[L" := by decide
  rw [this]

theorem enum_values_desc (pkg : List String) (cn : String) :
    methodDesc [] (some (.arr (.cls pkg cn []))) = "()[L" ++ joinS "/" (pkg ++ [cn]) ++ ";" := by
  simp only [methodDesc, List.map_nil, concatS, descO, desc]
  have e1 : "(" ++ "" ++ ")" = "()" := by decide
  rw [e1, String.append_assoc (s₁ := "L"), lit3, String.append_assoc]

/-- configuration / program domain of the C07 theorems: well-formed declaration, the JNI generator's class names are the Java
    generator's (`jniClassNameIsJavaName`, a finding outside), no `record +java` (`noJavaBaseRecord`, a finding outside),
    built-in rows satisfy the generated table obligation `jniOK` -/
structure Dom (jc : JavaCfg) (c : JniCfg) (d : Decl) : Prop where
  wf : d.wf = true
  names : jniClassNameIsJavaName jc c d = true
  noBase : noJavaBaseRecord d = true
  statics : staticOnlyOnCppInterfaces d = true
  tables : d.typesAll (fun t => t.def'.builtinsAll Builtin.jniOK) = true

theorem kind_ne (k : String) (h : k ≠ "class") : (k == "class") = false := by simpa using h

/-- **lookups_resolve** — every class, constructor, field and method the generated JNI code of a declaration looks up by name
    and descriptor is declared by the generated Java with exactly that descriptor (or inherited from `java.lang.Enum` /
    `java.lang.Throwable`), for every signature shape: optional primitives boxed, generics erased, flags as `EnumSet`,
    function types by their interface, asynchronous methods returning `CompletableFuture`. -/
theorem lookups_resolve (jc : JavaCfg) (c : JniCfg) (d : Decl) (h : Dom jc c d) :
    (jniLookups jc c d).all (lookupOk jc d) = true := by
  have hcls := jniClass_eq_javaClass jc c d h.wf h.names h.noBase
  have hsig := typesAll_sigOk jc c d h.names h.tables
  have hfun : (fun l => lookupOk jc d l) = okIn (javaClasses jc d) (javaMembers jc d) := by funext l; rfl
  show (jniLookups jc c d).all (fun l => lookupOk jc d l) = true
  rw [hfun]
  unfold jniLookups
  rw [hcls]
  have hcn : javaClassName jc d = joinS "/" (javaClassPkg jc d ++ [javaClassSimple jc d]) := rfl
  cases d with
  | enum u items =>
    simp only [enumLookups, classLookup, List.all_cons, List.all_nil, Bool.and_true, okIn, javaClasses, javaMembers]
    have hv := enum_values_desc (javaClassPkg jc (.enum u items)) (javaClassSimple jc (.enum u items))
    have ho : methodDesc [] (some (.prim "int")) = "()I" := by decide
    have hE : joinS "/" ["java", "lang", "Enum"] = "java/lang/Enum" := by decide
    simp [memberMatches, JMember.desc, JMember.cls, hv, ho, hE, hcn]
  | flags u items =>
    simp only [enumLookups, classLookup, List.all_cons, List.all_nil, Bool.and_true, okIn, javaClasses, javaMembers]
    have hv := enum_values_desc (javaClassPkg jc (.flags u items)) (javaClassSimple jc (.flags u items))
    have ho : methodDesc [] (some (.prim "int")) = "()I" := by decide
    have hE : joinS "/" ["java", "lang", "Enum"] = "java/lang/Enum" := by decide
    simp [memberMatches, JMember.desc, JMember.cls, hv, ho, hE, hcn]
  | record u fields e o =>
    simp only [Decl.typesAll] at hsig
    have hc := (ctorSig_eq jc c fields hsig).1
    simp only [List.all_append, List.all_cons, List.all_nil, Bool.and_true, Bool.and_eq_true]
    refine ⟨⟨by simp [okIn, classLookup, javaClasses], ?_⟩, ?_⟩
    · simp [okIn, javaMembers, memberMatches, JMember.desc, JMember.cls, hc, hcn]
    · rw [hcn]
      apply all_okIn_mono _ _ _ _ _ (fieldLookups_ok jc c _ _ _ fields hsig)
      intro m hm; simp [javaMembers, hm]
  | interface u ms =>
    simp only [Decl.typesAll, List.all_eq_true, Bool.and_eq_true] at hsig
    simp only [List.all_append, Bool.and_eq_true]
    constructor
    · by_cases hcpp : u.targets.contains "cpp" = true
      · simp only [hcpp, if_true, hcn, ← member_cls_suffix]
        apply proxyLookups_ok
        · have : "cpp" ∈ u.targets := by simpa using hcpp
          simp [javaClasses, this, hcn, member_cls_suffix]
        · intro m hm
          have : "cpp" ∈ u.targets := by simpa using hcpp
          simp [javaMembers, this, hm]
      · rw [if_neg hcpp]; rfl
    · by_cases hj : u.targets.contains "java" = true
      · simp only [hj, if_true, List.all_cons, Bool.and_eq_true, List.all_map, List.all_eq_true, Function.comp_def]
        refine ⟨by simp [okIn, classLookup, javaClasses], ?_⟩
        intro m hm
        have hm' := hsig m hm
        have hsg := jniMethodSig_eq jc c m.params m.ret m.isAsync hm'.1 (by intro r hr; simpa [hr] using hm'.2)
        simp only [okIn, kind_ne "method" (by decide), Bool.false_eq_true, if_false, List.any_eq_true]
        refine ⟨methodMember jc (javaClassPkg jc (.interface u ms)) (javaClassSimple jc (.interface u ms)) m, by simp [javaMembers]; left; exact ⟨m, hm, rfl⟩, ?_⟩
        have hst : m.isStatic = false := by
          have := h.statics
          simp only [staticOnlyOnCppInterfaces, hj, Bool.not_true, Bool.false_or, List.all_eq_true, Bool.not_eq_true'] at this
          exact this m hm
        simp [memberMatches, methodMember, JMember.desc, JMember.cls, hsg, hcn, hst]
      · rw [if_neg hj]; rfl
  | function u a ps r t =>
    simp only [Decl.typesAll, Bool.and_eq_true] at hsig
    simp only [List.all_append, Bool.and_eq_true]
    constructor
    · by_cases hcpp : u.targets.contains "cpp" = true
      · simp only [hcpp, if_true, hcn, ← member_cls_suffix]
        apply proxyLookups_ok
        · have : "cpp" ∈ u.targets := by simpa using hcpp
          simp [javaClasses, this, hcn, member_cls_suffix]
        · intro m hm
          have : "cpp" ∈ u.targets := by simpa using hcpp
          simp [javaMembers, this, hm]
      · rw [if_neg hcpp]; rfl
    · by_cases hj : u.targets.contains "java" = true
      · simp only [hj, if_true, List.all_cons, List.all_nil, Bool.and_true, Bool.and_eq_true]
        refine ⟨by simp [okIn, classLookup, javaClasses], ?_⟩
        have hsg := jniMethodSig_eq jc c ps r false hsig.1 (by intro r' hr; simpa [hr] using hsig.2)
        simp [okIn, javaMembers, memberMatches, JMember.desc, JMember.cls, hsg, hcn]
      · rw [if_neg hj]; rfl
  | error u codes =>
    simp only [Decl.typesAll, List.all_eq_true] at hsig
    rw [List.all_flatMap, List.all_eq_true]
    intro k hk
    have hks := hsig k hk
    have hc := (ctorSig_eq jc c k.params hks).2
    have hsub : ∀ m ∈ codeMembers jc (javaClassPkg jc (.error u codes)) (javaClassSimple jc (.error u codes)) k, m ∈ javaMembers jc (.error u codes) := by
      intro m hm
      simp only [javaMembers, List.mem_flatMap]
      exact ⟨k, hk, hm⟩
    have hkc : javaClassName jc (.error u codes) ++ "$" ++ convert jc.tyStyle k.name =
        joinS "/" (javaClassPkg jc (.error u codes) ++ [javaClassSimple jc (.error u codes) ++ "$" ++ convert jc.tyStyle k.name]) := by
      rw [hcn, String.append_assoc, String.append_assoc, member_cls_suffix]
    rw [hkc]
    simp only [List.all_append, List.all_cons, List.all_nil, Bool.and_true, Bool.and_eq_true]
    have hT : joinS "/" ["java", "lang", "Throwable"] = "java/lang/Throwable" := by decide
    have hgm : methodDesc [] (some jString) = "()Ljava/lang/String;" := by decide
    refine ⟨⟨⟨?_, ?_⟩, ?_⟩, ?_⟩
    · simp only [okIn, classLookup, beq_self_eq_true, if_true, javaClasses, ← hkc]
      simp only [List.contains_eq_any_beq, List.any_eq_true]
      exact ⟨_, by simp only [List.mem_cons, List.mem_map]; right; exact ⟨k, hk, rfl⟩, by simp⟩
    · apply okIn_mono _ _ _ _ hsub
      simp [okIn, codeMembers, memberMatches, JMember.desc, JMember.cls, hc]
    · apply all_okIn_mono _ _ _ _ hsub
      apply all_okIn_mono _ _ _ _ _ (fieldLookups_ok jc c _ _ _ k.params hks)
      intro m hm; simp [codeMembers, hm]
    · apply okIn_mono _ _ _ _ hsub
      simp [okIn, codeMembers, memberMatches, JMember.desc, JMember.cls, hT, hgm]



/-! ### native symbols -/

theorem mangleL_append (a b : List Char) : mangleL (a ++ b) = mangleL a ++ mangleL b := by
  induction a with
  | nil => rfl
  | cons x xs ih => simp [mangleL, ih]

theorem mangle_append (a b : String) : mangle (a ++ b) = mangle a ++ mangle b := by
  simp [mangle, String.toList_append, mangleL_append, String.ofList_append]

theorem joinS_cons (sep x : String) (l : List String) (h : l ≠ []) : joinS sep (x :: l) = x ++ sep ++ joinS sep l := by
  cases l with
  | nil => exact absurd rfl h
  | cons y ys => rfl

/-- `jni_prefix(segments)` is the class part of the JNI symbol -/
theorem jniPrefix_eq (segs : List String) (h : segs ≠ []) : jniPrefix segs = "Java_" ++ joinS "_" (segs.map mangle) := by
  unfold jniPrefix
  rw [joinS_cons _ _ _ (by simpa using h)]
  rfl

theorem nativeSymbolL_suffix (pkg : List String) (cn sfx method : String) :
    nativeSymbolL (pkg ++ [cn ++ sfx]) method = jniPrefix (pkg ++ [cn]) ++ mangle sfx ++ "_" ++ mangle method := by
  rw [jniPrefix_eq _ (by simp)]
  simp only [nativeSymbolL, List.map_append, List.map_cons, List.map_nil, mangle_append, joinS_snoc_append, String.append_assoc]

theorem nativeSymbolL_plain (pkg : List String) (cn method : String) :
    nativeSymbolL (pkg ++ [cn]) method = jniPrefix (pkg ++ [cn]) ++ "_" ++ mangle method := by
  rw [jniPrefix_eq _ (by simp)]
  simp only [nativeSymbolL, String.append_assoc]

theorem mangle_proxy : mangle "$CppProxy" = "_00024CppProxy" := by decide
theorem mangle_proxy_cleanup : mangle "$CppProxy$CleanupTask" = "_00024CppProxy_00024CleanupTask" := by decide
theorem mangle_fnproxy : mangle "CppProxy" = "CppProxy" := by decide
theorem mangle_fnproxy_cleanup : mangle "CppProxy$CleanupTask" = "CppProxy_00024CleanupTask" := by decide
theorem mangle_nativeDestroy : mangle "nativeDestroy" = "nativeDestroy" := by decide
theorem mangle_nativeInvoke : mangle "nativeInvoke" = "nativeInvoke" := by decide


/-! ### C types -/

/-- the Java package is a real one (pydjinni's schema requires two components), not `java.*` -/
def pkgOk (jc : JavaCfg) : Prop := jc.package ≠ [] ∧ jc.package.head? ≠ some "java"

theorem jniCType_user (pkg : List String) (name : String) (args : List JType) (h : pkg.head? ≠ some "java") :
    jniCType (.cls pkg name args) = "jobject" := by
  unfold jniCType
  split <;> simp_all

theorem javaPackageL_head (jc : JavaCfg) (h : pkgOk jc) (ns : List String) : (javaPackageL jc ns).head? ≠ some "java" := by
  obtain ⟨h1, h2⟩ := h
  unfold javaPackageL
  cases hp : jc.package with
  | nil => exact absurd hp h1
  | cons a as => rw [hp] at h2; simpa using h2

theorem jniCType_javaJT (jc : JavaCfg) (d : TDef) (args : List RType) (o boxed : Bool) :
    jniCType (javaJT jc (.mk d args o) boxed) = jniCType (javaHeadJ jc d (boxed || o)) := by
  simp only [javaJT]
  split <;> simp [jniCType_withArgs]

/-- **C type lemma** — `get_typename` is the JNI C type of the Java type written for the reference -/
theorem jniGetTypename_eq (jc : JavaCfg) (hp : pkgOk jc) (t : RType) (hb : t.def'.builtinsAll Builtin.jniOK = true) :
    jniGetTypename t = jniCType (javaJT jc t false) := by
  cases t with
  | mk d args o =>
    rw [jniCType_javaJT]
    simp only [jniGetTypename, RType.def', RType.optional, Bool.false_or] at *
    cases d with
    | builtin b =>
      simp only [TDef.builtinsAll, Builtin.jniOK, Bool.and_eq_true, beq_iff_eq] at hb
      cases o
      · simp [jniNativeType, javaHeadJ, hb.1.2]
      · simp only [jniNativeType, javaHeadJ, if_true, hb.2, Bool.true_and]
        by_cases h1 : b.jniTypename = "jstring"
        · simp [h1]
        · by_cases h2 : b.jniTypename = "jbyteArray"
          · simp [h2]
          · simp [h1, h2]
    | user u =>
      by_cases hf : u.prim = .flags
      · cases o <;> simp [jniNativeType, javaHeadJ, hf, jniCType]
      · have hne : (u.prim == Prim.flags) = false := by simpa using hf
        cases o <;> simp [jniNativeType, javaHeadJ, hne, javaUserJ, jniCType_user _ _ _ (javaPackageL_head jc hp u.ns)]
    | func u a n ps r =>
      cases o <;> simp [jniNativeType, javaHeadJ, javaUserJ, jniCType_user _ _ _ (javaPackageL_head jc hp u.ns)]

theorem jniReturnTypeSpec_eq (jc : JavaCfg) (hp : pkgOk jc) (ret : Option RType) (async : Bool)
    (hb : ∀ r, ret = some r → r.def'.builtinsAll Builtin.jniOK = true) :
    jniReturnTypeSpec ret async = jniCTypeO (javaRetJT jc ret async) := by
  cases async with
  | true => cases ret <;> simp [jniReturnTypeSpec, javaRetJT, jniCTypeO, completableFuture, jniCType]
  | false =>
    cases ret with
    | none => simp [jniReturnTypeSpec, javaRetJT, jniCTypeO]
    | some r => simp [jniReturnTypeSpec, javaRetJT, jniCTypeO, jniGetTypename_eq jc hp r (hb r rfl)]

theorem exportParams_eq (jc : JavaCfg) (hp : pkgOk jc) (ps : List FieldD)
    (hb : fieldsAll (fun t => t.def'.builtinsAll Builtin.jniOK) ps = true) :
    ps.map exportParam = (paramJTs jc ps).map jniCType := by
  simp only [paramJTs, List.map_map]
  apply List.map_congr_left
  intro f hf
  simpa [exportParam] using jniGetTypename_eq jc hp f.ty (fieldsAll_mem' hb f hf)


/-! ### exports ↔ natives -/

theorem jniName_eq_javaSimple (jc : JavaCfg) (c : JniCfg) (d : Decl) (hwf : d.wf = true)
    (hn : jniClassNameIsJavaName jc c d = true) (hr : noJavaBaseRecord d = true) :
    jniPrefixSegments jc c (declTDef d) = javaClassPkg jc d ++ [javaClassSimple jc d] := by
  simp only [jniClassNameIsJavaName, Bool.and_eq_true] at hn
  have hself := hn.1
  cases d with
  | enum u items =>
    simp only [Decl.wf, beq_iff_eq] at hwf
    simp [declTDef, tdefNameAgrees, hwf, Decl.info] at hself
    simp [jniPrefixSegments, declTDef, javaClassPkg, javaClassSimple, javaDeclName, jniName, TDef.ns, Decl.info, hwf, declAnonymous, hself]
  | flags u items =>
    simp only [Decl.wf, beq_iff_eq] at hwf
    simp at hself
    simp [jniPrefixSegments, declTDef, javaClassPkg, javaClassSimple, javaDeclName, jniName, TDef.ns, Decl.info, hwf, declAnonymous, hself]
  | record u fields e o =>
    simp only [Decl.wf, beq_iff_eq] at hwf
    simp only [noJavaBaseRecord, Bool.not_eq_true'] at hr
    have hr' : ¬ ("java" ∈ u.targets) := by simpa using hr
    simp [declTDef, tdefNameAgrees, hwf, Decl.info] at hself
    simp [jniPrefixSegments, declTDef, javaClassPkg, javaClassSimple, javaDeclName, jniName, TDef.ns, Decl.info, hwf, declAnonymous, hself, hr']
  | interface u ms =>
    simp only [Decl.wf, beq_iff_eq] at hwf
    simp [declTDef, tdefNameAgrees, hwf, Decl.info] at hself
    simp [jniPrefixSegments, declTDef, javaClassPkg, javaClassSimple, javaDeclName, jniName, TDef.ns, Decl.info, hwf, declAnonymous, hself]
  | error u codes =>
    simp only [Decl.wf, beq_iff_eq] at hwf
    simp [declTDef, tdefNameAgrees, hwf, Decl.info] at hself
    simp [jniPrefixSegments, declTDef, javaClassPkg, javaClassSimple, javaDeclName, jniName, TDef.ns, Decl.info, hwf, declAnonymous, hself]
  | function u a ps r t =>
    simp only [Decl.wf, beq_iff_eq] at hwf
    cases a
    · simp [declTDef, tdefNameAgrees] at hself
      simp [jniPrefixSegments, declTDef, javaClassPkg, javaClassSimple, javaDeclName, jniName, TDef.ns, Decl.info, hwf, declAnonymous, hself]
    · simp [jniPrefixSegments, declTDef, javaClassPkg, javaClassSimple, javaDeclName, jniName, TDef.ns, Decl.info, hwf, declAnonymous]

theorem lit_proxy (p x : String) : p ++ "_00024CppProxy_" ++ x = p ++ "_00024CppProxy" ++ "_" ++ x := by
  have : "_00024CppProxy_" = "_00024CppProxy" ++ "_" := by decide
  rw [this, ← String.append_assoc]
theorem lit_fn1 (p : String) : p ++ "CppProxy_00024CleanupTask_nativeDestroy" = p ++ ("CppProxy_00024CleanupTask" ++ ("_" ++ "nativeDestroy")) := by
  have : "CppProxy_00024CleanupTask_nativeDestroy" = "CppProxy_00024CleanupTask" ++ ("_" ++ "nativeDestroy") := by decide
  rw [this]
theorem lit_fn2 (p : String) : p ++ "CppProxy_nativeInvoke" = p ++ ("CppProxy" ++ ("_" ++ "nativeInvoke")) := by
  have : "CppProxy_nativeInvoke" = "CppProxy" ++ ("_" ++ "nativeInvoke") := by decide
  rw [this]

def nativesOf (ms : List JMember) : List JMember := ms.filter (·.isNative)

theorem nativesOf_append (a b : List JMember) : nativesOf (a ++ b) = nativesOf a ++ nativesOf b := by simp [nativesOf]

theorem nativesOf_map_nonnative {α : Type} (f : α → JMember) (l : List α) (h : ∀ x, (f x).isNative = false) : nativesOf (l.map f) = [] := by
  simp [nativesOf, List.filter_eq_nil_iff, h]

theorem nativesOf_map_native {α : Type} (f : α → JMember) (l : List α) (h : ∀ x, (f x).isNative = true) : nativesOf (l.map f) = l.map f := by
  simp [nativesOf, List.filter_eq_self, h]

theorem nativesOf_proxy (pkg : List String) (cn : String) : nativesOf (proxyMembers pkg cn) =
    [{ pkg := pkg, cname := cn ++ "$CleanupTask", kind := "method", name := "nativeDestroy", isStatic := false, isNative := true, params := [jlong], ret := none }] := by
  simp [nativesOf, proxyMembers]

/-- the observable part of an export / of a native method: symbol, C result type, receiver type, C parameter types -/
def Export.view (e : Export) : String × String × String × List String := (e.symbol, e.ret, e.recv, e.params)
def JMember.nativeView (m : JMember) : String × String × String × List String :=
  (m.symbol, jniCTypeO m.ret, (if m.isStatic then "jclass" else "jobject"), m.params.map jniCType)

/-- **natives_exported_once / c_types_correspond** — the `JNIEXPORT` functions of the generated JNI source are, one for one
    and in order, the native methods the generated Java declares: each export's name is the JNI symbol
    `Java_<escaped class>_<escaped method>` of its native method (`_` → `_1`, `$` → `_00024`, nested classes included) and its
    C result, receiver and parameter types are the JNI types of the Java signature (boxed optionals and every class type as
    `jobject`, `String` as `jstring`, `byte[]` as `jbyteArray`, `CompletableFuture` results as `jobject`, `void`). -/
theorem exports_are_natives (jc : JavaCfg) (c : JniCfg) (d : Decl) (h : Dom jc c d) (hp : pkgOk jc) :
    (jniExports jc c d).map Export.view = (nativesOf (javaMembers jc d)).map JMember.nativeView := by
  have hseg := jniName_eq_javaSimple jc c d h.wf h.names h.noBase
  have htab := h.tables
  unfold jniExports
  rw [hseg]
  cases d with
  | enum u items => simp [javaMembers, nativesOf]
  | flags u items => simp [javaMembers, nativesOf]
  | record u fields e o => simp [javaMembers, nativesOf, fieldMembers, fieldMember]
  | error u codes =>
    simp only [javaMembers, List.map_nil]
    have : nativesOf (codes.flatMap (codeMembers jc (javaClassPkg jc (.error u codes)) (javaClassSimple jc (.error u codes)))) = [] := by
      simp [nativesOf, List.filter_eq_nil_iff, codeMembers, fieldMembers, fieldMember]
      intro m k _ hm
      rcases hm with rfl | rfl | ⟨f, _, rfl⟩ | rfl <;> rfl
    rw [this]; rfl
  | interface u ms =>
    by_cases hcpp : u.targets.contains "cpp" = true
    · simp only [Decl.typesAll, List.all_eq_true, Bool.and_eq_true] at htab
      simp only [hcpp, if_true, javaMembers, nativesOf_append, nativesOf_proxy,
        nativesOf_map_nonnative (methodMember jc _ _) ms (fun _ => rfl), nativesOf_map_native (nativeMember jc _ _) ms (fun _ => rfl),
        List.nil_append, List.map_cons, List.map_append, List.map_map, List.map_nil, List.singleton_append]
      congr 1
      · simp [Export.view, JMember.nativeView, JMember.symbol, nativeSymbolL_suffix, mangle_proxy_cleanup, mangle_nativeDestroy,
          String.append_assoc, jniCTypeO, jniCType, jlong]
      · apply List.map_congr_left
        intro m hm
        have hm' := htab m hm
        have hret := jniReturnTypeSpec_eq jc hp m.ret m.isAsync (by intro r hr; simpa [hr] using hm'.2)
        have hps := exportParams_eq jc hp m.params hm'.1
        simp only [Function.comp_def, Export.view, JMember.nativeView, JMember.symbol, nativeMember, nativeSymbolL_suffix, mangle_proxy,
          hret, hps, lit_proxy]
        by_cases hst : m.isStatic = true
        · simp [hst]
        · have hst' : m.isStatic = false := by simpa using hst
          simp [hst', jniCType, jlong]
    · have hc' : ¬ ("cpp" ∈ u.targets) := by simpa using hcpp
      simp [javaMembers, hc', nativesOf_map_nonnative (methodMember jc _ _) ms (fun _ => rfl)]
  | function u a ps r t =>
    by_cases hcpp : u.targets.contains "cpp" = true
    · simp only [Decl.typesAll, Bool.and_eq_true] at htab
      have hret := jniReturnTypeSpec_eq jc hp r false (by intro r' hr; simpa [hr] using htab.2)
      have hps := exportParams_eq jc hp ps htab.1
      have hnat : nativesOf (javaMembers jc (.function u a ps r t)) =
          [{ pkg := javaClassPkg jc (.function u a ps r t), cname := javaClassSimple jc (.function u a ps r t) ++ "CppProxy" ++ "$CleanupTask",
             kind := "method", name := "nativeDestroy", isStatic := false, isNative := true, params := [jlong], ret := none },
           { pkg := javaClassPkg jc (.function u a ps r t), cname := javaClassSimple jc (.function u a ps r t) ++ "CppProxy",
             kind := "method", name := "nativeInvoke", isStatic := false, isNative := true, params := jlong :: paramJTs jc ps, ret := javaRetJT jc r false }] := by
        have : "cpp" ∈ u.targets := by simpa using hcpp
        simp [javaMembers, this, nativesOf, proxyMembers]
      rw [hnat]
      simp only [hcpp, if_true, List.map_cons, List.map_nil, Export.view, JMember.nativeView, JMember.symbol]
      rw [String.append_assoc (s₂ := "CppProxy"), nativeSymbolL_suffix, nativeSymbolL_suffix]
      have e1 : "CppProxy" ++ "$CleanupTask" = "CppProxy$CleanupTask" := by decide
      simp [e1, mangle_fnproxy, mangle_fnproxy_cleanup, mangle_nativeDestroy, mangle_nativeInvoke, hret, hps, jniCTypeO, jniCType, jlong,
        String.append_assoc, lit_fn1, lit_fn2]
    · have hc' : ¬ ("cpp" ∈ u.targets) := by simpa using hcpp
      simp [javaMembers, hc', nativesOf]


/-- **natives_exported_once** — the exported symbols are exactly (one for one, in order) the JNI symbols of the native methods -/
theorem natives_exported_once (jc : JavaCfg) (c : JniCfg) (d : Decl) (h : Dom jc c d) (hp : pkgOk jc) :
    (jniExports jc c d).map (·.symbol) = (nativesOf (javaMembers jc d)).map (·.symbol) := by
  have := congrArg (List.map (fun v : String × String × String × List String => v.1)) (exports_are_natives jc c d h hp)
  simpa [List.map_map, Function.comp_def, Export.view, JMember.nativeView] using this

theorem count_eq_one_of_nodup (l : List String) (h : l.Nodup) (a : String) (ha : a ∈ l) : l.count a = 1 := by
  induction l with
  | nil => simp at ha
  | cons x xs ih =>
    rw [List.nodup_cons] at h
    by_cases hx : x = a
    · subst hx
      have : xs.count x = 0 := List.count_eq_zero.mpr h.1
      simp [this]
    · have hx' : (x == a) = false := by simpa using hx
      have : a ∈ xs := by
        rcases List.mem_cons.mp ha with e | e
        · exact absurd e.symm hx
        · exact e
      simp [List.count_cons, hx', ih h.2 this]

/-- … so when distinct native methods have distinct symbols (the JNI escaping is injective; it holds whenever the converted
    method names of an interface are distinct) every native method has exactly one export -/
theorem natives_exported_exactly_once (jc : JavaCfg) (c : JniCfg) (d : Decl) (h : Dom jc c d) (hp : pkgOk jc)
    (hnd : ((nativesOf (javaMembers jc d)).map (·.symbol)).Nodup) :
    ∀ m ∈ nativesOf (javaMembers jc d), ((jniExports jc c d).map (·.symbol)).count m.symbol = 1 := by
  intro m hm
  rw [natives_exported_once jc c d h hp]
  exact count_eq_one_of_nodup _ hnd _ (List.mem_map.mpr ⟨m, hm, rfl⟩)

/-- **c_types_correspond** — C result, receiver and parameter types of the i-th export are the JNI types of the i-th native method -/
theorem c_types_correspond (jc : JavaCfg) (c : JniCfg) (d : Decl) (h : Dom jc c d) (hp : pkgOk jc) :
    (jniExports jc c d).map (fun e => (e.ret, e.recv, e.params)) =
      (nativesOf (javaMembers jc d)).map (fun m => (jniCTypeO m.ret, (if m.isStatic then "jclass" else "jobject"), m.params.map jniCType)) := by
  have := congrArg (List.map (fun v : String × String × String × List String => v.2)) (exports_are_natives jc c d h hp)
  simpa [List.map_map, Function.comp_def, Export.view, JMember.nativeView] using this


/-! ### support classes of asynchronous methods; call histories on one `API` object -/

theorem mangle_cleanup : mangle "$CleanupTask" = "_00024CleanupTask" := by decide
theorem mangle_nativeRun : mangle "nativeRun" = "nativeRun" := by decide
theorem mangle_nativeSuccess : mangle "nativeSuccess" = "nativeSuccess" := by decide
theorem mangle_nativeException : mangle "nativeException" = "nativeException" := by decide
theorem lit_cleanup (p : String) : p ++ "_00024CleanupTask_nativeDestroy" = p ++ ("_00024CleanupTask" ++ ("_" ++ "nativeDestroy")) := by
  have : "_00024CleanupTask_nativeDestroy" = "_00024CleanupTask" ++ ("_" ++ "nativeDestroy") := by decide
  rw [this]
theorem lit_run (p : String) : p ++ "_nativeRun" = p ++ ("_" ++ "nativeRun") := by
  have : "_nativeRun" = "_" ++ "nativeRun" := by decide
  rw [this]
theorem lit_success (p : String) : p ++ "_nativeSuccess" = p ++ ("_" ++ "nativeSuccess") := by
  have : "_nativeSuccess" = "_" ++ "nativeSuccess" := by decide
  rw [this]
theorem lit_exception (p : String) : p ++ "_nativeException" = p ++ ("_" ++ "nativeException") := by
  have : "_nativeException" = "_" ++ "nativeException" := by decide
  rw [this]

/-- **support_lookups_resolve** — the classes / constructor / field the glue of `NativeRunnable` and `NativeCompletion` looks up
    exist in the support classes the Java generator writes, for every `java.package` / `java.support_types_package` -/
theorem support_lookups_resolve (jc : JavaCfg) (r k : Bool) :
    (supportLookups jc r k).all (okIn (supportClasses jc r k) (supportMembers jc r k)) = true := by
  have hR : r = true → (proxyLookups (supportJniClass jc "NativeRunnable")).all (okIn (supportClasses jc r k) (supportMembers jc r k)) = true := by
    intro hr
    exact proxyLookups_ok (javaSupportPackage jc) "NativeRunnable" _ _ (by simp [supportClasses, hr])
      (by intro m hm; simp only [supportMembers, hr, if_true, List.mem_append]; exact Or.inl (Or.inl hm))
  have hK : k = true → (proxyLookups (supportJniClass jc "NativeCompletion")).all (okIn (supportClasses jc r k) (supportMembers jc r k)) = true := by
    intro hk
    exact proxyLookups_ok (javaSupportPackage jc) "NativeCompletion" _ _ (by simp [supportClasses, hk])
      (by intro m hm; simp only [supportMembers, hk, if_true, List.mem_append]; exact Or.inr (Or.inl hm))
  cases r <;> cases k <;> simp [supportLookups, List.all_append] <;> simp_all

theorem sym_cleanup (pkg : List String) (cn : String) :
    nativeSymbolL (pkg ++ [cn ++ "$CleanupTask"]) "nativeDestroy" = jniPrefix (pkg ++ [cn]) ++ "_00024CleanupTask_nativeDestroy" := by
  rw [nativeSymbolL_suffix, mangle_cleanup, mangle_nativeDestroy, lit_cleanup, String.append_assoc, String.append_assoc]
theorem sym_run (pkg : List String) (cn : String) : nativeSymbolL (pkg ++ [cn]) "nativeRun" = jniPrefix (pkg ++ [cn]) ++ "_nativeRun" := by
  rw [nativeSymbolL_plain, mangle_nativeRun, String.append_assoc, ← lit_run]
theorem sym_success (pkg : List String) (cn : String) : nativeSymbolL (pkg ++ [cn]) "nativeSuccess" = jniPrefix (pkg ++ [cn]) ++ "_nativeSuccess" := by
  rw [nativeSymbolL_plain, mangle_nativeSuccess, String.append_assoc, ← lit_success]
theorem sym_exception (pkg : List String) (cn : String) : nativeSymbolL (pkg ++ [cn]) "nativeException" = jniPrefix (pkg ++ [cn]) ++ "_nativeException" := by
  rw [nativeSymbolL_plain, mangle_nativeException, String.append_assoc, ← lit_exception]

theorem ctype_object : jniCType jObject = "jobject" := by decide
theorem ctype_throwable : jniCType jThrowable = "jthrowable" := by decide
theorem ctype_long : jniCType jlong = "jlong" := by decide

theorem nativesOf_cons_native (m : JMember) (ms : List JMember) (h : m.isNative = true) : nativesOf (m :: ms) = m :: nativesOf ms := by
  simp [nativesOf, h]

/-- **support_exports_are_natives** — the `JNIEXPORT` functions of `schedule.cpp` / `completion.cpp` are one for one the native
    methods of the Java support classes: escaped symbol of the package the Java generator wrote them to, C types of the signature -/
theorem support_exports_are_natives (jc : JavaCfg) (r k : Bool) :
    (supportExports jc r k).map Export.view = (nativesOf (supportMembers jc r k)).map JMember.nativeView := by
  have hj : jniSupportPackage jc = javaSupportPackage jc := rfl
  have hnil : nativesOf [] = [] := rfl
  cases r <;> cases k <;>
    simp only [supportExports, supportMembers, hj, if_true, if_false, Bool.false_eq_true, List.append_nil, List.nil_append, nativesOf_append,
      nativesOf_proxy, nativesOf_cons_native, hnil, List.map_append, List.map_cons, List.map_nil, Export.view, JMember.nativeView,
      JMember.symbol, sym_cleanup, sym_run, sym_success, sym_exception, jniCTypeO, ctype_object, ctype_throwable, ctype_long,
      List.cons_append]

theorem okIn_mono2 (cs cs' : List String) (ms ms' : List JMember) (l : Lookup) (hc : ∀ c ∈ cs, c ∈ cs') (hm : ∀ m ∈ ms, m ∈ ms')
    (hok : okIn cs ms l = true) : okIn cs' ms' l = true := by
  unfold okIn at *
  by_cases hk : (l.kind == "class") = true
  · simp only [hk, if_true, List.contains_iff_mem] at hok ⊢
    exact hc _ hok
  · simp only [hk, Bool.false_eq_true, if_false, List.any_eq_true] at hok ⊢
    obtain ⟨m, hm', hmm⟩ := hok
    exact ⟨m, hm m hm', hmm⟩

/-- **history_free** — the output of every round of a call history on one `API` object is the output of a fresh object for that
    round's configuration and program: `configure` replaces what the generator instances hold, nothing derived from an earlier
    configuration survives -/
theorem history_free (s : GenState) (rs : List Round) : runHistory s rs = rs.map freshRound := by
  induction rs generalizing s with
  | nil => rfl
  | cons r rs ih => simp [runHistory, ih, freshRound, GenState.configure]

theorem map_flatMap' {α β γ : Type} (f : α → List β) (g : β → γ) (l : List α) : (l.flatMap f).map g = l.flatMap (fun a => (f a).map g) := by
  induction l with
  | nil => rfl
  | cons a as ih => simp [List.flatMap_cons, ih]

theorem nativesOf_flatMap {α : Type} (f : α → List JMember) (l : List α) : nativesOf (l.flatMap f) = l.flatMap (fun a => nativesOf (f a)) := by
  induction l with
  | nil => rfl
  | cons a as ih => simp [List.flatMap_cons, nativesOf_append, ih]

/-- one round: every lookup of the whole output (declarations and support classes) resolves in that round's Java -/
theorem round_lookups_resolve (r : Round) (hd : ∀ d ∈ r.decls, Dom r.jc r.c d) :
    (freshRound r).lookups.all (okIn (freshRound r).classes (freshRound r).members) = true := by
  simp only [freshRound, GenState.generate, List.all_append, Bool.and_eq_true, List.all_eq_true]
  constructor
  · intro l hl
    obtain ⟨d, hdm, hld⟩ := List.mem_flatMap.mp hl
    have := lookups_resolve r.jc r.c d (hd d hdm)
    simp only [List.all_eq_true] at this
    have hok := this l hld
    rw [lookupOk_eq] at hok
    exact okIn_mono2 _ _ _ _ l (fun c hc => List.mem_append_left _ (List.mem_flatMap.mpr ⟨d, hdm, hc⟩))
      (fun m hm => List.mem_append_left _ (List.mem_flatMap.mpr ⟨d, hdm, hm⟩)) hok
  · intro l hl
    have := support_lookups_resolve r.jc (asyncOn "cpp" r.decls) (asyncOn "java" r.decls)
    simp only [List.all_eq_true] at this
    exact okIn_mono2 _ _ _ _ l (fun c hc => List.mem_append_right _ hc) (fun m hm => List.mem_append_right _ hm) (this l hl)

/-- one round: the exports of the whole output are one for one the native methods of that round's Java -/
theorem round_exports_are_natives (r : Round) (hd : ∀ d ∈ r.decls, Dom r.jc r.c d) (hp : pkgOk r.jc) :
    (freshRound r).exports.map Export.view = (nativesOf (freshRound r).members).map JMember.nativeView := by
  simp only [freshRound, GenState.generate, List.map_append, nativesOf_append, support_exports_are_natives, nativesOf_flatMap, map_flatMap']
  congr 1
  have : ∀ (l : List Decl), (∀ d ∈ l, Dom r.jc r.c d) →
      l.flatMap (fun a => (jniExports r.jc r.c a).map Export.view) = l.flatMap (fun a => (nativesOf (javaMembers r.jc a)).map JMember.nativeView) := by
    intro l
    induction l with
    | nil => intro _; rfl
    | cons a as ih =>
      intro h
      simp only [List.flatMap_cons]
      rw [exports_are_natives r.jc r.c a (h a (by simp)) hp, ih (fun d hd' => h d (by simp [hd']))]
  exact this r.decls hd

/-- **history_rounds_agree** — for every call history on one `API` object (any number of rounds, any configurations and programs
    inside the domain) and every round of it: all lookups of that round's glue resolve in that round's generated Java, and the
    round's exports are one for one the native methods of that round's Java -/
theorem history_rounds_agree (s : GenState) (rs : List Round) (hd : ∀ r ∈ rs, ∀ d ∈ r.decls, Dom r.jc r.c d) (hp : ∀ r ∈ rs, pkgOk r.jc) :
    ∀ o ∈ runHistory s rs, o.lookups.all (okIn o.classes o.members) = true ∧
      o.exports.map Export.view = (nativesOf o.members).map JMember.nativeView := by
  rw [history_free]
  intro o ho
  obtain ⟨r, hr, rfl⟩ := List.mem_map.mp ho
  exact ⟨round_lookups_resolve r (hd r hr), round_exports_are_natives r (hd r hr) (hp r hr)⟩

/-! satisfiability of the hypotheses, on a concrete interface (`i = interface +cpp { static make(x: i32?) -> i; do_it(); }`) -/
def exI32 : Builtin :=
  { name := "i32", prim := .primitive, cppTypename := "int32_t", cppHeader := "<cstdint>", cppByValue := true, javaTypename := "int", javaBoxed := "Integer",
    javaReference := false, javaJ := .prim "int", javaBoxedJ := .cls ["java", "lang"] "Integer" [], jniTranslator := "::pydjinni::jni::translator::I32",
    jniTypename := "jint", jniSig := "I", jniBoxedSig := "Ljava/lang/Integer;", objcTypename := "int32_t", objcBoxed := "NSNumber", objcPointer := false,
    cliTypename := "int", cliTranslator := "::pydjinni::cppcli::translator::I32", cliReference := false }
def exJc : JavaCfg :=
  { package := ["com", "ex"], tyStyle := { case := .pascal }, fieldStyle := { case := .camel }, methodStyle := { case := .camel }, enumStyle := { case := .train },
    packageStyle := { case := .snake }, nullable := none, nonnull := none, classPublic := true, useFinal := true, supportPackage := ["pydjinni"] }
def exC : JniCfg :=
  { ns := ["j"], fileStyle := { case := .snake }, classStyle := { case := .pascal }, enumStyle := { case := .train }, fieldStyle := { case := .camel },
    methodStyle := { case := .camel }, nsStyle := { case := .pascal }, headerExt := "hpp" }
def exU : UInfo := { name := "i", ns := [], prim := .interface, targets := ["cpp"] }
def exD : Decl := .interface exU
  [{ name := "make", params := [{ name := "x", ty := .mk (.builtin exI32) [] true }], ret := some (.mk (.user exU) [] false), isStatic := true, isConst := false, isAsync := false, throwing := none },
   { name := "do_it", params := [], ret := none, isStatic := false, isConst := false, isAsync := false, throwing := none }]

example : (jniExports exJc exC exD).map (·.symbol) =
    ["Java_com_ex_I_00024CppProxy_00024CleanupTask_nativeDestroy", "Java_com_ex_I_00024CppProxy_make", "Java_com_ex_I_00024CppProxy_native_1doIt"] := by
  decide +kernel
example : exD.wf = true ∧ jniClassNameIsJavaName exJc exC exD = true ∧ noJavaBaseRecord exD = true ∧ staticOnlyOnCppInterfaces exD = true ∧
    exD.typesAll (fun t => t.def'.builtinsAll Builtin.jniOK) = true := by decide +kernel
example : (jniExports exJc exC exD).map (fun e => (e.ret, e.recv, e.params)) =
    [("void", "jobject", ["jlong"]), ("jobject", "jclass", ["jobject"]), ("void", "jobject", ["jlong"])] := by decide +kernel


/-! a history of two rounds with an asynchronous method and different packages: the second round registers / exports the second package -/
def exAsyncD : Decl := .interface exU
  [{ name := "go", params := [], ret := some (.mk (.builtin exI32) [] false), isStatic := false, isConst := false, isAsync := true, throwing := none }]
def exJc2 : JavaCfg := { exJc with
  package := ["org", "other"],
  supportPackage := ["internal", "sup"] }
example : ((runHistory { jc := exJc, c := exC } [{ jc := exJc, c := exC, decls := [exAsyncD] }, { jc := exJc2, c := exC, decls := [exAsyncD] }]).map
    (fun o => (o.lookups.filter (fun l => l.kind == "class" && l.cls != "com/ex/I$CppProxy" && l.cls != "org/other/I$CppProxy")).map (·.cls))) =
    [["com/ex/pydjinni/NativeRunnable"], ["org/other/internal/sup/NativeRunnable"]] := by decide +kernel
example : (supportExports exJc2 true false).map (·.symbol) =
    ["Java_org_other_internal_sup_NativeRunnable_00024CleanupTask_nativeDestroy", "Java_org_other_internal_sup_NativeRunnable_nativeRun"] := by decide +kernel
example : Dom exJc exC exAsyncD ∧ pkgOk exJc2 := by
  refine ⟨⟨by decide +kernel, by decide +kernel, by decide +kernel, by decide +kernel, by decide +kernel⟩, by unfold pkgOk; decide +kernel⟩

end Pydjinni.Gen
