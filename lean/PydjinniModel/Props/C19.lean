import PydjinniModel.Sys.Cli
import PydjinniModel.Props.C17
/-!
# C19 — CLI exit status follows the documented return-code table; CLI equals API

* `exit_zero_iff`, `exit_code_is_first_failure`   the exit status of a run is 0 exactly when no stage raised; otherwise it is the
                                  handler's status for the **first** stage that raised, and the effects are exactly those of the
                                  stages before it (any number of `-o`, any target list)
* `handler_app`, `handler_list_first`           a documented error leaves with its own code; a list with the code of its first item
* `never_traceback_partial`       on the domain `cliDom` (outside the listed configuration holes, parameters deliver documented
                                  exception classes) no invocation ends in a traceback — composed from the C17 theorems
                                  `configure_fails_cleanly_partial` and `generate_fails_cleanly_partial`, not assumed
* `never_traceback_counterexample`  the hole is real
* `cli_eq_api`                    for a well-formed command line with known target names (and no failing debug dump of the AST) the CLI runs exactly the stages of the
                                  documented API sequence on the options dict its `-o` texts denote: same exit status / first
                                  exception, same effects
* `cli_unlisted_target_generates_nothing`   where they differ: the CLI looks up all target names before generating any
* `front_recorded_error_reported`, `front_syntax_error_exit`   once the lexer / parser (or the visitor) has recorded an error, **no**
                                  failure class of the visitor on the recovered tree changes the verdict: the front end ends with
                                  the list of recorded errors, and the command line with the code of the first one, no traceback
* `malformed_config_exit`, `config_directory_or_missing_exit`   a configuration file that the decoder of its format refuses (syntax
                                  error, bytes that are no text, a document that is no mapping) ends the command line with 141, no
                                  traceback — for every format and whatever options, IDL and targets; a directory likewise, a missing file with 2
* `unencodable_option_exit`, `overridden_file_text_configures`   a `-o` text that is not valid Unicode (undecodable byte of `argv`) ends
                                  the command line with 141 whatever the file holds; a text of the file that an option replaces does not count
* `front_crash_only_unrecorded`   the front end's verdict is an undocumented exception only if reading the file, or the visitor on a
                                  tree without any recorded error, or a phase after it failed with a class the outer clauses do not know
-/
namespace Pydjinni.Sys

theorem handler_app (c : Nat) : handler (.app c) = ⟨c, false⟩ := rfl
theorem handler_list_first (c : Nat) (cs : List Nat) : handler (.appList (c :: cs)) = ⟨c, false⟩ := rfl
theorem handler_usage : handler .usage = ⟨2, false⟩ := rfl

def allOk (l : List Stage) : Prop := ∀ s ∈ l, s.result = .ok

theorem exitOf_allOk (l : List Stage) (h : allOk l) : exitOf l = ⟨0, false⟩ ∧ eventsOf l = l.flatMap (·.events) := by
  induction l with
  | nil => simp [exitOf, eventsOf]
  | cons s l ih =>
    have hs : s.result = .ok := h s (by simp)
    have := ih (fun x hx => h x (by simp [hx]))
    simp [exitOf, eventsOf, hs, this]

/-- the exit status and the effects are those of the first stage that raised -/
theorem exit_code_is_first_failure (l : List Stage) :
    (allOk l ∧ exitOf l = ⟨0, false⟩ ∧ eventsOf l = l.flatMap (·.events))
    ∨ ∃ pre s post r, l = pre ++ s :: post ∧ allOk pre ∧ s.result = .raised r
        ∧ exitOf l = handler r ∧ eventsOf l = pre.flatMap (·.events) := by
  induction l with
  | nil => left; simp [allOk, exitOf, eventsOf]
  | cons s l ih =>
    cases hs : s.result with
    | raised r =>
      right
      exact ⟨[], s, l, r, rfl, by simp [allOk], hs, by simp [exitOf, hs], by simp [eventsOf, hs]⟩
    | ok =>
      rcases ih with ⟨hall, he, hv⟩ | ⟨pre, s', post, r, hl, hpre, hr, he, hv⟩
      · left
        refine ⟨?_, by simp [exitOf, hs, he], by simp [eventsOf, hs, hv]⟩
        intro x hx
        simp only [List.mem_cons] at hx
        rcases hx with rfl | hx
        · exact hs
        · exact hall x hx
      · right
        refine ⟨s :: pre, s', post, r, by simp [hl], ?_, hr, by simp [exitOf, hs, he], by simp [eventsOf, hs, hv]⟩
        intro x hx
        simp only [List.mem_cons] at hx
        rcases hx with rfl | hx
        · exact hs
        · exact hpre x hx

/-- a handler status is never 0 for a documented code: exit 0 means that no stage raised -/
theorem exit_zero_iff (l : List Stage) (hcodes : ∀ s ∈ l, ∀ r, s.result = .raised r → (handler r).code ≠ 0) :
    (exitOf l).code = 0 ↔ allOk l := by
  constructor
  · intro h
    rcases exit_code_is_first_failure l with ⟨hall, _, _⟩ | ⟨pre, s, post, r, hl, _, hr, he, _⟩
    · exact hall
    · rw [he] at h
      exact absurd h (hcodes s (by simp [hl]) r hr)
  · intro h; simp [(exitOf_allOk l h).1]

theorem exitOf_no_traceback (l : List Stage) (h : ∀ s ∈ l, s.result.documented = true) : (exitOf l).traceback = false := by
  induction l with
  | nil => rfl
  | cons s l ih =>
    have hs := h s (by simp)
    cases hr : s.result with
    | ok => simp only [exitOf, hr]; exact ih (fun x hx => h x (by simp [hx]))
    | raised r =>
      simp only [exitOf, hr]
      rw [hr] at hs
      cases r with
      | app c => rfl
      | appList cs => cases cs <;> simp_all [handler, StageResult.documented, Raised.documented]
      | usage => rfl
      | other c => simp [StageResult.documented, Raised.documented] at hs

theorem ofOutcome_documented {α} (o : Outcome α) (h : o.isCrash = false) : (ofOutcome o).documented = true := by
  cases o <;> simp_all [ofOutcome, StageResult.documented, Raised.documented, Outcome.isCrash]

theorem configure_not_crash (validate : Validate) (env dotenv : Kids) (file : FileState) (options : Kids)
    (hd : cfgDom file = true) : (configure validate env dotenv file options).isCrash = false := by
  rcases configure_fails_cleanly_partial validate env dotenv file options hd with ⟨t, h, _⟩ | h | ⟨h, _⟩ <;> simp [h, Outcome.isCrash]

theorem parseReady_not_crash (gs : GenSet) : (parseReady gs).isCrash = false := by
  cases gs with
  | none => rfl
  | some set => simp only [parseReady]; split <;> rfl

theorem configureOutcome_not_crash (inv : Invocation) (w : World) (hd : cfgDom inv.config = true) :
    (configureOutcome inv w).isCrash = false := by
  unfold configureOutcome
  split
  · rfl
  · exact configure_not_crash _ _ _ _ _ hd

theorem readyOutcome_not_crash (inv : Invocation) (w : World) (hd : cfgDom inv.config = true) :
    (readyOutcome inv w).isCrash = false := by
  have h := configureOutcome_not_crash inv w hd
  unfold readyOutcome readyOf
  split
  · exact parseReady_not_crash _
  · rfl
  · rename_i s hc; rw [hc] at h; simp [Outcome.isCrash] at h

theorem generateStage_documented (cts : List TargetDef) (w : World) (clean : Bool) (t : String)
    (hr : readyDom cts w.kinds t = true) (hg : (match w.genFail t with | some r => r.documented | none => true) = true) :
    (generateStage cts w clean t).result.documented = true := by
  have h := generate_fails_cleanly_partial cts w.kinds t hr
  unfold generateStage
  split
  · split
    · rename_i r hf; rw [hf] at hg; simpa [StageResult.documented] using hg
    · rfl
  · rfl
  · rename_i s hc; rw [hc] at h; simp [Outcome.isCrash] at h

/-- **never a traceback** on the domain: the configuration stays outside the listed C17 holes and the parameters (front
end, generators) deliver documented exception classes. Full statement (all invocations) fails on the pinned tree exactly at the
findings `config:non-string-key` and `readiness:glue-without-cpp`. -/
theorem never_traceback_partial (inv : Invocation) (w : World) (hdom : cliDom inv w = true) :
    (exitOf (cliStages inv w)).traceback = false := by
  apply exitOf_no_traceback
  simp only [cliDom, Bool.and_eq_true] at hdom
  obtain ⟨⟨⟨⟨hcfg, hfront⟩, hdump⟩, hcmd⟩, hrep⟩ := hdom
  have hconf := ofOutcome_documented _ (configureOutcome_not_crash inv w hcfg)
  have hready := ofOutcome_documented _ (readyOutcome_not_crash inv w hcfg)
  have hopts : (match optionsStage inv with | .ok _ => StageResult.ok | .error _ => StageResult.raised (.app 141)).documented = true := by
    split <;> rfl
  have htop : (if inv.topOk then StageResult.ok else StageResult.raised .usage).documented = true := by split <;> rfl
  intro s hs
  unfold cliStages at hs
  cases hc : inv.command with
  | none =>
    simp only [hc, List.mem_cons, List.not_mem_nil, or_false] at hs
    rcases hs with rfl | rfl
    · exact htop
    · rfl
  | unknown =>
    simp only [hc, List.mem_cons, List.not_mem_nil, or_false] at hs
    rcases hs with rfl | rfl | rfl
    · exact htop
    · rfl
    · rfl
  | generate argsOk clean targets =>
    simp only [hc, List.all_eq_true, Bool.and_eq_true] at hcmd
    simp only [hc, List.cons_append, List.nil_append, List.mem_cons, List.mem_append, List.mem_map, List.not_mem_nil, or_false] at hs
    rcases hs with rfl | rfl | rfl | rfl | rfl | rfl | rfl | rfl | rfl | ⟨t, ht, rfl⟩ | rfl
    · exact htop
    · rfl
    · exact hopts
    · exact hconf
    · simp only; split <;> rfl
    · exact hready
    · exact hfront
    · simp only; split
      · exact hdump
      · rfl
    · simp only; split <;> rfl
    · exact generateStage_documented _ w clean t (hcmd t ht).1 (hcmd t ht).2
    · unfold reportStage
      split
      · rename_i r hr; rw [hr] at hrep; simpa [StageResult.documented] using hrep
      · rfl

/-- the hole is real: `--config None -o generate.java.out=o -o generate.java.package=a.b.c -o generate.jni.out=o
-o generate.jni.namespace=a::b generate x.djinni java` on an IDL with a record ends in a traceback (status 1) -/
theorem never_traceback_counterexample :
    ∃ inv w, w.front = .ok ∧ (exitOf (cliStages inv w)) = ⟨1, true⟩ := by
  refine ⟨{ topOk := true, options := [], config := .present .yaml (.mapping [("generate", .node [("java", .node []), ("jni", .node [])])]),
            command := .generate true false ["java"] },
          { validate := fun _ => true, env := [], dotenv := [], front := .ok, kinds := [.record], genFail := fun _ => none,
            reportConfigured := false }, rfl, ?_⟩
  have he : encodableKids [("generate", .node [("java", .node []), ("jni", .node [])])] = true := by decide
  simp [cliStages, exitOf, optionsStage, foldOptions, configureOutcome, configure, he, effective, combine, set, childKids, ofOutcome,
    readyOutcome, readyOf, ctsOf, genSetOf, lookup, keys, parseReady, configuredTargets, targetTable, configuredOf, generateStage, generateOutcome,
    needsCpp, readsCpp, cppReaders, allKinds, handler, exportReadsCpp, knownTarget]

/-! ### CLI = API -/

/-- a command line that click accepts as it stands -/
def wellFormed (inv : Invocation) : Prop :=
  inv.topOk = true ∧ ∃ clean targets, inv.command = .generate true clean targets ∧ targets ≠ [] ∧ targets.all knownTarget = true

/-- a stage that ends normally and has no effect -/
def Stage.silent (s : Stage) : Bool := decide (s.result = .ok) && s.events.isEmpty

/-- stages that end normally without effect can be inserted or removed anywhere without changing the run -/
theorem exitOf_filter (l : List Stage) : exitOf (l.filter (fun s => !s.silent)) = exitOf l := by
  induction l with
  | nil => rfl
  | cons s l ih =>
    by_cases hs : s.silent = true
    · have hr : s.result = .ok := by
        simp only [Stage.silent, Bool.and_eq_true, decide_eq_true_eq] at hs; exact hs.1
      rw [List.filter_cons_of_neg (by simp [hs])]
      simp [exitOf, hr, ih]
    · rw [List.filter_cons_of_pos (by simp [hs])]
      cases hr : s.result with
      | ok => simp [exitOf, hr, ih]
      | raised r => simp [exitOf, hr]

theorem eventsOf_filter (l : List Stage) : eventsOf (l.filter (fun s => !s.silent)) = eventsOf l := by
  induction l with
  | nil => rfl
  | cons s l ih =>
    by_cases hs : s.silent = true
    · have hr : s.result = .ok ∧ s.events = [] := by
        simp only [Stage.silent, Bool.and_eq_true, decide_eq_true_eq, List.isEmpty_iff] at hs; exact hs
      rw [List.filter_cons_of_neg (by simp [hs])]
      simp [eventsOf, hr.1, hr.2, ih]
    · rw [List.filter_cons_of_pos (by simp [hs])]
      cases hr : s.result with
      | ok => simp [eventsOf, hr, ih]
      | raised r => simp [eventsOf, hr]

theorem firstRaised_exit (l : List Stage) : exitOf l = match firstRaised l with | some r => handler r | none => ⟨0, false⟩ := by
  induction l with
  | nil => rfl
  | cons s l ih => cases hs : s.result <;> simp [exitOf, firstRaised, hs, ih]

/-- **CLI equals API** for well-formed command lines whose `-o` texts parse: apart from stages that end normally without
effect (argument handling, name lookup) the command line runs exactly the stages of the documented call sequence on the folded
options dict — hence the same first exception (exit status = its documented code) and the same effects -/
theorem cli_eq_api (inv : Invocation) (w : World) (clean : Bool) (targets : List String) (opts : Kids)
    (htop : inv.topOk = true) (hcmd : inv.command = .generate true clean targets) (hne : targets ≠ [])
    (hknown : targets.all knownTarget = true) (hopts : foldOptions inv.options [] = .ok opts)
    (hdump : (if inv.debug then w.astDump else .ok) = .ok) :
    exitOf (cliStages inv w) = exitOf (apiStages inv.config opts clean targets w)
    ∧ eventsOf (cliStages inv w) = eventsOf (apiStages inv.config opts clean targets w) := by
  have hne' : targets.isEmpty = false := by cases targets <;> simp_all
  have hconf : configureOutcome inv w = configure w.validate w.env w.dotenv inv.config opts := by
    simp [configureOutcome, optionsStage, hopts]
  have hstages : (cliStages inv w).filter (fun s => !s.silent) = (apiStages inv.config opts clean targets w).filter (fun s => !s.silent) := by
    unfold cliStages apiStages
    simp only [hcmd, htop, hne', hknown, optionsStage, hopts, if_true, Bool.not_false, Bool.and_self, hconf, readyOutcome, configuredOf, hdump]
    simp [List.filter_cons, Stage.silent]
  constructor
  · rw [← exitOf_filter, hstages, exitOf_filter]
  · rw [← eventsOf_filter, hstages, eventsOf_filter]

/-- where the two differ: the command line looks up **all** target names before it generates anything, so an unknown name
anywhere in the list means status 2 and no output at all (the API sequence would have generated the targets before it) -/
theorem cli_unlisted_target_generates_nothing (inv : Invocation) (w : World) (clean : Bool) (targets : List String)
    (hcmd : inv.command = .generate true clean targets) (hunknown : targets.all knownTarget = false) :
    eventsOf (cliStages inv w) = [] := by
  have key : ∀ (pre : List Stage) (rest : List Stage), (∀ s ∈ pre, s.events = []) →
      eventsOf (pre ++ ({ result := .raised .usage } : Stage) :: rest) = [] := by
    intro pre rest hpre
    induction pre with
    | nil => simp [eventsOf]
    | cons s pre ih =>
      have hs := hpre s (by simp)
      have := ih (fun x hx => hpre x (by simp [hx]))
      simp only [List.cons_append, eventsOf]
      split
      · simp [hs, this]
      · rfl
  unfold cliStages
  simp only [hcmd, hunknown]
  exact key [_, _, _, _, _, _, _, _] _ (by intro s hs; simp at hs; rcases hs with rfl | rfl | rfl | rfl | rfl | rfl | rfl | rfl <;> rfl)

/-! ### the front end after a syntax error -/

/-- with a recorded error, whatever exception class the visitor fails with on the recovered tree (`cls` is universally
quantified: `AttributeError` on a missing node, a pydantic `ValidationError` on a half-built declaration, `OSError` on a
swallowed path, …) the verdict is the list of recorded errors -/
theorem front_recorded_error_reported (f : FrontRun) (c : Nat) (cs : List Nat) (hread : f.read = none)
    (hrec : f.recorded = c :: cs) (hvisit : ∀ code, f.visit ≠ .app code) (hpost : f.post = .done) :
    frontOf f = .raised (.appList (c :: cs ++ f.later)) := by
  unfold frontOf
  rw [hread]
  have hne : f.recorded.isEmpty = false := by rw [hrec]; rfl
  have hafter : afterVisit f = .raised (.appList (c :: cs ++ f.later)) := by
    simp [afterVisit, hpost, listOrOk, hrec]
  cases hv : f.visit with
  | done => simpa using hafter
  | app code => exact absurd hv (hvisit code)
  | failed cls => simp [hne, hafter]

/-- … and the command line ends with the documented code of the first recorded error, without a traceback, provided the
stages before the front end passed -/
theorem front_syntax_error_exit (inv : Invocation) (w : World) (f : FrontRun) (c : Nat) (cs : List Nat) (clean : Bool)
    (targets : List String) (opts t : Kids) (cts : List TargetDef)
    (htop : inv.topOk = true) (hcmd : inv.command = .generate true clean targets) (hne : targets ≠ [])
    (hopts : optionsStage inv = .ok opts) (hconf : configureOutcome inv w = .ok t) (hready : readyOutcome inv w = .ok cts)
    (hfront : w.front = frontOf f)
    (hread : f.read = none) (hrec : f.recorded = c :: cs) (hvisit : ∀ code, f.visit ≠ .app code) (hpost : f.post = .done) :
    exitOf (cliStages inv w) = ⟨c, false⟩ := by
  have hne' : targets.isEmpty = false := by cases targets <;> simp_all
  have hf := front_recorded_error_reported f c cs hread hrec hvisit hpost
  unfold cliStages
  simp [hcmd, htop, hne', hopts, hconf, hready, hfront, hf, exitOf, ofOutcome, handler]

def Step.known : Step → Bool
  | .done => true
  | .app _ => true
  | .failed cls => cls == "FileNotFoundError" || cls == "IsADirectoryError" || cls == "UnicodeDecodeError" || cls == "RecursionError"

theorem outerHandler_documented (rec : List Nat) (cls : String) (h : (Step.failed cls).known = true) :
    (outerHandler rec cls).documented = true := by
  unfold outerHandler
  simp only [Step.known, Bool.or_eq_true, beq_iff_eq] at h
  split
  · rfl
  · split
    · cases rec <;> simp [StageResult.documented, Raised.documented]
    · rename_i h1 h2
      simp only [Bool.or_eq_true, beq_iff_eq] at h1 h2
      rcases h with ((h | h) | h) | h <;> simp_all

theorem listOrOk_documented (l : List Nat) : (listOrOk l).documented = true := by
  unfold listOrOk
  split
  · rfl
  · rename_i h; cases l <;> simp_all [StageResult.documented, Raised.documented]

/-- the verdict is an exception class `main` does not know **only if** reading failed with an unknown class, or a phase after the
visitor did, or the visitor failed with an unknown class although nothing had been recorded -/
theorem front_crash_only_unrecorded (f : FrontRun) (h : (frontOf f).documented = false) :
    (∃ cls, f.read = some cls ∧ (Step.failed cls).known = false) ∨ f.post.known = false
      ∨ (f.recorded = [] ∧ f.visit.known = false) := by
  have hafter : f.post.known = true → (afterVisit f).documented = true := by
    intro hp
    unfold afterVisit
    cases hpost : f.post with
    | done => exact listOrOk_documented _
    | app c => rfl
    | failed cls => rw [hpost] at hp; exact outerHandler_documented _ _ hp
  unfold frontOf at h
  cases hread : f.read with
  | some cls =>
    left
    refine ⟨cls, rfl, ?_⟩
    rw [hread] at h
    cases hk : (Step.failed cls).known with
    | false => rfl
    | true => simp [outerHandler_documented [] cls hk] at h
  | none =>
    right
    rw [hread] at h
    cases hpk : f.post.known with
    | false => left; rfl
    | true =>
      right
      have ha := hafter hpk
      cases hv : f.visit with
      | done => rw [hv] at h; simp [ha] at h
      | app c => rw [hv] at h; simp [StageResult.documented, Raised.documented] at h
      | failed cls =>
        rw [hv] at h
        cases hrec : f.recorded with
        | cons c cs => simp [hrec, ha] at h
        | nil =>
          refine ⟨rfl, ?_⟩
          cases hk : (Step.failed cls).known with
          | false => rfl
          | true => simp [hrec, outerHandler_documented [] cls hk] at h

/-! ### malformed configuration files, in every format -/

/-- what the decoder of the file's format refuses: a syntax error, bytes that are no text of the format, a document that is no mapping -/
def Content.refused : Content → Bool
  | .syntaxError => true
  | .undecodable => true
  | .nonMapping => true
  | _ => false

/-- a configuration file that its decoder refuses — **whatever the format** (YAML, YML, JSON, TOML, unknown suffix), whatever the
`-o` options (well-formed or not), the environment, the IDL, the targets — ends `pydjinni … generate …` with the configuration code
141 and without a traceback -/
theorem malformed_config_exit (inv : Invocation) (w : World) (sfx : Suffix) (c : Content) (argsOk clean : Bool) (targets : List String)
    (htop : inv.topOk = true) (hcmd : inv.command = .generate argsOk clean targets)
    (hcfg : inv.config = .present sfx c) (hc : c.refused = true) :
    exitOf (cliStages inv w) = ⟨141, false⟩ := by
  unfold cliStages
  simp only [hcmd, htop, if_true]
  cases ho : optionsStage inv with
  | error e => simp [exitOf, handler]
  | ok opts =>
    have hconf : configureOutcome inv w = .app 141 := by
      simp only [configureOutcome, ho, hcfg]
      cases c <;> cases sfx <;> simp_all [configure, Content.refused]
    simp [exitOf, hconf, ofOutcome, handler]

/-- … and so does a directory given as configuration file; a file that does not exist ends with 2 -/
theorem config_directory_or_missing_exit (inv : Invocation) (w : World) (argsOk clean : Bool) (targets : List String) (opts : Kids)
    (htop : inv.topOk = true) (hcmd : inv.command = .generate argsOk clean targets) (hopts : optionsStage inv = .ok opts) :
    (inv.config = .directory → exitOf (cliStages inv w) = ⟨141, false⟩)
    ∧ (inv.config = .missing → exitOf (cliStages inv w) = ⟨2, false⟩) := by
  constructor <;> intro hcfg <;> unfold cliStages <;>
    simp [hcmd, htop, hopts, exitOf, configureOutcome, hcfg, configure, ofOutcome, handler]

example : exitOf (cliStages { topOk := true, options := ["generate.cpp.out=o"], config := .present .toml .syntaxError, command := .generate true false ["cpp"] }
    { validate := fun _ => true, env := [], dotenv := [], front := .ok, kinds := [], genFail := fun _ => none, reportConfigured := false })
    = ⟨141, false⟩ := by
  apply malformed_config_exit _ _ .toml .syntaxError true false ["cpp"] rfl rfl rfl rfl

/-- the hypotheses are satisfiable, and the verdict does not depend on the visitor's failure class: `property : i32;`
(a syntax error, then a pydantic `ValidationError` in the visitor) and `@import "x` swallowing 300 characters (`OSError`) -/
example : frontOf { syntaxErrors := [150], visit := .failed "ValidationError" } = .raised (.appList [150])
    ∧ frontOf { syntaxErrors := [150, 150], visit := .failed "OSError", later := [170] } = .raised (.appList [150, 150, 170])
    ∧ frontOf { visitErrors := [2], visit := .failed "AttributeError" } = .raised (.appList [2])
    ∧ frontOf { visit := .failed "OSError" } = .raised (.other "OSError")
    ∧ frontOf { read := some "UnicodeDecodeError" } = .raised (.appList [150])
    ∧ frontOf { read := some "IsADirectoryError" } = .raised (.app 2) := by decide

/-- hypotheses of `cli_eq_api` and of `never_traceback_partial` are satisfiable: `-o generate.cpp.out=o generate x.djinni cpp` -/
example : ∃ inv w, wellFormed inv ∧ cliDom inv w = true ∧ exitOf (cliStages inv w) = ⟨0, false⟩
    ∧ eventsOf (cliStages inv w) = [.generated "cpp"] := by
  refine ⟨{ topOk := true, options := [], config := .present .yaml (.mapping [("generate", .node [("cpp", .node [])])]),
            command := .generate true false ["cpp"] },
          { validate := fun _ => true, env := [], dotenv := [], front := .ok, kinds := [.record], genFail := fun _ => none,
            reportConfigured := false }, ⟨rfl, false, ["cpp"], rfl, by simp, by decide⟩, ?_, ?_, ?_⟩
  all_goals have he : encodableKids [("generate", .node [("cpp", .node [])])] = true := by decide
  all_goals simp [he, cliDom, cfgDom, StageResult.documented, cliStages, exitOf, eventsOf, optionsStage, foldOptions, configureOutcome,
    configure, effective, combine, set, childKids, ofOutcome, readyOutcome, readyOf, ctsOf, genSetOf, lookup, keys, parseReady, configuredTargets, targetTable,
    configuredOf, generateStage, generateOutcome, needsCpp, readsCpp, cppReaders, allKinds, exportReadsCpp, readyDom,
    reportStage, knownTarget]

/-! ## multi-file projects and `-o` values -/

/-- A project whose import graph has a cycle or a dangling import ends with the documented code of that class (150 / 2), without
a traceback and without any output — whatever else is recorded afterwards —, provided the stages before the front end passed. -/
theorem project_failure_exit (inv : Invocation) (w : World) (c : ProjectClass) (more : List Nat) (clean : Bool)
    (targets : List String) (opts t : Kids) (cts : List TargetDef)
    (htop : inv.topOk = true) (hcmd : inv.command = .generate true clean targets) (hne : targets ≠ [])
    (hopts : optionsStage inv = .ok opts) (hconf : configureOutcome inv w = .ok t) (hready : readyOutcome inv w = .ok cts)
    (hfront : w.front = projectFront c more) (hc : c ≠ .valid) :
    specProject c (exitOf (cliStages inv w)) = true ∧ eventsOf (cliStages inv w) = [] := by
  have hne' : targets.isEmpty = false := by cases targets <;> simp_all
  unfold cliStages
  cases c with
  | valid => exact absurd rfl hc
  | cycle => simp [hcmd, htop, hne', hopts, hconf, hready, hfront, projectFront, exitOf, eventsOf, ofOutcome, handler, specProject, ProjectClass.code]
  | missingImport => simp [hcmd, htop, hne', hopts, hconf, hready, hfront, projectFront, exitOf, eventsOf, ofOutcome, handler, specProject, ProjectClass.code]

/-- A valid project passes the front end: the exit status is decided by the stages after it (0 when every requested generator runs). -/
theorem project_valid_passes_front (inv : Invocation) (w : World) (more : List Nat) (clean : Bool)
    (targets : List String) (opts t : Kids) (cts : List TargetDef)
    (htop : inv.topOk = true) (hcmd : inv.command = .generate true clean targets) (hne : targets ≠ [])
    (hopts : optionsStage inv = .ok opts) (hconf : configureOutcome inv w = .ok t) (hready : readyOutcome inv w = .ok cts)
    (hfront : w.front = projectFront .valid more) (hdebug : inv.debug = false) (hnames : targets.all knownTarget = true) :
    exitOf (cliStages inv w) = exitOf (targets.map (generateStage (configuredOf inv w) w clean) ++ [reportStage w]) := by
  have hne' : targets.isEmpty = false := by cases targets <;> simp_all
  unfold cliStages
  simp [hcmd, htop, hne', hopts, hconf, hready, hfront, projectFront, exitOf, ofOutcome, hdebug, hnames]

/-- **The value of `-o key=value` is everything after the first `=`**: whatever text the value is — further `=`, `:`, `,`, blanks,
`#`, quotes, any character — as long as it is not of the bracketed list form, the options stage yields exactly the assignment
`key := value` (so the command line is the API call with that options dictionary). Corollary of C17's `parseOption_render`. -/
theorem cli_option_value_verbatim (inv : Invocation) (p : List String) (v : String)
    (hp : optSafe (p, .str v) = true) (ho : inv.options = [renderOption (p, .str v)]) :
    optionsStage inv = .ok (insertLeaf [] (p, .str v)) := by
  unfold optionsStage
  rw [ho]
  have h := foldOptions_render [(p, Val.str v)] [] (by intro pv hpv; simp at hpv; subst hpv; exact hp)
  simpa [foldIns] using h

-- `-o generate.cpp.out=build/mode=debug/cpp`: key `generate.cpp.out`, value `build/mode=debug/cpp` (compiled evaluation: a test)
#guard (match parseOption "generate.cpp.out=build/mode=debug/cpp" with
  | .ok (p, .str v) => p == ["generate", "cpp", "out"] && v == "build/mode=debug/cpp"
  | _ => false)

/-! ### texts that are not valid Unicode in `-o` options (undecodable bytes of `argv`) -/

theorem foldOptions_wf (xs : List String) : ∀ (acc m : Kids), wf (.node acc) = true → foldOptions xs acc = .ok m → wf (.node m) = true := by
  induction xs with
  | nil => intro acc m hw h; simp only [foldOptions] at h; cases h; exact hw
  | cons s xs ih =>
    intro acc m hw h
    simp only [foldOptions] at h
    cases hp : parseOption s with
    | error e => rw [hp] at h; cases h
    | ok pv => rw [hp] at h; exact ih _ m (insertLeaf_wf acc pv hw) h

/-- **A `-o` value (or key) that is not valid Unicode — an undecodable byte on the command line arrives as a lone surrogate — ends the
command line with the configuration code 141 and without a traceback**, with any configuration file that decodes to a mapping or
without one (`--config None`), whatever the file, the other options, the environment, the IDL and the targets are: the options are a
source of the configuration like the file, and the check is made on the merge (C17 `configure_unencodable_options_refused`). -/
theorem unencodable_option_exit (inv : Invocation) (w : World) (sfx : Suffix) (b opts : Kids) (argsOk clean : Bool) (targets : List String)
    (htop : inv.topOk = true) (hcmd : inv.command = .generate argsOk clean targets)
    (hcfg : inv.config = .absent ∨ (inv.config = .present sfx (.mapping b) ∧ sfx ≠ .unknown))
    (hopts : optionsStage inv = .ok opts) (hbad : encodableKids opts = false) :
    exitOf (cliStages inv w) = ⟨141, false⟩ := by
  have hw : wf (.node opts) = true := foldOptions_wf inv.options [] opts (by simp [wf, wfKids, nodupKeys]) hopts
  have hconf : configureOutcome inv w = .app 141 := by
    simp only [configureOutcome, hopts]
    rcases hcfg with h | ⟨h, hs⟩
    · rw [h]; exact (configure_unencodable_options_refused w.validate w.env w.dotenv [] opts .yaml (by simp) hw hbad).2
    · rw [h]; exact (configure_unencodable_options_refused w.validate w.env w.dotenv b opts sfx hs hw hbad).1
  unfold cliStages
  simp [hcmd, htop, hopts, exitOf, hconf, ofOutcome, handler]

/-- … and the other way round: a text of the configuration file that is not valid Unicode does not count when a `-o` option replaces it
— the configure stage is that of the file with the option's value in its place (C17 `overridden_file_text_not_refused`) -/
theorem overridden_file_text_configures (inv : Invocation) (w : World) (sfx : Suffix) (g : Kids) (p : List String) (bad : Val) (v : String)
    (hs : sfx ≠ .unknown) (hcfg : inv.config = .present sfx (.mapping (insertLeaf g (p, bad))))
    (hp : optSafe (p, .str v) = true) (ho : inv.options = [renderOption (p, .str v)])
    (hg : encodableKids g = true) (hk : ∀ k ∈ p, encodableStr k = true) (hv : encodableStr v = true) :
    configureOutcome inv w =
      (if w.validate (effective (insertLeaf g (p, .str v)) w.env w.dotenv) then .ok (effective (insertLeaf g (p, .str v)) w.env w.dotenv)
       else .app 141) := by
  have hne : p ≠ [] := by
    intro e; subst e; simp [optSafe] at hp
  have hopt := cli_option_value_verbatim inv p v hp ho
  simp only [configureOutcome, hopt, hcfg]
  have e : insertLeaf [] (p, Val.str v) = nestKids p (.str v) := by simp [insertLeaf, combine_nil_right _ (wf_nest p (.str v))]
  rw [e]
  exact overridden_file_text_not_refused w.validate w.env w.dotenv g sfx hs p bad (.str v) hne hg hk (by simpa [encodableVal] using hv)

-- `--config None -o generate.cpp.out=o -o generate.cpp.namespace=a<0xff>b generate x.djinni cpp` (U+E0FF stands for the lone surrogate U+DCFF)
#guard exitOf (cliStages { topOk := true, options := ["generate.cpp.out=o", "generate.cpp.namespace=a\uE0FFb"], config := .absent, command := .generate true false ["cpp"] }
    { validate := fun _ => true, env := [], dotenv := [], front := .ok, kinds := [], genFail := fun _ => none, reportConfigured := false }) == ⟨141, false⟩
-- a JSON file holds "bad\ud800ns" for generate.cpp.namespace, `-o generate.cpp.namespace=good::ns` replaces it: status 0; without the option: 141
private def exBadFile : FileState :=
  .present .json (.mapping [("generate", .node [("cpp", .node [("out", .leaf (.str "o")), ("namespace", .leaf (.str "bad\uE000ns"))])])])
private def exWorld : World :=
  { validate := fun _ => true, env := [], dotenv := [], front := .ok, kinds := [], genFail := fun _ => none, reportConfigured := false }
#guard exitOf (cliStages { topOk := true, options := ["generate.cpp.namespace=good::ns"], config := exBadFile, command := .generate true false ["cpp"] } exWorld) == ⟨0, false⟩
#guard exitOf (cliStages { topOk := true, options := [], config := exBadFile, command := .generate true false ["cpp"] } exWorld) == ⟨141, false⟩

end Pydjinni.Sys
