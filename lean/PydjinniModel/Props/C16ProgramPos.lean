import PydjinniModel.Props.C16Program
import PydjinniModel.Props.C03Pos
/-!
# C05 / C16 — the whole-program theorems without the hypothesis H4

`Props/C03Pos.lean` proves `parseText_refPositionsDistinct`: the type references of every text the model accepts are
at pairwise distinct positions. Every file of a program (`programInOrder`) and every `file` visit of the import tree
(`rootVisits`) carries the contents `parseText` returned, so H4 (`RefPositionsDistinct`) holds for all of them and can
be dropped from the hypotheses of the whole-program theorems.

* `progFile_refPositionsDistinct`, `program_refPositionsDistinct`   H4 for `progFile` / every file of `programInOrder`
* `front_eq_violationsOrdered'`, `front_bindings_lexical'`, `front_accepts_iff'`, `front_split_invariance'`,
  `front_single_file'`                                                `Props/C05Program.lean` without H4
* `rootVisits_visitOk`, `goodV_of_names`                              H4 for every `file` visit
* `front_eq_programDiags'`, `front_duplicate_raised'`                 `Props/C16Program.lean` without H4
-/
set_option linter.unusedSimpArgs false
set_option linter.unusedVariables false

namespace Pydjinni.Front

theorem refPositionsDistinct_nil (cfg : Cfg) (name : String) : RefPositionsDistinct cfg { file := name, contents := [] } := by
  simp [RefPositionsDistinct, walkContents]

/-- H4 for the file the model reads at `p` (whatever is there) -/
theorem progFile_refPositionsDistinct (cfg : Cfg) (fs : FS) (p : APath) : RefPositionsDistinct cfg (progFile fs p) := by
  unfold progFile
  cases hg : fs.get p with
  | none => exact refPositionsDistinct_nil cfg _
  | some fc =>
    cases fc with
    | idl text =>
      simp only
      cases hp : parseText text with
      | none => exact refPositionsDistinct_nil cfg _
      | some f => exact parseText_refPositionsDistinct cfg text f hp _
    | _ => exact refPositionsDistinct_nil cfg _

/-- **H4 for every file of a program** -/
theorem program_refPositionsDistinct (cfg : Cfg) (fs : FS) (root : APath) (prog : List ProgFile)
    (hprog : programInOrder cfg fs.files root = some prog) : ∀ f ∈ prog, RefPositionsDistinct cfg f := by
  rw [programInOrder_eq] at hprog
  simp only [Option.some.injEq] at hprog
  subst hprog
  intro f hf
  obtain ⟨p, _, rfl⟩ := List.mem_map.mp hf
  exact progFile_refPositionsDistinct cfg fs p

/-- `front_eq_violationsOrdered` **without H4**: for a program whose reachable files are all inside the grammar, whose
    `@import` lines all resolve, without circular import and without `@extern` line (`CleanImports`), without
    duplicate declaration and with pairwise distinct file names, `front` returns normally and reports a permutation
    of `violationsOrdered`. -/
theorem front_eq_violationsOrdered' (cfg : Cfg) (fs : FS) (builtins : Registry) (root : APath) (prog : List ProgFile)
    (hprog : programInOrder cfg fs.files root = some prog)
    (hclean : CleanImports cfg fs root)
    (hdup : ((progRegistry builtins prog).map (·.key)).Nodup)
    (hnames : (prog.map (·.file)).Nodup) :
    ∃ ds, front cfg fs builtins root = (if ds = [] then Outcome.ok else Outcome.diags ds)
      ∧ ds.Perm (violationsOrdered cfg.keys cfg.defaultDeriving builtins prog) :=
  front_eq_violationsOrdered cfg fs builtins root prog hprog hclean hdup hnames
    (program_refPositionsDistinct cfg fs root prog hprog)

/-- `front_bindings_lexical` **without H4** -/
theorem front_bindings_lexical' (cfg : Cfg) (fs : FS) (builtins : Registry) (root : APath) (prog : List ProgFile)
    (hprog : programInOrder cfg fs.files root = some prog)
    (hclean : CleanImports cfg fs root)
    (hdup : ((progRegistry builtins prog).map (·.key)).Nodup)
    (hnames : (prog.map (·.file)).Nodup) :
    (∀ i (hi : i < prog.length), ∀ r ∈ fileRefs cfg prog[i],
        (frontWithBindings cfg fs builtins root).2.1.get r.file r.pos = lexicalLookup (regUpTo builtins prog i) r.ns r.name)
      ∧ builtins ++ (frontWithBindings cfg fs builtins root).2.2.1 = progRegistry builtins prog :=
  front_bindings_lexical cfg fs builtins root prog hprog hclean hdup hnames
    (program_refPositionsDistinct cfg fs root prog hprog)

/-- `front_accepts_iff` **without H4** -/
theorem front_accepts_iff' (cfg : Cfg) (fs : FS) (builtins : Registry) (root : APath) (prog : List ProgFile)
    (hprog : programInOrder cfg fs.files root = some prog)
    (hclean : CleanImports cfg fs root)
    (hdup : ((progRegistry builtins prog).map (·.key)).Nodup)
    (hnames : (prog.map (·.file)).Nodup) :
    front cfg fs builtins root = .ok ↔ violationsOrdered cfg.keys cfg.defaultDeriving builtins prog = [] :=
  front_accepts_iff cfg fs builtins root prog hprog hclean hdup hnames (program_refPositionsDistinct cfg fs root prog hprog)

/-- `front_split_invariance` (C11 for the model) **without H4** -/
theorem front_split_invariance' (cfg cfg' : Cfg) (fs fs' : FS) (builtins : Registry) (root root' : APath)
    (prog prog' : List ProgFile)
    (hk : cfg.keys = cfg'.keys) (hd : cfg.defaultDeriving = cfg'.defaultDeriving)
    (hprog : programInOrder cfg fs.files root = some prog) (hprog' : programInOrder cfg' fs'.files root' = some prog')
    (hclean : CleanImports cfg fs root) (hclean' : CleanImports cfg' fs' root')
    (hnames : (prog.map (·.file)).Nodup) (hnames' : (prog'.map (·.file)).Nodup)
    (hdecls : (progDecls prog).Perm (progDecls prog'))
    (hcl : Closed builtins prog) (hcl' : Closed builtins prog') :
    ∃ ds ds', front cfg fs builtins root = (if ds = [] then Outcome.ok else Outcome.diags ds)
      ∧ front cfg' fs' builtins root' = (if ds' = [] then Outcome.ok else Outcome.diags ds')
      ∧ ds.Perm ds'
      ∧ (front cfg fs builtins root = .ok ↔ front cfg' fs' builtins root' = .ok) :=
  front_split_invariance cfg cfg' fs fs' builtins root root' prog prog' hk hd hprog hprog' hclean hclean' hnames hnames'
    (program_refPositionsDistinct cfg fs root prog hprog) (program_refPositionsDistinct cfg' fs' root' prog' hprog')
    hdecls hcl hcl'

/-- `front_single_file` **without H4**: a root file inside the grammar without load lines whose declared names are
    pairwise distinct and not built-ins -/
theorem front_single_file' (cfg : Cfg) (fs : FS) (builtins : Registry) (root : APath) (text : String) (contents : List Content)
    (hfile : fs.get (normPath root) = some (.idl text))
    (hpt : parseText text = some { loads := [], contents := contents })
    (hdup : ((progRegistry builtins [{ file := showPath (normPath root), contents := contents }]).map (·.key)).Nodup) :
    ∃ ds, front cfg fs builtins root = (if ds = [] then Outcome.ok else Outcome.diags ds)
      ∧ ds.Perm (violations cfg.keys cfg.defaultDeriving builtins [{ file := showPath (normPath root), contents := contents }]) :=
  front_single_file cfg fs builtins root text contents hfile hpt hdup
    (parseText_refPositionsDistinct cfg text _ hpt (showPath (normPath root)))

/-! ### the import tree -/

/-- a `file` visit carries the contents `parseText` returned for some text -/
def Visit.FromText : Visit → Prop
  | .file _ _ _ _ contents => ∃ text f, parseText text = some f ∧ contents = f.contents
  | _ => True

theorem visitStep_fromText (cfg : Cfg) (fs : FS) (rec : List APath → APath → APath → VisitAcc → VisitAcc)
    (hrec : ∀ st p s a, (∀ v ∈ a.2, v.FromText) → ∀ v ∈ (rec st p s a).2, v.FromText)
    (stack : List APath) (spelled : APath) (acc : VisitAcc) (l : LoadAt) (ha : ∀ v ∈ acc.2, v.FromText) :
    ∀ v ∈ (visitStep cfg fs rec stack spelled acc l).2, v.FromText := by
  unfold visitStep
  split
  · exact ha
  · split
    · exact ha
    · split
      · split
        · exact ha
        · exact hrec _ _ _ _ ha
      · split
        · intro v hv
          rcases List.mem_append.mp hv with hv | hv
          · exact ha v hv
          · simp only [List.mem_singleton] at hv; subst hv; trivial
        · exact ha

theorem foldl_visitStep_fromText (cfg : Cfg) (fs : FS) (rec : List APath → APath → APath → VisitAcc → VisitAcc)
    (hrec : ∀ st p s a, (∀ v ∈ a.2, v.FromText) → ∀ v ∈ (rec st p s a).2, v.FromText)
    (stack : List APath) (spelled : APath) (loads : List LoadAt) (acc : VisitAcc) (ha : ∀ v ∈ acc.2, v.FromText) :
    ∀ v ∈ (loads.foldl (visitStep cfg fs rec stack spelled) acc).2, v.FromText := by
  induction loads generalizing acc with
  | nil => exact ha
  | cons l ls ih =>
    rw [List.foldl_cons]
    exact ih (visitStep cfg fs rec stack spelled acc l) (visitStep_fromText cfg fs rec hrec stack spelled acc l ha)

theorem visitOrder_fromText (cfg : Cfg) (fs : FS) (fuel : Nat) (stack : List APath) (file spelled : APath) (acc : VisitAcc)
    (ha : ∀ v ∈ acc.2, v.FromText) : ∀ v ∈ (visitOrder cfg fs fuel stack file spelled acc).2, v.FromText := by
  have hsnoc : ∀ (l : List Visit) (x : Visit), (∀ v ∈ l, v.FromText) → x.FromText → ∀ v ∈ l ++ [x], v.FromText := by
    intro l x hl hx v hv
    rcases List.mem_append.mp hv with hv | hv
    · exact hl v hv
    · simp only [List.mem_singleton] at hv; subst hv; exact hx
  induction fuel generalizing stack file spelled acc with
  | zero => simp only [visitOrder]; exact hsnoc _ _ ha trivial
  | succ n ih =>
    simp only [visitOrder]
    split
    · next text hg =>
      split
      · exact hsnoc _ _ ha trivial
      · next f hp =>
        refine hsnoc _ _ ?_ ⟨text, f, hp, rfl⟩
        exact foldl_visitStep_fromText cfg fs _ (fun st p s a h => ih st p s a h) _ _ _ _ ha
    · exact hsnoc _ _ ha trivial
    · exact hsnoc _ _ ha trivial

/-- **H4 for every visit**: every visit of the import tree that is not `broken` satisfies `VisitOk` -/
theorem rootVisits_visitOk (cfg : Cfg) (fs : FS) (root : APath) :
    ∀ v ∈ rootVisits cfg fs root, (∀ p, v ≠ .broken p) → VisitOk cfg v := by
  intro v hv hnb
  have hft := visitOrder_fromText cfg fs (fs.files.length + 2) [] (normPath root) root ([normPath root], [])
    (by intro v hv; cases hv) v hv
  cases v with
  | file f sp anc loads contents =>
    obtain ⟨text, pf, hp, rfl⟩ := hft
    exact parseText_refPositionsDistinct cfg text pf hp _
  | broken p => exact absurd rfl (hnb p)
  | extern p defs => trivial
  | undecodable p pos => trivial

/-- `GoodV` from its two H4-free parts: distinct file names and no `broken` visit -/
theorem goodV_of_names (cfg : Cfg) (fs : FS) (root : APath)
    (hnames : (((rootVisits cfg fs root).filterMap Visit.file?).map showPath).Nodup)
    (hnb : ∀ p, Visit.broken p ∉ rootVisits cfg fs root) : GoodV cfg (rootVisits cfg fs root) :=
  ⟨hnames, fun v hv => rootVisits_visitOk cfg fs root v hv (fun p h => hnb p (h ▸ hv))⟩

/-- `front_eq_programDiags` **without H4**: the built-ins have distinct names; everything the search enters is IDL text
    inside the grammar or a file that is not UTF-8 (no `broken` visit); the IDL files entered have pairwise distinct
    names; no two registrations collide. Then `front` returns normally and reports a permutation of `programDiags`. -/
theorem front_eq_programDiags' (cfg : Cfg) (fs : FS) (builtins : Registry) (root : APath)
    (hb : (builtins.map (·.key)).Nodup)
    (hnames : (((rootVisits cfg fs root).filterMap Visit.file?).map showPath).Nodup)
    (hnb : ∀ p, Visit.broken p ∉ rootVisits cfg fs root)
    (hdup : (programKeys builtins (rootVisits cfg fs root)).Nodup) :
    ∃ ds, front cfg fs builtins root = (if ds = [] then Outcome.ok else Outcome.diags ds)
      ∧ ds.Perm (programDiags cfg fs builtins root) :=
  front_eq_programDiags cfg fs builtins root hb (goodV_of_names cfg fs root hnames hnb) hdup

/-- `front_duplicate_raised` **without H4** -/
theorem front_duplicate_raised' (cfg : Cfg) (fs : FS) (builtins : Registry) (root : APath)
    (hb : (builtins.map (·.key)).Nodup)
    (hnames : (((rootVisits cfg fs root).filterMap Visit.file?).map showPath).Nodup)
    (hnb : ∀ p, Visit.broken p ∉ rootVisits cfg fs root) :
    ¬ (programKeys builtins (rootVisits cfg fs root)).Nodup ↔
      ∃ f p, front cfg fs builtins root = .abort (.raised "TypeResolvingException" f p) :=
  front_duplicate_raised cfg fs builtins root hb (goodV_of_names cfg fs root hnames hnb)

end Pydjinni.Front

section
open Pydjinni.Front
#print axioms front_eq_violationsOrdered'
#print axioms front_bindings_lexical'
#print axioms front_split_invariance'
#print axioms front_single_file'
#print axioms front_eq_programDiags'
#print axioms front_duplicate_raised'
end
