import PydjinniModel.Sys.Lsp
/-!
# C18 — language-server answers always reflect the current text of each document

`Dom front`: the front end never ends in something `validate()` does not handle (`crash` — that is C06's subject) and its
reference lists are such that `to_hover_cache` finds a row for every nested generic argument (the parser appends arguments
before the reference that carries them).

* `putCells_get`                     the hover table binds exactly the columns `[start.col, end.col)` of the reference's line
* `validate_publishes_current`       one `validate()` of an open document publishes `diagsOf (front (current text))` for it and rebuilds
                                     its caches from that same result
* `step_inv`, `run_inv`              the invariant — every open document's last publication and all four caches are those of its
                                     current text; a document that is not open has no cache entry — holds after every event list
                                     (any length, any number of documents), by induction
* `queries_pure`                     hover / definition / documentSymbol / save never change the state
* `close_drops_state`                after didClose no cache knows the document and every query about it answers `null` (for every URI
                                     spelling: `unq`, the percent-decoder two handlers apply, is arbitrary)
* `close_keeps_others`               didClose of `u` leaves the text, caches and answers of every other URI alone (even of `unq u`)
* `no_internal_error`                no handler outcome is an internal error (nothing reaches `error_logger`)
* `lsp_refines_spec`                 refinement to "URI ↦ current text": after any history, the outputs of the next event are a function
                                     of the abstract view only — open/change publish exactly the current text's diagnostics, queries answer
                                     what a cache-free server would (`specAnswer`), close/save/queries publish nothing
* `crash_leaves_stale_diagnostics`   without `Dom` the statement is false: an unhandled exception leaves the previous diagnostics
* `hoverPinned_unopened_fails`       the pinned handlers (`hover_cache[uri]`) fail on a document that is not open
-/
namespace Pydjinni.Sys.Lsp

/-! ### the hover table -/

theorem mem_cols (sc ec c : Nat) : c ∈ cols sc ec ↔ sc ≤ c ∧ c < ec := by
  simp only [cols, List.mem_map, List.mem_range]
  constructor
  · rintro ⟨a, ha, rfl⟩; omega
  · intro h; exact ⟨c - sc, by omega, by omega⟩

theorem find_map_pair (l : List Nat) (line : Nat) (e : Entry) (row col : Nat) (rest : List ((Nat × Nat) × Entry)) :
    ((l.map fun c => ((line, c), e)) ++ rest).find? (fun c => c.1 == (row, col))
      = if row = line ∧ col ∈ l then some ((line, col), e) else rest.find? (fun c => c.1 == (row, col)) := by
  induction l with
  | nil => simp
  | cons x xs ih =>
    simp only [List.map_cons, List.cons_append, List.find?_cons, ih]
    by_cases h : (line, x) = (row, col)
    · obtain ⟨rfl, rfl⟩ := Prod.mk.inj h
      simp
    · have : ((line, x) == (row, col)) = false := by simpa using h
      rw [this]
      have hx : ¬ (row = line ∧ col = x) := by rintro ⟨rfl, rfl⟩; exact h rfl
      by_cases h2 : row = line ∧ col ∈ xs
      · have : row = line ∧ col ∈ x :: xs := ⟨h2.1, List.mem_cons_of_mem _ h2.2⟩
        rw [if_pos h2, if_pos this]
      · have : ¬ (row = line ∧ col ∈ x :: xs) := by
          rintro ⟨h3, h4⟩
          rcases List.mem_cons.mp h4 with h5 | h5
          · exact hx ⟨h3, h5⟩
          · exact h2 ⟨h3, h5⟩
        rw [if_neg h2, if_neg this]

/-- **`[start.col, end.col)`**: after caching a reference, a lookup on its line finds it exactly at the columns
    `sc ≤ col < ec` — `sc` included, `ec` excluded — and every other cell is what it was. -/
theorem putCells_get (t t' : HoverTable) (line sc ec : Nat) (e : Entry) (h : putCells t line sc ec e = some t') (row col : Nat) :
    (t'.get row col).isSome = true ∧ (row = line ∧ sc ≤ col ∧ col < ec) ∨ (¬ (row = line ∧ sc ≤ col ∧ col < ec) ∧ t'.get row col = t.get row col) := by
  unfold putCells at h
  split at h
  · cases h
  · cases h
    simp only [HoverTable.get]
    have hrev : (((cols sc ec).map fun c => ((line, c), e)).reverse) = ((cols sc ec).reverse.map fun c => ((line, c), e)) := by
      rw [List.map_reverse]
    rw [hrev, find_map_pair]
    by_cases hc : row = line ∧ sc ≤ col ∧ col < ec
    · left
      have : row = line ∧ col ∈ (cols sc ec).reverse := ⟨hc.1, by rw [List.mem_reverse, mem_cols]; exact hc.2⟩
      rw [if_pos this]
      exact ⟨rfl, hc⟩
    · right
      have : ¬ (row = line ∧ col ∈ (cols sc ec).reverse) := by
        rintro ⟨h1, h2⟩
        rw [List.mem_reverse, mem_cols] at h2
        exact hc ⟨h1, h2⟩
      rw [if_neg this]
      exact ⟨hc, rfl⟩

/-! ### domain, invariant -/

def GoodResult (r : FrontResult) : Prop := r.isCrash = false ∧ (hoverOf r).isSome = true

/-- the front end only produces what `validate()` handles -/
def Dom (front : Front) : Prop := ∀ e u t, GoodResult (front e u t)

/-- per URI: an open document's last publication and caches are those of its current text (at the epoch it was last
    validated against); a document that is not open has no cache entry -/
def InvAt (front : Front) (s : St) (u : Uri) : Prop :=
  (∀ t, s.docs u = some t →
      s.lastPub u = some (diagsOf (front (s.valEpoch u) u t)) ∧ s.astC u = some (astOf u (front (s.valEpoch u) u t))
      ∧ s.defC u = some (defsOf u (front (s.valEpoch u) u t)) ∧ s.hoverC u = hoverOf (front (s.valEpoch u) u t))
  ∧ (s.docs u = none → s.astC u = none ∧ s.defC u = none ∧ s.hoverC u = none ∧ s.depC u = none)

def Inv (front : Front) (s : St) : Prop :=
  (∀ u, InvAt front s u) ∧ (∀ u ∈ s.depKeys, (s.docs u).isSome = true)

theorem upd_same {β : Type} (f : Uri → β) (u : Uri) (v : β) : upd f u v u = v := by simp [upd]
theorem upd_other {β : Type} (f : Uri → β) (u x : Uri) (v : β) (h : x ≠ u) : upd f u v x = f x := by simp [upd, h]

theorem init_inv (front : Front) : Inv front init := by
  refine ⟨fun u => ⟨fun t h => ?_, fun _ => ⟨rfl, rfl, rfl, rfl⟩⟩, fun u hu => ?_⟩
  · simp [init] at h
  · simp [init] at hu

/-- the state after a successful `validate()` of `u` whose front-end result is `r` (hover table `h`) -/
def validated (cfg : Uri) (s : St) (u : Uri) (r : FrontResult) (h : HoverTable) : St :=
  { s with astC := upd s.astC u (some (astOf u r)), defC := upd s.defC u (some (defsOf u r)),
           lastPub := upd s.lastPub u (some (diagsOf r)), valEpoch := upd s.valEpoch u s.epoch,
           hoverC := upd s.hoverC u (some h), depC := upd s.depC u (some (depsOf cfg u r)),
           depKeys := if s.depKeys.contains u then s.depKeys else s.depKeys ++ [u] }

theorem validate_eq (front : Front) (cfg : Uri) (s : St) (u : Uri) (t : Text) (h : HoverTable)
    (hdoc : s.docs u = some t) (hnc : (front s.epoch u t).isCrash = false) (hh : hoverOf (front s.epoch u t) = some h) :
    validate front cfg s u = (validated cfg s u (front s.epoch u t) h, [(u, diagsOf (front s.epoch u t))], 0) := by
  simp only [validate, hdoc, hnc, hh, Bool.false_eq_true, if_false]
  rfl

/-- **One validation.** For an open document (current text `t`), with a front-end result that `validate()` handles: exactly one
    publication, for this URI, equal to the diagnostics of the current text; the caches of this URI are rebuilt from the same
    result; nothing else changes; no exception reaches `error_logger`. -/
theorem validate_publishes_current (front : Front) (cfg : Uri) (s : St) (u : Uri) (t : Text)
    (hdoc : s.docs u = some t) (hg : GoodResult (front s.epoch u t)) :
    (validate front cfg s u).2.1 = [(u, diagsOf (front s.epoch u t))] ∧ (validate front cfg s u).2.2 = 0
    ∧ (validate front cfg s u).1.docs = s.docs ∧ (validate front cfg s u).1.epoch = s.epoch
    ∧ (validate front cfg s u).1.valEpoch = upd s.valEpoch u s.epoch
    ∧ InvAt front (validate front cfg s u).1 u
    ∧ (∀ x, x ≠ u → InvAt front s x → InvAt front (validate front cfg s u).1 x)
    ∧ (∀ k ∈ (validate front cfg s u).1.depKeys, k ∈ s.depKeys ∨ k = u) := by
  obtain ⟨hnc, hh⟩ := hg
  obtain ⟨h, hhe⟩ := Option.isSome_iff_exists.mp hh
  rw [validate_eq front cfg s u t h hdoc hnc hhe]
  refine ⟨rfl, rfl, rfl, rfl, rfl, ?_, ?_, ?_⟩
  · refine ⟨fun t' ht' => ?_, fun hn => ?_⟩
    · have : t' = t := by
        have h1 : s.docs u = some t' := ht'
        rw [hdoc] at h1; exact (Option.some.inj h1).symm
      subst this
      show upd s.lastPub u _ u = _ ∧ upd s.astC u _ u = _ ∧ upd s.defC u _ u = _ ∧ upd s.hoverC u _ u = _
      rw [upd_same, upd_same, upd_same, upd_same]
      show _ = some (diagsOf (front (upd s.valEpoch u s.epoch u) u t')) ∧ _ = some (astOf u (front (upd s.valEpoch u s.epoch u) u t'))
        ∧ _ = some (defsOf u (front (upd s.valEpoch u s.epoch u) u t')) ∧ _ = hoverOf (front (upd s.valEpoch u s.epoch u) u t')
      rw [upd_same]
      exact ⟨rfl, rfl, rfl, hhe.symm⟩
    · have h1 : s.docs u = none := hn
      rw [hdoc] at h1; cases h1
  · intro x hx hinv
    refine ⟨fun t' ht' => ?_, fun hn => ?_⟩
    · have h1 := hinv.1 t' ht'
      show upd s.lastPub u _ x = some (diagsOf (front (upd s.valEpoch u s.epoch x) x t')) ∧ upd s.astC u _ x = some (astOf x (front (upd s.valEpoch u s.epoch x) x t'))
        ∧ upd s.defC u _ x = some (defsOf x (front (upd s.valEpoch u s.epoch x) x t')) ∧ upd s.hoverC u _ x = hoverOf (front (upd s.valEpoch u s.epoch x) x t')
      rw [upd_other _ _ _ _ hx, upd_other _ _ _ _ hx, upd_other _ _ _ _ hx, upd_other _ _ _ _ hx, upd_other _ _ _ _ hx]
      exact h1
    · have h1 := hinv.2 hn
      show upd s.astC u _ x = none ∧ upd s.defC u _ x = none ∧ upd s.hoverC u _ x = none ∧ upd s.depC u _ x = none
      rw [upd_other _ _ _ _ hx, upd_other _ _ _ _ hx, upd_other _ _ _ _ hx, upd_other _ _ _ _ hx]
      exact h1
  · intro k hk
    have hk' : k ∈ (if s.depKeys.contains u then s.depKeys else s.depKeys ++ [u]) := hk
    split at hk'
    · exact Or.inl hk'
    · rcases List.mem_append.mp hk' with h1 | h1
      · exact Or.inl h1
      · exact Or.inr (by simpa using h1)

theorem validate_inv (front : Front) (cfg : Uri) (hd : Dom front) (s : St) (u : Uri) (t : Text) (hdoc : s.docs u = some t)
    (hothers : ∀ x, x ≠ u → InvAt front s x) (hkeys : ∀ k ∈ s.depKeys, (s.docs k).isSome = true) :
    Inv front (validate front cfg s u).1 := by
  obtain ⟨_, _, hdocs, _, _, hat, hoth, hk⟩ := validate_publishes_current front cfg s u t hdoc (hd _ _ _)
  refine ⟨fun x => ?_, fun k hkm => ?_⟩
  · by_cases hx : x = u
    · subst hx; exact hat
    · exact hoth x hx (hothers x hx)
  · rw [hdocs]
    rcases hk k hkm with h1 | h1
    · exact hkeys k h1
    · subst h1; simp [hdoc]

/-! ### didChangeWatchedFiles -/

/-- what the loops of `did_change_watched_files` preserve and produce -/
structure LoopOk (front : Front) (s0 s : St) (pubs : List (Uri × List Diag)) (errs : Nat) : Prop where
  inv : Inv front s
  docs : s.docs = s0.docs
  epoch : s.epoch = s0.epoch
  errs : errs = 0
  pubs : ∀ p ∈ pubs, ∃ t, s0.docs p.1 = some t ∧ p.2 = diagsOf (front s0.epoch p.1 t)

theorem revalidate_ok (front : Front) (cfg : Uri) (hd : Dom front) (c : Uri) (s0 : St) (keys : List Uri) (s : St)
    (pubs : List (Uri × List Diag)) (errs : Nat) (hk : ∀ k ∈ keys, (s0.docs k).isSome = true) (h : LoopOk front s0 s pubs errs) :
    LoopOk front s0 (revalidate front cfg c keys s pubs errs).1 (revalidate front cfg c keys s pubs errs).2.1
      (revalidate front cfg c keys s pubs errs).2.2 := by
  induction keys generalizing s pubs errs with
  | nil => exact h
  | cons u us ih =>
    simp only [revalidate]
    split
    · obtain ⟨t, ht⟩ := Option.isSome_iff_exists.mp (hk u (List.mem_cons_self))
      have hdoc : s.docs u = some t := by rw [h.docs]; exact ht
      obtain ⟨hp, he, hdocs, hep, _, _, _, _⟩ := validate_publishes_current front cfg s u t hdoc (hd _ _ _)
      have hinv := validate_inv front cfg hd s u t hdoc (fun x _ => h.inv.1 x) h.inv.2
      apply ih _ _ _ (fun k hk' => hk k (List.mem_cons_of_mem _ hk'))
      refine ⟨hinv, by rw [hdocs, h.docs], by rw [hep, h.epoch], by rw [he, h.errs], ?_⟩
      intro p hpm
      rcases List.mem_append.mp hpm with h1 | h1
      · exact h.pubs p h1
      · rw [hp] at h1
        simp only [List.mem_singleton] at h1
        subst h1
        exact ⟨t, ht, by rw [h.epoch]⟩
    · exact ih _ _ _ (fun k hk' => hk k (List.mem_cons_of_mem _ hk')) h

theorem watchedLoop_ok (front : Front) (cfg : Uri) (unq : Uri → Uri) (hd : Dom front) (s0 : St) (cs : List Uri) (s : St)
    (pubs : List (Uri × List Diag)) (errs : Nat) (h : LoopOk front s0 s pubs errs) :
    LoopOk front s0 (watchedLoop front cfg unq cs s pubs errs).1 (watchedLoop front cfg unq cs s pubs errs).2.1
      (watchedLoop front cfg unq cs s pubs errs).2.2 := by
  induction cs generalizing s pubs errs with
  | nil => exact h
  | cons c cs ih =>
    simp only [watchedLoop]
    apply ih
    apply revalidate_ok front cfg hd (unq c) s0 s.depKeys s pubs errs _ h
    intro k hk
    rw [← h.docs]; exact h.inv.2 k hk

/-! ### every event preserves the invariant -/

theorem step_inv (front : Front) (cfg : Uri) (unq : Uri → Uri) (hd : Dom front) (s : St) (ev : Ev) (h : Inv front s) : Inv front (step front cfg unq s ev).1 := by
  cases ev with
  | open_ u t =>
    simp only [step]
    apply validate_inv front cfg hd _ u t (by simp [upd_same])
    · intro x hx
      refine ⟨fun t' ht' => ?_, fun hn => ?_⟩
      · simp only [upd_other _ _ _ _ hx] at ht'; exact (h.1 x).1 t' ht'
      · simp only [upd_other _ _ _ _ hx] at hn; exact (h.1 x).2 hn
    · intro k hk
      by_cases hku : k = u
      · subst hku; simp [upd_same]
      · simp only [upd_other _ _ _ _ hku]; exact h.2 k hk
  | change u t =>
    simp only [step]
    split
    · exact h
    · apply validate_inv front cfg hd _ u t (by simp [upd_same])
      · intro x hx
        refine ⟨fun t' ht' => ?_, fun hn => ?_⟩
        · simp only [upd_other _ _ _ _ hx] at ht'; exact (h.1 x).1 t' ht'
        · simp only [upd_other _ _ _ _ hx] at hn; exact (h.1 x).2 hn
      · intro k hk
        by_cases hku : k = u
        · subst hku; simp [upd_same]
        · simp only [upd_other _ _ _ _ hku]; exact h.2 k hk
  | close u =>
    simp only [step]
    split
    · exact h
    · refine ⟨fun x => ?_, fun k hk => ?_⟩
      · by_cases hx : x = u
        · subst hx
          refine ⟨fun t' ht' => ?_, fun _ => ?_⟩
          · simp [upd_same] at ht'
          · simp [upd_same]
        · refine ⟨fun t' ht' => ?_, fun hn => ?_⟩
          · simp only [upd_other _ _ _ _ hx] at ht' ⊢; exact (h.1 x).1 t' ht'
          · simp only [upd_other _ _ _ _ hx] at hn ⊢
            obtain ⟨h1, h2, h3, h4⟩ := (h.1 x).2 hn
            exact ⟨h1, h2, h3, by simp [hx, h4]⟩
      · simp only [List.mem_filter, bne_iff_ne, ne_eq] at hk
        simp only [upd_other _ _ _ _ hk.2]
        exact h.2 k hk.1
  | save u => exact h
  | hover u l c => exact h
  | definition u l c => exact h
  | symbols u hier => exact h
  | watched cs =>
    simp only [step]
    exact (watchedLoop_ok front cfg unq hd s cs s [] 0 ⟨h, rfl, rfl, rfl, by simp⟩).inv
  | disk =>
    simp only [step]
    exact ⟨fun x => ⟨fun t' ht' => (h.1 x).1 t' ht', fun hn => (h.1 x).2 hn⟩, h.2⟩

/-- **The invariant holds after every history** — any length, any number of documents, any interleaving. -/
theorem run_inv (front : Front) (cfg : Uri) (unq : Uri → Uri) (hd : Dom front) (es : List Ev) : Inv front (run front cfg unq es) := by
  unfold run
  suffices ∀ s, Inv front s → Inv front (es.foldl (fun s e => (step front cfg unq s e).1) s) from this init (init_inv front)
  induction es with
  | nil => intro s h; exact h
  | cons e es ih => intro s h; exact ih _ (step_inv front cfg unq hd s e h)

/-! ### queries, close, errors -/

def Ev.isQuery : Ev → Bool
  | .hover .. | .definition .. | .symbols .. | .save .. => true
  | _ => false

/-- Queries (and didSave) never change the state, and publish nothing. -/
theorem queries_pure (front : Front) (cfg : Uri) (unq : Uri → Uri) (s : St) (ev : Ev) (hq : ev.isQuery = true) :
    (step front cfg unq s ev).1 = s ∧ (step front cfg unq s ev).2.pubs = [] := by
  cases ev <;> simp [Ev.isQuery] at hq <;> exact ⟨rfl, rfl⟩

theorem cell_eq (s : St) (u : Uri) (line col : Nat) : cell s u line col = (s.hoverC u).bind fun h => h.get (line + 1) col := by
  unfold cell; cases s.hoverC u <;> rfl

/-- what the query handlers answer, given the invariant: exactly the cache-free specification -/
theorem query_answer (front : Front) (cfg : Uri) (unq : Uri → Uri) (s : St) (h : Inv front s) (ev : Ev) (hq : ev.isQuery = true) :
    (step front cfg unq s ev).2.answer = specAnswer front (view s) ev := by
  cases ev with
  | hover u l c =>
    simp only [step, specAnswer, view, cell_eq]
    cases hdoc : s.docs u with
    | none => simp [((h.1 u).2 hdoc).2.2.1, hoverAnswer]
    | some t => simp [((h.1 u).1 t hdoc).2.2.2]
  | definition u l c =>
    simp only [step, specAnswer, view, cell_eq]
    cases hdoc : s.docs u with
    | none => simp [((h.1 u).2 hdoc).2.2.1, definitionAnswer]
    | some t => simp [((h.1 u).1 t hdoc).2.2.2]
  | symbols u hier =>
    simp only [step, specAnswer, view, symbolsAnswer]
    cases hdoc : s.docs u with
    | none => simp [((h.1 u).2 hdoc).1]
    | some t =>
      obtain ⟨_, ha, hdf, _⟩ := (h.1 u).1 t hdoc
      simp only [ha, hdf, Option.map_some]
  | save u => rfl
  | open_ u t => simp [Ev.isQuery] at hq
  | change u t => simp [Ev.isQuery] at hq
  | close u => simp [Ev.isQuery] at hq
  | watched cs => simp [Ev.isQuery] at hq
  | disk => simp [Ev.isQuery] at hq

/-- **Close drops state**: after didClose of an open document none of the four caches knows the URI, it is no key of the
    dependency cache, and hover / definition / documentSymbol about it answer `null` — for *every* percent-decoder `unq`
    (in particular for URIs with percent-encoded characters, where `unq u ≠ u`): the caches are popped with the URI as sent.
    Only the other documents' dependency sets are compared with the decoded spelling. -/
theorem close_drops_state (front : Front) (cfg : Uri) (unq : Uri → Uri) (s : St) (u : Uri) (t : Text) (hdoc : s.docs u = some t) :
    let s' := (step front cfg unq s (.close u)).1
    s'.docs u = none ∧ s'.astC u = none ∧ s'.defC u = none ∧ s'.hoverC u = none ∧ s'.depC u = none ∧ u ∉ s'.depKeys
    ∧ (∀ x deps, s'.depC x = some deps → unq u ∉ deps)
    ∧ (∀ l c, (step front cfg unq s' (.hover u l c)).2.answer = .null ∧ (step front cfg unq s' (.definition u l c)).2.answer = .null)
    ∧ (∀ hier, (step front cfg unq s' (.symbols u hier)).2.answer = .null) := by
  simp only [step, hdoc]
  refine ⟨by simp [upd_same], by simp [upd_same], by simp [upd_same], by simp [upd_same], by simp, by simp, ?_, ?_, ?_⟩
  · intro x deps hx
    by_cases hxu : x = u
    · simp [hxu] at hx
    · simp only [hxu, if_false] at hx
      cases hd : s.depC x with
      | none => simp [hd] at hx
      | some d0 =>
        simp only [hd, Option.map_some, Option.some.injEq] at hx
        subst hx
        simp
  · intro l c
    simp [cell, upd_same, hoverAnswer, definitionAnswer]
  · intro hier
    simp [symbolsAnswer, upd_same]

/-- **Close drops nothing else**: the caches and the text of every other URI `x ≠ u` are untouched — whatever `unq` does
    (`unq u = x` is allowed: the URI of `a%20b.pydjinni` decodes to the URI of another open document, `a b.pydjinni`). -/
theorem close_keeps_others (front : Front) (cfg : Uri) (unq : Uri → Uri) (s : St) (u x : Uri) (hx : x ≠ u) :
    let s' := (step front cfg unq s (.close u)).1
    s'.docs x = s.docs x ∧ s'.astC x = s.astC x ∧ s'.defC x = s.defC x ∧ s'.hoverC x = s.hoverC x
    ∧ (∀ l c, (step front cfg unq s' (.hover x l c)).2.answer = (step front cfg unq s (.hover x l c)).2.answer)
    ∧ (∀ hier, (step front cfg unq s' (.symbols x hier)).2.answer = (step front cfg unq s (.symbols x hier)).2.answer) := by
  simp only [step]
  cases hdoc : s.docs u with
  | none => simp
  | some t => simp [upd_other _ _ _ _ hx, cell, symbolsAnswer]

/-- **No handler outcome is an internal error**: with the invariant (i.e. after any history), no event makes a handler raise. -/
theorem no_internal_error (front : Front) (cfg : Uri) (unq : Uri → Uri) (hd : Dom front) (s : St) (h : Inv front s) (ev : Ev) :
    (step front cfg unq s ev).2.errors = 0 := by
  cases ev with
  | open_ u t =>
    simp only [step]
    exact (validate_publishes_current front cfg _ u t (by simp [upd_same]) (hd _ _ _)).2.1
  | change u t =>
    simp only [step]
    split
    · rfl
    · exact (validate_publishes_current front cfg _ u t (by simp [upd_same]) (hd _ _ _)).2.1
  | close u => simp only [step]; split <;> rfl
  | save u => rfl
  | hover u l c => rfl
  | definition u l c => rfl
  | symbols u hier => rfl
  | watched cs =>
    simp only [step]
    exact (watchedLoop_ok front cfg unq hd s cs s [] 0 ⟨h, rfl, rfl, rfl, by simp⟩).errs
  | disk => rfl

/-! ### refinement -/

theorem view_open (front : Front) (cfg : Uri) (hd : Dom front) (s : St) (u : Uri) (t : Text) :
    view (validate front cfg { s with docs := upd s.docs u (some t) } u).1 = upd (view s) u (some (t, s.epoch)) := by
  obtain ⟨_, _, hdocs, _, hve, _⟩ := validate_publishes_current front cfg { s with docs := upd s.docs u (some t) } u t (upd_same _ _ _) (hd _ _ _)
  funext x
  show ((validate front cfg { s with docs := upd s.docs u (some t) } u).1.docs x).map
    (fun t' => (t', (validate front cfg { s with docs := upd s.docs u (some t) } u).1.valEpoch x)) = _
  rw [hdocs, hve]
  by_cases hx : x = u
  · subst hx
    show (upd s.docs x (some t) x).map (fun t' => (t', upd s.valEpoch x s.epoch x)) = upd (view s) x (some (t, s.epoch)) x
    rw [upd_same, upd_same, upd_same]; rfl
  · show (upd s.docs u (some t) x).map (fun t' => (t', upd s.valEpoch u s.epoch x)) = upd (view s) u (some (t, s.epoch)) x
    rw [upd_other _ _ _ _ hx, upd_other _ _ _ _ hx, upd_other _ _ _ _ hx]; rfl

/-- what the abstract machine "URI ↦ current text (and the disk epoch it was checked against)" prescribes for one event -/
def SpecStep (front : Front) (epoch : Nat) (v v' : Uri → Option (Text × Nat)) (ev : Ev) (o : Out) : Prop :=
  match ev with
  | .open_ u t => o.pubs = [(u, diagsOf (front epoch u t))] ∧ v' = upd v u (some (t, epoch))
  | .change u t => v u ≠ none → o.pubs = [(u, diagsOf (front epoch u t))] ∧ v' = upd v u (some (t, epoch))
  | .close u => o.pubs = [] ∧ (v u ≠ none → v' = upd v u none)
  | .watched _ => (∀ p ∈ o.pubs, ∃ t e, v p.1 = some (t, e) ∧ p.2 = diagsOf (front epoch p.1 t))
                  ∧ ∀ u, (v' u).map (·.1) = (v u).map (·.1)
  | .disk => o.pubs = [] ∧ v' = v
  | q => o.pubs = [] ∧ v' = v ∧ o.answer = specAnswer front v q

/-- **Refinement to `uri ↦ current text`.** After *any* event list `es` (any length, any number of documents), the observable
    outcome of the next event `ev` is the one the abstract machine prescribes from the abstract view alone:
    open/change publish exactly `diagsOf (front (current text))` for that URI; hover, definition and documentSymbol answer what a
    server without caches would answer from the current text (`null` for a document that is not open); close, save and queries
    publish nothing; watched-files publications are the current texts' diagnostics; and no handler fails internally. -/
theorem lsp_refines_spec (front : Front) (cfg : Uri) (unq : Uri → Uri) (hd : Dom front) (es : List Ev) (ev : Ev) :
    SpecStep front (run front cfg unq es).epoch (view (run front cfg unq es)) (view (step front cfg unq (run front cfg unq es) ev).1) ev
      (step front cfg unq (run front cfg unq es) ev).2
    ∧ (step front cfg unq (run front cfg unq es) ev).2.errors = 0 := by
  have hinv := run_inv front cfg unq hd es
  refine ⟨?_, no_internal_error front cfg unq hd _ hinv ev⟩
  generalize run front cfg unq es = s at hinv
  cases ev with
  | open_ u t =>
    simp only [SpecStep, step]
    exact ⟨(validate_publishes_current front cfg { s with docs := upd s.docs u (some t) } u t (upd_same _ _ _) (hd _ _ _)).1,
      view_open front cfg hd s u t⟩
  | change u t =>
    simp only [SpecStep, step]
    intro hv
    cases hdoc : s.docs u with
    | none => simp [view, hdoc] at hv
    | some t0 =>
      exact ⟨(validate_publishes_current front cfg { s with docs := upd s.docs u (some t) } u t (upd_same _ _ _) (hd _ _ _)).1,
        view_open front cfg hd s u t⟩
  | close u =>
    simp only [SpecStep, step]
    cases hdoc : s.docs u with
    | none => exact ⟨rfl, fun hv => by simp [view, hdoc] at hv⟩
    | some t0 =>
      refine ⟨rfl, fun _ => ?_⟩
      funext x
      by_cases hx : x = u
      · subst hx
        show (upd s.docs x none x).map _ = upd (view s) x none x
        rw [upd_same, upd_same]; rfl
      · show (upd s.docs u none x).map _ = upd (view s) u none x
        rw [upd_other _ _ _ _ hx, upd_other _ _ _ _ hx]; rfl
  | save u => exact ⟨rfl, rfl, rfl⟩
  | hover u l c => exact ⟨rfl, rfl, query_answer front cfg unq s hinv (.hover u l c) rfl⟩
  | definition u l c => exact ⟨rfl, rfl, query_answer front cfg unq s hinv (.definition u l c) rfl⟩
  | symbols u hier => exact ⟨rfl, rfl, query_answer front cfg unq s hinv (.symbols u hier) rfl⟩
  | watched cs =>
    simp only [SpecStep, step]
    have hl := watchedLoop_ok front cfg unq hd s cs s [] 0 ⟨hinv, rfl, rfl, rfl, by simp⟩
    refine ⟨fun p hp => ?_, fun x => ?_⟩
    · obtain ⟨t, ht, hpd⟩ := hl.pubs p hp
      exact ⟨t, s.valEpoch p.1, by simp [view, ht], hpd⟩
    · simp only [view, hl.docs, Option.map_map]
      cases s.docs x <;> rfl
  | disk => exact ⟨rfl, rfl⟩

/-! ### outside the domain; the pinned handlers -/

def r0 : Range := { sl := 0, sc := 0, el := 0, ec := 5 }
/-- a front end that finds one error in text 0 and raises something unhandled on text 1 -/
def frontCrashy : Front := fun _ _ t => if t = 0 then .errs [(true, r0)] [] [] [] [] else .crash

/-- Without `Dom`: open a document whose text has one error, change it to a text on which the front end raises an
    exception `validate()` does not handle — nothing is published, the error of the *previous* text stays (and the handler
    logged an internal error). This is what a bare `TypeResolvingException` (duplicate type) did before the repair. -/
theorem crash_leaves_stale_diagnostics :
    let s := run frontCrashy "cfg" id [.open_ "u" 0, .change "u" 1]
    s.docs "u" = some 1 ∧ s.lastPub "u" = some [{ severity := 1, range := r0 }]
    ∧ (step frontCrashy "cfg" id (run frontCrashy "cfg" id [.open_ "u" 0]) (.change "u" 1)).2.errors = 1
    ∧ (step frontCrashy "cfg" id (run frontCrashy "cfg" id [.open_ "u" 0]) (.change "u" 1)).2.pubs = [] := by
  decide

/-- The pinned `hover` / `definition` handlers index `hover_cache[uri]`: for a document that is not open (never opened, or
    closed) that is a `KeyError` inside the handler. -/
theorem hoverPinned_unopened_fails (front : Front) (cfg : Uri) (unq : Uri → Uri) (hd : Dom front) (es : List Ev) (u : Uri) (l c : Nat)
    (h : (run front cfg unq es).docs u = none) : (hoverPinned (run front cfg unq es) u l c).errors = 1 := by
  have := ((run_inv front cfg unq hd es).1 u).2 h
  simp [hoverPinned, this.2.2.1]

/-! ### non-vacuity: a front end inside the domain with references, imports and deprecation (compiled evaluation) -/

def dDep : DefInfo := { comment := some "doc", deprecated := true, depFile := some "file:///lib", loc := some ("file:///lib", r0) }
def refA : Ref := .mk true 2 18 21 { sl := 1, sc := 18, el := 1, ec := 21 } (some dDep) []
def refList : Ref := .mk true 2 26 35 { sl := 1, sc := 26, el := 1, ec := 35 } none [.mk true 2 31 34 { sl := 1, sc := 31, el := 1, ec := 34 } (some dDep) []]
def frontGood : Front := fun _ u t =>
  if t = 0 then .ok [⟨u, "", some "info"⟩] [refA, .mk true 2 31 34 { sl := 1, sc := 31, el := 1, ec := 34 } (some dDep) [], refList] [] [⟨u, "sym", none⟩]
  else .errs [(true, r0), (false, r0)] [] [] [] []

#guard (hoverOf (frontGood 0 "u" 0)).isSome && (hoverOf (frontGood 0 "u" 1)).isSome
-- boundaries of the span [18, 21): 17 no, 18 yes, 20 yes, 21 no
#guard ((step frontGood "cfg" id (run frontGood "cfg" id [.open_ "u" 0]) (.hover "u" 1 17)).2.answer == .null)
#guard ((step frontGood "cfg" id (run frontGood "cfg" id [.open_ "u" 0]) (.hover "u" 1 18)).2.answer == .hover "doc" { sl := 1, sc := 18, el := 1, ec := 21 })
#guard ((step frontGood "cfg" id (run frontGood "cfg" id [.open_ "u" 0]) (.hover "u" 1 20)).2.answer == .hover "doc" { sl := 1, sc := 18, el := 1, ec := 21 })
#guard ((step frontGood "cfg" id (run frontGood "cfg" id [.open_ "u" 0]) (.hover "u" 1 21)).2.answer == .null)
-- the nested generic argument wins inside the outer reference's span; the outer one has no documentation
#guard ((step frontGood "cfg" id (run frontGood "cfg" id [.open_ "u" 0]) (.definition "u" 1 32)).2.answer == .location "file:///lib" r0)
#guard ((step frontGood "cfg" id (run frontGood "cfg" id [.open_ "u" 0]) (.hover "u" 1 27)).2.answer == .null)
-- two deprecation warnings (the two references to the deprecated type); after the change one error of this document (the foreign one is filtered)
#guard ((step frontGood "cfg" id init (.open_ "u" 0)).2.pubs.map (·.2.length)) == [2]
#guard ((step frontGood "cfg" id (run frontGood "cfg" id [.open_ "u" 0]) (.change "u" 1)).2.pubs == [("u", [{ severity := 1, range := r0 }])])
-- a dependant is revalidated by a watched-files event for the file it depends on, nothing else is
#guard ((step frontGood "cfg" id (run frontGood "cfg" id [.open_ "u" 0, .open_ "v" 1]) (.watched ["file:///lib"])).2.pubs.map (·.1)) == ["u"]
#guard ((step frontGood "cfg" id (run frontGood "cfg" id [.open_ "u" 0, .open_ "v" 1]) (.watched ["cfg"])).2.pubs.map (·.1)) == ["u", "v"]
#guard ((step frontGood "cfg" id (run frontGood "cfg" id [.open_ "u" 0, .close "u"]) (.symbols "u" true)).2.answer == .null)
-- URIs with percent-encoded characters: a decoder that is not the identity (`a%2520b` ↦ `a%20b` ↦ `a b`)
def unq1 : Uri → Uri := fun u => if u == "a%2520b" then "a%20b" else if u == "a%20b" then "a b" else if u == "file:///my%20lib" then "file:///my lib" else u
-- closing `a%2520b` drops its own state and leaves the open document `a%20b` (the decoded spelling) alone
#guard ((step frontGood "cfg" unq1 (run frontGood "cfg" unq1 [.open_ "a%20b" 0, .open_ "a%2520b" 0, .close "a%2520b"]) (.symbols "a%2520b" true)).2.answer == .null)
#guard ((step frontGood "cfg" unq1 (run frontGood "cfg" unq1 [.open_ "a%20b" 0, .open_ "a%2520b" 0, .close "a%2520b"]) (.hover "a%2520b" 1 18)).2.answer == .null)
#guard ((step frontGood "cfg" unq1 (run frontGood "cfg" unq1 [.open_ "a%20b" 0, .open_ "a%2520b" 0, .close "a%2520b"]) (.symbols "a%20b" true)).2.answer == .symbols ["sym"])
#guard ((step frontGood "cfg" unq1 (run frontGood "cfg" unq1 [.open_ "a%20b" 0, .open_ "a%2520b" 0, .close "a%2520b"]) (.hover "a%20b" 1 18)).2.answer == .hover "doc" { sl := 1, sc := 18, el := 1, ec := 21 })
-- the watched-files handler compares the *decoded* URI with the (encoded) members of the dependency sets: as the code stands,
-- a change of a file whose URI has a percent-encoded character revalidates nobody
def frontLib : Front := fun _ u _ => .ok [] [.mk true 2 18 21 { sl := 1, sc := 18, el := 1, ec := 21 }
    (some { comment := none, deprecated := false, depFile := some "file:///my%20lib", loc := none }) []] [] []
#guard ((step frontLib "cfg" id (run frontLib "cfg" id [.open_ "u" 0]) (.watched ["file:///my%20lib"])).2.pubs.map (·.1)) == ["u"]
#guard ((step frontLib "cfg" unq1 (run frontLib "cfg" unq1 [.open_ "u" 0]) (.watched ["file:///my%20lib"])).2.pubs.map (·.1)) == []

end Pydjinni.Sys.Lsp
