import PydjinniModel.Props.C04
import PydjinniModel.Props.C04Scope
import PydjinniModel.Props.C05Program
/-! All C04 theorems. -/
