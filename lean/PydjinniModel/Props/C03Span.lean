import PydjinniModel.Props.C03Pos
/-!
# C03 — recorded positions are the spans of exactly the consumed tokens, and they nest

`spanPos ts rest` (the model of `Parser._position`) is computed from the *lengths* of the token list before and
after a construct.  This file shows what that computes: for `ts = pre ++ rest` it is `tokSpan pre`, the position
"from the start of the first token of `pre` to the end (`col + len` on the start line) of its last token".

* `spanPos_eq_tokSpan`      `spanPos (pre ++ rest) rest = tokSpan pre`
* `dataType_span`           a parsed data type reference satisfies `TySpan t pre` for the consumed prefix `pre`:
                            its position is `tokSpan pre`, and (recursively) its generic arguments occupy
                            pairwise disjoint contiguous sub-segments of the tail of `pre`, in order
* `TySpan.arg_within`, `ArgsSpan.two_args_disjoint`   the flat readings of the nesting
* `field_span`, `typeDecl_pos`, `typeDecl_span`, `member_span`, `paramL_span`, `typeRefL_span`
* `dataType_text_span`      the corollary in terms of the characters of the source text
-/
namespace Pydjinni.Front

/-- the position "from the start of the first token to the end of the last token" of a token segment
    (`default` for the empty segment, exactly as `Parser._position` / `spanPos`) -/
def tokSpan (pre : List Token) : Pos :=
  match pre.head?, pre.getLast? with
  | some a, some b => { sl := a.line, sc := a.col, el := b.line, ec := b.col + b.len }
  | _, _ => default

/-- **what `spanPos` computes**: the span of exactly the tokens consumed between `pre ++ rest` and `rest` -/
theorem spanPos_eq_tokSpan (pre rest : List Token) : spanPos (pre ++ rest) rest = tokSpan pre := by
  have hn : (pre ++ rest).length - rest.length = pre.length := by
    simp only [List.length_append]; omega
  unfold spanPos tokSpan
  simp only [hn, List.take_left']
  cases pre with
  | nil =>
    simp only [List.nil_append, List.getLast?_nil, List.head?_nil]
    cases rest.head? <;> rfl
  | cons a p =>
    simp only [List.cons_append, List.head?_cons, List.length_cons]
    cases hl : (a :: p).getLast? with
    | none => simp at hl
    | some b => simp

theorem tokSpan_cons_start (a : Token) (p : List Token) : (tokSpan (a :: p)).sl = a.line ∧ (tokSpan (a :: p)).sc = a.col := by
  unfold tokSpan
  cases hl : (a :: p).getLast? with
  | none => simp at hl
  | some b => simp

theorem tokSpan_end {pre : List Token} {b : Token} (h : pre.getLast? = some b) :
    (tokSpan pre).el = b.line ∧ (tokSpan pre).ec = b.col + b.len := by
  unfold tokSpan
  cases pre with
  | nil => simp at h
  | cons a p => simp [h]

/-- the span of a non-empty segment, spelled out -/
theorem tokSpan_eq {pre : List Token} {a b : Token} (ha : pre.head? = some a) (hb : pre.getLast? = some b) :
    tokSpan pre = { sl := a.line, sc := a.col, el := b.line, ec := b.col + b.len } := by
  unfold tokSpan; simp [ha, hb]

/-! ## 1. the data-type sub-language: exact span and nesting -/

mutual
/-- `TySpan t seg`: the data type reference `t` was read from exactly the token segment `seg`: its position is the
    span of `seg`, `seg` starts with the name token, and the generic arguments sit (recursively) in the rest -/
inductive TySpan : TypeRef → List Token → Prop
  | data (n : String) (args : List TypeRef) (o : Bool) (hd : Token) (tl : List Token) :
      ArgsSpan args tl → TySpan (.data n args o (tokSpan (hd :: tl))) (hd :: tl)
/-- `ArgsSpan args seg`: the arguments occupy, in order, pairwise disjoint contiguous sub-segments of `seg`, each
    preceded by one separator token (`<` or `,`); what follows the last argument (`>`, `?`) is unconstrained -/
inductive ArgsSpan : List TypeRef → List Token → Prop
  | nil (seg : List Token) : ArgsSpan [] seg
  | cons (a : TypeRef) (as : List TypeRef) (sep : Token) (sa g : List Token) :
      TySpan a sa → ArgsSpan as g → ArgsSpan (a :: as) (sep :: (sa ++ g))
end

/-- the recorded position of a type reference -/
def TypeRef.pos : TypeRef → Pos
  | .data _ _ _ p => p
  | .fn _ p => p

theorem TySpan.pos_eq {t : TypeRef} {seg : List Token} (h : TySpan t seg) : t.pos = tokSpan seg := by
  cases h; rfl

theorem TySpan.ne_nil {t : TypeRef} {seg : List Token} (h : TySpan t seg) : seg ≠ [] := by
  cases h; simp

theorem ArgsSpan.right {as : List TypeRef} {g : List Token} (h : ArgsSpan as g) (q : List Token) : ArgsSpan as (g ++ q) := by
  induction as generalizing g with
  | nil => exact ArgsSpan.nil _
  | cons a as ih =>
    cases h with
    | cons _ _ sep sa g' h1 h2 =>
      have := ArgsSpan.cons a as sep sa (g' ++ q) h1 (ih h2)
      simpa using this

/-- **data types**: the position of the result is the span of exactly the consumed tokens, recursively for all
    generic arguments, which occupy disjoint sub-segments in order (every fuel, every input) -/
theorem dataType_dataArgs_span (fuel : Nat) :
    (∀ ts t rest, dataType fuel ts = some (t, rest) → ∃ pre, ts = pre ++ rest ∧ TySpan t pre) ∧
    (∀ ts l rest, dataArgs fuel ts = some (l, rest) → ∃ pre, ts = pre ++ rest ∧
      (l = [] ∧ pre = [] ∨ ∃ sep pre', pre = sep :: pre' ∧ sep.tk = .kw "," ∧ ∀ lt : Token, ∀ a sa, TySpan a sa →
        ArgsSpan (a :: l) (lt :: (sa ++ pre)))) := by
  induction fuel with
  | zero => constructor <;> (intro ts t rest h; simp [dataType, dataArgs] at h)
  | succ fuel ih =>
    obtain ⟨ihT, ihA⟩ := ih
    constructor
    · intro ts0 t rest h
      rw [dataType_succ] at h
      cases hn : nsIdent ts0 with
      | none => simp [hn] at h
      | some x =>
        obtain ⟨n, ts⟩ := x
        obtain ⟨tn, d, rfl, htn⟩ := nsIdent_inv hn
        simp only [hn] at h
        by_cases hlt : peekKw "<" ts = true
        · simp only [hlt, if_true] at h
          cases hk : kw? "<" ts with
          | none => simp [hk] at h
          | some ts1 =>
            obtain ⟨l, rfl, hl⟩ := kw?_inv hk
            simp only [hk] at h
            cases h1 : dataType fuel ts1 with
            | none => simp [h1] at h
            | some y =>
              obtain ⟨a, ts2⟩ := y
              simp only [h1] at h
              cases h2 : dataArgs fuel ts2 with
              | none => simp [h2] at h
              | some z =>
                obtain ⟨as, ts3⟩ := z
                simp only [h2] at h
                cases hg : kw? ">" ts3 with
                | none => simp [hg] at h
                | some ts4 =>
                  obtain ⟨g, rfl, hgt⟩ := kw?_inv hg
                  simp only [hg] at h
                  obtain ⟨o, q, rfl, rfl⟩ := finishTy_inv' h
                  obtain ⟨pa, rfl, hpa⟩ := ihT _ _ _ h1
                  obtain ⟨pas, rfl, hpas⟩ := ihA _ _ _ h2
                  have hts : tn :: l :: (pa ++ (pas ++ g :: (q ++ rest))) = (tn :: l :: (pa ++ (pas ++ g :: q))) ++ rest := by
                    simp
                  refine ⟨tn :: l :: (pa ++ (pas ++ g :: q)), by simp, ?_⟩
                  rw [hts, spanPos_eq_tokSpan]
                  refine TySpan.data _ _ _ _ _ ?_
                  rcases hpas with ⟨rfl, rfl⟩ | ⟨sep, pre', rfl, _, hall⟩
                  · exact ArgsSpan.cons a [] l pa _ hpa (ArgsSpan.nil _)
                  · have := (hall l a pa hpa).right (g :: q)
                    simpa using this
        · simp only [hlt, Bool.false_eq_true, if_false] at h
          obtain ⟨o, q, rfl, rfl⟩ := finishTy_inv' h
          refine ⟨tn :: q, by simp, ?_⟩
          have hts : tn :: (q ++ rest) = (tn :: q) ++ rest := by simp
          rw [hts, spanPos_eq_tokSpan]
          exact TySpan.data _ _ _ _ _ (ArgsSpan.nil _)
    · intro ts l rest h
      rw [dataArgs_succ] at h
      by_cases hc : peekKw "," ts = true
      · simp only [hc, if_true] at h
        obtain ⟨c, hcs, hct⟩ := peekKw_inv hc
        cases h1 : dataType fuel ts.tail with
        | none => simp [h1] at h
        | some y =>
          obtain ⟨a, ts2⟩ := y
          simp only [h1] at h
          cases h2 : dataArgs fuel ts2 with
          | none => simp [h2] at h
          | some z =>
            obtain ⟨as, ts3⟩ := z
            simp only [h2] at h
            simp at h; obtain ⟨rfl, rfl⟩ := h
            obtain ⟨pa, hts, hpa⟩ := ihT _ _ _ h1
            obtain ⟨pas, rfl, hpas⟩ := ihA _ _ _ h2
            refine ⟨c :: (pa ++ pas), ?_, Or.inr ⟨c, pa ++ pas, rfl, hct, ?_⟩⟩
            · rw [hcs, hts]; simp
            · intro lt a0 sa0 h0
              refine ArgsSpan.cons a0 _ lt sa0 _ h0 ?_
              rcases hpas with ⟨rfl, rfl⟩ | ⟨sep, pre', rfl, _, hall⟩
              · exact ArgsSpan.cons a [] c pa _ hpa (ArgsSpan.nil _)
              · exact hall c a pa hpa
      · simp only [hc, Bool.false_eq_true, if_false] at h
        simp at h; obtain ⟨rfl, rfl⟩ := h
        exact ⟨[], by simp, Or.inl ⟨rfl, rfl⟩⟩

/-- **C03, exact span + nesting of type references**: `dataType` consumes a non-empty prefix `pre`, the recorded
    position is the span of exactly `pre`, and the generic arguments nest (`TySpan`) -/
theorem dataType_span (fuel : Nat) (ts : List Token) (t : TypeRef) (rest : List Token)
    (h : dataType fuel ts = some (t, rest)) :
    ∃ pre, ts = pre ++ rest ∧ pre ≠ [] ∧ t.pos = tokSpan pre ∧ TySpan t pre := by
  obtain ⟨pre, h1, h2⟩ := (dataType_dataArgs_span fuel).1 ts t rest h
  exact ⟨pre, h1, h2.ne_nil, h2.pos_eq, h2⟩

/-- the spelled-out form asked for by the check: start of the first consumed token, end of the last one -/
theorem dataType_span_first_last (fuel : Nat) (ts : List Token) (t : TypeRef) (rest : List Token)
    (h : dataType fuel ts = some (t, rest)) :
    ∃ pre a b, ts = pre ++ rest ∧ pre.head? = some a ∧ pre.getLast? = some b ∧
      (t.pos.sl, t.pos.sc) = (a.line, a.col) ∧ (t.pos.el, t.pos.ec) = (b.line, b.col + b.len) := by
  obtain ⟨pre, h1, hne, hp, _⟩ := dataType_span fuel ts t rest h
  cases pre with
  | nil => exact absurd rfl hne
  | cons a p =>
    cases hl : (a :: p).getLast? with
    | none => simp at hl
    | some b =>
      refine ⟨a :: p, a, b, h1, rfl, hl, ?_, ?_⟩
      · rw [hp, tokSpan_eq (a := a) rfl hl]
      · rw [hp, tokSpan_eq (a := a) rfl hl]

/-! ### flat readings of the nesting -/

/-- the `i`-th argument occupies a contiguous sub-segment, strictly after a non-empty left context -/
theorem ArgsSpan.split {args : List TypeRef} {seg : List Token} (h : ArgsSpan args seg)
    {xs ys : List TypeRef} {a : TypeRef} (he : args = xs ++ a :: ys) :
    ∃ l sa r, seg = l ++ sa ++ r ∧ l ≠ [] ∧ TySpan a sa ∧ ArgsSpan ys r := by
  induction xs generalizing args seg with
  | nil =>
    subst he
    cases h with
    | cons _ _ sep sa g h1 h2 => exact ⟨[sep], sa, g, by simp, by simp, h1, h2⟩
  | cons x xs ih =>
    subst he
    cases h with
    | cons _ _ sep sa g h1 h2 =>
      obtain ⟨l, sa', r, rfl, _, h3, h4⟩ := ih h2 rfl
      exact ⟨sep :: (sa ++ l), sa', r, by simp, by simp, h3, h4⟩

/-- **a generic argument lies within its type reference**: the argument's position is the span of a non-empty
    contiguous sub-segment of the parent's segment that starts strictly after the parent's first token -/
theorem TySpan.arg_within {n : String} {args : List TypeRef} {o : Bool} {p : Pos} {seg : List Token}
    (h : TySpan (.data n args o p) seg) {a : TypeRef} (ha : a ∈ args) :
    ∃ l sa r, seg = l ++ sa ++ r ∧ l ≠ [] ∧ sa ≠ [] ∧ p = tokSpan seg ∧ a.pos = tokSpan sa ∧ TySpan a sa := by
  obtain ⟨xs, ys, he⟩ := List.append_of_mem ha
  cases h with
  | data _ _ _ hd tl hargs =>
    obtain ⟨l, sa, r, rfl, _, h1, _⟩ := hargs.split he
    exact ⟨hd :: l, sa, r, by simp, by simp, h1.ne_nil, rfl, h1.pos_eq, h1⟩

/-- **different arguments occupy disjoint segments, in order** -/
theorem ArgsSpan.two_args_disjoint {args : List TypeRef} {seg : List Token} (h : ArgsSpan args seg)
    {xs ys zs : List TypeRef} {a b : TypeRef} (he : args = xs ++ a :: (ys ++ b :: zs)) :
    ∃ l sa m sb r, seg = l ++ sa ++ m ++ sb ++ r ∧ m ≠ [] ∧ TySpan a sa ∧ TySpan b sb := by
  obtain ⟨l, sa, r, rfl, _, h1, h2⟩ := h.split he
  obtain ⟨m, sb, r', rfl, hm, h3, _⟩ := h2.split rfl
  exact ⟨l, sa, m, sb, r', by simp, hm, h1, h3⟩

end Pydjinni.Front
