import PydjinniModel.Props.C03Pos
import PydjinniModel.Props.C03Text
/-!
# C03 — recorded positions are the spans of exactly the consumed tokens, and they nest

`spanPos ts rest` (the model of `Parser._position`) is computed from the *lengths* of the token list before and
after a construct.  This file shows what that computes: for `ts = pre ++ rest` it is `tokSpan pre`, the position
"from the start of the first token of `pre` to the end (`col + len` on its start line) of its last token".

* `spanPos_eq_tokSpan`      `spanPos (pre ++ rest) rest = tokSpan pre`
* `dataType_span`, `dataType_span_first_last`   a parsed data type reference satisfies `TySpan t pre` for the consumed
                            non-empty prefix `pre`: its position is `tokSpan pre`, and (recursively) its generic arguments
                            occupy pairwise disjoint contiguous sub-segments of the tail of `pre`, in order, each
                            preceded by exactly one separator token
* `TySpan.arg_within`, `ArgsSpan.split`, `ArgsSpan.two_args_disjoint`   the flat readings of the nesting
* `pl_span` (`typeRefL_span`, `functionL_span`, `paramL_span`, `PsSpan.split`)   the same for function types, signatures
                            and parameters (every candidate of the list-of-successes parsers)
* `field_span`, `record_span`, `record_field_within`, `member_span`, `interface_span`, `item_span`, `flagItem_span`,
  `errCode_span`, `typeDecl_pos`, `typeDecl_span`, `typeDecl_inner`   fields, members, items, error codes and
                            declarations of all six kinds: exact span (doc comments included), body tiled by the parts
* `content_span`, `load_span`, `parseFile_span`   namespaces, load directives and whole files: the directives and then
                            the contents tile the token list exactly
* `lex_ordered`, `tokSpan_within`, `tokSpan_before`, `dataType_args_nest`, `record_field_within_pos`,
  `member_param_within_pos`   nesting in line/column form (`Pos.Within`, `Pos.Before`) on the tokens of a lexed text:
                            a generic argument lies within its type reference and arguments do not overlap, a field
                            within its record, a parameter within its method, a type within its field / parameter
* `lex_segment_text`, `dataType_text_segment`, `field_text_segment`, `dataType_text_span`   in terms of the characters
                            of the source text: between the recorded start and end stand exactly the consumed tokens'
                            texts, separated by the white space that stood between them
-/
namespace Pydjinni.Front

/-- the position "from the start of the first token to the end of the last token" of a token segment
    (`default` for the empty segment, exactly as `Parser._position` / `spanPos`) -/
def tokSpan (pre : List Token) : Pos :=
  match pre.head?, pre.getLast? with
  | some a, some b => { sl := a.line, sc := a.col, el := b.line, ec := b.col + b.len }
  | _, _ => default

/-- **what `spanPos` computes**: the span of exactly the tokens consumed between `pre ++ rest` and `rest` -/
theorem spanPos_eq_tokSpan (pre rest : List Token) : spanPos (pre ++ rest) rest = tokSpan pre := by
  have hn : (pre ++ rest).length - rest.length = pre.length := by
    simp only [List.length_append]; omega
  unfold spanPos tokSpan
  simp only [hn, List.take_left']
  cases pre with
  | nil =>
    simp only [List.nil_append, List.getLast?_nil, List.head?_nil]
    cases rest.head? <;> rfl
  | cons a p =>
    simp only [List.cons_append, List.head?_cons, List.length_cons]
    cases hl : (a :: p).getLast? with
    | none => simp at hl
    | some b => simp

theorem tokSpan_cons_start (a : Token) (p : List Token) : (tokSpan (a :: p)).sl = a.line ∧ (tokSpan (a :: p)).sc = a.col := by
  unfold tokSpan
  cases hl : (a :: p).getLast? with
  | none => simp at hl
  | some b => simp

theorem tokSpan_end {pre : List Token} {b : Token} (h : pre.getLast? = some b) :
    (tokSpan pre).el = b.line ∧ (tokSpan pre).ec = b.col + b.len := by
  unfold tokSpan
  cases pre with
  | nil => simp at h
  | cons a p => simp [h]

/-- the span of a non-empty segment, spelled out -/
theorem tokSpan_eq {pre : List Token} {a b : Token} (ha : pre.head? = some a) (hb : pre.getLast? = some b) :
    tokSpan pre = { sl := a.line, sc := a.col, el := b.line, ec := b.col + b.len } := by
  unfold tokSpan; simp [ha, hb]

/-! ## 1. the data-type sub-language: exact span and nesting -/

mutual
/-- `TySpan t seg`: the data type reference `t` was read from exactly the token segment `seg`: its position is the
    span of `seg`, `seg` starts with the name token, and the generic arguments sit (recursively) in the rest -/
inductive TySpan : TypeRef → List Token → Prop
  | data (n : String) (args : List TypeRef) (o : Bool) (hd : Token) (tl : List Token) :
      ArgsSpan args tl → TySpan (.data n args o (tokSpan (hd :: tl))) (hd :: tl)
/-- `ArgsSpan args seg`: the arguments occupy, in order, pairwise disjoint contiguous sub-segments of `seg`, each
    preceded by one separator token (`<` or `,`); what follows the last argument (`>`, `?`) is unconstrained -/
inductive ArgsSpan : List TypeRef → List Token → Prop
  | nil (seg : List Token) : ArgsSpan [] seg
  | cons (a : TypeRef) (as : List TypeRef) (sep : Token) (sa g : List Token) :
      TySpan a sa → ArgsSpan as g → ArgsSpan (a :: as) (sep :: (sa ++ g))
end

/-- the recorded position of a type reference -/
def TypeRef.pos : TypeRef → Pos
  | .data _ _ _ p => p
  | .fn _ p => p

theorem TySpan.pos_eq {t : TypeRef} {seg : List Token} (h : TySpan t seg) : t.pos = tokSpan seg := by
  cases h; rfl

theorem TySpan.ne_nil {t : TypeRef} {seg : List Token} (h : TySpan t seg) : seg ≠ [] := by
  cases h; simp

theorem ArgsSpan.right {as : List TypeRef} {g : List Token} (h : ArgsSpan as g) (q : List Token) : ArgsSpan as (g ++ q) := by
  induction as generalizing g with
  | nil => exact ArgsSpan.nil _
  | cons a as ih =>
    cases h with
    | cons _ _ sep sa g' h1 h2 =>
      have := ArgsSpan.cons a as sep sa (g' ++ q) h1 (ih h2)
      simpa using this

/-- **data types**: the position of the result is the span of exactly the consumed tokens, recursively for all
    generic arguments, which occupy disjoint sub-segments in order (every fuel, every input) -/
theorem dataType_dataArgs_span (fuel : Nat) :
    (∀ ts t rest, dataType fuel ts = some (t, rest) → ∃ pre, ts = pre ++ rest ∧ TySpan t pre) ∧
    (∀ ts l rest, dataArgs fuel ts = some (l, rest) → ∃ pre, ts = pre ++ rest ∧
      (l = [] ∧ pre = [] ∨ ∃ sep pre', pre = sep :: pre' ∧ sep.tk = .kw "," ∧ ∀ lt : Token, ∀ a sa, TySpan a sa →
        ArgsSpan (a :: l) (lt :: (sa ++ pre)))) := by
  induction fuel with
  | zero => constructor <;> (intro ts t rest h; simp [dataType, dataArgs] at h)
  | succ fuel ih =>
    obtain ⟨ihT, ihA⟩ := ih
    constructor
    · intro ts0 t rest h
      rw [dataType_succ] at h
      cases hn : nsIdent ts0 with
      | none => simp [hn] at h
      | some x =>
        obtain ⟨n, ts⟩ := x
        obtain ⟨tn, d, rfl, htn⟩ := nsIdent_inv hn
        simp only [hn] at h
        by_cases hlt : peekKw "<" ts = true
        · simp only [hlt, if_true] at h
          cases hk : kw? "<" ts with
          | none => simp [hk] at h
          | some ts1 =>
            obtain ⟨l, rfl, hl⟩ := kw?_inv hk
            simp only [hk] at h
            cases h1 : dataType fuel ts1 with
            | none => simp [h1] at h
            | some y =>
              obtain ⟨a, ts2⟩ := y
              simp only [h1] at h
              cases h2 : dataArgs fuel ts2 with
              | none => simp [h2] at h
              | some z =>
                obtain ⟨as, ts3⟩ := z
                simp only [h2] at h
                cases hg : kw? ">" ts3 with
                | none => simp [hg] at h
                | some ts4 =>
                  obtain ⟨g, rfl, hgt⟩ := kw?_inv hg
                  simp only [hg] at h
                  obtain ⟨o, q, rfl, rfl⟩ := finishTy_inv' h
                  obtain ⟨pa, rfl, hpa⟩ := ihT _ _ _ h1
                  obtain ⟨pas, rfl, hpas⟩ := ihA _ _ _ h2
                  have hts : tn :: l :: (pa ++ (pas ++ g :: (q ++ rest))) = (tn :: l :: (pa ++ (pas ++ g :: q))) ++ rest := by
                    simp
                  refine ⟨tn :: l :: (pa ++ (pas ++ g :: q)), by simp, ?_⟩
                  rw [hts, spanPos_eq_tokSpan]
                  refine TySpan.data _ _ _ _ _ ?_
                  rcases hpas with ⟨rfl, rfl⟩ | ⟨sep, pre', rfl, _, hall⟩
                  · exact ArgsSpan.cons a [] l pa _ hpa (ArgsSpan.nil _)
                  · have := (hall l a pa hpa).right (g :: q)
                    simpa using this
        · simp only [hlt, Bool.false_eq_true, if_false] at h
          obtain ⟨o, q, rfl, rfl⟩ := finishTy_inv' h
          refine ⟨tn :: q, by simp, ?_⟩
          have hts : tn :: (q ++ rest) = (tn :: q) ++ rest := by simp
          rw [hts, spanPos_eq_tokSpan]
          exact TySpan.data _ _ _ _ _ (ArgsSpan.nil _)
    · intro ts l rest h
      rw [dataArgs_succ] at h
      by_cases hc : peekKw "," ts = true
      · simp only [hc, if_true] at h
        obtain ⟨c, hcs, hct⟩ := peekKw_inv hc
        cases h1 : dataType fuel ts.tail with
        | none => simp [h1] at h
        | some y =>
          obtain ⟨a, ts2⟩ := y
          simp only [h1] at h
          cases h2 : dataArgs fuel ts2 with
          | none => simp [h2] at h
          | some z =>
            obtain ⟨as, ts3⟩ := z
            simp only [h2] at h
            simp at h; obtain ⟨rfl, rfl⟩ := h
            obtain ⟨pa, hts, hpa⟩ := ihT _ _ _ h1
            obtain ⟨pas, rfl, hpas⟩ := ihA _ _ _ h2
            refine ⟨c :: (pa ++ pas), ?_, Or.inr ⟨c, pa ++ pas, rfl, hct, ?_⟩⟩
            · rw [hcs, hts]; simp
            · intro lt a0 sa0 h0
              refine ArgsSpan.cons a0 _ lt sa0 _ h0 ?_
              rcases hpas with ⟨rfl, rfl⟩ | ⟨sep, pre', rfl, _, hall⟩
              · exact ArgsSpan.cons a [] c pa _ hpa (ArgsSpan.nil _)
              · exact hall c a pa hpa
      · simp only [hc, Bool.false_eq_true, if_false] at h
        simp at h; obtain ⟨rfl, rfl⟩ := h
        exact ⟨[], by simp, Or.inl ⟨rfl, rfl⟩⟩

/-- **C03, exact span + nesting of type references**: `dataType` consumes a non-empty prefix `pre`, the recorded
    position is the span of exactly `pre`, and the generic arguments nest (`TySpan`) -/
theorem dataType_span (fuel : Nat) (ts : List Token) (t : TypeRef) (rest : List Token)
    (h : dataType fuel ts = some (t, rest)) :
    ∃ pre, ts = pre ++ rest ∧ pre ≠ [] ∧ t.pos = tokSpan pre ∧ TySpan t pre := by
  obtain ⟨pre, h1, h2⟩ := (dataType_dataArgs_span fuel).1 ts t rest h
  exact ⟨pre, h1, h2.ne_nil, h2.pos_eq, h2⟩

/-- the spelled-out form asked for by the check: start of the first consumed token, end of the last one -/
theorem dataType_span_first_last (fuel : Nat) (ts : List Token) (t : TypeRef) (rest : List Token)
    (h : dataType fuel ts = some (t, rest)) :
    ∃ pre a b, ts = pre ++ rest ∧ pre.head? = some a ∧ pre.getLast? = some b ∧
      (t.pos.sl, t.pos.sc) = (a.line, a.col) ∧ (t.pos.el, t.pos.ec) = (b.line, b.col + b.len) := by
  obtain ⟨pre, h1, hne, hp, _⟩ := dataType_span fuel ts t rest h
  cases pre with
  | nil => exact absurd rfl hne
  | cons a p =>
    cases hl : (a :: p).getLast? with
    | none => simp at hl
    | some b =>
      refine ⟨a :: p, a, b, h1, rfl, hl, ?_, ?_⟩
      · rw [hp, tokSpan_eq (a := a) rfl hl]
      · rw [hp, tokSpan_eq (a := a) rfl hl]

/-! ### flat readings of the nesting -/

/-- the `i`-th argument occupies a contiguous sub-segment, strictly after a non-empty left context -/
theorem ArgsSpan.split {args : List TypeRef} {seg : List Token} (h : ArgsSpan args seg)
    {xs ys : List TypeRef} {a : TypeRef} (he : args = xs ++ a :: ys) :
    ∃ l sa r, seg = l ++ sa ++ r ∧ l ≠ [] ∧ TySpan a sa ∧ ArgsSpan ys r := by
  induction xs generalizing args seg with
  | nil =>
    subst he
    cases h with
    | cons _ _ sep sa g h1 h2 => exact ⟨[sep], sa, g, by simp, by simp, h1, h2⟩
  | cons x xs ih =>
    subst he
    cases h with
    | cons _ _ sep sa g h1 h2 =>
      obtain ⟨l, sa', r, rfl, _, h3, h4⟩ := ih h2 rfl
      exact ⟨sep :: (sa ++ l), sa', r, by simp, by simp, h3, h4⟩

/-- **a generic argument lies within its type reference**: the argument's position is the span of a non-empty
    contiguous sub-segment of the parent's segment that starts strictly after the parent's first token -/
theorem TySpan.arg_within {n : String} {args : List TypeRef} {o : Bool} {p : Pos} {seg : List Token}
    (h : TySpan (.data n args o p) seg) {a : TypeRef} (ha : a ∈ args) :
    ∃ l sa r, seg = l ++ sa ++ r ∧ l ≠ [] ∧ sa ≠ [] ∧ p = tokSpan seg ∧ a.pos = tokSpan sa ∧ TySpan a sa := by
  obtain ⟨xs, ys, he⟩ := List.append_of_mem ha
  cases h with
  | data _ _ _ hd tl hargs =>
    obtain ⟨l, sa, r, rfl, _, h1, _⟩ := hargs.split he
    exact ⟨hd :: l, sa, r, by simp, by simp, h1.ne_nil, rfl, h1.pos_eq, h1⟩

/-- **different arguments occupy disjoint segments, in order** -/
theorem ArgsSpan.two_args_disjoint {args : List TypeRef} {seg : List Token} (h : ArgsSpan args seg)
    {xs ys zs : List TypeRef} {a b : TypeRef} (he : args = xs ++ a :: (ys ++ b :: zs)) :
    ∃ l sa m sb r, seg = l ++ sa ++ m ++ sb ++ r ∧ m ≠ [] ∧ TySpan a sa ∧ TySpan b sb := by
  obtain ⟨l, sa, r, rfl, _, h1, h2⟩ := h.split he
  obtain ⟨m, sb, r', rfl, hm, h3, _⟩ := h2.split rfl
  exact ⟨l, sa, m, sb, r', by simp, hm, h1, h3⟩


/-! ## 2. function types, parameters: the list-of-successes layer -/

mutual
/-- `TSpan t seg`: the (data or function) type reference `t` was read from exactly `seg` -/
inductive TSpan : TypeRef → List Token → Prop
  | data (t : TypeRef) (seg : List Token) : TySpan t seg → TSpan t seg
  | fn (f : FnSig) (seg : List Token) : FSpan f seg → TSpan (.fn f (tokSpan seg)) seg
/-- the parameters, then the thrown types and the return type of a signature lie, in this order, in disjoint
    sub-segments after a non-empty left context (`function` targets `(`) -/
inductive FSpan : FnSig → List Token → Prop
  | mk (fl : Option (List String)) (fp : Pos) (ps : List Param) (thr : Option (List TypeRef)) (ret : Option TypeRef)
      (l sp sr : List Token) : l ≠ [] → PsSpan ps sp → TsSpan (thr.getD [] ++ ret.toList) sr →
      FSpan (.mk fl fp ps thr ret) (l ++ sp ++ sr)
/-- a parameter `name : type` was read from exactly `seg`; its type from everything after the colon -/
inductive PSpan : Param → List Token → Prop
  | mk (n : String) (t : TypeRef) (nm colon : Token) (st : List Token) : TSpan t st →
      PSpan (.mk n t (tokSpan (nm :: colon :: st))) (nm :: colon :: st)
/-- parameters in order in disjoint sub-segments -/
inductive PsSpan : List Param → List Token → Prop
  | nil (seg : List Token) : PsSpan [] seg
  | cons (p : Param) (ps : List Param) (l sp g : List Token) : PSpan p sp → PsSpan ps g → PsSpan (p :: ps) (l ++ sp ++ g)
/-- type references in order in disjoint sub-segments -/
inductive TsSpan : List TypeRef → List Token → Prop
  | nil (seg : List Token) : TsSpan [] seg
  | cons (a : TypeRef) (as : List TypeRef) (l sa g : List Token) : TSpan a sa → TsSpan as g → TsSpan (a :: as) (l ++ sa ++ g)
end

/-- the recorded position of a parameter -/
def Param.pos : Param → Pos
  | .mk _ _ p => p

theorem FSpan.ne_nil {f : FnSig} {seg : List Token} (h : FSpan f seg) : seg ≠ [] := by
  cases h with
  | mk _ _ _ _ _ l sp sr hl _ _ => cases l with
    | nil => exact absurd rfl hl
    | cons a l => simp

theorem TSpan.ne_nil {t : TypeRef} {seg : List Token} (h : TSpan t seg) : seg ≠ [] := by
  cases h with
  | data _ _ h => exact h.ne_nil
  | fn _ _ h => exact h.ne_nil

theorem TSpan.pos_eq {t : TypeRef} {seg : List Token} (h : TSpan t seg) : t.pos = tokSpan seg := by
  cases h with
  | data _ _ h => exact h.pos_eq
  | fn _ _ h => rfl

theorem PSpan.pos_eq {p : Param} {seg : List Token} (h : PSpan p seg) : p.pos = tokSpan seg := by
  cases h; rfl

theorem PSpan.ne_nil {p : Param} {seg : List Token} (h : PSpan p seg) : seg ≠ [] := by
  cases h; simp

theorem TsSpan.left {as : List TypeRef} {s : List Token} (h : TsSpan as s) (q : List Token) : TsSpan as (q ++ s) := by
  cases h with
  | nil => exact TsSpan.nil _
  | cons a as l sa g h1 h2 =>
    have := TsSpan.cons a as (q ++ l) sa g h1 h2
    simpa using this

theorem TsSpan.right {as : List TypeRef} {s : List Token} (h : TsSpan as s) (q : List Token) : TsSpan as (s ++ q) := by
  induction as generalizing s with
  | nil => exact TsSpan.nil _
  | cons a as ih =>
    cases h with
    | cons _ _ l sa g h1 h2 =>
      have := TsSpan.cons a as l sa (g ++ q) h1 (ih h2)
      simpa using this

theorem TsSpan.append {as bs : List TypeRef} {s1 s2 : List Token} (h1 : TsSpan as s1) (h2 : TsSpan bs s2) :
    TsSpan (as ++ bs) (s1 ++ s2) := by
  induction as generalizing s1 with
  | nil => exact h2.left s1
  | cons a as ih =>
    cases h1 with
    | cons _ _ l sa g ha hg =>
      have := TsSpan.cons a (as ++ bs) l sa (g ++ s2) ha (ih hg)
      simpa using this

theorem TsSpan.single {a : TypeRef} {s : List Token} (h : TSpan a s) : TsSpan [a] s := by
  have := TsSpan.cons a [] [] s [] h (TsSpan.nil _)
  simpa using this

theorem PsSpan.left {ps : List Param} {s : List Token} (h : PsSpan ps s) (q : List Token) : PsSpan ps (q ++ s) := by
  cases h with
  | nil => exact PsSpan.nil _
  | cons a as l sa g h1 h2 =>
    have := PsSpan.cons a as (q ++ l) sa g h1 h2
    simpa using this

theorem PsSpan.right {ps : List Param} {s : List Token} (h : PsSpan ps s) (q : List Token) : PsSpan ps (s ++ q) := by
  induction ps generalizing s with
  | nil => exact PsSpan.nil _
  | cons a as ih =>
    cases h with
    | cons _ _ l sa g h1 h2 =>
      have := PsSpan.cons a as l sa (g ++ q) h1 (ih h2)
      simpa using this

theorem FSpan.left {f : FnSig} {s : List Token} (h : FSpan f s) (q : List Token) : FSpan f (q ++ s) := by
  cases h with
  | mk fl fp ps thr ret l sp sr hl h1 h2 =>
    have := FSpan.mk fl fp ps thr ret (q ++ l) sp sr (by simp [hl]) h1 h2
    simpa using this

/-- every candidate `(a, rest)` of `p ts` consumed a prefix of `ts` of which `a` is the span -/
def SpanL {α : Type} (S : α → List Token → Prop) (p : PL α) : Prop :=
  ∀ ts a rest, (a, rest) ∈ p ts → ∃ pre, ts = pre ++ rest ∧ S a pre

theorem SpanL.zero {α : Type} (S : α → List Token → Prop) (p : PL α) (h : ∀ ts, p ts = []) : SpanL S p := by
  intro ts a rest hm; rw [h] at hm; cases hm

theorem typeRefL_span_step (g : Nat) (hF : SpanL FSpan (functionL g)) : SpanL TSpan (typeRefL (g+1)) := by
  intro ts a rest hm
  rw [typeRefL.eq_2] at hm
  split at hm
  · obtain ⟨⟨f, r⟩, hfr, he⟩ := List.mem_map.mp hm
    simp only [Prod.mk.injEq] at he
    obtain ⟨rfl, rfl⟩ := he
    obtain ⟨pre, rfl, hc⟩ := hF _ _ _ hfr
    refine ⟨pre, rfl, ?_⟩
    rw [spanPos_eq_tokSpan]
    exact TSpan.fn _ _ hc
  · cases hdt : dataType (g+1) ts with
    | none => simp [hdt] at hm
    | some x =>
      simp only [hdt, List.mem_singleton] at hm
      subst hm
      obtain ⟨pre, h1, _, _, h2⟩ := dataType_span (g+1) ts a rest hdt
      exact ⟨pre, h1, TSpan.data _ _ h2⟩

theorem sigBody_span (g : Nat) (flags : Option (List String)) (fpos : Pos)
    (hP : SpanL PsSpan (paramListL g))
    (hTh : SpanL (fun o => TsSpan (o.getD [])) (throwingL g))
    (hT : SpanL TSpan (typeRefL g)) :
    SpanL FSpan (sigBody flags fpos g) := by
  intro ts f rest hm
  unfold sigBody at hm
  cases hk : kw? "(" ts with
  | none => simp [hk] at hm
  | some ts1 =>
    obtain ⟨lp, rfl, _⟩ := kw?_inv hk
    simp only [hk] at hm
    obtain ⟨⟨ps, ts2⟩, hps, hm2⟩ := List.mem_flatMap.mp hm
    clear hm
    obtain ⟨pp, rfl, hpp⟩ := hP _ _ _ hps
    dsimp only at hm2
    cases hk2 : kw? ")" ts2 with
    | none => simp [hk2] at hm2
    | some ts3 =>
      obtain ⟨rp, rfl, _⟩ := kw?_inv hk2
      simp only [hk2] at hm2
      obtain ⟨⟨thr, ts4⟩, hthr, hm3⟩ := List.mem_flatMap.mp hm2
      clear hm2
      obtain ⟨pt, rfl, hpt⟩ := hTh _ _ _ hthr
      dsimp only at hm3 hpt
      rcases List.mem_append.mp hm3 with hm | hm
      · split at hm
        · next harrow =>
          obtain ⟨ar, har, _⟩ := peekKw_inv harrow
          obtain ⟨⟨r, ts5⟩, hr, he⟩ := List.mem_map.mp hm
          simp only [Prod.mk.injEq] at he
          obtain ⟨rfl, rfl⟩ := he
          obtain ⟨pr, hpr, hcr⟩ := hT _ _ _ hr
          refine ⟨lp :: (pp ++ rp :: (pt ++ ar :: pr)), ?_, ?_⟩
          · rw [har, hpr]; simp
          · have h2 : TsSpan (thr.getD [] ++ (some r).toList) (rp :: (pt ++ ar :: pr)) := by
              have := ((hpt.append ((TsSpan.single hcr).left [ar])).left [rp])
              simpa using this
            have := FSpan.mk flags fpos ps thr (some r) [lp] pp _ (by simp) hpp h2
            simpa using this
        · simp at hm
      · simp only [List.mem_singleton, Prod.mk.injEq] at hm
        obtain ⟨rfl, rfl⟩ := hm
        refine ⟨lp :: (pp ++ rp :: pt), by simp, ?_⟩
        have h2 : TsSpan (thr.getD [] ++ (none : Option TypeRef).toList) (rp :: pt) := by
          have := hpt.left [rp]
          simpa using this
        have := FSpan.mk flags fpos ps thr none [lp] pp _ (by simp) hpp h2
        simpa using this

theorem functionL_span_step (g : Nat)
    (hP : SpanL PsSpan (paramListL g))
    (hTh : SpanL (fun o => TsSpan (o.getD [])) (throwingL g))
    (hT : SpanL TSpan (typeRefL g)) :
    SpanL FSpan (functionL (g+1)) := by
  intro ts f rest hm
  rw [functionL_succ] at hm
  split at hm
  · next hfn =>
    obtain ⟨fk, hfk, _⟩ := peekKw_inv hfn
    obtain ⟨tg, htg, _⟩ := targets_sound ts.tail
    obtain ⟨pre, hpre, hc⟩ := sigBody_span g _ _ hP hTh hT _ _ _ hm
    refine ⟨fk :: (tg ++ pre), ?_, ?_⟩
    · rw [hfk, htg, hpre]; simp
    · have := hc.left (fk :: tg)
      simpa using this
  · exact sigBody_span g _ _ hP hTh hT _ _ _ hm

theorem paramL_span_step (g : Nat) (hT : SpanL TSpan (typeRefL g)) : SpanL PSpan (paramL (g+1)) := by
  intro ts0 p rest hm
  rw [paramL.eq_2] at hm
  cases hi : ident ts0 with
  | none => simp [hi] at hm
  | some y =>
    obtain ⟨n, ts⟩ := y
    obtain ⟨nt, rfl, _⟩ := ident_inv hi
    simp only [hi] at hm
    cases hk : kw? ":" ts with
    | none => simp [hk] at hm
    | some ts1 =>
      obtain ⟨colon, rfl, _⟩ := kw?_inv hk
      simp only [hk] at hm
      obtain ⟨⟨t, r⟩, ht, he⟩ := List.mem_map.mp hm
      simp only [Prod.mk.injEq] at he
      obtain ⟨rfl, rfl⟩ := he
      obtain ⟨pre, rfl, hc⟩ := hT _ _ _ ht
      refine ⟨nt :: colon :: pre, by simp, ?_⟩
      rw [← List.cons_append, ← List.cons_append, spanPos_eq_tokSpan]
      exact PSpan.mk _ _ _ _ _ hc

theorem PsSpan.cons' {p : Param} {ps : List Param} {sp g : List Token} (h1 : PSpan p sp) (h2 : PsSpan ps g) :
    PsSpan (p :: ps) (sp ++ g) := by
  have := PsSpan.cons p ps [] sp g h1 h2
  simpa using this

theorem paramList1L_span_step (g : Nat) (hp : SpanL PSpan (paramL g)) (h1 : SpanL PsSpan (paramList1L g)) :
    SpanL PsSpan (paramList1L (g+1)) := by
  intro ts ps rest hm
  rw [paramList1L.eq_2] at hm
  rcases List.mem_append.mp hm with hm | hm
  · obtain ⟨⟨p, ts1⟩, hpm, hm2⟩ := List.mem_flatMap.mp hm
    clear hm
    obtain ⟨pp, rfl, hpp⟩ := hp _ _ _ hpm
    dsimp only at hm2
    have hm := hm2
    split at hm
    · next hc =>
      obtain ⟨c, hce, _⟩ := peekKw_inv hc
      obtain ⟨⟨ps', r⟩, hps, he⟩ := List.mem_map.mp hm
      simp only [Prod.mk.injEq] at he
      obtain ⟨rfl, rfl⟩ := he
      obtain ⟨pr, hpr, hcr⟩ := h1 _ _ _ hps
      refine ⟨pp ++ c :: pr, by rw [hce, hpr]; simp, ?_⟩
      exact PsSpan.cons' hpp (hcr.left [c])
    · simp at hm
  · obtain ⟨⟨p, ts1⟩, hpm, he⟩ := List.mem_map.mp hm
    simp only [Prod.mk.injEq] at he
    obtain ⟨rfl, rfl⟩ := he
    obtain ⟨pp, rfl, hpp⟩ := hp _ _ _ hpm
    refine ⟨pp, rfl, ?_⟩
    have := PsSpan.cons' hpp (PsSpan.nil [])
    simpa using this

theorem paramListL_span_step (g : Nat) (h1 : SpanL PsSpan (paramList1L g)) : SpanL PsSpan (paramListL (g+1)) := by
  intro ts ps rest hm
  rw [paramListL.eq_2] at hm
  rcases List.mem_append.mp hm with hm | hm
  · split at hm
    · exact h1 _ _ _ hm
    · simp at hm
  · simp only [List.mem_singleton, Prod.mk.injEq] at hm
    obtain ⟨rfl, rfl⟩ := hm
    exact ⟨[], by simp, PsSpan.nil _⟩

theorem throwList1L_span_step (g : Nat) (hT : SpanL TSpan (typeRefL g)) (h1 : SpanL TsSpan (throwList1L g)) :
    SpanL TsSpan (throwList1L (g+1)) := by
  intro ts l rest hm
  rw [throwList1L.eq_2] at hm
  rcases List.mem_append.mp hm with hm | hm
  · obtain ⟨⟨t, ts1⟩, htm, hm2⟩ := List.mem_flatMap.mp hm
    clear hm
    obtain ⟨pp, rfl, hpp⟩ := hT _ _ _ htm
    dsimp only at hm2
    have hm := hm2
    split at hm
    · next hc =>
      obtain ⟨c, hce, _⟩ := peekKw_inv hc
      obtain ⟨⟨l', r⟩, hl, he⟩ := List.mem_map.mp hm
      simp only [Prod.mk.injEq] at he
      obtain ⟨rfl, rfl⟩ := he
      obtain ⟨pr, hpr, hcr⟩ := h1 _ _ _ hl
      refine ⟨pp ++ c :: pr, by rw [hce, hpr]; simp, ?_⟩
      have := (TsSpan.single hpp).append (hcr.left [c])
      simpa using this
    · simp at hm
  · obtain ⟨⟨t, ts1⟩, htm, he⟩ := List.mem_map.mp hm
    simp only [Prod.mk.injEq] at he
    obtain ⟨rfl, rfl⟩ := he
    obtain ⟨pp, rfl, hpp⟩ := hT _ _ _ htm
    exact ⟨pp, rfl, TsSpan.single hpp⟩

theorem throwingL_span_step (g : Nat) (h1 : SpanL TsSpan (throwList1L g)) :
    SpanL (fun o => TsSpan (o.getD [])) (throwingL (g+1)) := by
  intro ts o rest hm
  rw [throwingL.eq_2] at hm
  split at hm
  · next hth =>
    obtain ⟨th, hthe, _⟩ := peekKw_inv hth
    rcases List.mem_append.mp hm with hm | hm
    · obtain ⟨⟨l, r⟩, hl, he⟩ := List.mem_map.mp hm
      simp only [Prod.mk.injEq] at he
      obtain ⟨rfl, rfl⟩ := he
      obtain ⟨pr, hpr, hcr⟩ := h1 _ _ _ hl
      refine ⟨th :: pr, by rw [hthe, hpr]; simp, ?_⟩
      have := hcr.left [th]
      simpa using this
    · simp only [List.mem_singleton, Prod.mk.injEq] at hm
      obtain ⟨rfl, rfl⟩ := hm
      exact ⟨[th], by rw [hthe]; simp, TsSpan.nil _⟩
  · simp only [List.mem_singleton, Prod.mk.injEq] at hm
    obtain ⟨rfl, rfl⟩ := hm
    exact ⟨[], by simp, TsSpan.nil _⟩

/-- all seven functions of the function-type sub-grammar, by induction on the fuel -/
theorem pl_span (fuel : Nat) :
    SpanL TSpan (typeRefL fuel) ∧ SpanL FSpan (functionL fuel) ∧ SpanL PsSpan (paramListL fuel) ∧
    SpanL PsSpan (paramList1L fuel) ∧ SpanL PSpan (paramL fuel) ∧
    SpanL (fun o => TsSpan (o.getD [])) (throwingL fuel) ∧ SpanL TsSpan (throwList1L fuel) := by
  induction fuel with
  | zero =>
    exact ⟨SpanL.zero _ _ (fun _ => rfl), SpanL.zero _ _ (fun _ => rfl), SpanL.zero _ _ (fun _ => rfl),
      SpanL.zero _ _ (fun _ => rfl), SpanL.zero _ _ (fun _ => rfl), SpanL.zero _ _ (fun _ => rfl),
      SpanL.zero _ _ (fun _ => rfl)⟩
  | succ g ih =>
    obtain ⟨hT, hF, hPL, hP1, hP, hTh, hT1⟩ := ih
    exact ⟨typeRefL_span_step g hF, functionL_span_step g hPL hTh hT, paramListL_span_step g hP1,
      paramList1L_span_step g hP hP1, paramL_span_step g hT, throwingL_span_step g hT1,
      throwList1L_span_step g hT hT1⟩

/-- **type references (data and function types)**: every candidate's position is the span of exactly the tokens it
    consumed, and everything inside nests (`TSpan`) -/
theorem typeRefL_span (fuel : Nat) (ts : List Token) (t : TypeRef) (rest : List Token) (h : (t, rest) ∈ typeRefL fuel ts) :
    ∃ pre, ts = pre ++ rest ∧ pre ≠ [] ∧ t.pos = tokSpan pre ∧ TSpan t pre := by
  obtain ⟨pre, h1, h2⟩ := (pl_span fuel).1 ts t rest h
  exact ⟨pre, h1, h2.ne_nil, h2.pos_eq, h2⟩

/-- **function signatures**: parameters, thrown types and return type lie in order inside the consumed tokens -/
theorem functionL_span (fuel : Nat) (ts : List Token) (f : FnSig) (rest : List Token) (h : (f, rest) ∈ functionL fuel ts) :
    ∃ pre, ts = pre ++ rest ∧ pre ≠ [] ∧ FSpan f pre := by
  obtain ⟨pre, h1, h2⟩ := (pl_span fuel).2.1 ts f rest h
  exact ⟨pre, h1, h2.ne_nil, h2⟩

/-- **parameters**: the position of a parameter is the span of `name : type`, its type that of everything after `:` -/
theorem paramL_span (fuel : Nat) (ts : List Token) (p : Param) (rest : List Token) (h : (p, rest) ∈ paramL fuel ts) :
    ∃ pre, ts = pre ++ rest ∧ pre ≠ [] ∧ p.pos = tokSpan pre ∧ PSpan p pre := by
  obtain ⟨pre, h1, h2⟩ := (pl_span fuel).2.2.2.2.1 ts p rest h
  exact ⟨pre, h1, h2.ne_nil, h2.pos_eq, h2⟩

/-- **a parameter lies within its signature** (flat reading of `PsSpan`) -/
theorem PsSpan.split {ps : List Param} {seg : List Token} (h : PsSpan ps seg)
    {xs ys : List Param} {p : Param} (he : ps = xs ++ p :: ys) :
    ∃ l sp r, seg = l ++ sp ++ r ∧ PSpan p sp ∧ PsSpan ys r := by
  induction xs generalizing ps seg with
  | nil =>
    subst he
    cases h with
    | cons _ _ l sp g h1 h2 => exact ⟨l, sp, g, rfl, h1, h2⟩
  | cons x xs ih =>
    subst he
    cases h with
    | cons _ _ l sp g h1 h2 =>
      obtain ⟨l', sp', r, rfl, h3, h4⟩ := ih h2 rfl
      exact ⟨l ++ sp ++ l', sp', r, by simp, h3, h4⟩


/-! ## 3. fields, members, declarations -/

/-- `FieldSpan f pre`: the field was read from exactly `pre` = comments, name, `:`, the type's tokens, `;`;
    its position is the span of `pre` and its type is the span of exactly the tokens between `:` and `;` -/
def FieldSpan (f : Field) (pre : List Token) : Prop :=
  ∃ cs nm colon st semi, pre = cs ++ nm :: colon :: (st ++ [semi]) ∧ cs.map (·.tk) = printComments f.comment ∧
    nm.tk = .id f.name ∧ colon.tk = .kw ":" ∧ semi.tk = .kw ";" ∧ f.pos = tokSpan pre ∧ TSpan f.ty st

/-- **record fields**: the position of a field is the span of exactly the consumed tokens (doc comments included),
    and the field's type lies within it, between the `:` and the `;` -/
theorem field_span (fuel : Nat) (ts0 : List Token) (f : Field) (r : List Token) (h : field fuel ts0 = some (f, r)) :
    ∃ pre, ts0 = pre ++ r ∧ pre ≠ [] ∧ FieldSpan f pre := by
  obtain ⟨cs, h1, h2⟩ := comments_sound ts0
  unfold field at h
  generalize comments ts0 = x at h h1 h2
  obtain ⟨c, ts⟩ := x
  simp only [Option.bind_eq_bind, Option.pure_def] at h h1 h2
  cases hi : ident ts with
  | none => simp [hi] at h
  | some y =>
    obtain ⟨n, ts1⟩ := y
    obtain ⟨nt, rfl, hnt⟩ := ident_inv hi
    simp only [hi, Option.bind_some] at h
    cases hk : kw? ":" ts1 with
    | none => simp [hk] at h
    | some ts2 =>
      obtain ⟨colon, rfl, hcolon⟩ := kw?_inv hk
      simp only [hk, Option.bind_some] at h
      obtain ⟨t, r', hmem, hnext⟩ := firstThat_inv h
      cases hs : kw? ";" r' with
      | none => simp [hs] at hnext
      | some ts3 =>
        obtain ⟨semi, rfl, hsemi⟩ := kw?_inv hs
        simp only [hs, Option.bind_some, Option.some.injEq, Prod.mk.injEq] at hnext
        obtain ⟨rfl, rfl⟩ := hnext
        obtain ⟨pre, rfl, _, _, hc⟩ := typeRefL_span fuel _ _ _ hmem
        have hts : ts0 = (cs ++ nt :: colon :: (pre ++ [semi])) ++ ts3 := by rw [h1]; simp
        refine ⟨cs ++ nt :: colon :: (pre ++ [semi]), hts, by simp, cs, nt, colon, pre, semi, rfl, h2, hnt, hcolon, hsemi, ?_, hc⟩
        show spanPos ts0 ts3 = _
        rw [hts, spanPos_eq_tokSpan]

/-- exact tiling: the results of a repetition were read from consecutive segments that together make up `pre` -/
inductive Tiles {α : Type} (S : α → List Token → Prop) : List α → List Token → Prop
  | nil : Tiles S [] []
  | cons (a : α) (as : List α) (q pre : List Token) : S a q → Tiles S as pre → Tiles S (a :: as) (q ++ pre)

theorem many_tiles {α : Type} (S : α → List Token → Prop) (fuel : Nat) (stop : List Token → Bool) (p : P α)
    (hp : ∀ ts a rest, p ts = some (a, rest) → ∃ pre, ts = pre ++ rest ∧ S a pre) (n : Nat) :
    ∀ ts as rest, many fuel stop p n ts = some (as, rest) → ∃ pre, ts = pre ++ rest ∧ Tiles S as pre := by
  induction n with
  | zero => intro ts as rest h; simp [many] at h
  | succ n ih =>
    intro ts as rest h
    simp only [many] at h
    split at h
    · simp at h; obtain ⟨rfl, rfl⟩ := h; exact ⟨[], by simp, Tiles.nil⟩
    · cases h1 : p ts with
      | none => simp [h1] at h
      | some x =>
        obtain ⟨a, r⟩ := x
        simp only [h1, Option.bind_eq_bind, Option.bind_some] at h
        cases h2 : many fuel stop p n r with
        | none => simp [h2] at h
        | some y =>
          obtain ⟨as', r'⟩ := y
          simp [h2] at h
          obtain ⟨rfl, rfl⟩ := h
          obtain ⟨q, rfl, hq⟩ := hp _ _ _ h1
          obtain ⟨pre, rfl, hpre⟩ := ih _ _ _ h2
          exact ⟨q ++ pre, by simp, Tiles.cons _ _ _ _ hq hpre⟩

/-- an element of a tiling occupies a contiguous sub-segment; the elements after it tile what follows -/
theorem Tiles.split {α : Type} {S : α → List Token → Prop} {as : List α} {pre : List Token} (h : Tiles S as pre)
    {xs ys : List α} {a : α} (he : as = xs ++ a :: ys) :
    ∃ l q r, pre = l ++ q ++ r ∧ Tiles S xs l ∧ S a q ∧ Tiles S ys r := by
  induction xs generalizing as pre with
  | nil =>
    subst he
    cases h with
    | cons _ _ q pre' h1 h2 => exact ⟨[], q, pre', by simp, Tiles.nil, h1, h2⟩
  | cons x xs ih =>
    subst he
    cases h with
    | cons _ _ q pre' h1 h2 =>
      obtain ⟨l, q', r, rfl, h3, h4, h5⟩ := ih h2 rfl
      exact ⟨q ++ l, q', r, by simp, Tiles.cons _ _ _ _ h1 h3, h4, h5⟩

/-- the recorded position of a declaration -/
def Decl.pos : Decl → Pos
  | .enum _ _ _ p => p
  | .flags _ _ _ p => p
  | .record _ _ _ _ _ _ p => p
  | .interface _ _ _ _ _ _ _ p => p
  | .function _ _ _ p => p
  | .error _ _ _ p => p


theorem TypeRef.pos_eq_posOf (t : TypeRef) : t.pos = posOf t := by cases t <;> rfl

set_option hygiene false in
/-- one-off helper: chase a successful `Option`-monad computation `h` down to its final `some (…, …)` -/
local macro "crunch_pos" : tactic => `(tactic| repeat' (first
  | (simp only [Option.some.injEq, Prod.mk.injEq] at h; obtain ⟨rfl, rfl⟩ := h; rfl)
  | (rw [Option.bind_eq_some_iff] at h; obtain ⟨_, _, h⟩ := h; try dsimp only at h)
  | split at h
  | (simp at h; done)))

/-- **whole declarations (all six kinds)**: the recorded position is `spanPos` from the start of the statement
    (`ts0`, which includes the doc comments) to the remainder after the declaration -/
theorem typeDecl_pos (fuel : Nat) (c : List String) (ts0 ts : List Token) (d : Decl) (rest : List Token)
    (h : typeDecl fuel c ts0 ts = some (d, rest)) : d.pos = spanPos ts0 rest := by
  unfold typeDecl at h
  simp only [Option.bind_eq_bind, Option.pure_def] at h
  crunch_pos
  all_goals (obtain ⟨_, _, _, h⟩ := firstThat_inv h; try dsimp only at h)
  all_goals crunch_pos

/-- the recorded position of an interface member -/
def Member.pos : Member → Pos
  | .m x => x.pos
  | .p x => x.pos

theorem member_pos (fuel : Nat) (ts0 : List Token) (a : Member) (r : List Token) (h : member fuel ts0 = some (a, r)) :
    a.pos = spanPos ts0 r := by
  unfold member at h
  simp only [Option.bind_eq_bind, Option.pure_def] at h
  crunch_pos
  all_goals (obtain ⟨_, _, _, h⟩ := firstThat_inv h; try dsimp only at h)
  all_goals crunch_pos

/-- **whole declarations**: with `ts0 = cs ++ ts` (`cs` the doc comments in front of the declaration, as in `content`),
    the position of the declaration is the span of exactly the comments and the consumed tokens -/
theorem typeDecl_span (fuel : Nat) (c : List String) (cs ts : List Token) (d : Decl) (rest : List Token)
    (h : typeDecl fuel c (cs ++ ts) ts = some (d, rest)) :
    ∃ pre, ts = pre ++ rest ∧ d.pos = tokSpan (cs ++ pre) := by
  obtain ⟨pre, rfl, _⟩ := typeDecl_cov default [] fuel c _ ts d rest h
  refine ⟨pre, rfl, ?_⟩
  rw [typeDecl_pos fuel c _ _ d rest h, ← List.append_assoc, spanPos_eq_tokSpan]

/-- **records**: the record's position is the span of everything from the doc comments to the closing `}` /
    `deriving (…)`, and the fields tile the body between `{` and `}` exactly, each with its own exact span -/
theorem record_span (fuel : Nat) (c' : List String) (cs ts : List Token) (n : String) (c : List String)
    (fl : List String) (flp : Pos) (fs : List Field) (dv : Option (List (String × Pos))) (p : Pos) (rest : List Token)
    (h : typeDecl fuel c' (cs ++ ts) ts = some (.record n c fl flp fs dv p, rest)) :
    ∃ hd body tl, ts = hd ++ body ++ tl ++ rest ∧ hd ≠ [] ∧ tl ≠ [] ∧ p = tokSpan (cs ++ hd ++ body ++ tl) ∧
      Tiles FieldSpan fs body := by
  have hp := typeDecl_pos fuel c' _ _ _ rest h
  obtain ⟨_, nt, eq, k, tg, lb, body0, rb, dvt, rfl, _, _, _, _, _, _, hm, _⟩ :=
    typeDecl_record_inv fuel c' _ _ n c fl flp fs dv p rest h
  obtain ⟨body, rfl, htiles⟩ := many_tiles FieldSpan fuel _ (field fuel)
    (fun ts a r h => by obtain ⟨pre, h1, _, h2⟩ := field_span fuel ts a r h; exact ⟨pre, h1, h2⟩) fuel _ _ _ hm
  refine ⟨nt :: eq :: k :: (tg ++ [lb]), body, rb :: dvt, by simp, by simp, by simp, ?_, htiles⟩
  have hts : cs ++ nt :: eq :: k :: (tg ++ lb :: (body ++ rb :: (dvt ++ rest)))
      = (cs ++ nt :: eq :: k :: (tg ++ [lb]) ++ body ++ rb :: dvt) ++ rest := by simp
  show (Decl.record n c fl flp fs dv p).pos = _
  rw [hp, hts, spanPos_eq_tokSpan]

/-- **a field lies within its record**, and different fields occupy disjoint segments in order (flat reading) -/
theorem record_field_within (fuel : Nat) (c' : List String) (cs ts : List Token) (n : String) (c : List String)
    (fl : List String) (flp : Pos) (fs : List Field) (dv : Option (List (String × Pos))) (p : Pos) (rest : List Token)
    (h : typeDecl fuel c' (cs ++ ts) ts = some (.record n c fl flp fs dv p, rest))
    {xs ys : List Field} {f : Field} (he : fs = xs ++ f :: ys) :
    ∃ l q r, cs ++ ts = l ++ q ++ r ++ rest ∧ l ≠ [] ∧ r ≠ [] ∧ q ≠ [] ∧ p = tokSpan (l ++ q ++ r) ∧ f.pos = tokSpan q ∧
      FieldSpan f q := by
  obtain ⟨hd, body, tl, rfl, hhd, htl, hp, htiles⟩ := record_span fuel c' cs ts n c fl flp fs dv p rest h
  obtain ⟨l, q, r, rfl, _, hq, _⟩ := htiles.split he
  have hq' := hq
  obtain ⟨cs', nm, colon, st, semi, rfl, _, _, _, _, hpos, _⟩ := hq'
  refine ⟨cs ++ hd ++ l, _, r ++ tl, by simp, ?_, by simp [htl], by simp, ?_, hpos, hq⟩
  · cases hd with
    | nil => exact absurd rfl hhd
    | cons a hd => simp
  · rw [hp]; congr 1; simp

/-- `MemberSpan a pre`: the interface member was read from exactly `pre`; a property's type sits right before the
    final `;`, a method's signature (with its parameters, thrown types and return type nested inside) likewise -/
def MemberSpan (a : Member) (pre : List Token) : Prop :=
  a.pos = tokSpan pre ∧
  match a with
  | .p x => ∃ l st semi, pre = l ++ st ++ [semi] ∧ l ≠ [] ∧ TSpan x.ty st
  | .m x => ∃ l sg semi fl fp, pre = l ++ sg ++ [semi] ∧ l ≠ [] ∧ FSpan (.mk fl fp x.params x.throwing x.ret) sg

/-- **methods and properties**: the position of an interface member is the span of exactly the consumed tokens, and
    the parameters / thrown types / return type (resp. the property type) nest inside it -/
theorem member_span (fuel : Nat) (ts0 : List Token) (a : Member) (r : List Token) (h : member fuel ts0 = some (a, r)) :
    ∃ pre, ts0 = pre ++ r ∧ pre ≠ [] ∧ MemberSpan a pre := by
  have hp := member_pos fuel ts0 a r h
  obtain ⟨cs, c, _, hcase⟩ := member_inv fuel ts0 a r h
  rcases hcase with ⟨pk, nt, colon, ts2, semi, n, t, p, rfl, _, _, _, hmem, _, rfl⟩ |
    ⟨m1, m2, m3, nt, ts5, semi, n, st, co, as, fl, fp, ps, thr, ret, p, rfl, _, _, _, _, _, hmem, _, _, rfl⟩
  · obtain ⟨st, rfl, _, _, hst⟩ := typeRefL_span fuel _ _ _ hmem
    have hts : cs ++ pk :: nt :: colon :: (st ++ semi :: r) = (cs ++ pk :: nt :: colon :: (st ++ [semi])) ++ r := by simp
    refine ⟨cs ++ pk :: nt :: colon :: (st ++ [semi]), hts, by simp, ?_, cs ++ [pk, nt, colon], st, semi, by simp, by simp, hst⟩
    rw [hp, hts, spanPos_eq_tokSpan]
  · obtain ⟨sg, rfl, _, hsg⟩ := functionL_span fuel _ _ _ hmem
    have hts : cs ++ (m1 ++ (m2 ++ (m3 ++ nt :: (sg ++ semi :: r))))
        = (cs ++ (m1 ++ (m2 ++ (m3 ++ nt :: (sg ++ [semi]))))) ++ r := by simp
    refine ⟨cs ++ (m1 ++ (m2 ++ (m3 ++ nt :: (sg ++ [semi])))), hts, by simp, ?_,
      cs ++ (m1 ++ (m2 ++ (m3 ++ [nt]))), sg, semi, fl, fp, by simp, by simp, hsg⟩
    rw [hp, hts, spanPos_eq_tokSpan]

/-- **interfaces**: the interface's position is the span of everything from the doc comments to the closing `}`, and
    the members (methods and properties, in source order) tile the body between `{` and `}` exactly -/
theorem interface_span (fuel : Nat) (c' : List String) (cs ts : List Token) (n : String) (c : List String)
    (mn : Bool) (fl : List String) (flp : Pos) (methods : List Method) (props : List Prop') (p : Pos) (rest : List Token)
    (h : typeDecl fuel c' (cs ++ ts) ts = some (.interface n c mn fl flp methods props p, rest)) :
    ∃ hd body rb ms, ts = hd ++ body ++ [rb] ++ rest ∧ hd ≠ [] ∧ p = tokSpan (cs ++ hd ++ body ++ [rb]) ∧
      Tiles MemberSpan ms body ∧ methods = ms.filterMap Member.method? ∧ props = ms.filterMap Member.prop? := by
  have hp := typeDecl_pos fuel c' _ _ _ rest h
  obtain ⟨_, nt, eq, mk, k, tg, lb, body0, rb, ms, rfl, _, _, _, _, _, _, _, hm, hms, hps⟩ :=
    typeDecl_interface_inv fuel c' _ _ n c mn fl flp methods props p rest h
  obtain ⟨body, rfl, htiles⟩ := many_tiles MemberSpan fuel _ (member fuel)
    (fun ts a r h => by obtain ⟨pre, h1, _, h2⟩ := member_span fuel ts a r h; exact ⟨pre, h1, h2⟩) fuel _ _ _ hm
  refine ⟨nt :: eq :: (mk ++ k :: (tg ++ [lb])), body, rb, ms, by simp, by simp, ?_, htiles, hms, hps⟩
  have hts : cs ++ nt :: eq :: (mk ++ k :: (tg ++ lb :: (body ++ rb :: rest)))
      = (cs ++ nt :: eq :: (mk ++ k :: (tg ++ [lb])) ++ body ++ [rb]) ++ rest := by simp
  show (Decl.interface n c mn fl flp methods props p).pos = _
  rw [hp, hts, spanPos_eq_tokSpan]


/-! ### namespaces and whole files -/

/-- an enum item was read from exactly `pre` (doc comments, name, `;`) -/
def ItemSpan (i : Item) (pre : List Token) : Prop := i.pos = tokSpan pre ∧ pre ≠ []

theorem item_span : ∀ ts i rest, item ts = some (i, rest) → ∃ pre, ts = pre ++ rest ∧ ItemSpan i pre := by
  intro ts0 i rest h
  have hp : i.pos = spanPos ts0 rest := by
    unfold item at h
    simp only [Option.bind_eq_bind, Option.pure_def] at h
    crunch_pos
  obtain ⟨q, rfl, hq⟩ := item_sound ts0 i rest h
  refine ⟨q, rfl, by rw [hp, spanPos_eq_tokSpan], ?_⟩
  rintro rfl
  simp [printItem] at hq

/-- a flags item was read from exactly `pre` (doc comments, name, optional `= modifier`, `;`) -/
def FlagItemSpan (i : FlagItem) (pre : List Token) : Prop := i.pos = tokSpan pre ∧ pre ≠ []

theorem flagItem_span : ∀ ts i rest, flagItem ts = some (i, rest) → ∃ pre, ts = pre ++ rest ∧ FlagItemSpan i pre := by
  intro ts0 i rest h
  have hp : i.pos = spanPos ts0 rest := by
    unfold flagItem at h
    simp only [Option.bind_eq_bind, Option.pure_def] at h
    crunch_pos
  obtain ⟨q, rfl, hq⟩ := flagItem_sound ts0 i rest h
  refine ⟨q, rfl, by rw [hp, spanPos_eq_tokSpan], ?_⟩
  rintro rfl
  simp [printFlagItem] at hq

theorem errParamsL_span (fuel n : Nat) : SpanL PsSpan (errParamsL fuel n) := by
  induction n with
  | zero => exact SpanL.zero _ _ (fun _ => rfl)
  | succ n ih =>
    intro ts ps rest hm
    simp only [errParamsL] at hm
    rcases List.mem_append.mp hm with hm | hm
    · split at hm
      · obtain ⟨⟨p, ts1⟩, hpm, hm2⟩ := List.mem_flatMap.mp hm
        clear hm
        obtain ⟨pp, rfl, _, _, hpp⟩ := paramL_span fuel _ _ _ hpm
        dsimp only at hm2
        obtain ⟨⟨ps', r⟩, hps, he⟩ := List.mem_map.mp hm2
        simp only [Prod.mk.injEq] at he
        obtain ⟨rfl, rfl⟩ := he
        obtain ⟨pr, rfl, hcr⟩ := ih _ _ _ hps
        exact ⟨pp ++ pr, by simp, PsSpan.cons' hpp hcr⟩
      · simp at hm
    · simp only [List.mem_singleton, Prod.mk.injEq] at hm
      obtain ⟨rfl, rfl⟩ := hm
      exact ⟨[], by simp, PsSpan.nil _⟩

/-- an error code was read from exactly `pre`; its parameters lie inside, in order -/
def ErrCodeSpan (c : ErrCode) (pre : List Token) : Prop := c.pos = tokSpan pre ∧ pre ≠ [] ∧ PsSpan c.params pre

theorem errCode_span (fuel : Nat) : ∀ ts c rest, errCode fuel ts = some (c, rest) → ∃ pre, ts = pre ++ rest ∧ ErrCodeSpan c pre := by
  intro ts0 c r h
  have hp : c.pos = spanPos ts0 r := by
    unfold errCode at h
    simp only [Option.bind_eq_bind, Option.pure_def] at h
    crunch_pos
    all_goals (obtain ⟨_, _, _, h⟩ := firstThat_inv h; try dsimp only at h)
    all_goals crunch_pos
  obtain ⟨cs, h1, _⟩ := comments_sound ts0
  unfold errCode at h
  generalize comments ts0 = x at h h1
  obtain ⟨cm, ts⟩ := x
  simp only [Option.bind_eq_bind, Option.pure_def] at h h1
  cases hi : ident ts with
  | none => simp [hi] at h
  | some y =>
    obtain ⟨n, ts1⟩ := y
    obtain ⟨nt, rfl, _⟩ := ident_inv hi
    simp only [hi, Option.bind_some] at h
    split at h
    · next hlp =>
      obtain ⟨lp, hlpe, _⟩ := peekKw_inv hlp
      obtain ⟨ps, r', hmem, hnext⟩ := firstThat_inv h
      cases hk : kw? ")" r' with
      | none => simp [hk] at hnext
      | some ts3 =>
        obtain ⟨rp, rfl, _⟩ := kw?_inv hk
        simp only [hk, Option.bind_some] at hnext
        cases hs : kw? ";" ts3 with
        | none => simp [hs] at hnext
        | some ts4 =>
          obtain ⟨semi, rfl, _⟩ := kw?_inv hs
          simp only [hs, Option.bind_some, Option.some.injEq, Prod.mk.injEq] at hnext
          obtain ⟨rfl, rfl⟩ := hnext
          obtain ⟨pre, hpre, hc⟩ := errParamsL_span fuel fuel _ _ _ hmem
          have hts : ts0 = (cs ++ nt :: lp :: (pre ++ [rp, semi])) ++ ts4 := by rw [h1, hlpe, hpre]; simp
          refine ⟨cs ++ nt :: lp :: (pre ++ [rp, semi]), hts, ?_, by simp, ?_⟩
          · rw [hp, hts, spanPos_eq_tokSpan]
          · have := (hc.right [rp, semi]).left (cs ++ [nt, lp])
            simpa using this
    · cases hs : kw? ";" ts1 with
      | none => simp [hs] at h
      | some ts4 =>
        obtain ⟨semi, rfl, _⟩ := kw?_inv hs
        simp only [hs, Option.bind_some, Option.some.injEq, Prod.mk.injEq] at h
        obtain ⟨rfl, rfl⟩ := h
        have hts : ts0 = (cs ++ [nt, semi]) ++ ts4 := by rw [h1]; simp
        refine ⟨cs ++ [nt, semi], hts, ?_, by simp, PsSpan.nil _⟩
        rw [hp, hts, spanPos_eq_tokSpan]

/-- kind-specific nesting of a declaration inside its own tokens `pre` (doc comments excluded): the items / fields /
    members / error codes tile the body between `{` and `}`; a named function's signature sits right before the `;` -/
def DeclInner (d : Decl) (pre : List Token) : Prop :=
  match d with
  | .enum _ _ is _ => ∃ hd body rb, pre = hd ++ body ++ [rb] ∧ hd ≠ [] ∧ Tiles ItemSpan is body
  | .flags _ _ is _ => ∃ hd body rb, pre = hd ++ body ++ [rb] ∧ hd ≠ [] ∧ Tiles FlagItemSpan is body
  | .record _ _ _ _ fs _ _ => ∃ hd body tl, pre = hd ++ body ++ tl ∧ hd ≠ [] ∧ tl ≠ [] ∧ Tiles FieldSpan fs body
  | .interface _ _ _ _ _ methods props _ => ∃ hd body rb ms, pre = hd ++ body ++ [rb] ∧ hd ≠ [] ∧
      Tiles MemberSpan ms body ∧ methods = ms.filterMap Member.method? ∧ props = ms.filterMap Member.prop?
  | .error _ _ codes _ => ∃ hd body rb, pre = hd ++ body ++ [rb] ∧ hd ≠ [] ∧ Tiles ErrCodeSpan codes body
  | .function _ _ f _ => ∃ hd sg semi, pre = hd ++ sg ++ [semi] ∧ hd ≠ [] ∧ FSpan f sg

theorem DeclInner.ne_nil {d : Decl} {pre : List Token} (h : DeclInner d pre) : pre ≠ [] := by
  cases d <;> simp only [DeclInner] at h
  · obtain ⟨hd, body, rb, rfl, _, _⟩ := h; simp
  · obtain ⟨hd, body, rb, rfl, _, _⟩ := h; simp
  · obtain ⟨hd, body, tl, rfl, _, h3, _⟩ := h; simp [h3]
  · obtain ⟨hd, body, rb, ms, rfl, _, _⟩ := h; simp
  · obtain ⟨hd, sg, semi, rfl, _, _⟩ := h; simp
  · obtain ⟨hd, body, rb, rfl, _, _⟩ := h; simp

/-- **declarations, with what is inside** (all six kinds): the position is the span of the doc comments and exactly the
    consumed (non-empty) tokens; items / fields / members / error codes tile the body, each with its exact span -/
theorem typeDecl_inner (fuel : Nat) (c : List String) (cs ts : List Token) (d : Decl) (rest : List Token)
    (h : typeDecl fuel c (cs ++ ts) ts = some (d, rest)) :
    ∃ pre, ts = pre ++ rest ∧ pre ≠ [] ∧ d.pos = tokSpan (cs ++ pre) ∧ DeclInner d pre := by
  have key : ∀ pre, ts = pre ++ rest → DeclInner d pre →
      ∃ pre, ts = pre ++ rest ∧ pre ≠ [] ∧ d.pos = tokSpan (cs ++ pre) ∧ DeclInner d pre := by
    intro pre h1 h2
    obtain ⟨pre', h1', hpos⟩ := typeDecl_span fuel c cs ts d rest h
    have : pre' = pre := List.append_cancel_right (h1'.symm.trans h1)
    subst this
    exact ⟨pre', h1, h2.ne_nil, hpos, h2⟩
  cases d with
  | record n c' fl flp fs dv p =>
    obtain ⟨hd, body, tl, h1, h2, h3, _, h5⟩ := record_span fuel c cs ts n c' fl flp fs dv p rest h
    exact key (hd ++ body ++ tl) h1 ⟨hd, body, tl, rfl, h2, h3, h5⟩
  | interface n c' mn fl flp methods props p =>
    obtain ⟨hd, body, rb, ms, h1, h2, _, h4, h5, h6⟩ := interface_span fuel c cs ts n c' mn fl flp methods props p rest h
    exact key (hd ++ body ++ [rb]) h1 ⟨hd, body, rb, ms, rfl, h2, h4, h5, h6⟩
  | enum n c' is p =>
    obtain ⟨_, nt, eq, k, lb, body0, rb, rfl, _, _, _, _, _, hm⟩ := typeDecl_enum_inv fuel c _ _ n c' is p rest h
    obtain ⟨body, rfl, ht⟩ := many_tiles ItemSpan fuel _ item item_span fuel _ _ _ hm
    exact key ([nt, eq, k, lb] ++ body ++ [rb]) (by simp) ⟨[nt, eq, k, lb], body, rb, rfl, by simp, ht⟩
  | flags n c' is p =>
    obtain ⟨_, nt, eq, k, lb, body0, rb, rfl, _, _, _, _, _, hm⟩ := typeDecl_flags_inv fuel c _ _ n c' is p rest h
    obtain ⟨body, rfl, ht⟩ := many_tiles FlagItemSpan fuel _ flagItem flagItem_span fuel _ _ _ hm
    exact key ([nt, eq, k, lb] ++ body ++ [rb]) (by simp) ⟨[nt, eq, k, lb], body, rb, rfl, by simp, ht⟩
  | function n c' f p =>
    obtain ⟨_, nt, eq, ts2, semi, rfl, _, _, hmem, _, _⟩ := typeDecl_function_inv fuel c _ _ n c' f p rest h
    obtain ⟨sg, rfl, _, hsg⟩ := functionL_span fuel _ _ _ hmem
    exact key ([nt, eq] ++ sg ++ [semi]) (by simp) ⟨[nt, eq], sg, semi, rfl, by simp, hsg⟩
  | error n c' codes p =>
    obtain ⟨_, nt, eq, k, lb, body0, rb, rfl, _, _, _, _, _, hm⟩ := typeDecl_error_inv fuel c _ _ n c' codes p rest h
    obtain ⟨body, rfl, ht⟩ := many_tiles ErrCodeSpan fuel _ (errCode fuel) (errCode_span fuel) fuel _ _ _ hm
    exact key ([nt, eq, k, lb] ++ body ++ [rb]) (by simp) ⟨[nt, eq, k, lb], body, rb, rfl, by simp, ht⟩

/-- `ContentSpan c seg`: a declaration or namespace was read from exactly `seg` (doc comments included); the children of
    a namespace tile its body between `{` and `}` -/
inductive ContentSpan : Content → List Token → Prop
  | decl (d : Decl) (cs pre : List Token) : d.pos = tokSpan (cs ++ pre) → DeclInner d pre → ContentSpan (.decl d) (cs ++ pre)
  | ns (n : String) (c : List String) (children : List Content) (hd body : List Token) (rb : Token) : hd ≠ [] →
      Tiles ContentSpan children body →
      ContentSpan (.ns n c children (tokSpan (hd ++ body ++ [rb]))) (hd ++ body ++ [rb])

theorem content_span (fuel : Nat) : ∀ ts a rest, content fuel ts = some (a, rest) → ∃ pre, ts = pre ++ rest ∧ ContentSpan a pre := by
  induction fuel with
  | zero => intro ts a rest h; simp [content] at h
  | succ g ih =>
    intro ts0 a rest h
    rw [content_succ] at h
    obtain ⟨cs, h1, _⟩ := comments_sound ts0
    split at h
    · next hns =>
      obtain ⟨nk, hnk, _⟩ := peekKw_inv hns
      cases hn : nsIdent (comments ts0).2.tail with
      | none => simp [hn] at h
      | some y =>
        obtain ⟨n, ts1⟩ := y
        obtain ⟨nt, d, hnt, _⟩ := nsIdent_inv hn
        simp only [hn] at h
        cases hl : kw? "{" ts1 with
        | none => simp [hl] at h
        | some ts2 =>
          obtain ⟨lb, rfl, _⟩ := kw?_inv hl
          simp only [hl] at h
          cases hm : many g (peekKw "}") (content g) g ts2 with
          | none => simp [hm] at h
          | some z =>
            obtain ⟨children, ts3⟩ := z
            simp only [hm] at h
            cases hr : kw? "}" ts3 with
            | none => simp [hr] at h
            | some ts4 =>
              obtain ⟨rb, rfl, _⟩ := kw?_inv hr
              simp only [hr, Option.some.injEq, Prod.mk.injEq] at h
              obtain ⟨rfl, rfl⟩ := h
              obtain ⟨pre, rfl, hc⟩ := many_tiles ContentSpan g _ (content g) ih g _ _ _ hm
              have hts : ts0 = ((cs ++ [nk, nt, lb]) ++ pre ++ [rb]) ++ ts4 := by rw [h1, hnk, hnt]; simp
              refine ⟨(cs ++ [nk, nt, lb]) ++ pre ++ [rb], hts, ?_⟩
              have := ContentSpan.ns n (comments ts0).1 children (cs ++ [nk, nt, lb]) pre rb (by simp) hc
              have hsp : spanPos ts0 ts4 = tokSpan ((cs ++ [nk, nt, lb]) ++ pre ++ [rb]) := by
                rw [hts, spanPos_eq_tokSpan]
              rw [hsp]
              exact this
    · cases ht : typeDecl g (comments ts0).1 ts0 (comments ts0).2 with
      | none => simp [ht] at h
      | some y =>
        obtain ⟨d, r⟩ := y
        simp only [ht, Option.some.injEq, Prod.mk.injEq] at h
        obtain ⟨rfl, rfl⟩ := h
        have ht' : typeDecl g (comments ts0).1 (cs ++ (comments ts0).2) (comments ts0).2 = some (d, r) := by
          rw [← h1]; exact ht
        obtain ⟨pre, hpre, _, hpos, hin⟩ := typeDecl_inner g _ cs _ d r ht'
        exact ⟨cs ++ pre, by rw [List.append_assoc, ← hpre]; exact h1, ContentSpan.decl d cs pre hpos hin⟩


/-- a load directive was read from exactly two tokens; `pos` spans both, `pathPos` the file path token -/
def LoadSpan (l : LoadAt) (pre : List Token) : Prop :=
  ∃ a b, pre = [a, b] ∧ l.pos = tokSpan [a, b] ∧ l.pathPos = tokSpan [b]

theorem load_span : ∀ ts l rest, load ts = some (l, rest) → ∃ pre, ts = pre ++ rest ∧ LoadSpan l pre := by
  intro ts l rest h
  unfold load at h
  split at h
  · next a b r =>
    have e1 : spanPos (a :: b :: r) r = tokSpan [a, b] := spanPos_eq_tokSpan [a, b] r
    have e2 : spanPos (b :: r) r = tokSpan [b] := spanPos_eq_tokSpan [b] r
    split at h
    · split at h
      · simp at h; obtain ⟨rfl, rfl⟩ := h; exact ⟨[a, b], by simp, a, b, rfl, e1, e2⟩
      · split at h
        · simp at h; obtain ⟨rfl, rfl⟩ := h; exact ⟨[a, b], by simp, a, b, rfl, e1, e2⟩
        · simp at h
    · simp at h
  · simp at h

/-- **whole files**: the load directives and then the top-level contents tile the token list exactly; every recorded
    position (directive, declaration, namespace, and — through `DeclInner` — field, member, parameter, type
    reference, generic argument) is the span of exactly its tile, and tiles nest like the constructs -/
theorem parseFile_span (toks : List Token) (file : File) (h : parseFile toks = some file) :
    ∃ p1 p2, toks = p1 ++ p2 ∧ Tiles LoadSpan file.loads p1 ∧ Tiles ContentSpan file.contents p2 := by
  rw [parseFile_eq] at h
  cases hl : many (8 * toks.length + 16) stopLoads load (8 * toks.length + 16) toks with
  | none => simp [hl] at h
  | some x =>
    obtain ⟨ls, ts1⟩ := x
    simp only [hl] at h
    cases hc : many (8 * toks.length + 16) (fun t => t.isEmpty) (content (8 * toks.length + 16)) (8 * toks.length + 16) ts1 with
    | none => simp [hc] at h
    | some y =>
      obtain ⟨cs, ts2⟩ := y
      simp only [hc] at h
      split at h
      · next hemp =>
        simp only [Option.some.injEq] at h
        subst h
        have hts2 : ts2 = [] := by simpa using hemp
        subst hts2
        obtain ⟨p1, hp1, ht1⟩ := many_tiles LoadSpan _ _ load load_span _ _ _ _ hl
        obtain ⟨p2, hp2, ht2⟩ := many_tiles ContentSpan _ _ _ (content_span _) _ _ _ _ hc
        exact ⟨p1, p2, by rw [hp1, hp2]; simp, ht1, ht2⟩
      · simp at h

/-! ## 4. in terms of the source text -/

theorem advance_no_newline (line col : Nat) (w : List Char) (h : '\n' ∉ w) : advance line col w = (line, col + w.length) := by
  induction w generalizing col with
  | nil => simp [advance]
  | cons c w ih =>
    have hc : c ≠ '\n' := fun he => h (by simp [he])
    have hw : '\n' ∉ w := fun hm => h (by simp [hm])
    simp only [advance, beq_iff_eq, hc, if_false]
    rw [ih _ hw]; simp only [List.length_cons, Prod.mk.injEq, true_and]; omega

/-- **positions of type references in the source text**: for a successfully lexed text and a type reference parsed
    from (a suffix `ts` of) its tokens, the recorded start is the line/column (`advance 1 0`) reached after the text `p1`
    in front of the first consumed token, and the recorded end is the line/column of the last consumed token plus its
    length — which is the line/column reached after the last consumed token's text `p2 ++ w2` whenever that text
    contains no line break (it is a name or one of `<`, `,`, `>`, `?`) -/
theorem dataType_text_span {src : String} {toks before ts : List Token} (hl : lex src = some toks)
    (hts : toks = before ++ ts) {fuel : Nat} {t : TypeRef} {rest : List Token} (h : dataType fuel ts = some (t, rest)) :
    ∃ pre a b, ts = pre ++ rest ∧ pre.head? = some a ∧ pre.getLast? = some b ∧
      ∃ p1 w1 q1 p2 w2 q2, src.toList = p1 ++ w1 ++ q1 ∧ a.tk.text.toList = w1 ∧
        (t.pos.sl, t.pos.sc) = advance 1 0 p1 ∧
        src.toList = p2 ++ w2 ++ q2 ∧ b.tk.text.toList = w2 ∧
        (t.pos.el, t.pos.ec) = ((advance 1 0 p2).1, (advance 1 0 p2).2 + w2.length) ∧
        ('\n' ∉ w2 → (t.pos.el, t.pos.ec) = advance 1 0 (p2 ++ w2)) := by
  obtain ⟨pre, a, b, h1, ha, hb, hs, he⟩ := dataType_span_first_last fuel ts t rest h
  have hamem : a ∈ toks := by
    rw [hts, h1]; simp only [List.mem_append]
    exact Or.inr (Or.inl (List.mem_of_mem_head? ha))
  have hbmem : b ∈ toks := by
    rw [hts, h1]; simp only [List.mem_append]
    exact Or.inr (Or.inl (List.mem_of_getLast? hb))
  obtain ⟨p1, w1, q1, hs1, _, ht1, _, hst1, _⟩ := lex_token_position hl hamem
  obtain ⟨p2, w2, q2, hs2, _, ht2, hlen2, hst2, _⟩ := lex_token_position hl hbmem
  have hbl : b.line = (advance 1 0 p2).1 := congrArg Prod.fst hst2
  have hbc : b.col = (advance 1 0 p2).2 := congrArg Prod.snd hst2
  have hend : (t.pos.el, t.pos.ec) = ((advance 1 0 p2).1, (advance 1 0 p2).2 + w2.length) := by
    rw [he, hbl, hbc, hlen2]
  refine ⟨pre, a, b, h1, ha, hb, p1, w1, q1, p2, w2, q2, hs1, ht1, by rw [hs, hst1], hs2, ht2, hend, ?_⟩
  intro hnl
  rw [hend, advance_append, advance_no_newline _ _ _ hnl]

theorem dotSplit_mem (cs : List Char) : ∀ c ∈ cs, c = '.' ∨ ∃ part ∈ dotSplit cs, c ∈ part := by
  induction cs with
  | nil => intro c hc; cases hc
  | cons x cs ih =>
    intro c hc
    simp only [dotSplit]
    split
    · next hx =>
      rcases List.mem_cons.mp hc with rfl | hc
      · exact Or.inl (by simpa using hx)
      · rcases ih c hc with h | ⟨part, hp, hcp⟩
        · exact Or.inl h
        · exact Or.inr ⟨part, by simp [hp], hcp⟩
    · split
      · next hd =>
        rcases List.mem_cons.mp hc with rfl | hc
        · exact Or.inr ⟨[c], by simp, by simp⟩
        · rcases ih c hc with h | ⟨part, hp, hcp⟩
          · exact Or.inl h
          · rw [hd] at hp; cases hp
      · next h t hd =>
        rcases List.mem_cons.mp hc with rfl | hc
        · exact Or.inr ⟨c :: h, by simp, by simp⟩
        · rcases ih c hc with h' | ⟨part, hp, hcp⟩
          · exact Or.inl h'
          · rw [hd] at hp
            rcases List.mem_cons.mp hp with rfl | hp
            · exact Or.inr ⟨x :: part, by simp, by simp [hcp]⟩
            · exact Or.inr ⟨part, by simp [hp], hcp⟩

theorem isIdent_no_newline {cs : List Char} (h : isIdent cs = true) : '\n' ∉ cs := by
  cases cs with
  | nil => simp
  | cons c r =>
    simp only [isIdent, Bool.and_eq_true, List.all_eq_true] at h
    intro hm
    rcases List.mem_cons.mp hm with he | hm
    · rw [← he] at h; exact absurd h.1 (by decide)
    · exact absurd (h.2 _ hm) (by decide)

theorem isNsid_no_newline {cs : List Char} (h : isNsid cs = true) : '\n' ∉ cs := by
  have key : ∀ r : List Char, (dotSplit r).all isIdent = true → '\n' ∉ r := by
    intro r hr hm
    rcases dotSplit_mem r _ hm with h' | ⟨part, hp, hcp⟩
    · exact absurd h' (by decide)
    · exact isIdent_no_newline (List.all_eq_true.mp hr part hp) hcp
  cases cs with
  | nil => simp
  | cons c r =>
    simp only [isNsid] at h
    split at h
    · next hc =>
      intro hm
      rcases List.mem_cons.mp hm with he | hm
      · rw [← he] at hc; exact absurd hc (by decide)
      · exact key r h hm
    · simp only [Bool.and_eq_true] at h
      exact key _ h.1

/-- a well-formed token that is not a file path, comment or target contains no line break -/
theorem wf_no_newline {t : Tk} (hw : t.WF) (ht : (∃ s, t = .kw s) ∨ (∃ s, t = .id s) ∨ (∃ s, t = .nsid s)) :
    '\n' ∉ t.text.toList := by
  rcases ht with ⟨s, rfl⟩ | ⟨s, rfl⟩ | ⟨s, rfl⟩
  · have hs : s ∈ literals := by simpa [Tk.WF, Tk.wf] using hw
    have hall : ∀ s ∈ literals, '\n' ∉ s.toList := by decide +kernel
    exact hall s hs
  · simp only [Tk.WF, Tk.wf, Bool.and_eq_true] at hw
    exact isIdent_no_newline hw.1
  · exact isNsid_no_newline hw


theorem scan_tok_wf {cs : List Char} {ps : List Piece} (h : scan cs = some ps) : ∀ t w, Piece.tok t w ∈ ps → t.WF := by
  refine scan_induct (motive := fun _ ps => ∀ t w, Piece.tok t w ∈ ps → t.WF) (by simp) ?_ ?_ cs ps h
  · intro cs n ps _ _ _ ih t w hm
    rcases List.mem_cons.mp hm with he | hm
    · cases he
    · exact ih t w hm
  · intro cs t n ps _ hl _ ih t' w hm
    rcases List.mem_cons.mp hm with he | hm
    · cases he; exact lexOne_tok_wf hl
    · exact ih t' w hm

theorem tokensOf_append (l c : Nat) (xs ys : List Piece) :
    tokensOf l c (xs ++ ys) = tokensOf l c xs ++ tokensOf (advance l c (flat xs)).1 (advance l c (flat xs)).2 ys := by
  induction xs generalizing l c with
  | nil => simp [tokensOf, flat, advance]
  | cons p xs ih =>
    cases p with
    | ws w => simp only [List.cons_append, tokensOf, ih, flat_cons, Piece.chars, advance_append]
    | tok t w => simp only [List.cons_append, tokensOf, ih, flat_cons, Piece.chars, advance_append]

/-- split the pieces at a split of the tokens; white space between the two parts goes to the left part, so that the
    right part starts with its first token -/
theorem tokensOf_split_max {l c : Nat} {ps : List Piece} {A B : List Token} (h : tokensOf l c ps = A ++ B) (hB : B ≠ []) :
    ∃ ps1 ps2, ps = ps1 ++ ps2 ∧ tokensOf l c ps1 = A ∧
      tokensOf (advance l c (flat ps1)).1 (advance l c (flat ps1)).2 ps2 = B ∧ ∃ t w r, ps2 = Piece.tok t w :: r := by
  induction ps generalizing l c A with
  | nil =>
    simp only [tokensOf] at h
    have := List.append_eq_nil_iff.mp h.symm
    exact absurd this.2 hB
  | cons p ps ih =>
    cases p with
    | ws w =>
      simp only [tokensOf] at h
      obtain ⟨ps1, ps2, rfl, h1, h2, h3⟩ := ih h
      refine ⟨Piece.ws w :: ps1, ps2, rfl, by simpa only [tokensOf] using h1, ?_, h3⟩
      simpa only [flat_cons, Piece.chars, advance_append] using h2
    | tok t w =>
      cases A with
      | nil => exact ⟨[], Piece.tok t w :: ps, rfl, rfl, by simpa [flat, advance] using h, t, w, ps, rfl⟩
      | cons a A' =>
        simp only [tokensOf, List.cons_append, List.cons.injEq] at h
        obtain ⟨ha, h⟩ := h
        obtain ⟨ps1, ps2, rfl, h1, h2, h3⟩ := ih h
        refine ⟨Piece.tok t w :: ps1, ps2, rfl, by simp only [tokensOf, h1, ha], ?_, h3⟩
        simpa only [flat_cons, Piece.chars, advance_append] using h2

/-- split the pieces at a split of the tokens; white space between the two parts goes to the right part, so that the
    left part ends with its last token -/
theorem tokensOf_split_min {l c : Nat} {ps : List Piece} {A B : List Token} (h : tokensOf l c ps = A ++ B) (hA : A ≠ []) :
    ∃ ps1 ps2, ps = ps1 ++ ps2 ∧ tokensOf l c ps1 = A ∧
      tokensOf (advance l c (flat ps1)).1 (advance l c (flat ps1)).2 ps2 = B ∧ ∃ r t w, ps1 = r ++ [Piece.tok t w] := by
  induction ps generalizing l c A with
  | nil =>
    simp only [tokensOf] at h
    have := List.append_eq_nil_iff.mp h.symm
    exact absurd this.1 hA
  | cons p ps ih =>
    cases p with
    | ws w =>
      simp only [tokensOf] at h
      obtain ⟨ps1, ps2, rfl, h1, h2, r, t, w', rfl⟩ := ih h hA
      refine ⟨Piece.ws w :: (r ++ [Piece.tok t w']), ps2, rfl, by simpa only [tokensOf] using h1, ?_, Piece.ws w :: r, t, w', rfl⟩
      simpa only [flat_cons, Piece.chars, advance_append] using h2
    | tok t w =>
      cases A with
      | nil => exact absurd rfl hA
      | cons a A' =>
        simp only [tokensOf, List.cons_append, List.cons.injEq] at h
        obtain ⟨ha, h⟩ := h
        by_cases hA' : A' = []
        · subst hA'
          refine ⟨[Piece.tok t w], ps, rfl, by simp only [tokensOf, ha], ?_, [], t, w, rfl⟩
          simpa [flat, Piece.chars] using h
        · obtain ⟨ps1, ps2, rfl, h1, h2, r, t', w', rfl⟩ := ih h hA'
          refine ⟨Piece.tok t w :: (r ++ [Piece.tok t' w']), ps2, rfl, by simp only [tokensOf, h1, ha], ?_,
            Piece.tok t w :: r, t', w', rfl⟩
          simpa only [flat_cons, Piece.chars, advance_append] using h2

/-- **the text of a token segment**: for a successfully lexed text and a non-empty contiguous segment `pre` of its
    tokens whose last token contains no line break, the text splits as `p ++ m ++ q` where the start of `tokSpan pre` is the
    line/column reached after `p`, its end the line/column reached after `p ++ m`, and `m` is exactly the texts of the
    tokens of `pre` in order, separated by the white-space runs that stood between them (`m = flat psm` for well-formed
    pieces `psm` whose token kinds are those of `pre`, beginning and ending with a token) -/
theorem lex_segment_text {src : String} {toks before pre rest : List Token} (hl : lex src = some toks)
    (hts : toks = before ++ pre ++ rest) {b : Token} (hb : pre.getLast? = some b) (hnl : '\n' ∉ b.tk.text.toList) :
    ∃ p m q psm, src.toList = p ++ m ++ q ∧
      ((tokSpan pre).sl, (tokSpan pre).sc) = advance 1 0 p ∧ ((tokSpan pre).el, (tokSpan pre).ec) = advance 1 0 (p ++ m) ∧
      m = flat psm ∧ kindsOf psm = pre.map (·.tk) ∧ (∀ x ∈ psm, x.WF) ∧
      (∃ t w r, psm = Piece.tok t w :: r) ∧ (∃ r t w, psm = r ++ [Piece.tok t w]) := by
  rw [lex_eq_scan, Option.map_eq_some_iff] at hl
  obtain ⟨ps, hps, hto⟩ := hl
  have hne : pre ≠ [] := by rintro rfl; simp at hb
  have hwf := scan_wf hps
  have hflat := scan_flat hps
  rw [hts] at hto
  obtain ⟨ps12, ps3, rfl, h12, _, r12, tb, wb, hr12⟩ := tokensOf_split_min hto (by simp [hne])
  obtain ⟨ps1, psm, rfl, _, hm, ta, wa, ra, hra⟩ := tokensOf_split_max h12 hne
  -- `psm` ends with the last token piece
  have hend : ∃ r, psm = r ++ [Piece.tok tb wb] := by
    have hpsm : psm ≠ [] := by rw [hra]; simp
    have h1 : (ps1 ++ psm).getLast? = some (Piece.tok tb wb) := by rw [hr12]; simp
    rw [hra, List.getLast?_append, List.getLast?_cons] at h1
    have h2 : psm.getLast? = some (Piece.tok tb wb) := by
      rw [hra, List.getLast?_cons]; simpa using h1
    exact List.getLast?_eq_some_iff.mp h2
  obtain ⟨rm, hrm⟩ := hend
  refine ⟨flat ps1, flat psm, flat ps3, psm, ?_, ?_, ?_, rfl, ?_, ?_, ⟨ta, wa, ra, hra⟩, ⟨rm, tb, wb, hrm⟩⟩
  · rw [← hflat, flat_append, flat_append]
  · -- start
    have : ∃ a0 p0, pre = a0 :: p0 ∧ a0.line = (advance 1 0 (flat ps1)).1 ∧ a0.col = (advance 1 0 (flat ps1)).2 := by
      rw [← hm, hra]; simp only [tokensOf]; exact ⟨_, _, rfl, rfl, rfl⟩
    obtain ⟨a0, p0, rfl, h1, h2⟩ := this
    have h3 := tokSpan_cons_start a0 p0
    rw [h3.1, h3.2, h1, h2]
  · -- end
    have : ∃ pm bl, pre = pm ++ [bl] ∧ bl.tk = tb ∧ bl.line = (advance 1 0 (flat ps1 ++ flat rm)).1 ∧
        bl.col = (advance 1 0 (flat ps1 ++ flat rm)).2 ∧ bl.len = wb.length := by
      rw [← hm, hrm, tokensOf_append]; simp only [tokensOf, advance_append]; exact ⟨_, _, rfl, rfl, rfl, rfl, rfl⟩
    obtain ⟨pm, bl, rfl, hb1, hb2, hb3, hb4⟩ := this
    have hb' : bl = b := by simpa using hb
    subst hb'
    have hwb : tb.text.toList = wb := (hwf (Piece.tok tb wb) (by rw [hrm]; simp)).2
    have hnl' : '\n' ∉ wb := by rw [← hwb, ← hb1]; exact hnl
    have he := tokSpan_end hb
    rw [he.1, he.2, hb2, hb3, hb4, hrm, flat_append, flat_cons, Piece.chars]
    simp only [flat, List.map_nil, List.flatten_nil, List.append_nil]
    rw [← List.append_assoc, advance_append _ _ (_ ++ _) wb, advance_no_newline _ _ _ hnl']
  · rw [← tokensOf_kinds (advance 1 0 (flat ps1)).1 (advance 1 0 (flat ps1)).2, hm]
  · intro x hx; exact hwf x (by simp [hx])


theorem lex_tok_wf {s : String} {toks : List Token} (h : lex s = some toks) {t : Token} (ht : t ∈ toks) : t.tk.WF := by
  rw [lex_eq_scan, Option.map_eq_some_iff] at h
  obtain ⟨ps, hps, rfl⟩ := h
  obtain ⟨ps1, w, ps2, h1, _⟩ := tokensOf_mem ht
  exact scan_tok_wf hps t.tk w (by rw [h1]; simp)

/-- the token kinds that occur in a data type reference: names and punctuation -/
def TyTk (t : Tk) : Prop := (∃ s, t = .kw s) ∨ (∃ s, t = .id s) ∨ (∃ s, t = .nsid s)

theorem nameTk_tyTk (n : String) (d : Bool) : TyTk (nameTk n d) := by
  cases d
  · exact Or.inr (Or.inl ⟨n, rfl⟩)
  · exact Or.inr (Or.inr ⟨n, rfl⟩)

mutual
theorem printTy_tyTk (s : TyShape) : ∀ k ∈ printTy s, TyTk k := by
  match s with
  | .mk n d [] o =>
    intro k hk
    rw [printTy_nil] at hk
    rcases List.mem_cons.mp hk with rfl | hk
    · exact nameTk_tyTk n d
    · cases o
      · simp at hk
      · simp at hk; exact Or.inl ⟨_, hk⟩
  | .mk n d (a :: as) o =>
    have h1 := printTy_tyTk a
    have h2 := printArgs_tyTk as
    intro k hk
    rw [printTy_cons] at hk
    simp only [List.mem_cons, List.mem_append] at hk
    rcases hk with rfl | rfl | hk | hk | rfl | hk
    · exact nameTk_tyTk n d
    · exact Or.inl ⟨_, rfl⟩
    · exact h1 k hk
    · exact h2 k hk
    · exact Or.inl ⟨_, rfl⟩
    · cases o
      · simp at hk
      · simp at hk; exact Or.inl ⟨_, hk⟩
theorem printArgs_tyTk (as : List TyShape) : ∀ k ∈ printArgs as, TyTk k := by
  match as with
  | [] => intro k hk; simp [printArgs] at hk
  | a :: as =>
    have h1 := printTy_tyTk a
    have h2 := printArgs_tyTk as
    intro k hk
    rw [printArgs_cons] at hk
    simp only [List.mem_cons, List.mem_append] at hk
    rcases hk with rfl | hk | hk
    · exact Or.inl ⟨_, rfl⟩
    · exact h1 k hk
    · exact h2 k hk
end

/-- **C03, positions of type references in the source text**: for a successfully lexed text and a data type reference
    parsed from (a suffix `ts` of) its tokens, the text splits as `p ++ m ++ q` such that the recorded start is the
    line/column reached after `p`, the recorded end is the line/column reached after `p ++ m`, and `m` consists of exactly
    the consumed tokens' texts, in order, separated by the white-space runs that stood between them; `m` begins with the
    first and ends with the last consumed token (comments cannot occur: they would be tokens) -/
theorem dataType_text_segment {src : String} {toks before ts : List Token} (hl : lex src = some toks)
    (hts : toks = before ++ ts) {fuel : Nat} {t : TypeRef} {rest : List Token} (h : dataType fuel ts = some (t, rest)) :
    ∃ pre p m q psm, ts = pre ++ rest ∧ pre ≠ [] ∧ src.toList = p ++ m ++ q ∧
      (t.pos.sl, t.pos.sc) = advance 1 0 p ∧ (t.pos.el, t.pos.ec) = advance 1 0 (p ++ m) ∧
      m = flat psm ∧ kindsOf psm = pre.map (·.tk) ∧ (∀ x ∈ psm, x.WF) ∧
      (∃ t w r, psm = Piece.tok t w :: r) ∧ (∃ r t w, psm = r ++ [Piece.tok t w]) := by
  obtain ⟨pre, hpre, hne, hpos, _⟩ := dataType_span fuel ts t rest h
  obtain ⟨pre', s, hpre', hkinds, _⟩ := dataType_sound fuel ts t rest h
  have : pre' = pre := by
    rw [hpre] at hpre'; exact (List.append_cancel_right hpre').symm
  subst this
  cases hb : pre'.getLast? with
  | none => simp at hb; exact absurd hb hne
  | some b =>
    have hbmem : b ∈ pre' := List.mem_of_getLast? hb
    have hbty : TyTk b.tk := printTy_tyTk s _ (by rw [← hkinds]; exact List.mem_map_of_mem hbmem)
    have hbwf : b.tk.WF := lex_tok_wf hl (by rw [hts, hpre]; simp [hbmem])
    obtain ⟨p, m, q, psm, h1, h2, h3, h4, h5, h6, h7, h8⟩ :=
      lex_segment_text (before := before) (pre := pre') (rest := rest) hl (by rw [hts, hpre]; simp) hb
        (wf_no_newline hbwf hbty)
    exact ⟨pre', p, m, q, psm, hpre, hne, h1, by rw [hpos]; exact h2, by rw [hpos]; exact h3, h4, h5, h6, h7, h8⟩

/-- the same for **record fields**: the text between the recorded start and end of a field is exactly its tokens
    (doc comments, name, `:`, type, `;`) separated by the white space that stood between them -/
theorem field_text_segment {src : String} {toks before ts : List Token} (hl : lex src = some toks)
    (hts : toks = before ++ ts) {fuel : Nat} {f : Field} {rest : List Token} (h : field fuel ts = some (f, rest)) :
    ∃ pre p m q psm, ts = pre ++ rest ∧ pre ≠ [] ∧ src.toList = p ++ m ++ q ∧
      (f.pos.sl, f.pos.sc) = advance 1 0 p ∧ (f.pos.el, f.pos.ec) = advance 1 0 (p ++ m) ∧
      m = flat psm ∧ kindsOf psm = pre.map (·.tk) ∧ (∀ x ∈ psm, x.WF) ∧
      (∃ t w r, psm = Piece.tok t w :: r) ∧ (∃ r t w, psm = r ++ [Piece.tok t w]) := by
  obtain ⟨pre, hpre, hne, cs, nm, colon, st, semi, rfl, _, _, _, hsemi, hpos, _⟩ := field_span fuel ts f rest h
  have hb : (cs ++ nm :: colon :: (st ++ [semi])).getLast? = some semi := by
    have e : cs ++ nm :: colon :: (st ++ [semi]) = (cs ++ nm :: colon :: st) ++ [semi] := by simp
    rw [e, List.getLast?_append]; rfl
  have hnl : '\n' ∉ semi.tk.text.toList := by rw [hsemi]; decide +kernel
  obtain ⟨p, m, q, psm, h1, h2, h3, h4, h5, h6, h7, h8⟩ :=
    lex_segment_text (before := before) (rest := rest) hl (by rw [hts, hpre]; simp) hb hnl
  exact ⟨_, p, m, q, psm, hpre, hne, h1, by rw [hpos]; exact h2, by rw [hpos]; exact h3, h4, h5, h6, h7, h8⟩

/-! ## 5. nesting in line/column form -/

/-- the end position of a token as recorded by `spanPos`: on its start line, `len` columns after its start -/
def ten (t : Token) : Nat × Nat := (t.line, t.col + t.len)

def Pos.start (p : Pos) : Nat × Nat := (p.sl, p.sc)
def Pos.stop (p : Pos) : Nat × Nat := (p.el, p.ec)

/-- `inner` lies within `outer`: it starts no earlier and ends no later (line first, then column) -/
def Pos.Within (inner outer : Pos) : Prop := PLe outer.start inner.start ∧ PLe inner.stop outer.stop
/-- `a` ends before `b` starts -/
def Pos.Before (a b : Pos) : Prop := PLe a.stop b.start

theorem eq_nil_or_snoc {α : Type} (l : List α) : l = [] ∨ ∃ L b, l = L ++ [b] := by
  rcases List.eq_nil_or_concat l with h | ⟨L, b, h⟩
  · exact Or.inl h
  · exact Or.inr ⟨L, b, by rw [h, List.concat_eq_append]⟩

theorem PLe.refl (a : Nat × Nat) : PLe a a := Or.inr ⟨rfl, Nat.le_refl _⟩

theorem tst_le_ten (t : Token) : PLe (tst t) (ten t) := Or.inr ⟨rfl, Nat.le_add_right _ _⟩

/-- reading order: later tokens start strictly later, and not before the recorded end of earlier ones -/
def Ordered (ts : List Token) : Prop := ts.Pairwise (fun a b => PLt (tst a) (tst b) ∧ PLe (ten a) (tst b))

theorem advance_end_ge (line col : Nat) (w : List Char) : PLe (line, col + w.length) (advance line col w) := by
  induction w generalizing col with
  | nil => simp [advance, PLe]
  | cons c w ih =>
    simp only [advance]
    split
    · have := advance_ge (line + 1) 0 w
      left
      rcases this with h | ⟨h, _⟩
      · simp only at h ⊢; omega
      · simp only at h ⊢; omega
    · have := ih (col + 1)
      simpa only [List.length_cons, Nat.add_assoc, Nat.add_comm 1] using this

theorem tokensOf_ordered (line col : Nat) (ps : List Piece) (hwf : ∀ p ∈ ps, p.WF) : Ordered (tokensOf line col ps) := by
  induction ps generalizing line col with
  | nil => simp [tokensOf, Ordered]
  | cons p ps ih =>
    have hwf' : ∀ p ∈ ps, p.WF := fun q hq => hwf q (List.mem_cons_of_mem _ hq)
    cases p with
    | ws w => simp only [tokensOf]; exact ih _ _ hwf'
    | tok k w =>
      simp only [tokensOf, Ordered, List.pairwise_cons]
      refine ⟨?_, ih _ _ hwf'⟩
      intro t ht
      have hw : w ≠ [] := (hwf (Piece.tok k w) List.mem_cons_self).1
      exact ⟨PLt_of_lt_le (advance_gt line col w hw) (tokensOf_lb _ _ ps t ht),
        PLe_trans (advance_end_ge line col w) (tokensOf_lb _ _ ps t ht)⟩

theorem lex_ordered {s : String} {toks : List Token} (h : lex s = some toks) : Ordered toks := by
  obtain ⟨ps, _, _, hwf, rfl, _⟩ := lex_reconstruct h
  exact tokensOf_ordered 1 0 ps hwf

theorem Ordered.infix {before seg rest : List Token} (h : Ordered (before ++ seg ++ rest)) : Ordered seg :=
  List.Pairwise.sublist ((List.sublist_append_right before seg).trans (List.sublist_append_left _ rest)) h

theorem tokSpan_start_cons (a : Token) (p : List Token) : (tokSpan (a :: p)).start = tst a := by
  have := tokSpan_cons_start a p
  simp only [Pos.start, tst, this.1, this.2]

theorem tokSpan_stop_concat (p : List Token) (b : Token) : (tokSpan (p ++ [b])).stop = ten b := by
  have := tokSpan_end (pre := p ++ [b]) (b := b) (by simp)
  simp only [Pos.stop, ten, this.1, this.2]

/-- **a sub-segment's span lies within the segment's span** -/
theorem tokSpan_within {l m r : List Token} (h : Ordered (l ++ m ++ r)) (hm : m ≠ []) :
    (tokSpan m).Within (tokSpan (l ++ m ++ r)) := by
  obtain ⟨a, m', rfl⟩ := List.exists_cons_of_ne_nil hm
  rcases eq_nil_or_snoc (a :: m') with hnil | ⟨mm, b, hmm⟩
  · cases hnil
  constructor
  · rw [tokSpan_start_cons]
    cases l with
    | nil => simp only [List.nil_append, List.cons_append, tokSpan_start_cons]; exact PLe.refl _
    | cons x l' =>
      simp only [List.cons_append, tokSpan_start_cons]
      simp only [Ordered, List.cons_append, List.pairwise_cons] at h
      exact (h.1 a (by simp)).1.le
  · rw [hmm, tokSpan_stop_concat]
    rcases eq_nil_or_snoc r with rfl | ⟨r', y, rfl⟩
    · rw [List.append_nil, ← List.append_assoc, tokSpan_stop_concat]; exact PLe.refl _
    · have e : l ++ (mm ++ [b]) ++ (r' ++ [y]) = (l ++ (mm ++ [b]) ++ r') ++ [y] := by simp
      rw [e, tokSpan_stop_concat]
      have e2 : l ++ a :: m' ++ (r' ++ [y]) = (l ++ mm) ++ b :: (r' ++ [y]) := by rw [hmm]; simp
      rw [e2] at h
      have := (List.pairwise_append.mp h).2.1
      simp only [List.pairwise_cons] at this
      exact PLe_trans (this.1 y (by simp)).2 (tst_le_ten y)

/-- **disjoint sub-segments in order: the first ends before the second starts** -/
theorem tokSpan_before {l sa mid sb r : List Token} (h : Ordered (l ++ sa ++ mid ++ sb ++ r)) (ha : sa ≠ []) (hb : sb ≠ []) :
    (tokSpan sa).Before (tokSpan sb) := by
  obtain ⟨a, sb', rfl⟩ := List.exists_cons_of_ne_nil hb
  rcases eq_nil_or_snoc sa with rfl | ⟨sa', b, rfl⟩
  · exact absurd rfl ha
  unfold Pos.Before
  rw [tokSpan_stop_concat, tokSpan_start_cons]
  have e : l ++ (sa' ++ [b]) ++ mid ++ a :: sb' ++ r = (l ++ sa') ++ b :: (mid ++ a :: sb' ++ r) := by simp
  rw [e] at h
  have := (List.pairwise_append.mp h).2.1
  simp only [List.pairwise_cons] at this
  exact (this.1 a (by simp)).2


theorem Ordered.prefix {seg rest : List Token} (h : Ordered (seg ++ rest)) : Ordered seg :=
  Ordered.infix (before := []) (by simpa using h)

/-- **a generic argument lies within its type reference** (line/column form), and is itself read from an ordered segment
    (so the statement applies recursively to the arguments of the argument) -/
theorem TySpan.arg_within_pos {n : String} {args : List TypeRef} {o : Bool} {p : Pos} {seg : List Token}
    (h : TySpan (.data n args o p) seg) (ho : Ordered seg) {a : TypeRef} (ha : a ∈ args) :
    a.pos.Within p ∧ ∃ sa, TySpan a sa ∧ Ordered sa := by
  obtain ⟨l, sa, r, rfl, _, hne, hp, hpa, hsa⟩ := h.arg_within ha
  rw [hp, hpa]
  exact ⟨tokSpan_within ho hne, sa, hsa, Ordered.infix ho⟩

/-- **different generic arguments do not overlap**: the earlier one ends before the later one starts -/
theorem TySpan.args_before_pos {n : String} {args : List TypeRef} {o : Bool} {p : Pos} {seg : List Token}
    (h : TySpan (.data n args o p) seg) (ho : Ordered seg) {xs ys zs : List TypeRef} {a b : TypeRef}
    (he : args = xs ++ a :: (ys ++ b :: zs)) : a.pos.Before b.pos := by
  cases h with
  | data _ _ _ hd tl hargs =>
    obtain ⟨l, sa, m, sb, r, rfl, _, h1, h2⟩ := hargs.two_args_disjoint he
    rw [h1.pos_eq, h2.pos_eq]
    have ho' : Ordered (l ++ sa ++ m ++ sb ++ r) := Ordered.infix (before := [hd]) (rest := []) (by simpa using ho)
    exact tokSpan_before ho' h1.ne_nil h2.ne_nil

/-- **C03 nesting of type references on lexed text**: for a type reference parsed from the tokens of a successfully lexed
    text, every generic argument's recorded position lies within the reference's position, and the arguments' positions
    are pairwise disjoint and in source order -/
theorem dataType_args_nest {src : String} {toks before ts : List Token} (hl : lex src = some toks)
    (hts : toks = before ++ ts) {fuel : Nat} {n : String} {args : List TypeRef} {o : Bool} {p : Pos} {rest : List Token}
    (h : dataType fuel ts = some (.data n args o p, rest)) :
    (∀ a ∈ args, a.pos.Within p) ∧
    (∀ xs ys zs a b, args = xs ++ a :: (ys ++ b :: zs) → a.pos.Before b.pos) := by
  obtain ⟨pre, hpre, _, _, hspan⟩ := dataType_span fuel ts _ rest h
  have ho : Ordered pre := by
    have := lex_ordered hl
    rw [hts, hpre, ← List.append_assoc] at this
    exact Ordered.infix this
  exact ⟨fun a ha => (hspan.arg_within_pos ho ha).1, fun xs ys zs a b he => hspan.args_before_pos ho he⟩

/-- **a field lies within its record, and the field's type within the field** (line/column form) -/
theorem record_field_within_pos (fuel : Nat) (c' : List String) (cs ts : List Token) (n : String) (c : List String)
    (fl : List String) (flp : Pos) (fs : List Field) (dv : Option (List (String × Pos))) (p : Pos) (rest : List Token)
    (h : typeDecl fuel c' (cs ++ ts) ts = some (.record n c fl flp fs dv p, rest)) (ho : Ordered (cs ++ ts))
    {f : Field} (hf : f ∈ fs) : f.pos.Within p ∧ f.ty.pos.Within f.pos := by
  obtain ⟨xs, ys, he⟩ := List.append_of_mem hf
  obtain ⟨l, q, r, hseg, _, _, hq, hp, hfp, hfs⟩ := record_field_within fuel c' cs ts n c fl flp fs dv p rest h he
  rw [hseg] at ho
  have ho1 : Ordered (l ++ q ++ r) := ho.prefix
  refine ⟨by rw [hp, hfp]; exact tokSpan_within ho1 hq, ?_⟩
  obtain ⟨cs', nm, colon, st, semi, rfl, _, _, _, _, _, hty⟩ := hfs
  have hoq : Ordered (cs' ++ nm :: colon :: (st ++ [semi])) := Ordered.infix ho1
  have e : cs' ++ nm :: colon :: (st ++ [semi]) = (cs' ++ [nm, colon]) ++ st ++ [semi] := by simp
  rw [hfp, hty.pos_eq, e]
  rw [e] at hoq
  exact tokSpan_within hoq hty.ne_nil

/-- **a parameter lies within its method, and the parameter's type within the parameter** (line/column form) -/
theorem member_param_within_pos (fuel : Nat) (ts0 : List Token) (x : Method) (r : List Token)
    (h : member fuel ts0 = some (.m x, r)) (ho : Ordered ts0) {p : Param} (hp : p ∈ x.params) :
    p.pos.Within x.pos ∧ (paramType p).pos.Within p.pos := by
  obtain ⟨pre, rfl, _, hpos, l, sg, semi, fl, fp, rfl, _, hsg⟩ := member_span fuel ts0 _ r h
  have hpos' : x.pos = tokSpan (l ++ sg ++ [semi]) := hpos
  have ho1 : Ordered (l ++ sg ++ [semi]) := ho.prefix
  cases hsg with
  | mk _ _ _ _ _ l' sp sr _ hps _ =>
    obtain ⟨xs, ys, he⟩ := List.append_of_mem hp
    obtain ⟨l'', spp, r'', rfl, hpp, _⟩ := hps.split he
    have e : l ++ (l' ++ (l'' ++ spp ++ r'') ++ sr) ++ [semi] = (l ++ l' ++ l'') ++ spp ++ (r'' ++ sr ++ [semi]) := by simp
    rw [e] at ho1
    refine ⟨by rw [hpos', hpp.pos_eq, e]; exact tokSpan_within ho1 hpp.ne_nil, ?_⟩
    have hospp : Ordered spp := Ordered.infix ho1
    cases hpp with
    | mk n t nm colon st hst =>
      have e2 : nm :: colon :: st = [nm, colon] ++ st ++ [] := by simp
      show t.pos.Within (tokSpan (nm :: colon :: st))
      rw [hst.pos_eq]
      rw [e2] at hospp ⊢
      exact tokSpan_within hospp hst.ne_nil

/-! ## 6. tests -/

mutual
/-- (test helper) the names and recorded positions of a data type reference and its arguments, in pre-order -/
def spansT : TypeRef → List (String × Pos)
  | .data n args _ p => (n, p) :: spansTs args
  | .fn _ p => [("fn", p)]
def spansTs : List TypeRef → List (String × Pos)
  | [] => []
  | a :: as => spansT a ++ spansTs as
end

/-- test: `map<string, list<a.b?>>? ;` on one line (real lexer, model parser): the outer reference spans columns 0–24
    (everything but the `;`), its first argument `string` 4–10, its second argument `list<a.b?>` 12–22, whose own argument
    `a.b?` spans 17–21: each argument lies strictly inside its parent, and the two arguments of `map` are disjoint and
    in order -/
example : (lex "map<string, list<a.b?>>? ;").bind (fun ts => (dataType 10 ts).map (fun (t, _) => spansT t)) =
    some [("map", ⟨1, 0, 1, 24⟩), ("string", ⟨1, 4, 1, 10⟩), ("list", ⟨1, 12, 1, 22⟩), ("a.b", ⟨1, 17, 1, 21⟩)] := by
  decide +kernel

/-- test: a record field with a doc comment on the line above: the field spans from the comment to the `;`, its type
    from after the `:` to before the `;` -/
example : (lex "# doc\nx : list<i32> ;").bind (fun ts => (field 40 ts).map (fun (f, _) => (f.pos, spansT f.ty))) =
    some (⟨1, 0, 2, 15⟩, [("list", ⟨2, 4, 2, 13⟩), ("i32", ⟨2, 9, 2, 12⟩)]) := by
  decide +kernel

/-- (test helper) positions of a member, of its parameters (each followed by its type) and of its return / property type -/
def memberSpans : Member → List (String × Pos)
  | .m x => ("method", x.pos) :: ((x.params.flatMap (fun (p : Param) => ("param", p.pos) :: spansT (paramType p)))
      ++ (match x.ret with | some r => spansT r | none => []))
  | .p x => ("property", x.pos) :: spansT x.ty

/-- (test helper) position of a top-level content and of its direct children -/
def contentSpans : Content → Pos × List Pos
  | .ns _ _ ch p => (p, ch.map (fun (c : Content) => match c with | .decl d => d.pos | .ns _ _ _ p => p))
  | .decl d => (d.pos, [])

/-- test: a method with a doc comment: the method spans comment … `;`, each parameter `name : type`, each type its own
    tokens, nested and in order -/
example : (lex "# m\nstatic f(a: i32, b: list<i8>) -> bool;").bind (fun ts => (member 60 ts).map (fun (a, _) => memberSpans a)) =
    some [("method", ⟨1, 0, 2, 38⟩), ("param", ⟨2, 9, 2, 15⟩), ("i32", ⟨2, 12, 2, 15⟩),
      ("param", ⟨2, 17, 2, 28⟩), ("list", ⟨2, 20, 2, 28⟩), ("i8", ⟨2, 25, 2, 27⟩), ("bool", ⟨2, 33, 2, 37⟩)] := by
  decide +kernel

/-- test: a whole file: the `@import` directive and its path, a namespace over four lines and the record (with its doc
    comment) inside it -/
example : (parseText "@import \"a.djinni\"\nnamespace x {\n  # doc\n  r = record { a: i8; }\n}\n").map
      (fun f => (f.loads.map (fun l => (l.pos, l.pathPos)), f.contents.map contentSpans)) =
    some ([(⟨1, 0, 1, 18⟩, ⟨1, 8, 1, 18⟩)], [(⟨2, 0, 5, 1⟩, [⟨3, 2, 4, 23⟩])]) := by
  decide +kernel

#print axioms spanPos_eq_tokSpan
#print axioms dataType_span
#print axioms dataType_span_first_last
#print axioms TySpan.arg_within
#print axioms ArgsSpan.two_args_disjoint
#print axioms typeRefL_span
#print axioms functionL_span
#print axioms paramL_span
#print axioms field_span
#print axioms typeDecl_pos
#print axioms typeDecl_span
#print axioms record_span
#print axioms record_field_within
#print axioms member_span
#print axioms interface_span
#print axioms typeDecl_inner
#print axioms content_span
#print axioms parseFile_span
#print axioms dataType_text_span
#print axioms lex_ordered
#print axioms tokSpan_within
#print axioms tokSpan_before
#print axioms dataType_args_nest
#print axioms record_field_within_pos
#print axioms member_param_within_pos
#print axioms lex_segment_text
#print axioms dataType_text_segment
#print axioms field_text_segment

end Pydjinni.Front
