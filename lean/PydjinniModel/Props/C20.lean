import PydjinniModel.Sys.Pkg
import PydjinniModel.Sys.PkgHistory
/-!
# C20 — a failing external build/publish tool is reported and leaves no trace of success

About `execute` (packaging/target.py) and every pipeline built from it:

* `execute_restores_cwd`, `run_restores_cwd`   for every tool verdict (missing, non-zero, success, even a failing `chdir`), every step list and
                                             every oracle, the process working directory after the call is the one before it
* `execute_reports_external`                   a tool that is missing or exits non-zero makes `execute` raise the external-command error (130)
* `execute_fault_any_dir`                      … wherever the command's working directory lies (no relation to the caller's directory is
                                             assumed: `package.out` absolute elsewhere, through `..`, nested): error 130, cwd restored,
                                             the invocation logged with the directory it ran in
* `executePinned_nonzero_moves_cwd`,
  `executePinned_default_runs_elsewhere`       counterexamples for the function as it was in the pinned tree (no restore on the non-zero
                                             branch; default working directory bound at import time)
* `session_restores_cwd`, `session_dirs`,
  `session_fault_reported`                     several operations in ONE process with `os.chdir` between them (success in A then failure in B, failure then
                                             failure, …): each restores the directory *it* was started in and reports its own failing tool;
                                             `executeCached_stale_moves_cwd`: counterexample for a return directory remembered across calls
* `run_fault_reported`, `run_ok_clean`         for every pipeline and every oracle: the outcome is the external-command error iff an invocation
                                             failed without being handled by its caller, and that invocation is the last one logged (the
                                             operation stops there)
* `fault_at_any_point`                         "for every step index k and every fault": if the k-th invocation point exists and is not the
                                             handled probe, the outcome is 130, the cwd is restored and exactly k+1 invocations were made
* `package_failure_no_artifact`                for every target and configuration: whenever `package` does not succeed, no file is left in the
                                             package output directory (it is emptied first, intermediate steps write elsewhere, and the step
                                             that fills it is the last one)
* `build_leaves_output_untouched`,
  `publish_leaves_output_untouched`            `build` and `publish` never add or remove anything below the package output directory
* `packageOp_fault_spec`                       the statement of C20 for the whole `package` operation of every target, every platform /
                                             architecture list, every k and both fault kinds
* `first_unhandled_fault_ends`,
  `packageOp_faults_spec`                      the same for *sets* of faults (any oracle): the first failing invocation that is not a
                                             handled probe ends the operation with 130
* `faults_reported_or_recovered`,
  `probe_and_fallback_fail_reported`           a failing invocation is either reported (130) or it is a handled probe whose fallback — the
                                             next invocation, same tool — succeeded; probe and fallback both failing is always reported
* `named_status_decides`                       the status of the *named* command decides: any logged failing verdict that no caller handles
                                             ends the operation with 130 (clause `named-command-status-lost` of `specObs` on the model's log)
* `Sh.simple_status`, `executeSh_simple`,
  `executeSh_pipe_hides_failure`,
  `executeSh_list_hides_failure`               what `sh -c` makes of the joined command line: for a simple command the status is the named
                                             tool's (the model's rule); `tool | formatter`, `tool ; x`, `tool || x`, `tool &` succeed although
                                             the tool fails — counterexamples for a caller that composes such a line when a helper is installed
* `scpLike_any_depth`, `scpLike_single`,
  `classify_remote_iff`                        the address of the Swift package repository: "through git" iff an http(s) URL or a relative
                                             path starting `git@` with final suffix `.git` — for any number of path segments in between
* `publish_remote_starts_git`,
  `publish_remote_git_unavailable_130`,
  `publish_remote_fault_reported`,
  `publish_local_no_command`                   every such address makes `publish` start git as its first act (clone there or not, any oracle);
                                             git absent or failing there, or at any later invocation point: 130, directory restored, nothing
                                             after it; a local directory starts no command at all
-/
namespace Pydjinni.Sys.Pkg

/-! ### `execute` -/

theorem chdirTo_eq {w w1 : World} {wd : Option P} (h : chdirTo w wd = some w1) :
    w1.files = w.files ∧ w1.dirs = w.dirs ∧ w1.flags = w.flags ∧ w1.calls = w.calls := by
  cases wd with
  | none => simp [chdirTo] at h; subst h; simp
  | some d =>
    simp only [chdirTo] at h
    split at h
    · cases h; simp
    · cases h

theorem chdirTo_cwd {w w1 : World} {d : P} (h : chdirTo w (some d) = some w1) : w1.cwd = resolve w.cwd d := by
  simp only [chdirTo] at h
  split at h
  · cases h; rfl
  · cases h

/-- The working directory after `execute` is the working directory before it — whatever the tool does. -/
theorem execute_restores_cwd (orc : Oracle) (tool : String) (sig : List String) (wd : Option P) (eff : List Eff) (handled : Bool) (w : World) :
    (execute orc tool sig wd eff handled w).2.cwd = w.cwd := by
  simp only [execute]
  split
  · rfl
  · split <;> rfl

/-- A missing tool and a non-zero exit status both end `execute` with the external-command error (code 130). -/
theorem execute_reports_external (orc : Oracle) (tool : String) (sig : List String) (wd : Option P) (eff : List Eff) (handled : Bool)
    (w w1 : World) (hcd : chdirTo w wd = some w1) (hf : orc w1.calls.length tool ≠ .ok) :
    (execute orc tool sig wd eff handled w).1 = .err .external := by
  simp only [execute, hcd]

/-- **The report does not depend on where the command runs.** For *every* working directory `d` handed to `execute` — below the
    caller's directory, an absolute path somewhere else, a path through `..` (`P.upFrom`): no hypothesis relates `d` to `w.cwd` —
    a tool that is missing or exits non-zero there ends `execute` with the external-command error, the caller's working directory
    is restored, and the invocation is logged with the directory it ran in. -/
theorem execute_fault_any_dir (orc : Oracle) (tool : String) (sig : List String) (d : P) (eff : List Eff) (handled : Bool)
    (w w1 : World) (hcd : chdirTo w (some d) = some w1) (hf : orc w1.calls.length tool ≠ .ok) :
    (execute orc tool sig (some d) eff handled w).1 = .err .external
    ∧ (execute orc tool sig (some d) eff handled w).2.cwd = w.cwd
    ∧ ((execute orc tool sig (some d) eff handled w).2.calls.getLast?.map (·.ranIn)) = some (resolve w.cwd d) := by
  have hc := chdirTo_cwd hcd
  refine ⟨execute_reports_external orc tool sig (some d) eff handled w w1 hcd hf, execute_restores_cwd orc tool sig (some d) eff handled w, ?_⟩
  simp only [execute, hcd]
  cases hr : orc w1.calls.length tool with
  | ok => exact absurd hr hf
  | missing => simp [hc]
  | nonzero => simp [hc]

/-- a path spelled with leading `..` components resolves to the same directory from everywhere -/
theorem resolve_upFrom (cwd cwd' : Path) (n : Nat) (c : Path) : resolve cwd' (P.upFrom cwd n c) = cwd.take (cwd.length - n) ++ c := rfl

/-- Pinned tree: on a non-zero exit status the process stays in the command's working directory. -/
theorem executePinned_nonzero_moves_cwd (imp : Path) (orc : Oracle) (tool : String) (sig : List String) (d : P) (eff : List Eff)
    (w w1 : World) (hcd : chdirTo w (some d) = some w1) (hf : orc w1.calls.length tool = .nonzero) :
    (executePinned imp orc tool sig (some d) eff w).2.cwd = resolve w.cwd d := by
  simp only [executePinned, Option.getD_some, hcd, hf]
  exact chdirTo_cwd hcd

/-- Pinned tree: without an explicit working directory the tool runs in the directory the module was imported in. -/
theorem executePinned_default_runs_elsewhere (imp : Path) (orc : Oracle) (tool : String) (sig : List String) (eff : List Eff)
    (w w1 : World) (hcd : chdirTo w (some (.abs imp)) = some w1) :
    ((executePinned imp orc tool sig none eff w).2.calls.getLast?.map (·.ranIn)) = some imp := by
  simp only [executePinned, Option.getD_none, hcd]
  have h := chdirTo_cwd hcd
  simp only [resolve] at h
  split <;> simp [h]

/-- a concrete instance: cwd `/proj`, command directory `/proj/build`, non-zero exit: the process ends up in `/proj/build` -/
example : (executePinned ["elsewhere"] (faultAt 0 .nonzero) "gradlew" ["assembleRelease"] (some (.rel ["build"])) []
    { cwd := ["proj"], files := [["proj", "build", "gradlew"]], dirs := [], flags := [], calls := [] }).2.cwd = ["proj", "build"] := by decide
example : (execute (faultAt 0 .nonzero) "gradlew" ["assembleRelease"] (some (.rel ["build"])) [] false
    { cwd := ["proj"], files := [["proj", "build", "gradlew"]], dirs := [], flags := [], calls := [] }).2.cwd = ["proj"] := by decide

/-! ### pipelines: working directory -/

theorem prepareDir_cwd (w : World) (d : Path) (c : Bool) : (prepareDir w d c).cwd = w.cwd := by
  unfold prepareDir rmtree; split <;> rfl

theorem setFlag_cwd (w : World) (n : String) (v : Bool) : (setFlag w n v).cwd = w.cwd := rfl

theorem runPrim_cwd (orc : Oracle) (w : World) (p : Prim) : (runPrim orc w p).2.cwd = w.cwd := by
  cases p with
  | exec tool sig wd eff => exact execute_restores_cwd ..
  | execOr tool s1 s2 wd =>
    simp only [runPrim]
    have h1 := execute_restores_cwd orc tool s1 wd [] true w
    split
    · rename_i w1 heq
      rw [execute_restores_cwd]
      rw [heq] at h1; exact h1
    · exact h1
  | prepare d c => simp [runPrim, prepareDir_cwd]
  | copyTree srcs dst c =>
    simp only [runPrim]
    split <;> simp [prepareDir_cwd]
  | copyFile s d => simp only [runPrim]; split <;> rfl
  | write p => rfl
  | need site p => simp only [runPrim]; split <;> rfl
  | unlink p => simp only [runPrim]; split <;> rfl
  | setFlagFile n p => rfl
  | setFlagAnyDir n ps => rfl

theorem runStep_cwd (orc : Oracle) (w : World) (s : Step) : (runStep orc w s).2.cwd = w.cwd := by
  unfold runStep; split
  · exact runPrim_cwd ..
  · rfl

/-- **cwd_after = cwd_before** for every pipeline, every oracle (every fault pattern), every initial state. -/
theorem run_restores_cwd (orc : Oracle) (steps : List Step) (w : World) : (run orc steps w).2.cwd = w.cwd := by
  induction steps generalizing w with
  | nil => rfl
  | cons s ss ih =>
    simp only [run]
    have h := runStep_cwd orc w s
    split
    · rename_i w1 heq
      rw [ih, ← h, heq]
    · rename_i r hne
      exact h

theorem run_append (orc : Oracle) (a b : List Step) (w : World) :
    run orc (a ++ b) w = match run orc a w with
      | (.ok, w1) => run orc b w1
      | r => r := by
  induction a generalizing w with
  | nil => simp [run]
  | cons s ss ih =>
    simp only [List.cons_append, run]
    split
    · rename_i w1 heq
      exact ih w1
    · rename_i r hne
      split
      · rename_i w1 heq
        exact absurd heq (by intro h; exact hne _ h)
      · rfl

/-! ### pipelines: a failing invocation is reported, and it is the last one -/

/-- the log ends with an invocation that failed without being handled; everything before it is clean -/
def LastFailed (calls : List Call) : Prop := ∃ pre c, calls = pre ++ [c] ∧ clean pre = true ∧ c.clean = false

/-- outcome and log agree: external-command error iff the last logged invocation failed unhandled -/
def Good (r : Res) (calls : List Call) : Prop :=
  (r = .err .external ∧ LastFailed calls) ∨ (r ≠ .err .external ∧ clean calls = true)

/-- every logged verdict is the oracle's verdict for that invocation index -/
def Faithful (orc : Oracle) (calls : List Call) : Prop :=
  ∀ i (h : i < calls.length), calls[i].result = orc i calls[i].tool

theorem clean_append (a : List Call) (c : Call) : clean (a ++ [c]) = (clean a && c.clean) := by
  simp [clean, List.all_append]

/-- what one `execute` does to the log -/
theorem execute_log (orc : Oracle) (tool : String) (sig : List String) (wd : Option P) (eff : List Eff) (handled : Bool) (w : World) :
    ((execute orc tool sig wd eff handled w).1 = .err (.oserror "chdir") ∧ (execute orc tool sig wd eff handled w).2.calls = w.calls) ∨
    ∃ c : Call, (execute orc tool sig wd eff handled w).2.calls = w.calls ++ [c] ∧ c.tool = tool
      ∧ c.result = orc w.calls.length tool ∧ c.handled = (handled && decide (c.result ≠ .ok))
      ∧ ((c.result = .ok ∧ (execute orc tool sig wd eff handled w).1 = .ok) ∨
         (c.result ≠ .ok ∧ (execute orc tool sig wd eff handled w).1 = .err .external)) := by
  simp only [execute]
  split
  · left; exact ⟨rfl, rfl⟩
  · rename_i w1 hcd
    obtain ⟨_, _, _, hc⟩ := chdirTo_eq hcd
    right
    rw [hc]
    split
    · rename_i hr
      exact ⟨_, rfl, rfl, rfl, rfl, Or.inl ⟨hr, rfl⟩⟩
    · rename_i hr
      exact ⟨_, rfl, rfl, rfl, rfl, Or.inr ⟨hr, rfl⟩⟩

theorem Faithful_append {orc : Oracle} {calls : List Call} {c : Call} (h : Faithful orc calls)
    (hc : c.result = orc calls.length c.tool) : Faithful orc (calls ++ [c]) := by
  intro i hi
  by_cases hlt : i < calls.length
  · rw [List.getElem_append_left hlt]; exact h i hlt
  · have : i = calls.length := by simp at hi; omega
    subst this
    simp [hc]

theorem execute_good (orc : Oracle) (tool : String) (sig : List String) (wd : Option P) (eff : List Eff) (w : World)
    (hw : clean w.calls = true) :
    Good (execute orc tool sig wd eff false w).1 (execute orc tool sig wd eff false w).2.calls := by
  rcases execute_log orc tool sig wd eff false w with ⟨hr, hc⟩ | ⟨c, hc, _, _, hh, hcase⟩
  · right; rw [hr, hc]; exact ⟨by simp, hw⟩
  · rcases hcase with ⟨hok, hr⟩ | ⟨hbad, hr⟩
    · right; rw [hr, hc, clean_append]
      exact ⟨by simp, by simp [hw, Call.clean, hok]⟩
    · left; rw [hr, hc]
      refine ⟨rfl, w.calls, c, rfl, hw, ?_⟩
      simp only [Bool.false_and] at hh
      simp [Call.clean, hh, hbad]

theorem execute_faithful (orc : Oracle) (tool : String) (sig : List String) (wd : Option P) (eff : List Eff) (handled : Bool) (w : World)
    (hw : Faithful orc w.calls) : Faithful orc (execute orc tool sig wd eff handled w).2.calls := by
  rcases execute_log orc tool sig wd eff handled w with ⟨_, hc⟩ | ⟨c, hc, ht, hres, _, _⟩
  · rw [hc]; exact hw
  · rw [hc]; exact Faithful_append hw (by rw [hres, ht])

theorem prepareDir_calls (w : World) (d : Path) (c : Bool) : (prepareDir w d c).calls = w.calls := by
  unfold prepareDir rmtree; split <;> rfl

/-- steps other than the two `execute` forms leave the log alone and never raise the external-command error -/
theorem runPrim_other (orc : Oracle) (w : World) (p : Prim)
    (h1 : ∀ tool sig wd eff, p ≠ .exec tool sig wd eff) (h2 : ∀ tool s1 s2 wd, p ≠ .execOr tool s1 s2 wd) :
    (runPrim orc w p).2.calls = w.calls ∧ (runPrim orc w p).1 ≠ .err .external := by
  cases p with
  | exec tool sig wd eff => exact (h1 _ _ _ _ rfl).elim
  | execOr tool s1 s2 wd => exact (h2 _ _ _ _ rfl).elim
  | prepare d c => simp [runPrim, prepareDir_calls]
  | copyTree srcs dst c => simp only [runPrim]; split <;> simp [prepareDir_calls]
  | copyFile s d => simp only [runPrim]; split <;> simp
  | write p => simp [runPrim]
  | need site p => simp only [runPrim]; split <;> simp
  | unlink p => simp only [runPrim]; split <;> simp
  | setFlagFile n p => simp [runPrim, setFlag]
  | setFlagAnyDir n ps => simp [runPrim, setFlag]

theorem runPrim_good (orc : Oracle) (w : World) (p : Prim) (hw : clean w.calls = true) :
    Good (runPrim orc w p).1 (runPrim orc w p).2.calls := by
  cases p with
  | exec tool sig wd eff => exact execute_good orc tool sig wd eff w hw
  | execOr tool s1 s2 wd =>
    simp only [runPrim]
    rcases execute_log orc tool s1 wd [] true w with ⟨hr, hc⟩ | ⟨c, hc, _, _, hh, hcase⟩
    · split
      · rename_i w1 heq; rw [heq] at hr; cases hr
      · right; rw [hr, hc]; exact ⟨by simp, hw⟩
    · rcases hcase with ⟨hok, hr⟩ | ⟨hbad, hr⟩
      · split
        · rename_i w1 heq; rw [heq] at hr; cases hr
        · right; rw [hr, hc, clean_append]; exact ⟨by simp, by simp [hw, Call.clean, hok]⟩
      · split
        · rename_i w1 heq
          apply execute_good
          have : w1.calls = w.calls ++ [c] := by rw [heq] at hc; exact hc
          rw [this, clean_append]
          simp only [Bool.true_and] at hh
          simp [hw, Call.clean, hh, hbad]
        · rename_i hne
          exact (hne _ (Prod.ext hr rfl)).elim
  | prepare d c => have := runPrim_other orc w (.prepare d c) (by simp) (by simp); right; rw [this.1]; exact ⟨this.2, hw⟩
  | copyTree srcs dst c => have := runPrim_other orc w (.copyTree srcs dst c) (by simp) (by simp); right; rw [this.1]; exact ⟨this.2, hw⟩
  | copyFile s d => have := runPrim_other orc w (.copyFile s d) (by simp) (by simp); right; rw [this.1]; exact ⟨this.2, hw⟩
  | write p => have := runPrim_other orc w (.write p) (by simp) (by simp); right; rw [this.1]; exact ⟨this.2, hw⟩
  | need site p => have := runPrim_other orc w (.need site p) (by simp) (by simp); right; rw [this.1]; exact ⟨this.2, hw⟩
  | unlink p => have := runPrim_other orc w (.unlink p) (by simp) (by simp); right; rw [this.1]; exact ⟨this.2, hw⟩
  | setFlagFile n p => have := runPrim_other orc w (.setFlagFile n p) (by simp) (by simp); right; rw [this.1]; exact ⟨this.2, hw⟩
  | setFlagAnyDir n ps => have := runPrim_other orc w (.setFlagAnyDir n ps) (by simp) (by simp); right; rw [this.1]; exact ⟨this.2, hw⟩

theorem runPrim_faithful (orc : Oracle) (w : World) (p : Prim) (hw : Faithful orc w.calls) : Faithful orc (runPrim orc w p).2.calls := by
  cases p with
  | exec tool sig wd eff => exact execute_faithful orc tool sig wd eff false w hw
  | execOr tool s1 s2 wd =>
    simp only [runPrim]
    have h1 := execute_faithful orc tool s1 wd [] true w hw
    split
    · rename_i w1 heq
      apply execute_faithful
      rw [heq] at h1; exact h1
    · exact h1
  | prepare d c => rw [(runPrim_other orc w (.prepare d c) (by simp) (by simp)).1]; exact hw
  | copyTree srcs dst c => rw [(runPrim_other orc w (.copyTree srcs dst c) (by simp) (by simp)).1]; exact hw
  | copyFile s d => rw [(runPrim_other orc w (.copyFile s d) (by simp) (by simp)).1]; exact hw
  | write p => rw [(runPrim_other orc w (.write p) (by simp) (by simp)).1]; exact hw
  | need site p => rw [(runPrim_other orc w (.need site p) (by simp) (by simp)).1]; exact hw
  | unlink p => rw [(runPrim_other orc w (.unlink p) (by simp) (by simp)).1]; exact hw
  | setFlagFile n p => rw [(runPrim_other orc w (.setFlagFile n p) (by simp) (by simp)).1]; exact hw
  | setFlagAnyDir n ps => rw [(runPrim_other orc w (.setFlagAnyDir n ps) (by simp) (by simp)).1]; exact hw

theorem run_good (orc : Oracle) (steps : List Step) (w : World) (hw : clean w.calls = true) :
    Good (run orc steps w).1 (run orc steps w).2.calls := by
  induction steps generalizing w with
  | nil => right; exact ⟨by simp [run], hw⟩
  | cons s ss ih =>
    simp only [run]
    have hs : Good (runStep orc w s).1 (runStep orc w s).2.calls := by
      unfold runStep; split
      · exact runPrim_good orc w s.prim hw
      · right; exact ⟨by simp, hw⟩
    split
    · rename_i w1 heq
      rw [heq] at hs
      rcases hs with ⟨h, _⟩ | ⟨_, hc⟩
      · cases h
      · exact ih w1 hc
    · exact hs

theorem run_faithful (orc : Oracle) (steps : List Step) (w : World) (hw : Faithful orc w.calls) :
    Faithful orc (run orc steps w).2.calls := by
  induction steps generalizing w with
  | nil => exact hw
  | cons s ss ih =>
    simp only [run]
    have hs : Faithful orc (runStep orc w s).2.calls := by
      unfold runStep; split
      · exact runPrim_faithful orc w s.prim hw
      · exact hw
    split
    · rename_i w1 heq
      rw [heq] at hs
      exact ih w1 hs
    · exact hs

/-- **A failing tool is reported, and the operation stops there**: for every pipeline and oracle, if some logged invocation
    failed without being handled by its caller, the outcome is the external-command error (130) and that invocation is the
    last one in the log. -/
theorem run_fault_reported (orc : Oracle) (steps : List Step) (w : World) (hw : clean w.calls = true)
    (hf : clean (run orc steps w).2.calls = false) :
    (run orc steps w).1 = .err .external ∧ LastFailed (run orc steps w).2.calls := by
  rcases run_good orc steps w hw with h | ⟨_, hc⟩
  · exact h
  · rw [hc] at hf; cases hf

/-- Conversely: any other outcome (success, or a file error) means every invocation made so far succeeded or was handled. -/
theorem run_ok_clean (orc : Oracle) (steps : List Step) (w : World) (hw : clean w.calls = true)
    (hr : (run orc steps w).1 ≠ .err .external) : clean (run orc steps w).2.calls = true := by
  rcases run_good orc steps w hw with ⟨h, _⟩ | ⟨_, hc⟩
  · exact absurd h hr
  · exact hc

/-- **Every step index k, every fault.** Run any pipeline from an empty log with the oracle "everything succeeds except
    invocation k, which fails with `f`" (`f` = missing or non-zero). If the k-th invocation point exists and is not a probe
    whose failure the caller handles, then the outcome is code 130, the working directory is restored, and exactly
    k + 1 invocations were made (nothing ran after the failing one). -/
theorem fault_at_any_point (steps : List Step) (k : Nat) (f : ToolResult) (hf : f ≠ .ok) (w : World) (hw : w.calls = [])
    (hk : k < (run (faultAt k f) steps w).2.calls.length)
    (hh : ((run (faultAt k f) steps w).2.calls[k]).handled = false) :
    (run (faultAt k f) steps w).1 = .err .external ∧ (run (faultAt k f) steps w).2.cwd = w.cwd
      ∧ (run (faultAt k f) steps w).2.calls.length = k + 1 := by
  have hfa := run_faithful (faultAt k f) steps w (by rw [hw]; intro i hi; simp at hi) k hk
  have hres : ((run (faultAt k f) steps w).2.calls[k]).result = f := by rw [hfa]; simp [faultAt]
  have hunclean : ((run (faultAt k f) steps w).2.calls[k]).clean = false := by
    simp only [Call.clean, hres, hh, Bool.or_false]
    exact decide_eq_false hf
  have hnc : clean (run (faultAt k f) steps w).2.calls = false := by
    simp only [clean, List.all_eq_false]
    exact ⟨_, List.getElem_mem hk, by simp [hunclean]⟩
  obtain ⟨hr, pre, c, hcalls, hpre, _⟩ := run_fault_reported (faultAt k f) steps w (by rw [hw]; rfl) hnc
  refine ⟨hr, run_restores_cwd .., ?_⟩
  rw [hcalls, List.length_append, List.length_singleton]
  by_cases hlt : k < pre.length
  · exfalso
    have : (run (faultAt k f) steps w).2.calls[k] = pre[k] := by
      simp only [hcalls]; exact List.getElem_append_left hlt
    rw [this] at hunclean
    have := (List.all_eq_true.mp hpre) _ (List.getElem_mem hlt)
    rw [hunclean] at this; cases this
  · have : k < pre.length + 1 := by rw [hcalls] at hk; simpa using hk
    omega

/-! ### several operations in one process -/

/-- **Every operation of a session restores the working directory it was started in** — whatever ran before it in the same
    process (in another directory, successfully or not, under any oracle), whatever it does itself. -/
theorem session_restores_cwd (w : World) (ops : List SessOp) : ∀ o ∈ runSession w ops, o.cwdAfter = o.cwdBefore := by
  induction ops generalizing w with
  | nil => intro o ho; cases ho
  | cons op rest ih =>
    intro o ho
    simp only [runSession, List.mem_cons] at ho
    rcases ho with rfl | ho
    · exact run_restores_cwd op.orc op.steps _
    · exact ih _ o ho

/-- … and that directory is the one the caller changed into: nothing of an earlier operation's directory survives. -/
theorem session_dirs (w : World) (ops : List SessOp) : (runSession w ops).map (·.cwdBefore) = ops.map (·.dir) := by
  induction ops generalizing w with
  | nil => rfl
  | cons op rest ih => simp [runSession, ih]

/-- **A failing tool is reported by the operation it fails in** — in every position of a session. -/
theorem session_fault_reported (w : World) (ops : List SessOp) :
    ∀ o ∈ runSession w ops, clean o.calls = false → o.res = .err .external ∧ LastFailed o.calls := by
  induction ops generalizing w with
  | nil => intro o ho; cases ho
  | cons op rest ih =>
    intro o ho hf
    simp only [runSession, List.mem_cons] at ho
    rcases ho with rfl | ho
    · exact run_fault_reported op.orc op.steps _ rfl hf
    · exact ih _ o ho hf

/-- Counterexample for a remembered return directory: once the process has moved on (`base ≠ w.cwd`), every call — failing or
    not — leaves the process in the remembered directory instead of the caller's. -/
theorem executeCached_stale_moves_cwd (base : Path) (orc : Oracle) (tool : String) (sig : List String) (wd : Option P) (eff : List Eff)
    (handled : Bool) (w w1 : World) (hcd : chdirTo w wd = some w1) (hb : base ≠ w.cwd) :
    (executeCached base orc tool sig wd eff handled w).2.cwd ≠ w.cwd := by
  simp only [executeCached, hcd]
  split <;> exact hb

/-- success in project `A`, then a failing tool in project `B`: reported there, and the process is still in `B` -/
example : (runSession { cwd := ["A"], files := [], dirs := [["A"], ["B"]], flags := [], calls := [] }
    [⟨["A"], allOk, [always (.exec "conan" ["build"] none [] )]⟩, ⟨["B"], faultAt 0 .nonzero, [always (.exec "conan" ["build"] none [])]⟩]).map
      (fun o => (o.res, o.cwdAfter)) = [(.ok, ["A"]), (.err .external, ["B"])] := by decide

/-! ### the package output directory -/

/-- neither path is the other or below it -/
def diverge (d x : Path) : Bool := !under d x && !under x d

/-- the directory a tool runs in -/
def toolDir (cwd : Path) : Option P → Path
  | some x => resolve cwd x
  | none => cwd

/-- every path the step writes to or removes diverges from `d` (tool effects included) -/
def away (d cwd : Path) (s : Step) : Bool :=
  match s.prim with
  | .exec _ _ wd eff => eff.all fun e => diverge d (e.resolve cwd (toolDir cwd wd))
  | .execOr .. => true
  | .prepare x _ => diverge d (resolve cwd x)
  | .copyTree _ dst _ => diverge d (resolve cwd dst)
  | .copyFile _ dst => diverge d (resolve cwd dst)
  | .write p => diverge d (resolve cwd p)
  | .need .. => true
  | .unlink p => diverge d (resolve cwd p)
  | .setFlagFile .. => true
  | .setFlagAnyDir .. => true

theorem mem_addFile (fs : List Path) (p q : Path) : q ∈ addFile fs p ↔ q ∈ fs ∨ q = p := by
  unfold addFile
  split
  · rename_i h
    have : p ∈ fs := by simpa using h
    constructor
    · exact Or.inl
    · rintro (h | h)
      · exact h
      · subst h; exact this
  · simp

theorem mem_addFiles (fs ps : List Path) (q : Path) : q ∈ addFiles fs ps ↔ q ∈ fs ∨ q ∈ ps := by
  unfold addFiles
  induction ps generalizing fs with
  | nil => simp
  | cons p ps ih =>
    simp only [List.foldl_cons, ih, mem_addFile, List.mem_cons]
    constructor
    · rintro ((h | h) | h)
      · exact Or.inl h
      · exact Or.inr (Or.inl h)
      · exact Or.inr (Or.inr h)
    · rintro (h | h | h)
      · exact Or.inl (Or.inl h)
      · exact Or.inl (Or.inr h)
      · exact Or.inr h

theorem under_iff (d p : Path) : under d p = true ↔ d <+: p := by
  unfold under; exact List.isPrefixOf_iff_prefix

/-- a path below `d` is not below (or equal to) anything that diverges from `d` -/
theorem not_under_of_diverge {d x q : Path} (hd : diverge d x = true) (hq : under d q = true) : under x q = false := by
  cases hx : under x q with
  | false => rfl
  | true =>
    exfalso
    simp only [diverge, Bool.and_eq_true, Bool.not_eq_true'] at hd
    rcases List.prefix_or_prefix_of_prefix ((under_iff _ _).mp hq) ((under_iff _ _).mp hx) with h | h
    · have := (under_iff _ _).mpr h; rw [hd.1] at this; cases this
    · have := (under_iff _ _).mpr h; rw [hd.2] at this; cases this

theorem ne_of_diverge {d x q : Path} (hd : diverge d x = true) (hq : under d q = true) : q ≠ x := by
  intro h; subst h
  simp only [diverge, Bool.and_eq_true, Bool.not_eq_true'] at hd
  rw [hd.1] at hq; cases hq

theorem not_mem_reroot {d src dst q : Path} {l : List Path} (hd : diverge d dst = true) (hq : under d q = true) : q ∉ reroot src dst l := by
  intro h
  simp only [reroot, List.mem_map] at h
  obtain ⟨f, _, rfl⟩ := h
  have h1 := not_under_of_diverge hd hq
  have h2 := (under_iff dst (dst ++ List.drop src.length f)).mpr (List.prefix_append _ _)
  rw [h1] at h2; cases h2

theorem prepareDir_files_away (w : World) {d x q : Path} (c : Bool) (hd : diverge d x = true) (hq : under d q = true) :
    q ∈ (prepareDir w x c).files ↔ q ∈ w.files := by
  unfold prepareDir rmtree
  split
  · simp only [List.mem_filter, Bool.not_eq_true']
    exact ⟨fun h => h.1, fun h => ⟨h, not_under_of_diverge hd hq⟩⟩
  · rfl

theorem execute_files_away (orc : Oracle) (tool : String) (sig : List String) (wd : Option P) (eff : List Eff) (handled : Bool) (w : World)
    {d q : Path} (ha : eff.all (fun e => diverge d (e.resolve w.cwd (toolDir w.cwd wd))) = true)
    (hq : under d q = true) :
    q ∈ (execute orc tool sig wd eff handled w).2.files ↔ q ∈ w.files := by
  simp only [execute]
  split
  · rfl
  · rename_i w1 hcd
    obtain ⟨hf, _, _, _⟩ := chdirTo_eq hcd
    have hcwd : w1.cwd = toolDir w.cwd wd := by
      cases wd with
      | none => simp [chdirTo] at hcd; subst hcd; rfl
      | some x => exact chdirTo_cwd hcd
    split
    · simp only [mem_addFiles, hf, List.mem_map]
      constructor
      · rintro (h | ⟨e, he, rfl⟩)
        · exact h
        · exfalso
          have := (List.all_eq_true.mp ha) e he
          rw [← hcwd] at this
          exact ne_of_diverge this hq rfl
      · exact Or.inl
    · simp only [hf]

theorem setFlag_files (w : World) (n : String) (v : Bool) : (setFlag w n v).files = w.files := rfl

/-- a step that stays away from `d` neither adds nor removes a file below `d` -/
theorem runStep_away (orc : Oracle) (w : World) (s : Step) {d q : Path} (ha : away d w.cwd s = true) (hq : under d q = true) :
    q ∈ (runStep orc w s).2.files ↔ q ∈ w.files := by
  unfold runStep
  split
  · obtain ⟨cond, prim⟩ := s
    cases prim with
    | exec tool sig wd eff => exact execute_files_away orc tool sig wd eff false w ha hq
    | execOr tool s1 s2 wd =>
      simp only [runPrim]
      have h1 := execute_files_away orc tool s1 wd [] true w (d := d) (by simp) hq
      split
      · rename_i w1 heq
        have hc : w1.cwd = w.cwd := by have := execute_restores_cwd orc tool s1 wd [] true w; rw [heq] at this; exact this
        rw [execute_files_away orc tool s2 wd [] false w1 (d := d) (by simp) hq]
        rw [heq] at h1; exact h1
      · exact h1
    | prepare x c => exact prepareDir_files_away w c ha hq
    | copyTree srcs dst c =>
      simp only [runPrim]
      split
      · exact prepareDir_files_away w c ha hq
      · simp only [mem_addFiles]
        constructor
        · rintro (h | h)
          · exact (prepareDir_files_away w c ha hq).mp h
          · exact absurd h (not_mem_reroot ha hq)
        · exact fun h => Or.inl ((prepareDir_files_away w c ha hq).mpr h)
    | copyFile src dst =>
      simp only [runPrim]
      split
      · simp only [mem_addFile]
        exact ⟨fun h => h.elim id (fun h => absurd h (ne_of_diverge ha hq)), Or.inl⟩
      · rfl
    | write p =>
      simp only [runPrim, mem_addFile]
      exact ⟨fun h => h.elim id (fun h => absurd h (ne_of_diverge ha hq)), Or.inl⟩
    | need site p => simp only [runPrim]; split <;> rfl
    | unlink p =>
      simp only [runPrim]
      split
      · simp only [List.mem_filter, bne_iff_ne, ne_eq]
        exact ⟨fun h => h.1, fun h => ⟨h, ne_of_diverge ha hq⟩⟩
      · rfl
    | setFlagFile n p => rfl
    | setFlagAnyDir n ps => rfl
  · rfl

theorem run_away (orc : Oracle) (steps : List Step) (w : World) {d q : Path} (ha : steps.all (away d w.cwd) = true) (hq : under d q = true) :
    q ∈ (run orc steps w).2.files ↔ q ∈ w.files := by
  induction steps generalizing w with
  | nil => rfl
  | cons s ss ih =>
    simp only [List.all_cons, Bool.and_eq_true] at ha
    simp only [run]
    have h1 := runStep_away orc w s ha.1 hq
    have hc := runStep_cwd orc w s
    split
    · rename_i w1 heq
      rw [heq] at h1 hc
      rw [ih w1 (by rw [hc]; exact ha.2)]
      exact h1
    · exact h1

/-- a pipeline tail that, when it does not succeed, has added no file -/
def FailAddsNothing (fin : List Step) : Prop :=
  ∀ (orc : Oracle) (w : World), (run orc fin w).1 ≠ .ok → ∀ q ∈ (run orc fin w).2.files, q ∈ w.files

/-- **Empty first, fill last.** A pipeline that empties `d`, then runs steps that stay away from `d`, and only at its very end
    fills `d`, leaves nothing below `d` whenever it does not succeed. -/
theorem emptied_then_filled_last (orc : Oracle) (x d : P) (cx : Bool) (mid fin : List Step) (w : World)
    (hmid : mid.all (away (resolve w.cwd d) w.cwd) = true) (hfin : FailAddsNothing fin)
    (hr : (run orc (always (.prepare x cx) :: always (.prepare d true) :: (mid ++ fin)) w).1 ≠ .ok) :
    ∀ q ∈ (run orc (always (.prepare x cx) :: always (.prepare d true) :: (mid ++ fin)) w).2.files, under (resolve w.cwd d) q = false := by
  intro q
  simp only [run, runStep, always, condHolds, if_true, runPrim] at hr ⊢
  have hc1 : (prepareDir w (resolve w.cwd x) cx).cwd = w.cwd := prepareDir_cwd ..
  rw [hc1] at hr ⊢
  generalize hw1 : prepareDir w (resolve w.cwd x) cx = w1 at hr ⊢
  have hw1c : w1.cwd = w.cwd := by rw [← hw1]; exact hc1
  generalize hw2 : prepareDir w1 (resolve w.cwd d) true = w2 at hr ⊢
  have hw2c : w2.cwd = w.cwd := by rw [← hw2, prepareDir_cwd]; exact hw1c
  have hempty : ∀ q ∈ w2.files, under (resolve w.cwd d) q = false := by
    intro q hq
    rw [← hw2] at hq
    simp only [prepareDir, rmtree, if_true, List.mem_filter, Bool.not_eq_true'] at hq
    exact hq.2
  rw [run_append] at hr ⊢
  intro hq
  cases hu : under (resolve w.cwd d) q with
  | false => rfl
  | true =>
    exfalso
    have hmid' : mid.all (away (resolve w.cwd d) w2.cwd) = true := by rw [hw2c]; exact hmid
    have hm := run_away orc mid w2 hmid' hu
    split at hq
    · rename_i w3 heq
      rw [heq] at hm
      simp only [heq] at hr
      have := hfin orc w3 hr q hq
      have := hempty q (hm.mp this)
      rw [hu] at this; cases this
    · have := hempty q (hm.mp hq)
      rw [hu] at this; cases this

/-! ### where the targets write -/

theorem resolve_join (cwd : Path) (p : P) (x : Path) : resolve cwd (p.join x) = resolve cwd p ++ x := by
  cases p <;> simp [P.join, resolve]

theorem under_append_left (r a b : Path) : under (r ++ a) (r ++ b) = under a b := by
  induction r with
  | nil => rfl
  | cons x xs ih => simpa [under, List.isPrefixOf] using ih

/-- `<out>/<configuration>/package/…` and `<out>/<configuration>/build/…` diverge -/
theorem diverge_package_build (r : Path) (a : String) (t1 t2 : List String) :
    diverge (r ++ a :: "package" :: t1) (r ++ a :: "build" :: t2) = true := by
  unfold diverge
  rw [under_append_left, under_append_left]
  simp [under, List.isPrefixOf]

/-- the package output directory, resolved: `<out>/<configuration>/package/<key>` -/
theorem pkgOut_resolved (c : Cfg) (cwd : Path) :
    resolve cwd c.pkgOut = resolve cwd c.out ++ c.configuration :: "package" :: [c.key] := by
  simp [Cfg.pkgOut, Cfg.base, resolve_join]

/-- anything below the build root, resolved: `<out>/<configuration>/build/…` -/
theorem buildRoot_resolved (c : Cfg) (cwd : Path) (x : Path) :
    resolve cwd (c.buildRoot.join x) = resolve cwd c.out ++ c.configuration :: "build" :: x := by
  simp [Cfg.buildRoot, Cfg.base, resolve_join]

theorem diverge_out_build (c : Cfg) (cwd : Path) (x : Path) :
    diverge (resolve cwd c.pkgOut) (resolve cwd (c.buildRoot.join x)) = true := by
  rw [pkgOut_resolved, buildRoot_resolved]; exact diverge_package_build ..

theorem join_join (p : P) (a b : Path) : (p.join a).join b = p.join (a ++ b) := by
  cases p <;> simp [P.join]

theorem pkgBuild_eq (c : Cfg) (x : Path) : c.pkgBuild.join x = c.buildRoot.join (c.key :: "package" :: x) := by
  simp [Cfg.pkgBuild, join_join]
theorem platDir_eq (c : Cfg) (p a : String) (x : Path) : (c.platDir p a).join x = c.buildRoot.join (c.key :: "platforms" :: p :: a :: x) := by
  simp [Cfg.platDir, join_join]
theorem mergedDir_eq (c : Cfg) (p : String) (archs : List String) (x : Path) :
    (c.mergedDir p archs).join x = c.buildRoot.join ("swiftpackage" :: "platforms" :: p :: "_".intercalate archs :: "dist" :: x) := by
  simp [Cfg.mergedDir, join_join]
theorem repoDir_eq (c : Cfg) (x : Path) : c.repoDir.join x = c.buildRoot.join (c.key :: "package_repository" :: x) := by
  simp [Cfg.repoDir, join_join]
theorem join_nil (p : P) : p.join [] = p := by cases p <;> simp [P.join]

/-- `away` for a step whose only target lies below the build root -/
theorem diverge_out_pkgBuild (c : Cfg) (cwd : Path) (x : Path) :
    diverge (resolve cwd c.pkgOut) (resolve cwd (c.pkgBuild.join x)) = true := by
  rw [pkgBuild_eq]; exact diverge_out_build ..

theorem diverge_out_pkgBuild' (c : Cfg) (cwd : Path) :
    diverge (resolve cwd c.pkgOut) (resolve cwd c.pkgBuild) = true := by
  have := diverge_out_pkgBuild c cwd []; rwa [join_nil] at this

theorem diverge_out_platDir (c : Cfg) (cwd : Path) (p a : String) (x : Path) :
    diverge (resolve cwd c.pkgOut) (resolve cwd ((c.platDir p a).join x)) = true := by
  rw [platDir_eq]; exact diverge_out_build ..

theorem diverge_out_platDir' (c : Cfg) (cwd : Path) (p a : String) :
    diverge (resolve cwd c.pkgOut) (resolve cwd (c.platDir p a)) = true := by
  have := diverge_out_platDir c cwd p a []; rwa [join_nil] at this

theorem diverge_out_merged (c : Cfg) (cwd : Path) (p : String) (archs : List String) (x : Path) :
    diverge (resolve cwd c.pkgOut) (resolve cwd ((c.mergedDir p archs).join x)) = true := by
  rw [mergedDir_eq]; exact diverge_out_build ..

theorem diverge_out_repo (c : Cfg) (cwd : Path) (x : Path) :
    diverge (resolve cwd c.pkgOut) (resolve cwd (c.repoDir.join x)) = true := by
  rw [repoDir_eq]; exact diverge_out_build ..

theorem diverge_out_repo' (c : Cfg) (cwd : Path) :
    diverge (resolve cwd c.pkgOut) (resolve cwd c.repoDir) = true := by
  have := diverge_out_repo c cwd []; rwa [join_nil] at this

/-! #### `build` -/

theorem buildSteps_away (c : Cfg) (cwd : Path) (platform : String) (archs : List String) :
    (buildSteps c platform archs).all (away (resolve cwd c.pkgOut) cwd) = true := by
  unfold buildSteps lipoCombine
  simp only [List.all_append, List.all_flatMap, Bool.and_eq_true]
  refine ⟨?_, ?_⟩
  · apply List.all_eq_true.mpr
    intro a _
    simp only [List.all_cons, List.all_nil, Bool.and_true, Bool.and_eq_true, always, away]
    refine ⟨diverge_out_platDir' .., ?_⟩
    apply List.all_eq_true.mpr
    intro e he
    simp only [List.mem_map] at he
    obtain ⟨f, _, rfl⟩ := he
    exact diverge_out_platDir ..
  · split
    · simp only [List.all_append, List.all_cons, List.all_nil, Bool.and_true, Bool.and_eq_true, always, away, Eff.resolve]
      exact ⟨diverge_out_merged .., diverge_out_merged ..⟩
    · rfl

theorem buildAll_away (c : Cfg) (cwd : Path) : (buildAll c).all (away (resolve cwd c.pkgOut) cwd) = true := by
  unfold buildAll
  rw [List.all_flatMap]
  apply List.all_eq_true.mpr
  intro ⟨p, archs⟩ _
  exact buildSteps_away c cwd p archs

/-- **`build` never touches the package output directory**: whatever the tools do, the files below
    `<out>/<configuration>/package/<key>` after any `build(platform, architectures)` are exactly those before it. -/
theorem build_leaves_output_untouched (c : Cfg) (orc : Oracle) (platform : String) (archs : List String) (w : World) (q : Path)
    (hq : under (resolve w.cwd c.pkgOut) q = true) :
    q ∈ (run orc (buildSteps c platform archs) w).2.files ↔ q ∈ w.files :=
  run_away orc _ w (buildSteps_away c w.cwd platform archs) hq

/-! #### `package` -/

theorem templates_away (c : Cfg) (cwd : Path) :
    (c.templates.map (fun t => always (.write (c.pkgBuild.join t)))).all (away (resolve cwd c.pkgOut) cwd) = true := by
  apply List.all_eq_true.mpr
  intro s hs
  simp only [List.mem_map] at hs
  obtain ⟨t, _, rfl⟩ := hs
  exact diverge_out_pkgBuild ..

theorem packageStage_away (c : Cfg) (cwd : Path) : (packageStage c).all (away (resolve cwd c.pkgOut) cwd) = true := by
  unfold packageStage
  split
  · simp only [List.all_append, List.all_flatMap, Bool.and_eq_true]
    refine ⟨?_, ?_⟩
    · apply List.all_eq_true.mpr
      intro ⟨arch, path⟩ _
      simp only [List.all_cons, List.all_nil, Bool.and_true, Bool.and_eq_true, always, away]
      exact ⟨diverge_out_pkgBuild .., diverge_out_pkgBuild ..⟩
    · simp only [List.all_cons, List.all_nil, Bool.and_true, always, away, Eff.resolve, toolDir]
      have := diverge_out_pkgBuild c cwd ["build", "outputs", "aar", c.target ++ "-release.aar"]
      rw [resolve_join] at this
      simpa [resolve] using this
  · simp only [List.all_append, Bool.and_eq_true]
    refine ⟨⟨?_, ?_⟩, ?_⟩
    · split
      · rfl
      · simp only [List.all_cons, List.all_nil, Bool.and_true, always, away]
        exact diverge_out_pkgBuild ..
    · apply List.all_eq_true.mpr
      intro s hs
      simp only [List.mem_map] at hs
      obtain ⟨⟨arch, path⟩, _, rfl⟩ := hs
      exact diverge_out_pkgBuild ..
    · split
      · simp only [List.all_cons, List.all_nil, Bool.and_true, always, away]
        exact diverge_out_pkgBuild ..
      · rfl
  · simp only [List.all_cons, List.all_nil, Bool.and_true, Bool.and_eq_true, always, away, Eff.resolve, toolDir]
    refine ⟨diverge_out_pkgBuild .., ?_⟩
    rw [join_join]; exact diverge_out_pkgBuild ..

theorem execute_fail_files (orc : Oracle) (tool : String) (sig : List String) (wd : Option P) (eff : List Eff) (handled : Bool) (w : World)
    (h : (execute orc tool sig wd eff handled w).1 ≠ .ok) : (execute orc tool sig wd eff handled w).2.files = w.files := by
  simp only [execute] at h ⊢
  split
  · rfl
  · rename_i w1 hcd
    simp only [hcd] at h
    obtain ⟨hf, _, _, _⟩ := chdirTo_eq hcd
    split
    · rename_i hr; simp [hr] at h
    · exact hf

theorem execute_flags (orc : Oracle) (tool : String) (sig : List String) (wd : Option P) (eff : List Eff) (handled : Bool) (w : World) :
    (execute orc tool sig wd eff handled w).2.flags = w.flags := by
  simp only [execute]
  split
  · rfl
  · rename_i w1 hcd
    obtain ⟨_, _, hf, _⟩ := chdirTo_eq hcd
    split <;> exact hf

theorem run_singleton (orc : Oracle) (s : Step) (w : World) : run orc [s] w = runStep orc w s := by
  simp only [run]
  split
  · rename_i w1 h; exact h.symm
  · rfl

theorem run_cons_ok {orc : Oracle} {s : Step} {ss : List Step} {w w1 : World} (h : runStep orc w s = (.ok, w1)) :
    run orc (s :: ss) w = run orc ss w1 := by simp [run, h]

theorem run_cons_err {orc : Oracle} {s : Step} {ss : List Step} {w w1 : World} {e : Err} (h : runStep orc w s = (.err e, w1)) :
    run orc (s :: ss) w = (.err e, w1) := by simp [run, h]

theorem prepareDir_files_subset (w : World) (d : Path) (c : Bool) : ∀ q ∈ (prepareDir w d c).files, q ∈ w.files := by
  intro q hq
  unfold prepareDir rmtree at hq
  split at hq
  · simp only [List.mem_filter] at hq; exact hq.1
  · exact hq

theorem copyFile_fail (orc : Oracle) (w : World) (src dst : P) (h : (runPrim orc w (.copyFile src dst)).1 ≠ .ok) :
    (runPrim orc w (.copyFile src dst)).2.files = w.files := by
  simp only [runPrim] at h ⊢
  split
  · rename_i hx; simp [hx] at h
  · rfl

theorem copyTree_fail (orc : Oracle) (w : World) (srcs : List P) (dst : P) (c : Bool) (h : (runPrim orc w (.copyTree srcs dst c)).1 ≠ .ok) :
    ∀ q ∈ (runPrim orc w (.copyTree srcs dst c)).2.files, q ∈ w.files := by
  simp only [runPrim] at h ⊢
  split
  · exact prepareDir_files_subset _ _ _
  · rename_i hx; simp [hx] at h

theorem runStep_always (orc : Oracle) (w : World) (p : Prim) : runStep orc w (always p) = runPrim orc w p := by
  simp [runStep, always, condHolds]

theorem packageFill_failAddsNothing (c : Cfg) : FailAddsNothing (packageFill c) := by
  unfold packageFill
  split
  · -- aar: copy_file of the .aar
    intro orc w hr q hq
    rw [run_singleton, runStep_always] at hr hq
    rw [copyFile_fail orc w _ _ hr] at hq; exact hq
  · -- nuget: exactly one of the two guarded `nuget pack` forms runs
    intro orc w
    generalize hn : c.pkgOut.join [c.target ++ "." ++ c.version ++ ".nupkg"] = nupkg
    generalize hs : c.pkgOut.join [c.target ++ "." ++ c.version ++ ".symbols.nupkg"] = snupkg
    simp only []
    by_cases hflag : w.hasFlag "pdb" = true
    · have h1 : runStep orc w ⟨.flag "pdb", .exec "nuget" ["pack", "-Symbols"] (some c.pkgBuild) [.callerAbs nupkg, .callerAbs snupkg]⟩
          = execute orc "nuget" ["pack", "-Symbols"] (some c.pkgBuild) [.callerAbs nupkg, .callerAbs snupkg] false w := by
        simp [runStep, condHolds, hflag, runPrim]
      have hfl := execute_flags orc "nuget" ["pack", "-Symbols"] (some c.pkgBuild) [.callerAbs nupkg, .callerAbs snupkg] false w
      have hff := execute_fail_files orc "nuget" ["pack", "-Symbols"] (some c.pkgBuild) [.callerAbs nupkg, .callerAbs snupkg] false w
      generalize execute orc "nuget" ["pack", "-Symbols"] (some c.pkgBuild) [.callerAbs nupkg, .callerAbs snupkg] false w = e at h1 hfl hff
      obtain ⟨r1, w1⟩ := e
      cases r1 with
      | ok =>
        rw [run_cons_ok h1, run_singleton]
        have : runStep orc w1 ⟨.notFlag "pdb", .exec "nuget" ["pack"] (some c.pkgBuild) [.callerAbs nupkg]⟩ = (.ok, w1) := by
          have : w1.hasFlag "pdb" = true := by simp only [World.hasFlag] at hflag ⊢; simp only at hfl; rw [hfl]; exact hflag
          simp [runStep, condHolds, this]
        rw [this]
        intro hr; exact absurd rfl hr
      | err e =>
        rw [run_cons_err h1]
        intro _ q hq
        have := hff (by simp)
        simp only at this hq
        rw [this] at hq; exact hq
    · have hflag' : w.hasFlag "pdb" = false := by simpa using hflag
      have h1 : runStep orc w ⟨.flag "pdb", .exec "nuget" ["pack", "-Symbols"] (some c.pkgBuild) [.callerAbs nupkg, .callerAbs snupkg]⟩ = (.ok, w) := by
        simp [runStep, condHolds, hflag']
      rw [run_cons_ok h1, run_singleton]
      have h2 : runStep orc w ⟨.notFlag "pdb", .exec "nuget" ["pack"] (some c.pkgBuild) [.callerAbs nupkg]⟩
          = execute orc "nuget" ["pack"] (some c.pkgBuild) [.callerAbs nupkg] false w := by
        simp [runStep, condHolds, hflag', runPrim]
      rw [h2]
      intro hr q hq
      rw [execute_fail_files _ _ _ _ _ _ _ hr] at hq; exact hq
  · -- swiftpackage: copy_directory(package_build_path, package_output_path, clean=True)
    intro orc w hr q hq
    rw [run_singleton, runStep_always] at hr hq
    exact copyTree_fail orc w _ _ _ hr q hq

/-- **No trace of success.** For every target and configuration, every oracle and every initial state (a stale artifact of an
    earlier run included): whenever `package()` does not return normally — a tool missing or failing at any point, a file
    error — the package output directory `<out>/<configuration>/package/<key>` holds no file at all. -/
theorem package_failure_no_artifact (c : Cfg) (orc : Oracle) (w : World) (hr : (run orc (packageSteps c) w).1 ≠ .ok) :
    ∀ q ∈ (run orc (packageSteps c) w).2.files, under (resolve w.cwd c.pkgOut) q = false := by
  unfold packageSteps at hr ⊢
  apply emptied_then_filled_last orc c.pkgBuild c.pkgOut c.clean _ _ w ?_ (packageFill_failAddsNothing c) hr
  rw [List.all_append, templates_away, packageStage_away]; rfl


/-! #### `publish` -/

theorem publishSteps_away (c : Cfg) (cwd : Path)
    (hlocal : ∀ d, c.swiftRepo = .localDir d → diverge (resolve cwd c.pkgOut) (resolve cwd (d.join [c.target])) = true) :
    (publishSteps c).all (away (resolve cwd c.pkgOut) cwd) = true := by
  unfold publishSteps
  split
  · split <;> rfl
  · split <;> rfl
  · split
    · rename_i d hd
      simp only [List.all_cons, List.all_nil, Bool.and_true, always, away]
      exact hlocal d hd
    · simp only [List.all_cons, List.all_nil, Bool.and_true, Bool.and_eq_true, always, away, Eff.resolve, toolDir, List.all_nil]
      exact ⟨trivial, trivial, trivial, ⟨diverge_out_repo .., diverge_out_repo ..⟩, trivial, diverge_out_repo .., diverge_out_repo ..,
        diverge_out_repo' ..⟩

/-- **`publish` never touches the package output directory** (for the directory form of the Swift repository: provided
    that directory is not the output directory itself, or around or inside it). -/
theorem publish_leaves_output_untouched (c : Cfg) (orc : Oracle) (w : World) (q : Path)
    (hlocal : ∀ d, c.swiftRepo = .localDir d → diverge (resolve w.cwd c.pkgOut) (resolve w.cwd (d.join [c.target])) = true)
    (hq : under (resolve w.cwd c.pkgOut) q = true) :
    q ∈ (run orc (publishSteps c) w).2.files ↔ q ∈ w.files :=
  run_away orc _ w (publishSteps_away c w.cwd hlocal) hq

theorem execute_dirs (orc : Oracle) (tool : String) (sig : List String) (wd : Option P) (eff : List Eff) (handled : Bool) (w : World) :
    (execute orc tool sig wd eff handled w).2.dirs = w.dirs := by
  simp only [execute]
  split
  · rfl
  · rename_i w1 hcd
    obtain ⟨_, hd, _, _⟩ := chdirTo_eq hcd
    split <;> exact hd

/-! ### sets of faults: a handled probe and its fallback -/

/-- every handled (caught) failing probe in the log is directly followed by its fallback: an invocation of the same tool
    whose failure is *not* caught -/
def ProbeFollowed (calls : List Call) : Prop :=
  ∀ i (h : i < calls.length), calls[i].handled = true →
    ∃ h' : i + 1 < calls.length, calls[i + 1].handled = false ∧ calls[i + 1].tool = calls[i].tool

theorem ProbeFollowed_append_unhandled {calls : List Call} {c : Call} (h : ProbeFollowed calls) (hc : c.handled = false) :
    ProbeFollowed (calls ++ [c]) := by
  intro i hi hh
  by_cases hlt : i < calls.length
  · rw [List.getElem_append_left hlt] at hh
    obtain ⟨h', h1, h2⟩ := h i hlt hh
    refine ⟨by simp; omega, ?_⟩
    rw [List.getElem_append_left h', List.getElem_append_left hlt]
    exact ⟨h1, h2⟩
  · have : i = calls.length := by simp at hi; omega
    subst this
    simp [hc] at hh

theorem ProbeFollowed_append_pair {calls : List Call} {c1 c2 : Call} (h : ProbeFollowed calls) (h2 : c2.handled = false)
    (ht : c2.tool = c1.tool) : ProbeFollowed (calls ++ [c1] ++ [c2]) := by
  intro i hi hh
  by_cases hlt : i < calls.length
  · have hlt1 : i < (calls ++ [c1]).length := by simp; omega
    rw [List.getElem_append_left hlt1, List.getElem_append_left hlt] at hh
    obtain ⟨h', ha, hb⟩ := h i hlt hh
    have h'1 : i + 1 < (calls ++ [c1]).length := by simp; omega
    refine ⟨by simp; omega, ?_⟩
    rw [List.getElem_append_left h'1, List.getElem_append_left h', List.getElem_append_left hlt1, List.getElem_append_left hlt]
    exact ⟨ha, hb⟩
  · by_cases heq : i = calls.length
    · subst heq
      refine ⟨by simp, ?_⟩
      have e1 : (calls ++ [c1] ++ [c2])[calls.length + 1]'(by simp) = c2 := by
        rw [List.getElem_append_right (by simp)]; simp
      have e0 : (calls ++ [c1] ++ [c2])[calls.length]'(by simp) = c1 := by
        rw [List.getElem_append_left (by simp)]; simp
      rw [e1, e0]
      exact ⟨h2, ht⟩
    · have : i = calls.length + 1 := by simp at hi; omega
      subst this
      have e1 : (calls ++ [c1] ++ [c2])[calls.length + 1]'(by simp) = c2 := by
        rw [List.getElem_append_right (by simp)]; simp
      rw [e1, h2] at hh
      cases hh

/-- `chdir` into the working directory of a command depends on the directory tree and the current directory only -/
theorem chdirTo_congr (w w' : World) (wd : Option P) (hc : w'.cwd = w.cwd) (hf : w'.files = w.files) (hd : w'.dirs = w.dirs) :
    (chdirTo w' wd).isSome = (chdirTo w wd).isSome := by
  cases wd with
  | none => simp [chdirTo]
  | some d =>
    have key : ∀ (c : Bool) (a b : World),
        (if c = true then some a else none : Option World).isSome = (if c = true then some b else none : Option World).isSome := by
      intro c a b; cases c <;> rfl
    simp only [chdirTo, World.dirExists, hc, hf, hd]
    exact key _ _ _

/-- what `try: execute(tool, sig1) except ExternalCommandException: execute(tool, sig2)` does to the log -/
theorem execOr_log (orc : Oracle) (tool : String) (s1 s2 : List String) (wd : Option P) (w : World) :
    ((runPrim orc w (.execOr tool s1 s2 wd)).1 = .err (.oserror "chdir") ∧ (runPrim orc w (.execOr tool s1 s2 wd)).2.calls = w.calls)
    ∨ (∃ c1 : Call, (runPrim orc w (.execOr tool s1 s2 wd)).2.calls = w.calls ++ [c1] ∧ c1.result = .ok ∧ c1.handled = false
        ∧ (runPrim orc w (.execOr tool s1 s2 wd)).1 = .ok)
    ∨ (∃ c1 c2 : Call, (runPrim orc w (.execOr tool s1 s2 wd)).2.calls = w.calls ++ [c1] ++ [c2]
        ∧ c1.handled = true ∧ c1.result ≠ .ok ∧ c1.tool = tool ∧ c2.tool = tool ∧ c2.handled = false
        ∧ c2.result = orc (w.calls.length + 1) tool
        ∧ ((c2.result = .ok ∧ (runPrim orc w (.execOr tool s1 s2 wd)).1 = .ok)
           ∨ (c2.result ≠ .ok ∧ (runPrim orc w (.execOr tool s1 s2 wd)).1 = .err .external))) := by
  simp only [runPrim]
  rcases execute_log orc tool s1 wd [] true w with ⟨hr, hc⟩ | ⟨c1, hc, ht1, _, hh, hcase⟩
  · left
    split
    · rename_i w1 heq; rw [heq] at hr; cases hr
    · exact ⟨hr, hc⟩
  · rcases hcase with ⟨hok, hr⟩ | ⟨hbad, hr⟩
    · right; left
      split
      · rename_i w1 heq; rw [heq] at hr; cases hr
      · exact ⟨c1, hc, hok, by simp [hh, hok], hr⟩
    · right; right
      split
      · rename_i w1 heq
        have hc1 : w1.calls = w.calls ++ [c1] := by rw [heq] at hc; exact hc
        -- the directory of the fallback is the directory of the probe: `chdir` succeeds again
        have hcwd : w1.cwd = w.cwd := by have := execute_restores_cwd orc tool s1 wd [] true w; rw [heq] at this; exact this
        have hfiles : w1.files = w.files := by
          have := execute_fail_files orc tool s1 wd [] true w (by rw [heq]; simp); rw [heq] at this; exact this
        have hdirs : w1.dirs = w.dirs := by
          have := execute_dirs orc tool s1 wd [] true w; rw [heq] at this; exact this
        have hsome : (chdirTo w wd).isSome = true := by
          cases hcd : chdirTo w wd with
          | none => simp [execute, hcd] at heq
          | some _ => rfl
        have hsome1 : (chdirTo w1 wd).isSome = true := by rw [chdirTo_congr w w1 wd hcwd hfiles hdirs]; exact hsome
        rcases execute_log orc tool s2 wd [] false w1 with ⟨hr2, _⟩ | ⟨c2, hc2, ht2, hres2, hh2, hcase2⟩
        · exfalso
          cases hcd : chdirTo w1 wd with
          | none => rw [hcd] at hsome1; cases hsome1
          | some w2 =>
            simp only [execute, hcd] at hr2
            split at hr2 <;> cases hr2
        · refine ⟨c1, c2, by rw [hc2, hc1], by simp [hh, hbad], hbad, ht1, ht2, by simp [hh2], ?_, hcase2⟩
          rw [hres2, hc1]; simp
      · rename_i hne
        exact (hne _ (Prod.ext hr rfl)).elim

theorem runPrim_probeFollowed (orc : Oracle) (w : World) (p : Prim) (hw : ProbeFollowed w.calls) :
    ProbeFollowed (runPrim orc w p).2.calls := by
  cases p with
  | exec tool sig wd eff =>
    rcases execute_log orc tool sig wd eff false w with ⟨_, hc⟩ | ⟨c, hc, _, _, hh, _⟩
    · simp only [runPrim]; rw [hc]; exact hw
    · simp only [runPrim]; rw [hc]; exact ProbeFollowed_append_unhandled hw (by simp [hh])
  | execOr tool s1 s2 wd =>
    rcases execOr_log orc tool s1 s2 wd w with ⟨_, hc⟩ | ⟨c1, hc, _, hh, _⟩ | ⟨c1, c2, hc, _, _, ht1, ht2, hh2, _, _⟩
    · rw [hc]; exact hw
    · rw [hc]; exact ProbeFollowed_append_unhandled hw hh
    · rw [hc]; exact ProbeFollowed_append_pair hw hh2 (by rw [ht1, ht2])
  | prepare d c => rw [(runPrim_other orc w (.prepare d c) (by simp) (by simp)).1]; exact hw
  | copyTree srcs dst c => rw [(runPrim_other orc w (.copyTree srcs dst c) (by simp) (by simp)).1]; exact hw
  | copyFile s d => rw [(runPrim_other orc w (.copyFile s d) (by simp) (by simp)).1]; exact hw
  | write p => rw [(runPrim_other orc w (.write p) (by simp) (by simp)).1]; exact hw
  | need site p => rw [(runPrim_other orc w (.need site p) (by simp) (by simp)).1]; exact hw
  | unlink p => rw [(runPrim_other orc w (.unlink p) (by simp) (by simp)).1]; exact hw
  | setFlagFile n p => rw [(runPrim_other orc w (.setFlagFile n p) (by simp) (by simp)).1]; exact hw
  | setFlagAnyDir n ps => rw [(runPrim_other orc w (.setFlagAnyDir n ps) (by simp) (by simp)).1]; exact hw

theorem run_probeFollowed (orc : Oracle) (steps : List Step) (w : World) (hw : ProbeFollowed w.calls) :
    ProbeFollowed (run orc steps w).2.calls := by
  induction steps generalizing w with
  | nil => exact hw
  | cons s ss ih =>
    simp only [run]
    have hs : ProbeFollowed (runStep orc w s).2.calls := by
      unfold runStep; split
      · exact runPrim_probeFollowed orc w s.prim hw
      · exact hw
    split
    · rename_i w1 heq
      rw [heq] at hs
      exact ih w1 hs
    · exact hs

/-- **Every set of faults.** Run any pipeline from an empty log under *any* oracle (any number of failing invocations, of
    either kind). For every logged invocation `i` whose verdict is a failure: either the operation ended with the
    external-command error (130), the working directory restored and the failing unhandled invocation the last one logged — or
    invocation `i` is a probe whose failure its caller handles, and the very next invocation is its fallback (same tool) and
    *succeeded*. In particular a failing fallback is never swallowed. -/
theorem faults_reported_or_recovered (orc : Oracle) (steps : List Step) (w : World) (hw : w.calls = [])
    (i : Nat) (hi : i < (run orc steps w).2.calls.length)
    (hfail : orc i ((run orc steps w).2.calls[i]).tool ≠ .ok) :
    ((run orc steps w).1 = .err .external ∧ (run orc steps w).2.cwd = w.cwd ∧ LastFailed (run orc steps w).2.calls)
    ∨ (((run orc steps w).2.calls[i]).handled = true
        ∧ ∃ h : i + 1 < (run orc steps w).2.calls.length,
            ((run orc steps w).2.calls[i + 1]).result = .ok
            ∧ ((run orc steps w).2.calls[i + 1]).tool = ((run orc steps w).2.calls[i]).tool) := by
  have hfa := run_faithful orc steps w (by rw [hw]; intro i hi; simp at hi)
  have hpf := run_probeFollowed orc steps w (by rw [hw]; intro i hi; simp at hi)
  rcases run_good orc steps w (by rw [hw]; rfl) with ⟨hr, hl⟩ | ⟨_, hc⟩
  · left; exact ⟨hr, run_restores_cwd .., hl⟩
  · right
    have hci := (List.all_eq_true.mp hc) _ (List.getElem_mem hi)
    have hres : ((run orc steps w).2.calls[i]).result ≠ .ok := by rw [hfa i hi]; exact hfail
    have hh : ((run orc steps w).2.calls[i]).handled = true := by
      simp only [Call.clean, Bool.or_eq_true, decide_eq_true_eq] at hci
      rcases hci with h | h
      · exact absurd h hres
      · exact h
    obtain ⟨h', hnh, htool⟩ := hpf i hi hh
    refine ⟨hh, h', ?_, htool⟩
    have hc1 := (List.all_eq_true.mp hc) _ (List.getElem_mem h')
    simp only [Call.clean, hnh, Bool.or_false, decide_eq_true_eq] at hc1
    exact hc1

/-- **Every set of faults, every unhandled failing invocation.** Under *any* oracle: if logged invocation `k` has a failing
    verdict and is not a probe handled by its caller, then the outcome is code 130, the working directory is restored and `k` is
    the last invocation made — so of several faults it is the *first* unhandled one that ends the operation
    (`fault_at_any_point` is the one-fault instance). -/
theorem first_unhandled_fault_ends (orc : Oracle) (steps : List Step) (k : Nat) (w : World) (hw : w.calls = [])
    (hk : k < (run orc steps w).2.calls.length)
    (hbad : orc k ((run orc steps w).2.calls[k]).tool ≠ .ok)
    (hh : ((run orc steps w).2.calls[k]).handled = false) :
    (run orc steps w).1 = .err .external ∧ (run orc steps w).2.cwd = w.cwd
      ∧ (run orc steps w).2.calls.length = k + 1 := by
  have hfa := run_faithful orc steps w (by rw [hw]; intro i hi; simp at hi) k hk
  have hres : ((run orc steps w).2.calls[k]).result ≠ .ok := by rw [hfa]; exact hbad
  have hunclean : ((run orc steps w).2.calls[k]).clean = false := by
    simp only [Call.clean, hh, Bool.or_false]
    exact decide_eq_false hres
  have hnc : clean (run orc steps w).2.calls = false := by
    simp only [clean, List.all_eq_false]
    exact ⟨_, List.getElem_mem hk, by simp [hunclean]⟩
  obtain ⟨hr, pre, c, hcalls, hpre, _⟩ := run_fault_reported orc steps w (by rw [hw]; rfl) hnc
  refine ⟨hr, run_restores_cwd .., ?_⟩
  rw [hcalls, List.length_append, List.length_singleton]
  by_cases hlt : k < pre.length
  · exfalso
    have : (run orc steps w).2.calls[k] = pre[k] := by
      simp only [hcalls]; exact List.getElem_append_left hlt
    rw [this] at hunclean
    have := (List.all_eq_true.mp hpre) _ (List.getElem_mem hlt)
    rw [hunclean] at this; cases this
  · have : k < pre.length + 1 := by rw [hcalls] at hk; simpa using hk
    omega

/-- **A probe and its fallback both fail** (pairs of faults): if two consecutive logged invocations of the same tool both get a
    failing verdict, the operation ends with code 130 and the working directory restored — whatever else the oracle says, and
    whether or not the first of them is a handled probe. -/
theorem probe_and_fallback_fail_reported (orc : Oracle) (steps : List Step) (w : World) (hw : w.calls = [])
    (i : Nat) (hi : i + 1 < (run orc steps w).2.calls.length)
    (hf1 : orc i ((run orc steps w).2.calls[i]'(by omega)).tool ≠ .ok)
    (hf2 : orc (i + 1) ((run orc steps w).2.calls[i + 1]).tool ≠ .ok) :
    (run orc steps w).1 = .err .external ∧ (run orc steps w).2.cwd = w.cwd := by
  have hfa := run_faithful orc steps w (by rw [hw]; intro i hi; simp at hi)
  rcases faults_reported_or_recovered orc steps w hw i (by omega) hf1 with ⟨hr, hcwd, _⟩ | ⟨_, h', hok, _⟩
  · exact ⟨hr, hcwd⟩
  · exfalso
    rw [hfa (i + 1) hi] at hok
    exact hf2 hok

/-- the oracle of a fault set says "non-zero" exactly at the listed indices (no tools disappearing) -/
theorem faultsAt_nonzero (ks : List Nat) (i : Nat) (t : String) : faultsAt ks none i t ≠ .ok ↔ i ∈ ks := by
  simp only [faultsAt]
  by_cases h : ks.contains i
  · simp [List.contains_iff_mem.mp h]
  · have : i ∉ ks := fun hm => h (List.contains_iff_mem.mpr hm)
    simp [this]

/-- a single fault is the one-element fault set -/
theorem faultsAt_single (k : Nat) : faultsAt [k] none = faultAt k .nonzero := by
  funext i t
  simp only [faultsAt, faultAt, List.contains_cons, List.contains_nil, Bool.or_false]
  by_cases h : i = k <;> simp [h]

/-! ### the whole `package` operation -/

/-- no step of the pipeline is a probe whose failure is caught (`try … except ExternalCommandException`) -/
def noProbe (s : Step) : Bool := match s.prim with | .execOr .. => false | _ => true

theorem runStep_unhandled (orc : Oracle) (w : World) (s : Step) (hs : noProbe s = true) (hw : w.calls.all (fun c => !c.handled) = true) :
    (runStep orc w s).2.calls.all (fun c => !c.handled) = true := by
  unfold runStep
  split
  · obtain ⟨cond, prim⟩ := s
    cases prim with
    | exec tool sig wd eff =>
      rcases execute_log orc tool sig wd eff false w with ⟨_, hc⟩ | ⟨c, hc, _, _, hh, _⟩
      · simp only [runPrim]; rw [hc]; exact hw
      · simp only [runPrim]; rw [hc, List.all_append, hw]; simp [hh]
    | execOr tool s1 s2 wd => simp [noProbe] at hs
    | prepare d c => rw [(runPrim_other orc w (.prepare d c) (by simp) (by simp)).1]; exact hw
    | copyTree srcs dst c => rw [(runPrim_other orc w (.copyTree srcs dst c) (by simp) (by simp)).1]; exact hw
    | copyFile s d => rw [(runPrim_other orc w (.copyFile s d) (by simp) (by simp)).1]; exact hw
    | write p => rw [(runPrim_other orc w (.write p) (by simp) (by simp)).1]; exact hw
    | need site p => rw [(runPrim_other orc w (.need site p) (by simp) (by simp)).1]; exact hw
    | unlink p => rw [(runPrim_other orc w (.unlink p) (by simp) (by simp)).1]; exact hw
    | setFlagFile n p => rw [(runPrim_other orc w (.setFlagFile n p) (by simp) (by simp)).1]; exact hw
    | setFlagAnyDir n ps => rw [(runPrim_other orc w (.setFlagAnyDir n ps) (by simp) (by simp)).1]; exact hw
  · exact hw

theorem run_unhandled (orc : Oracle) (steps : List Step) (w : World) (hs : steps.all noProbe = true)
    (hw : w.calls.all (fun c => !c.handled) = true) : (run orc steps w).2.calls.all (fun c => !c.handled) = true := by
  induction steps generalizing w with
  | nil => exact hw
  | cons s ss ih =>
    simp only [List.all_cons, Bool.and_eq_true] at hs
    simp only [run]
    have h1 := runStep_unhandled orc w s hs.1 hw
    split
    · rename_i w1 heq
      rw [heq] at h1
      exact ih w1 hs.2 h1
    · exact h1

theorem packageOp_noProbe (c : Cfg) : (packageOp c).all noProbe = true := by
  unfold packageOp buildAll packageSteps
  simp only [List.all_append, List.all_cons, List.all_flatMap, Bool.and_eq_true]
  refine ⟨?_, rfl, rfl, ⟨?_, ?_⟩, ?_⟩
  · apply List.all_eq_true.mpr
    intro ⟨p, archs⟩ _
    unfold buildSteps lipoCombine
    simp only [List.all_append, List.all_flatMap, Bool.and_eq_true]
    refine ⟨?_, ?_⟩
    · apply List.all_eq_true.mpr; intro a _; rfl
    · split <;> rfl
  · apply List.all_eq_true.mpr
    intro s hs
    simp only [List.mem_map] at hs
    obtain ⟨t, _, rfl⟩ := hs
    rfl
  · unfold packageStage
    split
    · simp only [List.all_append, List.all_flatMap, Bool.and_eq_true]
      refine ⟨?_, rfl⟩
      apply List.all_eq_true.mpr; intro ⟨a, p⟩ _; rfl
    · simp only [List.all_append, Bool.and_eq_true]
      refine ⟨⟨?_, ?_⟩, ?_⟩
      · split <;> rfl
      · apply List.all_eq_true.mpr
        intro s hs
        simp only [List.mem_map] at hs
        obtain ⟨⟨a, p⟩, _, rfl⟩ := hs
        rfl
      · split <;> rfl
    · rfl
  · unfold packageFill
    split <;> rfl

/-- **C20 for the whole `package` operation** (all `build(platform)` calls, then `package()`), for every target, every
    configuration (platform / architecture lists, clean switch, templates, paths), every invocation index `k` and both
    kinds of fault `f` (missing, non-zero), started from any state with an empty invocation log (stale artifacts allowed):
    if the `k`-th invocation point exists, then

    * the outcome is the external-command error (code 130),
    * the working directory after the call is the one before it,
    * exactly `k + 1` invocations were made — nothing runs after the failing tool,
    * every file below the package output directory afterwards was already there before the operation, and there is
      such a file only if the failure happened while building (once `build` is through, the output directory is empty). -/
theorem packageOp_fault_spec (c : Cfg) (k : Nat) (f : ToolResult) (hf : f ≠ .ok) (w : World) (hw : w.calls = [])
    (hk : k < (run (faultAt k f) (packageOp c) w).2.calls.length) :
    (run (faultAt k f) (packageOp c) w).1 = .err .external
    ∧ (run (faultAt k f) (packageOp c) w).2.cwd = w.cwd
    ∧ (run (faultAt k f) (packageOp c) w).2.calls.length = k + 1
    ∧ ∀ q ∈ (run (faultAt k f) (packageOp c) w).2.files, under (resolve w.cwd c.pkgOut) q = true →
        q ∈ w.files ∧ (run (faultAt k f) (buildAll c) w).1 ≠ .ok := by
  have hun := run_unhandled (faultAt k f) (packageOp c) w (packageOp_noProbe c) (by rw [hw]; rfl)
  have hh : ((run (faultAt k f) (packageOp c) w).2.calls[k]).handled = false := by
    have := (List.all_eq_true.mp hun) _ (List.getElem_mem hk)
    simpa using this
  obtain ⟨h1, h2, h3⟩ := fault_at_any_point (packageOp c) k f hf w hw hk hh
  refine ⟨h1, h2, h3, ?_⟩
  intro q hq hu
  have hne : (run (faultAt k f) (packageOp c) w).1 ≠ .ok := by rw [h1]; simp
  unfold packageOp at hq hne
  rw [run_append] at hq hne
  have hb := run_away (faultAt k f) (buildAll c) w (buildAll_away c w.cwd) hu
  have hbc := run_restores_cwd (faultAt k f) (buildAll c) w
  generalize run (faultAt k f) (buildAll c) w = rb at hq hne hb hbc
  obtain ⟨rr, wb⟩ := rb
  cases rr with
  | ok =>
    exfalso
    simp only at hq hne hbc
    have := package_failure_no_artifact c (faultAt k f) wb hne q hq
    rw [hbc, hu] at this; cases this
  | err e =>
    simp only at hq
    exact ⟨hb.mp hq, by simp⟩

/-- **C20 for the whole `package` operation under any set of faults**: the statement of `packageOp_fault_spec` for an
    arbitrary oracle (several invocations failing, in any mixture of missing / non-zero): whenever some logged invocation `k`
    has a failing verdict, the outcome is 130, the working directory is restored, `k` is the last invocation, and the package
    output directory holds nothing that was not there before (and nothing at all once `build` is through). -/
theorem packageOp_faults_spec (c : Cfg) (orc : Oracle) (k : Nat) (w : World) (hw : w.calls = [])
    (hk : k < (run orc (packageOp c) w).2.calls.length)
    (hbad : orc k ((run orc (packageOp c) w).2.calls[k]).tool ≠ .ok) :
    (run orc (packageOp c) w).1 = .err .external
    ∧ (run orc (packageOp c) w).2.cwd = w.cwd
    ∧ (run orc (packageOp c) w).2.calls.length = k + 1
    ∧ ∀ q ∈ (run orc (packageOp c) w).2.files, under (resolve w.cwd c.pkgOut) q = true →
        q ∈ w.files ∧ (run orc (buildAll c) w).1 ≠ .ok := by
  have hun := run_unhandled orc (packageOp c) w (packageOp_noProbe c) (by rw [hw]; rfl)
  have hh : ((run orc (packageOp c) w).2.calls[k]).handled = false := by
    have := (List.all_eq_true.mp hun) _ (List.getElem_mem hk)
    simpa using this
  obtain ⟨h1, h2, h3⟩ := first_unhandled_fault_ends orc (packageOp c) k w hw hk hbad hh
  refine ⟨h1, h2, h3, ?_⟩
  intro q hq hu
  have hne : (run orc (packageOp c) w).1 ≠ .ok := by rw [h1]; simp
  unfold packageOp at hq hne
  rw [run_append] at hq hne
  have hb := run_away orc (buildAll c) w (buildAll_away c w.cwd) hu
  have hbc := run_restores_cwd orc (buildAll c) w
  generalize run orc (buildAll c) w = rb at hq hne hb hbc
  obtain ⟨rr, wb⟩ := rb
  cases rr with
  | ok =>
    exfalso
    simp only at hq hne hbc
    have := package_failure_no_artifact c orc wb hne q hq
    rw [hbc, hu] at this; cases this
  | err e =>
    simp only at hq
    exact ⟨hb.mp hq, by simp⟩

/-! ### the environment: helper programs, pipelines, wrappers -/

/-- a simple command line: the status `execute` sees is the status of the named tool -/
theorem Sh.simple_status (st : String → Bool) (line : Sh) (h : line.simple = true) : line.status st = st line.named := by
  cases line <;> simp [Sh.simple] at h
  rfl

/-- … so `executeSh` on a simple command line is the model's rule: error 130 iff the named tool is missing or exits non-zero -/
theorem executeSh_simple (present st : String → Bool) (line : Sh) (h : line.simple = true) :
    executeSh present st line = .ok ↔ (present line.named = true ∧ st line.named = true) := by
  unfold executeSh
  rw [Sh.simple_status st line h]
  by_cases hp : present line.named <;> by_cases hs : st line.named <;> simp [hp, hs]

/-- **a pipeline hides the failure of the named tool**: with a formatter installed that exits 0, `tool … | formatter` is a success
    whatever the tool's own status (the shape of regression the environment dimension of the check is there for) -/
theorem executeSh_pipe_hides_failure (present st : String → Bool) (tool helper : String) (hp : present tool = true) (hh : st helper = true) :
    executeSh present st (.pipe (.cmd tool) (.cmd helper)) = .ok := by
  simp [executeSh, Sh.named, Sh.status, hp, hh]

/-- the same for `tool … ; other`, `tool … || other`, `tool … &` -/
theorem executeSh_list_hides_failure (present st : String → Bool) (tool other : String) (hp : present tool = true) (ho : st other = true) :
    executeSh present st (.seq (.cmd tool) (.cmd other)) = .ok ∧ executeSh present st (.or (.cmd tool) (.cmd other)) = .ok
      ∧ executeSh present st (.bg (.cmd tool)) = .ok := by
  simp [executeSh, Sh.named, Sh.status, hp, ho]

/-- a wrapper that passes the status of its command on (`ccache`, `time`, `nice`, `xcrun`) changes nothing: only *which* status the
    shell returns matters -/
theorem executeSh_and_keeps_failure (present st : String → Bool) (pre tool : String) (hp : present pre = true) (hf : st tool = false) :
    executeSh present st (.and (.cmd pre) (.cmd tool)) = .err .external := by
  simp [executeSh, Sh.named, Sh.status, hp, hf]

/-- **The status of the named command decides** (model): for every pipeline and oracle, if any logged invocation has a failing
    verdict that its caller does not handle, the operation ends with the external-command error — the clause
    `named-command-status-lost` of `specObs` on the model's own log. -/
theorem named_status_decides (orc : Oracle) (steps : List Step) (w : World) (hw : clean w.calls = true)
    (h : (run orc steps w).2.calls.any (fun c => decide (c.result ≠ .ok) && !c.handled) = true) :
    (run orc steps w).1 = .err .external := by
  refine (run_fault_reported orc steps w hw ?_).1
  simp only [List.any_eq_true, Bool.and_eq_true, decide_eq_true_eq, Bool.not_eq_true'] at h
  obtain ⟨c, hc, hres, hh⟩ := h
  simp only [clean, List.all_eq_false]
  exact ⟨c, hc, by simp [Call.clean, hres, hh]⟩

#guard plainCommand "xcodebuild -create-xcframework -output /a/b/T.xcframework -framework /a/T.framework"
#guard plainCommand "git commit -m \"version 1.2.3\n\""
#guard plainCommand "git tag 1.2.3\n"
#guard plainCommand "git clone https://u:p@github.com:443/foo/bar.git dist/release/build/swiftpackage/package_repository"
#guard plainCommand "git commit -m 'a | b ; c'"
#guard !plainCommand "xcodebuild -create-xcframework -output /a/b | xcpretty"
#guard !plainCommand "conan build . ; true"
#guard !plainCommand "nuget push x || true"
#guard !plainCommand "lipo -create a b &"
#guard !plainCommand "git tag 1.2.3\ngit push"
#guard plainCommand "echo a\\|b"

/-! ### the address of the Swift package repository -/

theorem scpLike_abs (comps : List (List Char)) : scpLike true comps = false := rfl

/-- one component: `git@host:repo.git` -/
theorem scpLike_single (c : List Char) : scpLike false [c] = (gitAt.isPrefixOf c && gitSuffix c) := rfl

/-- **any number of path segments**: a relative path whose first component starts with `git@` and whose last component has the
    suffix `.git` is an scp-like address, whatever lies in between (`git@host:group/subgroup/…/repo.git`, `git@host:/srv/git/r.git`,
    `git@host:~user/r.git`) -/
theorem scpLike_any_depth (first : List Char) (mid : List (List Char)) (last : List Char)
    (h1 : gitAt.isPrefixOf first = true) (h2 : gitSuffix last = true) : scpLike false (first :: (mid ++ [last])) = true := by
  simp [scpLike, h1, h2, List.getLast?_cons, List.getLast?_append]

/-- what decides between "copy into a directory" and "through git": only `isHttp` and `scpLike` of the parsed text -/
theorem classify_remote_iff (cwd : Path) (cs : List Char) :
    (classifyChars cwd cs).isRemote = (isHttp cs || scpLike (pathParts cs).1 (pathParts cs).2) := by
  unfold classifyChars
  by_cases h1 : isHttp cs
  · simp [h1, SwiftRepo.isRemote]
  · by_cases h2 : scpLike (pathParts cs).1 (pathParts cs).2
    · simp [h1, h2, SwiftRepo.isRemote]
    · simp only [h1, h2, Bool.false_eq_true, if_false, Bool.or_self]
      split
      · rfl
      · split <;> rfl

/-! ### `publish` of the Swift package: which addresses need git, and what happens when git is not there or fails -/

/-- the log only grows -/
theorem runPrim_calls_prefix (orc : Oracle) (w : World) (p : Prim) : ∃ more, (runPrim orc w p).2.calls = w.calls ++ more := by
  cases p with
  | exec tool sig wd eff =>
    rcases execute_log orc tool sig wd eff false w with ⟨_, hc⟩ | ⟨c, hc, _⟩
    · exact ⟨[], by simp only [runPrim]; rw [hc]; simp⟩
    · exact ⟨[c], by simp only [runPrim]; rw [hc]⟩
  | execOr tool s1 s2 wd =>
    simp only [runPrim]
    rcases execute_log orc tool s1 wd [] true w with ⟨_, hc⟩ | ⟨c, hc, _⟩
    · split
      · rename_i w1 heq
        rcases execute_log orc tool s2 wd [] false w1 with ⟨_, hc2⟩ | ⟨c2, hc2, _⟩
        · refine ⟨[], ?_⟩; rw [hc2]; rw [heq] at hc; simpa using hc
        · refine ⟨[c2], ?_⟩; rw [hc2]; rw [heq] at hc; simp only at hc; rw [hc]
      · exact ⟨[], by rw [hc]; simp⟩
    · split
      · rename_i w1 heq
        rcases execute_log orc tool s2 wd [] false w1 with ⟨_, hc2⟩ | ⟨c2, hc2, _⟩
        · refine ⟨[c], ?_⟩; rw [hc2]; rw [heq] at hc; simpa using hc
        · refine ⟨[c, c2], ?_⟩; rw [hc2]; rw [heq] at hc; simp only at hc; rw [hc]; simp
      · exact ⟨[c], hc⟩
  | prepare d c => exact ⟨[], by rw [(runPrim_other orc w (.prepare d c) (by simp) (by simp)).1]; simp⟩
  | copyTree srcs dst c => exact ⟨[], by rw [(runPrim_other orc w (.copyTree srcs dst c) (by simp) (by simp)).1]; simp⟩
  | copyFile s d => exact ⟨[], by rw [(runPrim_other orc w (.copyFile s d) (by simp) (by simp)).1]; simp⟩
  | write p => exact ⟨[], by rw [(runPrim_other orc w (.write p) (by simp) (by simp)).1]; simp⟩
  | need site p => exact ⟨[], by rw [(runPrim_other orc w (.need site p) (by simp) (by simp)).1]; simp⟩
  | unlink p => exact ⟨[], by rw [(runPrim_other orc w (.unlink p) (by simp) (by simp)).1]; simp⟩
  | setFlagFile n p => exact ⟨[], by rw [(runPrim_other orc w (.setFlagFile n p) (by simp) (by simp)).1]; simp⟩
  | setFlagAnyDir n ps => exact ⟨[], by rw [(runPrim_other orc w (.setFlagAnyDir n ps) (by simp) (by simp)).1]; simp⟩

theorem run_calls_prefix (orc : Oracle) (steps : List Step) (w : World) : ∃ more, (run orc steps w).2.calls = w.calls ++ more := by
  induction steps generalizing w with
  | nil => exact ⟨[], by simp [run]⟩
  | cons s ss ih =>
    simp only [run]
    have hs : ∃ more, (runStep orc w s).2.calls = w.calls ++ more := by
      unfold runStep; split
      · exact runPrim_calls_prefix orc w s.prim
      · exact ⟨[], by simp⟩
    obtain ⟨m1, h1⟩ := hs
    split
    · rename_i w1 heq
      rw [heq] at h1
      obtain ⟨m2, h2⟩ := ih w1
      exact ⟨m1 ++ m2, by rw [h2, h1, List.append_assoc]⟩
    · exact ⟨m1, h1⟩

/-- the step list of a publish through git (scp-like address or URL) -/
def gitPublishSteps (c : Cfg) : List Step :=
  let repo := c.repoDir
  [always (.setFlagAnyDir "repo" [repo]),
   ⟨.flag "repo", .exec "git" ["checkout"] (some repo) []⟩,
   ⟨.flag "repo", .exec "git" ["pull"] (some repo) []⟩,
   ⟨.notFlag "repo", .exec "git" ["clone"] none [.here (repo.join ["Package.swift"]), .here (repo.join [".git", "HEAD"])]⟩,
   ⟨.notFlag "repo", .exec "git" ["checkout"] (some repo) []⟩,
   always (.unlink (repo.join ["Package.swift"])),
   always (.prepare (repo.join ["bin"]) true),
   always (.copyTree [c.pkgBuild] repo false),
   always (.need "read" (c.pkgBuild.join ["VERSION"])),
   ⟨.always, .exec "git" ["add"] (some repo) []⟩,
   ⟨.always, .exec "git" ["commit"] (some repo) []⟩,
   ⟨.always, .exec "git" ["tag"] (some repo) []⟩,
   ⟨.always, .exec "git" ["push"] (some repo) []⟩,
   ⟨.always, .exec "git" ["push", "--tags"] (some repo) []⟩]

theorem publishSteps_swift_remote (c : Cfg) (hkey : c.key = "swiftpackage") (hr : c.swiftRepo.isRemote = true) :
    publishSteps c = gitPublishSteps c := by
  unfold publishSteps gitPublishSteps
  rw [hkey]
  cases hrepo : c.swiftRepo with
  | localDir d => rw [hrepo] at hr; cases hr
  | gitPath => rfl
  | url => rfl

theorem publishSteps_swift_local (c : Cfg) (hkey : c.key = "swiftpackage") (d : P) (hr : c.swiftRepo = .localDir d) :
    publishSteps c = [always (.copyTree [c.pkgBuild] (d.join [c.target]) true)] := by
  unfold publishSteps
  rw [hkey, hr]
  rfl

theorem hasFlag_setFlag (w : World) (n : String) (v : Bool) : (setFlag w n v).hasFlag n = v := by
  cases v
  · simp [setFlag, World.hasFlag]
  · simp only [setFlag, World.hasFlag, if_true]
    split
    · assumption
    · simp

theorem run_skip (orc : Oracle) (s : Step) (ss : List Step) (w : World) (h : condHolds w s.cond = false) :
    run orc (s :: ss) w = run orc ss w := by
  simp [run, runStep, h]

/-- a pipeline whose first step is an `execute` that applies and whose working directory exists: the first logged invocation is that one -/
theorem run_exec_first (orc : Oracle) (cond : Cond) (tool : String) (sig : List String) (wd : Option P) (eff : List Eff) (rest : List Step)
    (w : World) (hc : condHolds w cond = true) (hcd : (chdirTo w wd).isSome = true) (hw : w.calls = []) :
    ∃ call more, (run orc (⟨cond, .exec tool sig wd eff⟩ :: rest) w).2.calls = call :: more ∧ call.tool = tool
      ∧ call.result = orc 0 tool ∧ call.handled = false := by
  have hstep : runStep orc w ⟨cond, .exec tool sig wd eff⟩ = execute orc tool sig wd eff false w := by simp [runStep, hc, runPrim]
  rcases execute_log orc tool sig wd eff false w with ⟨he, _⟩ | ⟨call, hcl, ht, hres, hh, _⟩
  · exfalso
    obtain ⟨w1, hw1⟩ := Option.isSome_iff_exists.mp hcd
    simp only [execute, hw1] at he
    split at he <;> simp at he
  · rw [hw] at hcl hres
    simp only [List.nil_append, List.length_nil] at hcl hres
    have hh' : call.handled = false := by simpa using hh
    cases hex : execute orc tool sig wd eff false w with
    | mk r1 w1 =>
      rw [hex] at hcl
      simp only at hcl
      cases r1 with
      | ok =>
        rw [run_cons_ok (hstep.trans hex)]
        obtain ⟨more, hm⟩ := run_calls_prefix orc rest w1
        exact ⟨call, more, by rw [hm, hcl]; rfl, ht, hres, hh'⟩
      | err e =>
        rw [run_cons_err (hstep.trans hex)]
        exact ⟨call, [], hcl, ht, hres, hh'⟩

/-- **An address that is not a local directory needs git at once**: for every scp-like address and every URL (`isRemote`), whatever the
    state of the tree (clone there or not) and whatever the tools do, the first thing `publish` does to the outside world is a `git`
    invocation, with the verdict the environment gives invocation 0 — it is never skipped, and no caller handles its failure. -/
theorem publish_remote_starts_git (c : Cfg) (hkey : c.key = "swiftpackage") (hr : c.swiftRepo.isRemote = true)
    (orc : Oracle) (w : World) (hw : w.calls = []) :
    ∃ call more, (run orc (publishSteps c) w).2.calls = call :: more ∧ call.tool = "git" ∧ call.result = orc 0 "git" ∧ call.handled = false := by
  rw [publishSteps_swift_remote c hkey hr]
  unfold gitPublishSteps
  have h0 : runStep orc w (always (.setFlagAnyDir "repo" [c.repoDir]))
      = (.ok, setFlag w "repo" (w.dirExists (resolve w.cwd c.repoDir))) := by
    simp [runStep, always, condHolds, runPrim]
  rw [run_cons_ok h0]
  by_cases hd : w.dirExists (resolve w.cwd c.repoDir) = true
  · -- the clone is there: `git checkout` in it
    rw [hd]
    refine run_exec_first orc _ "git" ["checkout"] (some c.repoDir) [] _ _ (by simp [condHolds, hasFlag_setFlag]) ?_ hw
    have : (setFlag w "repo" true).dirExists (resolve w.cwd c.repoDir) = true := hd
    simp [chdirTo, setFlag_cwd, this]
  · -- no clone yet: two steps do not apply, then `git clone` from the caller's directory
    have hd' : w.dirExists (resolve w.cwd c.repoDir) = false := by simpa using hd
    rw [hd']
    rw [run_skip _ _ _ _ (by simp [condHolds, hasFlag_setFlag]), run_skip _ _ _ _ (by simp [condHolds, hasFlag_setFlag])]
    exact run_exec_first orc _ "git" ["clone"] none _ _ _ (by simp [condHolds, hasFlag_setFlag]) (by simp [chdirTo]) hw

/-- **git absent or failing at the first point: code 130**, one invocation, the caller's directory restored — for every address
    that is not a local directory (one, two or ten path segments, `~`, ports: `classify_remote_iff`, `scpLike_any_depth`). -/
theorem publish_remote_git_unavailable_130 (c : Cfg) (hkey : c.key = "swiftpackage") (hr : c.swiftRepo.isRemote = true)
    (orc : Oracle) (w : World) (hw : w.calls = []) (hbad : orc 0 "git" ≠ .ok) :
    (run orc (publishSteps c) w).1 = .err .external ∧ (run orc (publishSteps c) w).2.cwd = w.cwd
      ∧ (run orc (publishSteps c) w).2.calls.length = 1 := by
  obtain ⟨call, more, hc, ht, _, hh⟩ := publish_remote_starts_git c hkey hr orc w hw
  have hk : 0 < (run orc (publishSteps c) w).2.calls.length := by rw [hc]; simp
  have h0 : (run orc (publishSteps c) w).2.calls[0] = call := by simp [hc]
  exact first_unhandled_fault_ends orc (publishSteps c) 0 w hw hk (by rw [h0, ht]; exact hbad) (by rw [h0]; exact hh)

/-- no step of the Swift package publish is a probe with a fallback -/
theorem gitPublishSteps_noProbe (c : Cfg) : (gitPublishSteps c).all noProbe = true := rfl

/-- **… and at every later point**: under any oracle, whichever logged git invocation `k` of a publish through git gets a failing
    verdict (missing or non-zero), the outcome is 130, the directory is restored and `k` is the last invocation. -/
theorem publish_remote_fault_reported (c : Cfg) (hkey : c.key = "swiftpackage") (hr : c.swiftRepo.isRemote = true)
    (orc : Oracle) (k : Nat) (w : World) (hw : w.calls = [])
    (hk : k < (run orc (publishSteps c) w).2.calls.length)
    (hbad : orc k ((run orc (publishSteps c) w).2.calls[k]).tool ≠ .ok) :
    (run orc (publishSteps c) w).1 = .err .external ∧ (run orc (publishSteps c) w).2.cwd = w.cwd
      ∧ (run orc (publishSteps c) w).2.calls.length = k + 1 := by
  have hun := run_unhandled orc (publishSteps c) w (by rw [publishSteps_swift_remote c hkey hr]; exact gitPublishSteps_noProbe c) (by rw [hw]; rfl)
  have hh : ((run orc (publishSteps c) w).2.calls[k]).handled = false := by
    have := (List.all_eq_true.mp hun) _ (List.getElem_mem hk)
    simpa using this
  exact first_unhandled_fault_ends orc (publishSteps c) k w hw hk hbad hh

/-- **A local directory needs no external command**: the package is copied, nothing is started, the external-command error cannot occur. -/
theorem publish_local_no_command (c : Cfg) (hkey : c.key = "swiftpackage") (d : P) (hr : c.swiftRepo = .localDir d)
    (orc : Oracle) (w : World) :
    (run orc (publishSteps c) w).2.calls = w.calls ∧ (run orc (publishSteps c) w).1 ≠ .err .external := by
  rw [publishSteps_swift_local c hkey d hr, run_singleton, runStep_always]
  exact runPrim_other orc w _ (by simp) (by simp)

/-! ### non-vacuity (compiled evaluation: tests that the hypotheses are met by concrete runs, not proofs) -/

def cfgAar : Cfg := {
  key := "aar", target := "T", version := "1.2.3", configuration := "release", out := .rel ["dist"]
  platforms := [("android", ["x86", "armv8"])], clean := true, templates := [["gradlew"], ["build.gradle.kts"]]
  distFiles := [["T", "A.java"], ["libT.so"]], netVersion := "net8.0", readme := none, mavenRemote := false, nugetLocal := true
  swiftRepo := .gitPath }
def cfgSwift : Cfg := { cfgAar with
  key := "swiftpackage", platforms := [("macos", ["x86_64", "armv8"]), ("ios", ["armv8"])]
  templates := [["Package.swift"], ["VERSION"]], distFiles := [["T.framework", "T"], ["T.framework.dSYM", "Contents", "Resources", "DWARF", "T"]] }
def cfgNuget : Cfg := { cfgAar with
  key := "nuget", platforms := [("windows", ["x86_64"])], templates := [["Package.nuspec"]]
  distFiles := [["T.dll"], ["T.pdb"]], nugetLocal := false }
def w0 : World := { cwd := ["proj"], files := [["proj", "dist", "release", "package", "aar", "T.aar"]], dirs := [], flags := [], calls := [] }
def outFiles (c : Cfg) (w : World) : List Path := w.files.filter (under (resolve ["proj"] c.pkgOut))

-- all tools succeed: three invocations (conan, conan, gradlew), the artifact is there
#guard (run allOk (packageOp cfgAar) w0).1 == .ok && (run allOk (packageOp cfgAar) w0).2.calls.length == 3
    && outFiles cfgAar (run allOk (packageOp cfgAar) w0).2 == [["proj", "dist", "release", "package", "aar", "T.aar"]]
-- every k < 3, both faults: the k-th invocation point exists (hypothesis `hk` of `packageOp_fault_spec`)
#guard [0, 1, 2].all fun k => [ToolResult.missing, .nonzero].all fun f =>
    k < (run (faultAt k f) (packageOp cfgAar) w0).2.calls.length && (run (faultAt k f) (packageOp cfgAar) w0).1 == .err .external
-- gradlew fails: the stale artifact is gone too; conan fails: it is still the old one
#guard outFiles cfgAar (run (faultAt 2 .nonzero) (packageOp cfgAar) w0).2 == []
#guard outFiles cfgAar (run (faultAt 0 .nonzero) (packageOp cfgAar) w0).2 == [["proj", "dist", "release", "package", "aar", "T.aar"]]
-- swiftpackage with two macOS architectures and dSYMs: conan, conan, lipo, lipo, conan, xcodebuild
#guard ((run allOk (packageOp cfgSwift) w0).2.calls.map (·.tool)) == ["conan", "conan", "lipo", "lipo", "conan", "xcodebuild"]
#guard (List.range 6).all fun k => (run (faultAt k .missing) (packageOp cfgSwift) w0).2.calls.length == k + 1
-- nuget publish: a failing `sources update` is handled (falls back to `sources add`), a failing `push` is not
#guard (let w1 := (run allOk (packageOp cfgNuget) w0).2
        let r := run (faultAt 0 .nonzero) (publishSteps cfgNuget) { w1 with calls := [] }
        r.1 == .ok && (r.2.calls.map (·.sig)) == [["sources", "update"], ["sources", "add"], ["push"]] && clean r.2.calls)
#guard (let w1 := (run allOk (packageOp cfgNuget) w0).2
        let r := run (faultAt 1 .nonzero) (publishSteps cfgNuget) { w1 with calls := [] }
        r.1 == .err .external && r.2.calls.length == 2 && r.2.cwd == ["proj"])
-- sets of faults on nuget publish: probe and fallback both fail -> 130 after two invocations, `push` never runs;
-- probe fails, fallback succeeds, `push` fails -> 130 after three; the hypotheses of `probe_and_fallback_fail_reported` /
-- `faults_reported_or_recovered` / `first_unhandled_fault_ends` are met
#guard (let w1 := (run allOk (packageOp cfgNuget) w0).2
        let r := run (faultsAt [0, 1] none) (publishSteps cfgNuget) { w1 with calls := [] }
        r.1 == .err .external && (r.2.calls.map (·.sig)) == [["sources", "update"], ["sources", "add"]] && r.2.cwd == ["proj"]
        && (r.2.calls.map (·.handled)) == [true, false] && (r.2.calls.map (·.tool)) == ["nuget", "nuget"])
#guard (let w1 := (run allOk (packageOp cfgNuget) w0).2
        let r := run (faultsAt [0, 2] none) (publishSteps cfgNuget) { w1 with calls := [] }
        r.1 == .err .external && (r.2.calls.map (·.sig)) == [["sources", "update"], ["sources", "add"], ["push"]]
        && (r.2.calls.map (·.result)) == [.nonzero, .ok, .nonzero])
#guard (let w1 := (run allOk (packageOp cfgNuget) w0).2
        let r := run (faultsAt [0] (some 1)) (publishSteps cfgNuget) { w1 with calls := [] }
        r.1 == .err .external && (r.2.calls.map (·.result)) == [.nonzero, .missing])
-- several faults while packaging: the first one ends the operation
#guard (let r := run (faultsAt [1, 2] none) (packageOp cfgAar) w0
        r.1 == .err .external && r.2.calls.length == 2 && outFiles cfgAar r.2 == [["proj", "dist", "release", "package", "aar", "T.aar"]])
-- which of several failing points has to be reported
#guard (effectiveFault [⟨0, true, 1, "publish"⟩, ⟨1, false, 2, "publish"⟩]).map (·.k) == some 1
#guard (effectiveFault [⟨0, true, 1, "publish"⟩]).map (·.k) == some 0
#guard (effectiveFault [⟨0, true, 1, "publish"⟩, ⟨2, false, 3, "publish"⟩, ⟨3, false, 4, "publish"⟩]).map (·.k) == some 2
#guard (effectiveFault [⟨1, false, 2, "build"⟩, ⟨0, true, 1, "publish"⟩]).map (·.k) == some 1
-- `package.out` outside the caller's directory (absolute elsewhere; through `..`), the caller sitting in a sub-directory of the
-- project: every invocation point failing is reported all the same, the caller's directory is restored, and the tools with a
-- working directory of their own ran below the configured output base
def cfgAway : Cfg := { cfgAar with out := .abs ["ext", "out"] }
def cfgUp : Cfg := { cfgNuget with out := P.upFrom ["proj", "sub"] 2 ["ext_up", "artifacts"], nugetLocal := true }
def wSub : World := { w0 with cwd := ["proj", "sub"], files := [] }
#guard [0, 1, 2].all fun k => [ToolResult.missing, .nonzero].all fun f =>
    (let r := run (faultAt k f) (packageOp cfgAway) wSub
     r.1 == .err .external && r.2.cwd == ["proj", "sub"] && r.2.calls.length == k + 1 && outFiles cfgAway r.2 == [])
#guard ((run allOk (packageOp cfgAway) wSub).2.calls.map (·.ranIn)) == [["proj", "sub"], ["proj", "sub"], ["ext", "out", "release", "build", "aar", "package"]]
#guard (run allOk (packageOp cfgAway) wSub).2.files.contains ["ext", "out", "release", "package", "aar", "T.aar"]
#guard [0, 1].all fun k => [ToolResult.missing, .nonzero].all fun f =>
    (let r := run (faultAt k f) (packageOp cfgUp) wSub
     r.1 == .err .external && r.2.cwd == ["proj", "sub"] && r.2.calls.length == k + 1)
#guard ((run allOk (packageOp cfgUp) wSub).2.calls.map (·.ranIn)) == [["proj", "sub"], ["ext_up", "artifacts", "release", "build", "nuget", "package"]]
#guard (let w1 := (run allOk (packageOp cfgUp) wSub).2
        let r := run (faultAt 0 .nonzero) (publishSteps cfgUp) { w1 with calls := [] }
        r.1 == .err .external && r.2.cwd == ["proj", "sub"] && (r.2.calls.map (·.ranIn)) == [["ext_up", "artifacts", "release", "package", "nuget"]])
-- the specification's "ran in the caller's directory or below" clause counts the configured output base as a place to run in
def obsAway (code : Nat) (first : Path) : Obs :=
  { code := some code, cwdBefore := ["proj", "sub"], cwdAfter := ["proj", "sub"], outBefore := [], outAfter := [], ranIn := [first, ["proj", "sub"], ["ext", "out", "release", "build", "aar", "package"]], workRoots := [["ext", "out"]] }
#guard spec "aar" "package" (some (2, false)) 3 (obsAway 130 ["proj", "sub"]) == []
#guard spec "aar" "package" (some (2, false)) 3 (obsAway 130 ["elsewhere"]) == ["ran-outside-caller-directory"]
#guard spec "aar" "package" (some (2, false)) 3 (obsAway 1 ["proj", "sub"]) == ["not-reported-as-130"]
#guard spec "aar" "package" (some (2, false)) 3 { obsAway 130 ["proj", "sub"] with workRoots := [] } == ["ran-outside-caller-directory"]
-- the pinned `execute`: after a non-zero exit the process sits in the package build directory
#guard (executePinned ["elsewhere"] (faultAt 0 .nonzero) "gradlew" [] (some (.rel ["b"])) [] { w0 with dirs := [["proj", "b"]] }).2.cwd == ["proj", "b"]

-- the address forms: one, two, several segments, `~`, absolute, port-like, trailing slash … are all "through git";
-- no `.git` suffix, another user, another scheme, leading blank … are directories (the rule of the code)
#guard ["git@github.com:foo/bar.git", "git@h:repo.git", "git@gitlab.example.com:group/subgroup/repo.git", "git@h:a/b/c/d/e.git",
        "git@h:/srv/git/repo.git", "git@h:~user/repo.git", "git@h:2222/grp/r.git", "git@h:repo.git/", "git@h:g//r.git", "git@h:.git",
        "git@h:g/../r.git"].all fun a => classifyRepo ["proj"] a == .gitPath
#guard ["https://github.com/foo/bar.git", "http://h:8080/r.git", "HTTPS://GitHub.com/a/b/c.git", "https://user@h/r"].all fun a =>
        classifyRepo ["proj"] a == .url
#guard classifyRepo ["proj"] "published" == .localDir (.rel ["published"])
#guard classifyRepo ["proj"] "./a//b/" == .localDir (.rel ["a", "b"])
#guard classifyRepo ["proj"] "/ext/pub.git" == .localDir (.abs ["ext", "pub.git"])
#guard classifyRepo ["proj", "sub"] "../pub" == .localDir (.abs ["proj", "pub"])
#guard classifyRepo ["proj"] "git@h:foo/bar" == .localDir (.rel ["git@h:foo", "bar"])
#guard classifyRepo ["proj"] "git@h:x/.git" == .localDir (.rel ["git@h:x", ".git"])
#guard classifyRepo ["proj"] "user@h:foo/bar.git" == .localDir (.rel ["user@h:foo", "bar.git"])
#guard classifyRepo ["proj"] "ssh://git@h/foo/bar.git" == .localDir (.rel ["ssh:", "git@h", "foo", "bar.git"])
#guard classifyRepo ["proj"] " git@h:r.git" == .localDir (.rel [" git@h:r.git"])
-- hypotheses of `publish_remote_starts_git` / `…_unavailable_130` are met: fresh clone and existing clone, git absent
def cfgSwiftGit (addr : String) : Cfg := { cfgSwift with platforms := [("ios", ["armv8"])], swiftRepo := classifyRepo ["proj"] addr }
#guard ["git@h:repo.git", "git@h:group/subgroup/repo.git", "https://h/r.git"].all fun a =>
  (let c := cfgSwiftGit a
   let w1 := (run allOk (packageOp c) { w0 with files := [] }).2
   let ok := run allOk (publishSteps c) { w1 with calls := [] }
   let gone := run (missingFrom 0) (publishSteps c) { w1 with calls := [] }
   c.swiftRepo.isRemote && ok.1 == .ok && (ok.2.calls.map (·.sig)) == [["clone"], ["checkout"], ["add"], ["commit"], ["tag"], ["push"], ["push", "--tags"]]
   && gone.1 == .err .external && gone.2.calls.length == 1 && gone.2.cwd == ["proj"]
   && (List.range 7).all fun k => (run (faultAt k .nonzero) (publishSteps c) { w1 with calls := [] }).1 == .err .external)
#guard (let c := cfgSwiftGit "git@h:foo/bar"
        let w1 := (run allOk (packageOp c) { w0 with files := [] }).2
        let r := run (missingFrom 0) (publishSteps c) { w1 with calls := [] }
        !c.swiftRepo.isRemote && r.1 == .ok && r.2.calls == [] && r.2.files.contains ["proj", "git@h:foo", "bar", "T", "Package.swift"])

/-! #### histories on one output tree

Whatever earlier package runs — under whatever configurations, succeeding or failing anywhere — left in the tree (a finished archive in
the package build directory of a run without `clean`, a filled output directory, build directories): a tool that fails at any invocation
point of the next run ends it with the external-command error, the working directory restored, nothing run afterwards, and everything
that then lies in the package output directory was there before *and* the failure was in the build phase (`package` wipes the directory
first). In particular no artifact of an earlier run is delivered as the result of a failed one. -/
theorem history_fault_spec (hist : List (Cfg × Oracle)) (c : Cfg) (k : Nat) (f : ToolResult) (hf : f ≠ .ok) (w : World) (hw : w.calls = [])
    (hk : k < (run (faultAt k f) (packageOp c) (afterRuns hist w)).2.calls.length) :
    (run (faultAt k f) (packageOp c) (afterRuns hist w)).1 = .err .external
    ∧ (run (faultAt k f) (packageOp c) (afterRuns hist w)).2.cwd = (afterRuns hist w).cwd
    ∧ (run (faultAt k f) (packageOp c) (afterRuns hist w)).2.calls.length = k + 1
    ∧ ∀ q ∈ (run (faultAt k f) (packageOp c) (afterRuns hist w)).2.files, under (resolve (afterRuns hist w).cwd c.pkgOut) q = true →
        q ∈ (afterRuns hist w).files ∧ (run (faultAt k f) (buildAll c) (afterRuns hist w)).1 ≠ .ok :=
  packageOp_fault_spec c k f hf (afterRuns hist w) (afterRuns_calls hist w hw) hk

/-- … and a failure in the packaging phase itself (the build succeeded) leaves the package output directory empty -/
theorem history_package_failure_no_artifact (hist : List (Cfg × Oracle)) (c : Cfg) (orc : Oracle) (w : World)
    (hr : (run orc (packageSteps c) (afterRuns hist w)).1 ≠ .ok) :
    ∀ q ∈ (run orc (packageSteps c) (afterRuns hist w)).2.files, under (resolve (afterRuns hist w).cwd c.pkgOut) q = false :=
  package_failure_no_artifact c orc (afterRuns hist w) hr

end Pydjinni.Sys.Pkg
