import PydjinniModel.Front.Imports
import PydjinniModel.Front.Spec
/-!
# C05 — documented semantic restrictions are enforced everywhere, and all are reported

Membership characterisations of every rule function of the front-end model: a diagnostic is
reported **iff** some member — at any index, for any number of members — breaks the rule. None of
the loops stops at the first offending member or at the first error, and none reports anything
else. All statements hold for arbitrary lists (unbounded member counts) and arbitrary resolution
states.

* `mem_checkFields_iff`, `mem_checkParams_iff`, `mem_checkThrows_iff`, `mem_checkSig_iff`,
  `mem_checkSigs_iff`, `mem_checkUnits_iff`     post-resolution rules
* `checkUnits_total`                            the post-checks never fail internally
* `mem_flagModDiags_iff`, `mem_derivingDiags_iff`, `mem_staticDiags_iff`, `mem_targetDiags_iff`   visit-time rules
* `accepted_iff`                                no diagnostics iff no unit breaks a rule
-/
namespace Pydjinni.Front

/-- what the record rules say about one field -/
def fieldViolations (m : Resolved) (file : String) (ord : Bool) (f : Pos × TypeRef) : List Diag :=
  (if primOf m file f.2 == some .error then [pdiag "field-error" file (posOf f.2)]
   else if primOf m file f.2 == some .interface then [pdiag "field-interface" file (posOf f.2)] else [])
  ++ (if ord && primOf m file f.2 == some .collection then [pdiag "ord-collection" file f.1] else [])

theorem checkFields_eq_flatMap (m : Resolved) (file : String) (ord : Bool) (fields : List (Pos × TypeRef)) :
    checkFields m file ord fields = fields.flatMap (fieldViolations m file ord) := by
  induction fields with
  | nil => rfl
  | cons f fs ih =>
    obtain ⟨fpos, t⟩ := f
    simp only [checkFields, List.flatMap_cons, fieldViolations, ih, List.append_assoc]

/-- A record diagnostic is reported iff some field, at any index, breaks one of the field rules. -/
theorem mem_checkFields_iff (m : Resolved) (file : String) (ord : Bool) (fields : List (Pos × TypeRef)) (d : Diag) :
    d ∈ checkFields m file ord fields ↔
      ∃ f ∈ fields,
        (primOf m file f.2 = some .error ∧ d = pdiag "field-error" file (posOf f.2))
        ∨ (primOf m file f.2 = some .interface ∧ d = pdiag "field-interface" file (posOf f.2))
        ∨ (ord = true ∧ primOf m file f.2 = some .collection ∧ d = pdiag "ord-collection" file f.1) := by
  rw [checkFields_eq_flatMap, List.mem_flatMap]
  constructor
  · rintro ⟨f, hf, hd⟩
    refine ⟨f, hf, ?_⟩
    simp only [fieldViolations, List.mem_append] at hd
    rcases hd with hd | hd
    · split at hd
      · rename_i h; simp at hd; left; exact ⟨by simpa using h, hd⟩
      · split at hd
        · rename_i h; simp at hd; right; left; exact ⟨by simpa using h, hd⟩
        · simp at hd
    · split at hd
      · rename_i h; simp at hd
        simp only [Bool.and_eq_true, beq_iff_eq] at h
        right; right; exact ⟨h.1, h.2, hd⟩
      · simp at hd
  · rintro ⟨f, hf, h⟩
    refine ⟨f, hf, ?_⟩
    simp only [fieldViolations, List.mem_append]
    rcases h with ⟨hp, rfl⟩ | ⟨hp, rfl⟩ | ⟨ho, hp, rfl⟩
    · left; simp [hp]
    · left; simp [hp]
    · right; simp [ho, hp]

theorem checkParams_eq_flatMap (m : Resolved) (file : String) (ts : List TypeRef) :
    checkParams m file ts =
      ts.flatMap (fun t => if primOf m file t == some .error then [pdiag "param-error" file (posOf t)] else []) := by
  induction ts with
  | nil => rfl
  | cons t ts ih => simp only [checkParams, List.flatMap_cons, ih]

/-- An error-typed parameter is reported iff it occurs at some parameter position. -/
theorem mem_checkParams_iff (m : Resolved) (file : String) (ts : List TypeRef) (d : Diag) :
    d ∈ checkParams m file ts ↔ ∃ t ∈ ts, primOf m file t = some .error ∧ d = pdiag "param-error" file (posOf t) := by
  rw [checkParams_eq_flatMap, List.mem_flatMap]
  constructor
  · rintro ⟨t, ht, hd⟩
    split at hd
    · rename_i h; simp at hd; exact ⟨t, ht, by simpa using h, hd⟩
    · simp at hd
  · rintro ⟨t, ht, hp, rfl⟩
    exact ⟨t, ht, by simp [hp]⟩

/-- The `throws` loop never fails internally (the unresolved case is guarded) … -/
theorem checkThrows_total (m : Resolved) (file : String) (ts : List TypeRef) :
    ∃ ds, checkThrows m file ts = .ok ds := by
  induction ts with
  | nil => exact ⟨[], rfl⟩
  | cons t ts ih =>
    obtain ⟨ds, h⟩ := ih
    simp only [checkThrows, h, bind, Except.bind]
    cases primOf m file t <;> exact ⟨_, rfl⟩

/-- … and reports exactly the resolved non-error types after `throws`, wherever they stand. -/
theorem mem_checkThrows_iff (m : Resolved) (file : String) (ts : List TypeRef) (ds : List Diag)
    (h : checkThrows m file ts = .ok ds) (d : Diag) :
    d ∈ ds ↔ ∃ t ∈ ts, (∃ p, primOf m file t = some p ∧ p ≠ .error) ∧ d = pdiag "throws-non-error" file (posOf t) := by
  induction ts generalizing ds with
  | nil => simp [checkThrows] at h; subst h; simp
  | cons t ts ih =>
    obtain ⟨rest, hr⟩ := checkThrows_total m file ts
    simp only [checkThrows, hr, bind, Except.bind] at h
    have ihr := ih rest hr
    cases hp : primOf m file t with
    | none =>
      simp only [hp] at h
      cases h
      rw [ihr]
      constructor
      · rintro ⟨x, hx, hh⟩; exact ⟨x, List.mem_cons_of_mem _ hx, hh⟩
      · rintro ⟨x, hx, ⟨p, hpp, hne⟩, rfl⟩
        rcases List.mem_cons.mp hx with rfl | hx
        · rw [hp] at hpp; cases hpp
        · exact ⟨x, hx, ⟨p, hpp, hne⟩, rfl⟩
    | some p =>
      simp only [hp] at h
      cases h
      rw [List.mem_append, ihr]
      constructor
      · rintro (hd | ⟨x, hx, hh⟩)
        · split at hd
          · rename_i hne; simp at hd
            exact ⟨t, by simp, ⟨p, hp, by simpa using hne⟩, hd⟩
          · simp at hd
        · exact ⟨x, List.mem_cons_of_mem _ hx, hh⟩
      · rintro ⟨x, hx, ⟨q, hq, hne⟩, rfl⟩
        rcases List.mem_cons.mp hx with rfl | hx
        · left
          rw [hp] at hq; cases hq
          simp [hne]
        · right; exact ⟨x, hx, ⟨q, hq, hne⟩, rfl⟩

theorem checkSig_total (m : Resolved) (file : String) (s : SigU) : ∃ ds, checkSig m file s = .ok ds := by
  unfold checkSig
  cases hs : s.throwing with
  | none => exact ⟨_, rfl⟩
  | some l =>
    obtain ⟨ds, h⟩ := checkThrows_total m file l
    simp only [h, bind, Except.bind]
    exact ⟨_, rfl⟩

/-- what the signature rules say about one signature -/
def SigViolation (m : Resolved) (file : String) (s : SigU) (d : Diag) : Prop :=
  (∃ t, s.ret = some t ∧ primOf m file t = some .error ∧ d = pdiag "return-error" file (posOf t))
  ∨ (∃ l, s.throwing = some l ∧ ∃ t ∈ l, (∃ p, primOf m file t = some p ∧ p ≠ .error) ∧ d = pdiag "throws-non-error" file (posOf t))
  ∨ (∃ t ∈ s.params, primOf m file t = some .error ∧ d = pdiag "param-error" file (posOf t))

/-- A signature diagnostic is reported iff the return type is an error, or some type after
    `throws` (any index) is a resolved non-error, or some parameter (any index) is an error. -/
theorem mem_checkSig_iff (m : Resolved) (file : String) (s : SigU) (ds : List Diag)
    (h : checkSig m file s = .ok ds) (d : Diag) : d ∈ ds ↔ SigViolation m file s d := by
  unfold checkSig at h
  unfold SigViolation
  cases hs : s.throwing with
  | none =>
    simp only [hs, bind, Except.bind] at h
    cases h
    simp only [List.mem_append, List.append_nil, mem_checkParams_iff]
    constructor
    · rintro (hd | hd)
      · left
        cases hr : s.ret with
        | none => simp [hr] at hd
        | some t =>
          simp only [hr] at hd
          split at hd
          · rename_i hp; simp at hd; exact ⟨t, rfl, by simpa using hp, hd⟩
          · simp at hd
      · right; right; exact hd
    · rintro (⟨t, hr, hp, rfl⟩ | ⟨l, hl, _⟩ | hd)
      · left; simp [hr, hp]
      · cases hl
      · right; exact hd
  | some l =>
    obtain ⟨th, hth⟩ := checkThrows_total m file l
    simp only [hs, hth, bind, Except.bind] at h
    cases h
    simp only [List.mem_append, mem_checkParams_iff, mem_checkThrows_iff m file l th hth]
    constructor
    · rintro ((hd | hd) | hd)
      · left
        cases hr : s.ret with
        | none => simp [hr] at hd
        | some t =>
          simp only [hr] at hd
          split at hd
          · rename_i hp; simp at hd; exact ⟨t, rfl, by simpa using hp, hd⟩
          · simp at hd
      · right; left; exact ⟨l, rfl, hd⟩
      · right; right; exact hd
    · rintro (⟨t, hr, hp, rfl⟩ | ⟨l', hl, hd⟩ | hd)
      · left; left; simp [hr, hp]
      · cases hl; left; right; exact hd
      · right; exact hd

theorem checkSigs_total (m : Resolved) (file : String) (ss : List SigU) : ∃ ds, checkSigs m file ss = .ok ds := by
  induction ss with
  | nil => exact ⟨[], rfl⟩
  | cons s ss ih =>
    obtain ⟨a, ha⟩ := checkSig_total m file s
    obtain ⟨b, hb⟩ := ih
    exact ⟨a ++ b, by simp [checkSigs, ha, hb, bind, Except.bind]⟩

/-- Every method of an interface is checked: a diagnostic is reported iff some method (any index) breaks a signature rule. -/
theorem mem_checkSigs_iff (m : Resolved) (file : String) (ss : List SigU) (ds : List Diag)
    (h : checkSigs m file ss = .ok ds) (d : Diag) : d ∈ ds ↔ ∃ s ∈ ss, SigViolation m file s d := by
  induction ss generalizing ds with
  | nil => simp [checkSigs] at h; subst h; simp
  | cons s ss ih =>
    obtain ⟨a, ha⟩ := checkSig_total m file s
    obtain ⟨b, hb⟩ := checkSigs_total m file ss
    simp only [checkSigs, ha, hb, bind, Except.bind] at h
    cases h
    rw [List.mem_append, mem_checkSig_iff m file s a ha, ih b hb]
    simp

/-- what the rules say about one entry of `type_decls` -/
def UnitViolation (m : Resolved) (u : UnitAt) (d : Diag) : Prop :=
  match u.unit with
  | .record fields ord => d ∈ checkFields m u.file ord fields
  | .iface ms => ∃ s ∈ ms, SigViolation m u.file s d
  | .fn s => SigViolation m u.file s d
  | .other => False

theorem checkUnit_total (m : Resolved) (u : UnitAt) : ∃ ds, checkUnit m u = .ok ds := by
  unfold checkUnit
  cases u.unit with
  | record f o => exact ⟨_, rfl⟩
  | iface ms => exact checkSigs_total m u.file ms
  | fn s => exact checkSig_total m u.file s
  | other => exact ⟨_, rfl⟩

theorem mem_checkUnit_iff (m : Resolved) (u : UnitAt) (ds : List Diag) (h : checkUnit m u = .ok ds) (d : Diag) :
    d ∈ ds ↔ UnitViolation m u d := by
  unfold checkUnit at h
  unfold UnitViolation
  cases hu : u.unit with
  | record f o => simp only [hu] at h; cases h; rfl
  | iface ms => simp only [hu] at h; exact mem_checkSigs_iff m u.file ms ds h d
  | fn s => simp only [hu] at h; exact mem_checkSig_iff m u.file s ds h d
  | other => simp only [hu] at h; cases h; simp

/-- The post-resolution checks never fail internally, for any list of declarations. -/
theorem checkUnits_total (m : Resolved) (us : List UnitAt) : ∃ ds, checkUnits m us = .ok ds := by
  induction us with
  | nil => exact ⟨[], rfl⟩
  | cons u us ih =>
    obtain ⟨a, ha⟩ := checkUnit_total m u
    obtain ⟨b, hb⟩ := ih
    exact ⟨a ++ b, by simp [checkUnits, ha, hb, bind, Except.bind]⟩

/-- **Completeness and soundness of the post-resolution checks**: a diagnostic is reported iff some
    declaration — own or imported, named or an inline function type, at any position of the list —
    breaks a rule at some member. -/
theorem mem_checkUnits_iff (m : Resolved) (us : List UnitAt) (ds : List Diag)
    (h : checkUnits m us = .ok ds) (d : Diag) : d ∈ ds ↔ ∃ u ∈ us, UnitViolation m u d := by
  induction us generalizing ds with
  | nil => simp [checkUnits] at h; subst h; simp
  | cons u us ih =>
    obtain ⟨a, ha⟩ := checkUnit_total m u
    obtain ⟨b, hb⟩ := checkUnits_total m us
    simp only [checkUnits, ha, hb, bind, Except.bind] at h
    cases h
    rw [List.mem_append, mem_checkUnit_iff m u a ha, ih b hb]
    simp

/-- Accepted by the post-checks iff no declaration breaks a rule. -/
theorem accepted_iff (m : Resolved) (us : List UnitAt) :
    checkUnits m us = .ok [] ↔ ∀ u ∈ us, ∀ d, ¬ UnitViolation m u d := by
  obtain ⟨ds, h⟩ := checkUnits_total m us
  constructor
  · intro h0 u hu d hv
    have := (mem_checkUnits_iff m us [] h0 d).mpr ⟨u, hu, hv⟩
    simp at this
  · intro hall
    rw [h]
    cases ds with
    | nil => rfl
    | cons d ds =>
      obtain ⟨u, hu, hv⟩ := (mem_checkUnits_iff m us (d :: ds) h d).mp (by simp)
      exact absurd hv (hall u hu d)

/-! ### visit-time rules -/

theorem mem_flagModDiags_iff (e : Env) (items : List FlagItem) (d : Diag) :
    d ∈ flagModDiags e items ↔
      ∃ i ∈ items, ∃ mo, i.modifier = some mo ∧ mo ≠ "all" ∧ mo ≠ "none"
        ∧ d = { cls := "ParsingException", rule := "flag-modifier", file := e.file, pos := i.modifierPos } := by
  induction items with
  | nil => simp [flagModDiags]
  | cons i is ih =>
    simp only [flagModDiags, List.mem_append, ih, List.mem_cons, exists_eq_or_imp]
    apply or_congr _ Iff.rfl
    cases hm : i.modifier with
    | none => simp
    | some mo =>
      by_cases h1 : mo = "all"
      · simp [h1]
      · by_cases h2 : mo = "none"
        · simp [h2]
        · simp [h1, h2]

theorem mem_derivingDiags_iff (e : Env) (ds : List (String × Pos)) (d : Diag) :
    d ∈ derivingDiags e ds ↔
      ∃ x ∈ ds, x.1 ≠ "eq" ∧ x.1 ≠ "ord" ∧ d = { cls := "ParsingException", rule := "deriving", file := e.file, pos := x.2 } := by
  induction ds with
  | nil => simp [derivingDiags]
  | cons x xs ih =>
    obtain ⟨n, p⟩ := x
    simp only [derivingDiags, List.mem_append, ih, List.mem_cons, exists_eq_or_imp]
    apply or_congr _ Iff.rfl
    by_cases h1 : n = "eq"
    · simp [h1]
    · by_cases h2 : n = "ord"
      · simp [h2]
      · simp [h1, h2]

/-- `static` is reported on every static method (any index) of an interface that is not C++-only, and nowhere else. -/
theorem mem_staticDiags_iff (e : Env) (cppOnly : Bool) (ms : List Method) (d : Diag) :
    d ∈ staticDiags e cppOnly ms ↔
      cppOnly = false ∧ ∃ mth ∈ ms, mth.isStatic = true ∧ d = { cls := "ParsingException", rule := "static-cpp", file := e.file, pos := mth.pos } := by
  induction ms with
  | nil => simp [staticDiags]
  | cons x xs ih =>
    simp only [staticDiags, List.mem_append, ih, List.mem_cons, exists_eq_or_imp]
    cases cppOnly <;> cases hs : x.isStatic <;> simp

/-- An unknown-target diagnostic is reported iff some evaluated target is not a supported key. -/
theorem mem_targetDiags_iff (e : Env) (flags : List String) (pos : Pos) (d : Diag) :
    d ∈ targetDiags e flags pos ↔
      (∃ t ∈ evalTargets e.keys flags, t ∉ e.keys)
        ∧ d = { cls := "ParsingException", rule := "unknown-target", file := e.file, pos := pos } := by
  unfold targetDiags
  simp only [List.mem_filterMap]
  constructor
  · rintro ⟨t, ht, h⟩
    split at h
    · cases h
    · rename_i hk
      simp at h
      exact ⟨⟨t, ht, by simpa using hk⟩, h.symm⟩
  · rintro ⟨⟨t, ht, hk⟩, rfl⟩
    refine ⟨t, ht, ?_⟩
    simp [hk]

/-! Non-vacuity: a record whose second field is an interface and whose fourth is a collection under `ord`. -/
example :
    let m : Resolved := [(("f", ⟨1,0,1,1⟩), { key := "i", prim := .interface, arity := 0 }), (("f", ⟨2,0,2,1⟩), { key := "list", prim := .collection, arity := 1 })]
    let t1 := TypeRef.data "i" [] false ⟨1,0,1,1⟩
    let t2 := TypeRef.data "list" [] false ⟨2,0,2,1⟩
    (checkFields m "f" true [(⟨0,0,0,9⟩, TypeRef.data "i32" [] false ⟨9,9,9,9⟩), (⟨1,0,1,9⟩, t1), (⟨3,0,3,3⟩, TypeRef.data "q" [] true ⟨7,7,7,7⟩), (⟨2,0,2,9⟩, t2)]).map (·.rule)
      = ["field-interface", "ord-collection"] := by decide +kernel

end Pydjinni.Front

namespace Pydjinni.Front

/-! ### the visitor misses no reference: collected references = all `dataType` nodes at any depth -/

@[simp] theorem Collected.refs_append (a b : Collected) : (a ++ b).refs = a.refs ++ b.refs := rfl
@[simp] theorem Collected.refs_empty : ({} : Collected).refs = [] := rfl

/-- the reference site the visitor records for a `dataType` node -/
def siteOf (e : Env) (ns : List String) : TypeRef → Option RefSite
  | .data name args _ pos => some { name := name, ns := ns, nargs := args.length, file := e.file, pos := pos }
  | .fn .. => none

mutual
theorem refs_walkT (e : Env) (ns : List String) (t : TypeRef) (r : RefSite) :
    r ∈ (walkT e ns t).refs ↔ r ∈ (dataNodesT t).filterMap (siteOf e ns) := by
  cases t with
  | data name args opt pos =>
    simp only [walkT, Collected.refs_append, dataNodesT, List.filterMap_cons, siteOf, List.mem_append, List.mem_cons,
      List.mem_singleton, List.not_mem_nil, or_false]
    rw [refs_walkTs e ns args r]
    exact Or.comm
  | fn sig pos =>
    simp only [walkT, dataNodesT]
    exact refs_walkF e ns sig r
theorem refs_walkTs (e : Env) (ns : List String) (ts : List TypeRef) (r : RefSite) :
    r ∈ (walkTs e ns ts).refs ↔ r ∈ (dataNodesTs ts).filterMap (siteOf e ns) := by
  cases ts with
  | nil => simp [walkTs, dataNodesTs]
  | cons t ts =>
    simp only [walkTs, Collected.refs_append, dataNodesTs, List.filterMap_append, List.mem_append]
    rw [refs_walkT e ns t r, refs_walkTs e ns ts r]
theorem refs_walkF (e : Env) (ns : List String) (sig : FnSig) (r : RefSite) :
    r ∈ (walkF e ns sig).refs ↔ r ∈ (dataNodesF sig).filterMap (siteOf e ns) := by
  cases sig with
  | mk flags fpos params thr ret =>
    have hrefs : (walkF e ns (.mk flags fpos params thr ret)).refs
        = (walkOT e ns ret).refs ++ (walkPs e ns params).refs ++ (walkOTs e ns thr).refs := by
      cases flags <;> simp [walkF]
    rw [hrefs]
    simp only [dataNodesF, List.filterMap_append, List.mem_append]
    rw [refs_walkOT e ns ret r, refs_walkPs e ns params r, refs_walkOTs e ns thr r]
    constructor
    · rintro ((h | h) | h)
      · exact Or.inr h
      · exact Or.inl (Or.inl h)
      · exact Or.inl (Or.inr h)
    · rintro ((h | h) | h)
      · exact Or.inl (Or.inr h)
      · exact Or.inr h
      · exact Or.inl (Or.inl h)
theorem refs_walkPs (e : Env) (ns : List String) (ps : List Param) (r : RefSite) :
    r ∈ (walkPs e ns ps).refs ↔ r ∈ (dataNodesPs ps).filterMap (siteOf e ns) := by
  cases ps with
  | nil => simp [walkPs, dataNodesPs]
  | cons p ps =>
    cases p with
    | mk n t pos =>
      simp only [walkPs, Collected.refs_append, dataNodesPs, List.filterMap_append, List.mem_append]
      rw [refs_walkT e ns t r, refs_walkPs e ns ps r]
theorem refs_walkOT (e : Env) (ns : List String) (o : Option TypeRef) (r : RefSite) :
    r ∈ (walkOT e ns o).refs ↔ r ∈ (dataNodesOT o).filterMap (siteOf e ns) := by
  cases o with
  | none => simp [walkOT, dataNodesOT]
  | some t => simp only [walkOT, dataNodesOT]; exact refs_walkT e ns t r
theorem refs_walkOTs (e : Env) (ns : List String) (o : Option (List TypeRef)) (r : RefSite) :
    r ∈ (walkOTs e ns o).refs ↔ r ∈ (dataNodesOTs o).filterMap (siteOf e ns) := by
  cases o with
  | none => simp [walkOTs, dataNodesOTs]
  | some ts => simp only [walkOTs, dataNodesOTs]; exact refs_walkTs e ns ts r
end

/-- **No reference is missed**: the visitor records a reference site for every `dataType` node below a type
    reference — generic arguments, inline function parameters, return types and `throws` lists, at any depth —
    and for nothing else. -/
theorem refs_walkT_complete (e : Env) (ns : List String) (t : TypeRef) (r : RefSite) :
    r ∈ (walkT e ns t).refs ↔ ∃ n ∈ dataNodesT t, siteOf e ns n = some r := by
  rw [refs_walkT, List.mem_filterMap]

end Pydjinni.Front
