import PydjinniModel.Props.C04
/-!
# C11 — source layout does not matter: declaration order and file split

The rule specification (`violations`, C05) and lexical resolution (`lexicalLookup`, C04) read a
program only through the *multiset* of its declarations `(file, namespace, declaration)`:

* `lexicalLookup_perm`   binding a reference does not depend on the order of the registry
* `progRegistry_perm`    permuting declarations / moving them between files permutes the registry
* `declRules_congr`      a declaration's violations depend on the registry only through lexical lookup
* `violations_perm`      **any permutation of the declarations — reordering inside a file, or moving
                         declarations into other files of the program — yields a permutation of the same violations**
* `accepted_perm`        in particular acceptance is invariant

Whitespace / comment-placement invariance is a lexer matter: see C03. What the implementation's nested parsers
add on top (an imported file only sees what was registered before it; its diagnostics are reported again by the
importer) is exercised by the correspondence and recorded in the findings.
-/
namespace Pydjinni.Front

theorem lexicalLookup_perm (r r' : Registry) (hp : r.Perm r') (hn : (r.map (·.key)).Nodup)
    (ns : List String) (name : String) : lexicalLookup r ns name = lexicalLookup r' ns name := by
  rw [← resolve_eq_lexical, ← resolve_eq_lexical]
  exact resolve_perm r r' hp hn ns name

theorem progRegistry_perm (pre : Registry) (p p' : List ProgFile) (h : (progDecls p).Perm (progDecls p')) :
    (progRegistry pre p).Perm (progRegistry pre p') := by
  unfold progRegistry
  exact List.Perm.append_left pre (h.map _)

theorem specPrim_congr (e e' : SpecEnv) (h : ∀ ns name, lexicalLookup e.reg ns name = lexicalLookup e'.reg ns name)
    (ns : List String) (t : TypeRef) : specPrim e ns t = specPrim e' ns t := by
  cases t with
  | data name args o pos => simp [specPrim, h]
  | fn sig pos => rfl

theorem refRule_congr (e e' : SpecEnv) (h : ∀ ns name, lexicalLookup e.reg ns name = lexicalLookup e'.reg ns name)
    (file : String) (ns : List String) (t : TypeRef) : refRule e file ns t = refRule e' file ns t := by
  cases t with
  | data name args o pos => simp [refRule, h]
  | fn sig pos => rfl

theorem sigRules_congr (e e' : SpecEnv) (h : ∀ ns name, lexicalLookup e.reg ns name = lexicalLookup e'.reg ns name)
    (file : String) (ns : List String) (s : SigU) : sigRules e file ns s = sigRules e' file ns s := by
  have hp : specPrim e ns = specPrim e' ns := funext (specPrim_congr e e' h ns)
  simp only [sigRules, hp]

/-- A declaration's violations depend on the rest of the program only through lexical lookup. -/
theorem declRules_congr (e e' : SpecEnv) (hk : e.keys = e'.keys) (hd : e.defaultDeriving = e'.defaultDeriving)
    (h : ∀ ns name, lexicalLookup e.reg ns name = lexicalLookup e'.reg ns name)
    (file : String) (ns : List String) (d : Decl) : declRules e file ns d = declRules e' file ns d := by
  have hp : specPrim e ns = specPrim e' ns := funext (specPrim_congr e e' h ns)
  have hr : refRule e file ns = refRule e' file ns := funext (refRule_congr e e' h file ns)
  have hs : sigRules e file ns = sigRules e' file ns := funext (sigRules_congr e e' h file ns)
  have hu : unknownTargets e file = unknownTargets e' file := by
    funext fl p; simp [unknownTargets, hk]
  unfold declRules
  rw [hr, hs, hu]
  cases d <;> simp only [hp, hk, hd]

/-- **Declaration order and file split do not matter**: if two programs have the same declarations
    (each with its file tag and namespace) in any order and grouping, their rule violations are the same
    up to order. -/
theorem violations_perm (keys dd : List String) (pre : Registry) (p p' : List ProgFile)
    (h : (progDecls p).Perm (progDecls p')) (hn : ((progRegistry pre p).map (·.key)).Nodup) :
    (violations keys dd pre p).Perm (violations keys dd pre p') := by
  unfold violations
  have hreg := progRegistry_perm pre p p' h
  have hl : ∀ ns name, lexicalLookup (progRegistry pre p) ns name = lexicalLookup (progRegistry pre p') ns name :=
    fun ns name => lexicalLookup_perm _ _ hreg hn ns name
  have hf : (fun (x : String × List String × Decl) => declRules { keys := keys, defaultDeriving := dd, reg := progRegistry pre p } x.1 x.2.1 x.2.2)
      = (fun x => declRules { keys := keys, defaultDeriving := dd, reg := progRegistry pre p' } x.1 x.2.1 x.2.2) := by
    funext x
    exact declRules_congr { keys := keys, defaultDeriving := dd, reg := progRegistry pre p } { keys := keys, defaultDeriving := dd, reg := progRegistry pre p' } rfl rfl hl x.1 x.2.1 x.2.2
  simp only
  have e1 : (progDecls p).flatMap (fun x => match x with | (f, ns, d) => declRules { keys := keys, defaultDeriving := dd, reg := progRegistry pre p } f ns d)
      = (progDecls p).flatMap (fun x => declRules { keys := keys, defaultDeriving := dd, reg := progRegistry pre p } x.1 x.2.1 x.2.2) := by
    congr 1
  have e2 : (progDecls p').flatMap (fun x => match x with | (f, ns, d) => declRules { keys := keys, defaultDeriving := dd, reg := progRegistry pre p' } f ns d)
      = (progDecls p').flatMap (fun x => declRules { keys := keys, defaultDeriving := dd, reg := progRegistry pre p' } x.1 x.2.1 x.2.2) := by
    congr 1
  rw [e1, e2, hf]
  exact h.flatMap_right _

/-- Acceptance (no violation) is invariant under reordering and regrouping of declarations. -/
theorem accepted_perm (keys dd : List String) (pre : Registry) (p p' : List ProgFile)
    (h : (progDecls p).Perm (progDecls p')) (hn : ((progRegistry pre p).map (·.key)).Nodup) :
    violations keys dd pre p = [] ↔ violations keys dd pre p' = [] := by
  have hv := violations_perm keys dd pre p p' h hn
  constructor
  · intro h0; rw [h0] at hv; exact List.Perm.nil_eq hv ▸ rfl
  · intro h0; rw [h0] at hv; exact (List.perm_nil.mp hv)

end Pydjinni.Front
