import PydjinniModel.Props.C16
import PydjinniModel.Props.C03Lex
/-! All C06 theorems: no internal error, termination (C16), lexer totality and token positions inside the text (C03Lex). -/
