import PydjinniModel.Gen.Collide
import PydjinniModel.Sys.Files
/-!
# C15 — no generated file is silently overwritten by another declaration

Identifier conversion
* `joinL_splitU`, `convertL_snake`, `convert_snake_injective_on_lower`
      `snake_case` conversion is lower-casing, hence injective on the lower-case names
Generators whose file name contains the namespace (cpp, cppcli, java): for *all* declarations and configurations
* `relHeader_eq_cpp`, `relSource_eq_cpp`, `relHeader_eq_cppcli`, `relSource_eq_cppcli`, `relSource_eq_java`
      equal file names force equal namespaces and equal converted (base) names
* `relName_injective`       distinct qualified names + conversion injective on the two names  ⇒ distinct files
* `cpp_default_injective`   with the default file style (`snake_case`, no prefix): lower-case, non-`+cpp` declarations with
                            different qualified names never share a file — no hypothesis on the conversion left
* `objc_same_namespace_injective` (partial: the namespace is concatenated into the name without separator)
Generators that drop the namespace (jni, objcpp, yaml) and the conversion collisions: `decide`-proved counterexamples
* `jni_namespace_dropped`, `objcpp_namespace_dropped`, `yaml_namespace_dropped`, `pascal_conversion_collides`,
  `base_suffix_collides`, `objc_concatenation_collides`, `anonymous_function_namespace_dropped`
The synthetic name of an inline function type (`Gen/Collide.lean: anonName` = `Parser.visitFunction`)
* `splitU_joinL`, `joinL_flat_injective`   `'_'.join` is injective on non-empty lists of parts without `_`
* `anonName_encodes_throws`, `anonName_throws_injective`, `anonName_bare_throws_distinct`
      inline function types that agree in front of the `throws` clause and have one name have the same clause: "cannot throw",
      bare `throws` and `throws e…` are told apart by the name (for all signatures; error domain names without `_`)
* `anonName_ignores_parameter_names`, `anonName_ignores_optional` (for all signatures), `anonName_optional_dropped`,
  `anonName_join_ambiguous`, `anonName_nested_function_dropped`: what the name leaves out — the Dom clauses (findings)
The write itself
* `write_unconditional` (`no_refusal`): `FileReaderWriter` never refuses or diagnoses a second write to a path
* `no_collisions_nodup`     if the model predicts no collision for a run, its per-declaration files are pairwise distinct paths
* `nodup_noOverwrite`       and a log with pairwise distinct paths satisfies the specification whatever the contents
-/
namespace Pydjinni.GenC

/-! ### identifier conversion -/

theorem splitU_ne_nil (s : List Char) : splitU s ≠ [] := by
  induction s with
  | nil => simp [splitU]
  | cons c cs ih =>
    unfold splitU
    split
    · simp
    · split <;> simp

theorem joinL_cons_cons (link t u : List Char) (ts : List (List Char)) :
    joinL link (t :: u :: ts) = t ++ link ++ joinL link (u :: ts) := rfl

/-- `'_'.join(s.split('_')) = s` -/
theorem joinL_splitU (s : List Char) : joinL ['_'] (splitU s) = s := by
  induction s with
  | nil => rfl
  | cons c cs ih =>
    unfold splitU
    by_cases hc : c = '_'
    · simp only [hc, if_true]
      cases hs : splitU cs with
      | nil => exact absurd hs (splitU_ne_nil cs)
      | cons t ts => rw [joinL_cons_cons, ← hs, ih]; simp
    · simp only [hc, if_false]
      cases hs : splitU cs with
      | nil => exact absurd hs (splitU_ne_nil cs)
      | cons t ts =>
        rw [hs] at ih
        cases ts with
        | nil => simp [joinL] at ih ⊢; exact ih
        | cons u us =>
          rw [joinL_cons_cons] at ih ⊢
          simp at ih ⊢
          exact ih

theorem loC_underscore : loC '_' = '_' := by decide

theorem map_joinL_underscore (ts : List (List Char)) :
    (joinL ['_'] ts).map loC = joinL ['_'] (ts.map (List.map loC)) := by
  induction ts with
  | nil => rfl
  | cons t ts ih =>
    cases ts with
    | nil => rfl
    | cons u us =>
      rw [joinL_cons_cons]
      simp only [List.map_cons, List.map_append] at ih ⊢
      rw [joinL_cons_cons, ih]
      simp [loC_underscore]

/-- `snake_case` conversion (no prefix) is lower-casing the whole identifier. -/
theorem convertL_snake (s : List Char) : convertL { case := .snake } s = s.map loC := by
  unfold convertL
  simp only [show (Case.snake = Case.none) = False by simp, if_false, List.nil_append]
  cases hs : splitU s with
  | nil => exact absurd hs (splitU_ne_nil s)
  | cons t ts =>
    have h1 : (convTok .snake true t :: ts.map (convTok .snake false)) = (t :: ts).map (List.map loC) := by
      simp [convTok]
    simp only [linkOf, h1]
    rw [← hs, ← map_joinL_underscore, joinL_splitU]

def isLowerName (s : String) : Prop := ∀ c ∈ s.toList, isUpperC c = false

theorem map_loC_id (l : List Char) (h : ∀ c ∈ l, isUpperC c = false) : l.map loC = l := by
  induction l with
  | nil => rfl
  | cons c cs ih =>
    simp only [List.map_cons]
    rw [ih (fun x hx => h x (by simp [hx]))]
    simp [loC, h c (by simp)]

theorem convert_snake_lower (s : String) (h : isLowerName s) : convert { case := .snake } s = s := by
  unfold convert
  rw [convertL_snake, map_loC_id _ h]
  simp

/-- The default file style is injective on lower-case identifiers. -/
theorem convert_snake_injective_on_lower (a b : String) (ha : isLowerName a) (hb : isLowerName b)
    (h : convert { case := .snake } a = convert { case := .snake } b) : a = b := by
  rwa [convert_snake_lower a ha, convert_snake_lower b hb] at h

/-! ### generators whose file name contains the namespace -/

theorem snoc_inj {α : Type} (a b : List α) (x y : α) (h : a ++ [x] = b ++ [y]) : a = b ∧ x = y := by
  have := List.append_inj' h rfl
  simpa using this

theorem relHeader_eq_cpp (c : GCfg) (d₁ d₂ : Decl) (h : relHeader .cpp c d₁ = relHeader .cpp c d₂) :
    d₁.ns = d₂.ns ∧ convert c.file (baseName .cpp d₁) = convert c.file (baseName .cpp d₂) := by
  simp only [relHeader, Path.rel, Path.mk.injEq, true_and] at h
  obtain ⟨h1, h2⟩ := snoc_inj _ _ _ _ h
  exact ⟨h1, by simpa [String.append_assoc] using h2⟩

theorem relSource_eq_cpp (c : GCfg) (d₁ d₂ : Decl) (h : relSource .cpp c d₁ = relSource .cpp c d₂) :
    d₁.ns = d₂.ns ∧ convert c.file (baseName .cpp d₁) = convert c.file (baseName .cpp d₂) := by
  simp only [relSource, Path.rel, Path.mk.injEq, true_and] at h
  obtain ⟨h1, h2⟩ := snoc_inj _ _ _ _ h
  exact ⟨h1, by simpa [String.append_assoc] using h2⟩

theorem relHeader_eq_cppcli (c : GCfg) (d₁ d₂ : Decl) (h : relHeader .cppcli c d₁ = relHeader .cppcli c d₂) :
    d₁.ns = d₂.ns ∧ convert c.file (baseName .cppcli d₁) = convert c.file (baseName .cppcli d₂) := by
  simp only [relHeader, Path.rel, Path.mk.injEq, true_and] at h
  obtain ⟨h1, h2⟩ := snoc_inj _ _ _ _ h
  exact ⟨h1, by simpa using h2⟩

theorem relSource_eq_cppcli (c : GCfg) (d₁ d₂ : Decl) (h : relSource .cppcli c d₁ = relSource .cppcli c d₂) :
    d₁.ns = d₂.ns ∧ convert c.file (baseName .cppcli d₁) = convert c.file (baseName .cppcli d₂) := by
  simp only [relSource, Path.rel, Path.mk.injEq, true_and] at h
  obtain ⟨h1, h2⟩ := snoc_inj _ _ _ _ h
  exact ⟨h1, by simpa using h2⟩

theorem relSource_eq_java (c : GCfg) (d₁ d₂ : Decl) (h : relSource .java c d₁ = relSource .java c d₂) :
    d₁.ns.map (convert c.pkgStyle) = d₂.ns.map (convert c.pkgStyle) ∧ javaName c d₁ = javaName c d₂ := by
  simp only [relSource, Path.rel, javaPackage, Path.mk.injEq, true_and, List.append_assoc] at h
  have h' := List.append_cancel_left h
  obtain ⟨h1, h2⟩ := snoc_inj _ _ _ _ h'
  exact ⟨h1, by simpa using h2⟩

/-- the identifier conversion does not identify the two (base) names -/
def ConvInj (g : G) (c : GCfg) (d₁ d₂ : Decl) : Prop :=
  convert c.file (baseName g d₁) = convert c.file (baseName g d₂) → d₁.name = d₂.name

instance (g : G) (c : GCfg) (d₁ d₂ : Decl) : Decidable (ConvInj g c d₁ d₂) := by unfold ConvInj; infer_instance

/-- **Distinct declarations get distinct files** in the generators that keep the namespace as directories
    (C++ and C++/CLI, headers and sources), for every configuration, whenever the file-name conversion does not
    identify the two names. -/
theorem relName_injective (g : G) (hg : g = .cpp ∨ g = .cppcli) (c : GCfg) (d₁ d₂ : Decl)
    (hq : qname d₁ ≠ qname d₂) (hc : ConvInj g c d₁ d₂) :
    relHeader g c d₁ ≠ relHeader g c d₂ ∧ relSource g c d₁ ≠ relSource g c d₂ := by
  have key : ∀ (_ : d₁.ns = d₂.ns ∧ convert c.file (baseName g d₁) = convert c.file (baseName g d₂)), False := by
    rintro ⟨h1, h2⟩
    exact hq (by simp [qname, h1, hc h2])
  rcases hg with rfl | rfl
  · exact ⟨fun h => key (relHeader_eq_cpp c d₁ d₂ h), fun h => key (relSource_eq_cpp c d₁ d₂ h)⟩
  · exact ⟨fun h => key (relHeader_eq_cppcli c d₁ d₂ h), fun h => key (relSource_eq_cppcli c d₁ d₂ h)⟩

/-- Java: the package directories are the *converted* namespace components, so the conversion has to be
    injective on them as well. -/
theorem relName_injective_java (c : GCfg) (d₁ d₂ : Decl)
    (hq : qname d₁ ≠ qname d₂)
    (hns : d₁.ns.map (convert c.pkgStyle) = d₂.ns.map (convert c.pkgStyle) → d₁.ns = d₂.ns)
    (hn : javaName c d₁ = javaName c d₂ → d₁.name = d₂.name) :
    relSource .java c d₁ ≠ relSource .java c d₂ := by
  intro h
  obtain ⟨h1, h2⟩ := relSource_eq_java c d₁ d₂ h
  exact hq (by simp [qname, hns h1, hn h2])

/-- With the default C++ file style no hypothesis about the conversion is left: lower-case names that are not
    `+cpp` base records (every IDL in the documentation is of this kind) never share a header or source file. -/
theorem cpp_default_injective (c : GCfg) (hstyle : c.file = { case := .snake }) (d₁ d₂ : Decl)
    (hl₁ : isLowerName d₁.name) (hl₂ : isLowerName d₂.name)
    (hb₁ : isBase .cpp d₁ = false) (hb₂ : isBase .cpp d₂ = false)
    (hq : qname d₁ ≠ qname d₂) :
    relHeader .cpp c d₁ ≠ relHeader .cpp c d₂ ∧ relSource .cpp c d₁ ≠ relSource .cpp c d₂ := by
  apply relName_injective .cpp (Or.inl rfl) c d₁ d₂ hq
  intro h
  simp only [baseName, hb₁, hb₂, hstyle] at h
  exact convert_snake_injective_on_lower _ _ hl₁ hl₂ (by simpa using h)

/-- Objective-C (partial): inside one namespace the file names are distinct when the converted names are.
    Across namespaces they need not be — `objc_concatenation_collides`. -/
theorem objc_same_namespace_injective (c : GCfg) (d₁ d₂ : Decl) (hns : d₁.ns = d₂.ns)
    (hc : convert c.type (baseName .objc d₁) = convert c.type (baseName .objc d₂) → d₁.name = d₂.name)
    (hq : qname d₁ ≠ qname d₂) :
    relHeader .objc c d₁ ≠ relHeader .objc c d₂ := by
  intro h
  simp only [relHeader, Path.rel, objcName, hns, Path.mk.injEq, true_and, List.cons.injEq, and_true] at h
  have h2 : convert c.type (baseName .objc d₁) = convert c.type (baseName .objc d₂) := by
    simpa [String.append_assoc] using h
  exact hq (by simp [qname, hns, hc h2])

/-! ### counterexamples (each is the witness of a known finding) -/

def dflt : GCfg := { out := .one (.rel ["out"]) }
def recA : Decl := { name := "x", ns := ["a"], kind := .record }
def recB : Decl := { name := "x", ns := ["b"], kind := .record }

theorem jni_namespace_dropped : qname recA ≠ qname recB ∧ relHeader .jni dflt recA = relHeader .jni dflt recB
    ∧ relSource .jni dflt recA = relSource .jni dflt recB := by decide +kernel

theorem objcpp_namespace_dropped : qname recA ≠ qname recB ∧ relHeader .objcpp dflt recA = relHeader .objcpp dflt recB
    ∧ relSource .objcpp dflt recA = relSource .objcpp dflt recB := by decide +kernel

theorem yaml_namespace_dropped : qname recA ≠ qname recB ∧ relSource .yaml dflt recA = relSource .yaml dflt recB := by
  decide +kernel

/-- `foo_bar` and `foo__bar` are different IDL names with the same PascalCase (and camelCase) form:
    C++/CLI (default file style `CppCli` + PascalCase) writes both to `CppCliFooBar.hpp`. -/
theorem pascal_conversion_collides :
    let c : GCfg := { dflt with file := { case := .pascal, pfx := some "CppCli" } }
    let d₁ : Decl := { name := "foo_bar", kind := .enum }
    let d₂ : Decl := { name := "foo__bar", kind := .enum }
    qname d₁ ≠ qname d₂ ∧ relHeader .cppcli c d₁ = relHeader .cppcli c d₂ ∧ ¬ ConvInj .cppcli c d₁ d₂ := by
  decide +kernel

/-- `x = record +cpp {…}` is generated as `x_base`; a declaration really called `x_base` lands in the same files. -/
theorem base_suffix_collides :
    let d₁ : Decl := { name := "x", kind := .record, targets := ["cpp"] }
    let d₂ : Decl := { name := "x_base", kind := .record }
    qname d₁ ≠ qname d₂ ∧ relHeader .cpp dflt d₁ = relHeader .cpp dflt d₂ ∧ relSource .cpp dflt d₁ = relSource .cpp dflt d₂ := by
  decide +kernel

/-- Objective-C concatenates the converted namespace and the converted name: `a.b_c` and `a_b.c` are both `ABC`. -/
theorem objc_concatenation_collides :
    let d₁ : Decl := { name := "b_c", ns := ["a"], kind := .enum }
    let d₂ : Decl := { name := "c", ns := ["a", "b"], kind := .enum }
    qname d₁ ≠ qname d₂ ∧ relHeader .objc dflt d₁ = relHeader .objc dflt d₂ := by
  decide +kernel

/-- The same inline function signature used in two namespaces: two declarations, one JNI / Objective-C++ file. -/
theorem anonymous_function_namespace_dropped :
    let d₁ : Decl := { name := "function_cpp_java_i32_bool", ns := ["a"], kind := .function, anonymous := true }
    let d₂ : Decl := { name := "function_cpp_java_i32_bool", ns := ["b"], kind := .function, anonymous := true }
    qname d₁ ≠ qname d₂ ∧ relHeader .jni dflt d₁ = relHeader .jni dflt d₂ ∧ relSource .objcpp dflt d₁ = relSource .objcpp dflt d₂
      ∧ relHeader .cpp dflt d₁ ≠ relHeader .cpp dflt d₂ ∧ relSource .java dflt d₁ ≠ relSource .java dflt d₂ := by
  decide +kernel

/-- hypotheses of `relName_injective` / `cpp_default_injective` are satisfiable -/
example : relHeader .cpp dflt recA ≠ relHeader .cpp dflt recB := by decide +kernel

/-! ### the synthetic name of an inline function type -/

def flatL (t : List Char) : Prop := '_' ∉ t

theorem splitU_flat (t : List Char) (h : flatL t) : splitU t = [t] := by
  induction t with
  | nil => rfl
  | cons c cs ih =>
    have hc : c ≠ '_' := fun e => h (by simp [e])
    have hcs : flatL cs := fun m => h (by simp [m])
    conv => lhs; unfold splitU
    simp [hc, ih hcs]

theorem splitU_flat_append (t r : List Char) (h : flatL t) : splitU (t ++ '_' :: r) = t :: splitU r := by
  induction t with
  | nil => simp [splitU]
  | cons c cs ih =>
    have hc : c ≠ '_' := fun e => h (by simp [e])
    have hcs : flatL cs := fun m => h (by simp [m])
    simp only [List.cons_append]
    conv => lhs; unfold splitU
    simp [hc, ih hcs]

/-- `'_'.join(ts).split('_') = ts` for a non-empty list of parts without `_` -/
theorem splitU_joinL (ts : List (List Char)) (hne : ts ≠ []) (h : ∀ t ∈ ts, flatL t) : splitU (joinL ['_'] ts) = ts := by
  induction ts with
  | nil => exact absurd rfl hne
  | cons t rest ih =>
    cases rest with
    | nil => simpa [joinL] using splitU_flat t (h t (by simp))
    | cons u us =>
      rw [joinL_cons_cons]
      have := ih (by simp) (fun x hx => h x (by simp [hx]))
      simp only [List.append_assoc, List.singleton_append]
      rw [splitU_flat_append t _ (h t (by simp)), this]

theorem joinL_flat_injective (ts us : List (List Char)) (hts : ts ≠ []) (hus : us ≠ [])
    (ht : ∀ t ∈ ts, flatL t) (hu : ∀ t ∈ us, flatL t) (h : joinL ['_'] ts = joinL ['_'] us) : ts = us := by
  rw [← splitU_joinL ts hts ht, ← splitU_joinL us hus hu, h]

/-- the text that a list of further parts adds behind a non-empty list of parts -/
def joinTail (link : List Char) : List (List Char) → List Char
  | [] => []
  | t :: ts => link ++ joinL link (t :: ts)

theorem joinL_append (link : List Char) (p t : List (List Char)) (hp : p ≠ []) :
    joinL link (p ++ t) = joinL link p ++ joinTail link t := by
  induction p with
  | nil => exact absurd rfl hp
  | cons x xs ih =>
    cases xs with
    | nil =>
      cases t with
      | nil => simp [joinL, joinTail]
      | cons u us => simp [joinL_cons_cons, joinTail, joinL]
    | cons y ys =>
      have := ih (by simp)
      simp only [List.cons_append] at this ⊢
      rw [joinL_cons_cons, this, joinL_cons_cons]
      simp

theorem headParts_ne_nil (keys : List String) (s : Sig) : headParts keys s ≠ [] := by simp [headParts]

theorem anonNameL_eq (keys : List String) (s : Sig) :
    anonNameL keys s = joinL ['_'] (headParts keys s) ++ joinTail ['_'] (throwsParts s.throws) := by
  unfold anonNameL anonParts
  exact joinL_append _ _ _ (headParts_ne_nil keys s)

def flatErrors (t : Option (List String)) : Prop := ∀ e ∈ t.getD [], flatL e.toList

theorem throws_flat : flatL wThrows := by unfold flatL; decide

/-- **The name encodes the `throws` clause**: two inline function types that agree in everything in front of it (targets,
    parameter types, return type) and have the same name have the same clause — none, bare, or the same error domains
    (error domain names without `_`: the separator is an identifier character, `anonName_join_ambiguous`). -/
theorem anonName_encodes_throws (keys : List String) (a b : Sig) (hhead : headParts keys a = headParts keys b)
    (ha : flatErrors a.throws) (hb : flatErrors b.throws) (h : anonName keys a = anonName keys b) : a.throws = b.throws := by
  have hl : anonNameL keys a = anonNameL keys b := String.ofList_injective h
  rw [anonNameL_eq, anonNameL_eq, hhead] at hl
  have ht := List.append_cancel_left hl
  cases hta : a.throws with
  | none =>
    cases htb : b.throws with
    | none => rfl
    | some es => simp [hta, htb, throwsParts, joinTail] at ht
  | some es₁ =>
    cases htb : b.throws with
    | none => simp [hta, htb, throwsParts, joinTail] at ht
    | some es₂ =>
      simp only [hta, htb, throwsParts, joinTail] at ht
      have ht' := List.append_cancel_left ht
      have f1 : ∀ t ∈ wThrows :: es₁.map (·.toList), flatL t := by
        intro t m
        rcases List.mem_cons.mp m with rfl | m
        · exact throws_flat
        · obtain ⟨e, he, rfl⟩ := List.mem_map.mp m
          exact ha e (by simp [hta, he])
      have f2 : ∀ t ∈ wThrows :: es₂.map (·.toList), flatL t := by
        intro t m
        rcases List.mem_cons.mp m with rfl | m
        · exact throws_flat
        · obtain ⟨e, he, rfl⟩ := List.mem_map.mp m
          exact hb e (by simp [htb, he])
      have := joinL_flat_injective _ _ (by simp) (by simp) f1 f2 ht'
      simp only [List.cons.injEq, true_and] at this
      rw [List.map_inj_right (fun x y => fun hxy => String.toList_inj.mp hxy)] at this
      rw [this]

/-- a function that cannot throw, one that may throw anything (bare `throws`) and one that throws listed error domains are
    three different types with three different names, whatever the rest of the signature is -/
theorem anonName_throws_injective (keys : List String) (s : Sig) (t₁ t₂ : Option (List String))
    (h₁ : flatErrors t₁) (h₂ : flatErrors t₂)
    (h : anonName keys { s with throws := t₁ } = anonName keys { s with throws := t₂ }) : t₁ = t₂ :=
  anonName_encodes_throws keys { s with throws := t₁ } { s with throws := t₂ } rfl h₁ h₂ h

theorem anonName_bare_throws_distinct (keys : List String) (s : Sig) :
    anonName keys { s with throws := some [] } ≠ anonName keys { s with throws := none } := by
  intro h
  have := anonName_throws_injective keys s (some []) none (by simp [flatErrors]) (by simp [flatErrors]) h
  simp at this

/-! what the name of the pinned tree leaves out (each is the witness of a known finding `overwrite:anonymous:…` /
    `overwrite:duplicate-declaration`) -/

/-- parameter names are no part of the name (finding `overwrite:duplicate-declaration`, parameter names) -/
theorem headParts_params (keys : List String) (s : Sig) (ps : List (String × TExp)) (r : Option TExp)
    (h : ps.map (fun p => sigT 2 p.2) = s.params.map (fun p => sigT 2 p.2))
    (hr : retPart r = retPart s.ret) :
    headParts keys { s with params := ps, ret := r } = headParts keys s := by
  simp only [headParts, effTargets]
  rw [h, hr]

theorem anonName_ignores_parameter_names (keys : List String) (s : Sig) (f : String → String) :
    anonName keys { s with params := s.params.map (fun p => (f p.1, p.2)) } = anonName keys s := by
  simp only [anonName, anonNameL, anonParts]
  rw [headParts_params keys s _ s.ret (by simp only [List.map_map, Function.comp_def]) rfl]

/-- the `?` of a type -/
def setOptional (o : Bool) : TExp → TExp
  | .ref n _ args => .ref n o args
  | .fn s => .fn s

theorem sigT_setOptional (d : Nat) (o : Bool) (t : TExp) : sigT d (setOptional o t) = sigT d t := by
  cases t with
  | ref n o' args => simp only [setOptional, sigT]
  | fn s => simp only [setOptional]

/-- `?` on a parameter or on the returned type is no part of the name (finding `overwrite:anonymous:optional-dropped`) -/
theorem anonName_ignores_optional (keys : List String) (s : Sig) (o : Bool) :
    anonName keys { s with params := s.params.map (fun p => (p.1, setOptional o p.2)), ret := s.ret.map (setOptional o) } = anonName keys s := by
  simp only [anonName, anonNameL, anonParts]
  rw [headParts_params keys s _ _ (by simp only [List.map_map, Function.comp_def, sigT_setOptional])
    (by cases s.ret <;> simp only [Option.map, retPart, sigT_setOptional])]

def keys5 : List String := ["cpp", "cppcli", "java", "objc", "yaml"]
def tI32 : TExp := .ref "i32" false []

/-- `(x: i32?) -> bool` and `(x: i32) -> bool` are different types with one name -/
theorem anonName_optional_dropped :
    anonName keys5 { params := [("x", .ref "i32" true [])], ret := some (.ref "bool" false []) }
      = anonName keys5 { params := [("x", tI32)], ret := some (.ref "bool" false []) } := by decide +kernel

/-- the separator is an identifier character: `(x: foo, y: bar)` / `(x: foo_bar)`; a type called `void`; a type called like a target
    (finding `overwrite:anonymous:join-ambiguity`) -/
theorem anonName_join_ambiguous :
    anonName keys5 { params := [("x", .ref "foo" false []), ("y", .ref "bar" false [])] } = anonName keys5 { params := [("x", .ref "foo_bar" false [])] }
    ∧ anonName keys5 { params := [("x", tI32)], ret := some (.ref "void" false []) } = anonName keys5 { params := [("x", tI32)] }
    ∧ anonName keys5 { targets := ["cpp"], params := [("x", .ref "java" false [])] } = anonName keys5 { targets := ["cpp", "java"] }
    ∧ anonName keys5 { params := [("x", tI32)], throws := some ["a_b"] } = anonName keys5 { params := [("x", tI32)], throws := some ["a", "b"] } := by
  decide +kernel

/-- a function-typed parameter is spelled `<function>` whatever its signature (finding `overwrite:anonymous:nested-function`) -/
theorem anonName_nested_function_dropped :
    anonName keys5 { params := [("f", .fn "(x: i32)")] } = anonName keys5 { params := [("f", .fn "(x: string)")] } := by decide +kernel

/-- hypotheses of `anonName_encodes_throws` are satisfiable, and the three clauses give three names -/
example : anonName keys5 { params := [("x", tI32)], throws := none } = "function_cpp_cppcli_java_objc_yaml_i32_void"
    ∧ anonName keys5 { params := [("x", tI32)], throws := some [] } = "function_cpp_cppcli_java_objc_yaml_i32_void_throws"
    ∧ anonName keys5 { params := [("x", tI32)], throws := some ["e1", "e2"] } = "function_cpp_cppcli_java_objc_yaml_i32_void_throws_e1_e2"
    ∧ anonName keys5 { targets := ["cpp"], params := [("m", .ref "map" false [tI32, .ref "list" false [tI32]])], ret := some tI32 }
        = "function_cpp_map__i32__list___i32_i32" := by decide +kernel
example : flatErrors (some ["e1", "e2"]) := by simp [flatErrors, flatL]

/-! ### qualified references in inline signatures: names with dots

A reference is spelled into the synthetic name as it is written — `model.user`, `.model.user`, `util.local.item` — so the name of an
inline function type can contain dots, and two such names can agree up to the last dot. Every generator *appends* the extension
to the (converted) name; nothing of the name is taken for an extension. -/

/-- the Objective-C source file, like the header (`objc_same_namespace_injective`): distinct converted names of one namespace give
    distinct files — whatever characters the names contain -/
theorem objc_source_same_namespace_injective (c : GCfg) (d₁ d₂ : Decl) (hns : d₁.ns = d₂.ns)
    (hc : convert c.type (baseName .objc d₁) = convert c.type (baseName .objc d₂) → d₁.name = d₂.name)
    (hq : qname d₁ ≠ qname d₂) :
    relSource .objc c d₁ ≠ relSource .objc c d₂ := by
  intro h
  simp only [relSource, Path.rel, objcName, hns, Path.mk.injEq, true_and, List.cons.injEq, and_true] at h
  have h2 : convert c.type (baseName .objc d₁) = convert c.type (baseName .objc d₂) := by
    simpa [String.append_assoc] using h
  exact hq (by simp [qname, hns, hc h2])

/-- **A file name keeps the whole name**: in every generator that writes headers, declarations of one namespace whose file-name
    stems (the converted name: `objcName`, `objcppName`, `convert file name`) differ get different headers — the extension is appended
    behind the stem, a dot inside the stem does not end it. -/
theorem header_keeps_stem (c : GCfg) (d₁ d₂ : Decl) (hns : d₁.ns = d₂.ns) :
    (relHeader .objc c d₁ = relHeader .objc c d₂ → objcName c d₁ = objcName c d₂)
    ∧ (relHeader .objcpp c d₁ = relHeader .objcpp c d₂ → objcppName d₁ = objcppName d₂)
    ∧ (relHeader .jni c d₁ = relHeader .jni c d₂ → convert c.file d₁.name = convert c.file d₂.name)
    ∧ (relHeader .cpp c d₁ = relHeader .cpp c d₂ → convert c.file (baseName .cpp d₁) = convert c.file (baseName .cpp d₂))
    ∧ (relHeader .cppcli c d₁ = relHeader .cppcli c d₂ → convert c.file (baseName .cppcli d₁) = convert c.file (baseName .cppcli d₂)) := by
  refine ⟨?_, ?_, ?_, ?_, ?_⟩
  · intro h
    simp only [relHeader, Path.rel, Path.mk.injEq, true_and, List.cons.injEq, and_true] at h
    simpa [String.append_assoc] using h
  · intro h
    simp only [relHeader, Path.rel, Path.mk.injEq, true_and, List.cons.injEq, and_true] at h
    simpa [String.append_assoc] using h
  · intro h
    simp only [relHeader, Path.rel, Path.mk.injEq, true_and, List.cons.injEq, and_true] at h
    simpa [String.append_assoc] using h
  · intro h
    simp only [relHeader, Path.rel, hns, Path.mk.injEq, true_and] at h
    have := (snoc_inj _ _ _ _ h).2
    simpa [String.append_assoc] using this
  · intro h
    simp only [relHeader, Path.rel, hns, Path.mk.injEq, true_and] at h
    have := (snoc_inj _ _ _ _ h).2
    simpa using this

/-- the parts of a name that has no `_` inside its parts (type names without `_` and without generic arguments — dots are allowed)
    can be read back from the name: such inline function types share a name only if they agree in every part -/
theorem anonName_flat_injective (keys : List String) (a b : Sig)
    (ha : ∀ t ∈ anonParts keys a, flatL t) (hb : ∀ t ∈ anonParts keys b, flatL t)
    (h : anonName keys a = anonName keys b) : anonParts keys a = anonParts keys b := by
  have hne : ∀ s : Sig, anonParts keys s ≠ [] := by
    intro s; simp [anonParts, headParts]
  have hl : anonNameL keys a = anonNameL keys b := by
    have := congrArg String.toList h
    simpa [anonName] using this
  exact joinL_flat_injective _ _ (hne a) (hne b) ha hb hl

def appNs : List String := ["app"]
def fnUser : Decl := { name := anonName keys5 { params := [("v", .ref "model.user" false [])] }, ns := appNs, kind := .function, anonymous := true }
def fnGroup : Decl := { name := anonName keys5 { params := [("v", .ref "model.group" false [])] }, ns := appNs, kind := .function, anonymous := true }
def fnUserAbs : Decl := { name := anonName keys5 { params := [("v", .ref ".model.user" false [])] }, ns := appNs, kind := .function, anonymous := true }

/-- `(v: model.user)`, `(v: model.group)` and `(v: .model.user)` in one namespace: three names that agree up to the last dot /
    differ in a leading dot, and three different files in every generator (default configuration) -/
theorem qualified_signatures_distinct_files :
    fnUser.name = "function_cpp_cppcli_java_objc_yaml_model.user_void"
    ∧ fnGroup.name = "function_cpp_cppcli_java_objc_yaml_model.group_void"
    ∧ fnUserAbs.name = "function_cpp_cppcli_java_objc_yaml_.model.user_void"
    ∧ relHeader .objc { dflt with headerExt := "h" } fnUser = .rel ["AppFunctionCppCppcliJavaObjcYamlModel.userVoid.h"]
    ∧ (∀ g ∈ [G.cpp, .cppcli, .jni, .objc, .objcpp],
        relHeader g dflt fnUser ≠ relHeader g dflt fnGroup ∧ relHeader g dflt fnUser ≠ relHeader g dflt fnUserAbs
        ∧ relSource g dflt fnUser ≠ relSource g dflt fnGroup ∧ relSource g dflt fnUser ≠ relSource g dflt fnUserAbs)
    ∧ relSource .java dflt fnUser ≠ relSource .java dflt fnGroup ∧ relSource .java dflt fnUser ≠ relSource .java dflt fnUserAbs := by
  decide +kernel

/-! ### the write log -/

theorem collisionsOf_nil_nodup (g : G) (ws : List (Nat × Decl × FKind × Path)) (h : collisionsOf g ws = []) :
    (ws.map (fun w => w.2.2.2)).Nodup := by
  induction ws with
  | nil => simp
  | cons w rest ih =>
    obtain ⟨i, d, k, p⟩ := w
    simp only [collisionsOf, List.append_eq_nil_iff] at h
    obtain ⟨h1, h2⟩ := h
    simp only [List.map_cons, List.nodup_cons]
    refine ⟨?_, ih h2⟩
    intro hm
    obtain ⟨w', hw', hp⟩ := List.mem_map.mp hm
    obtain ⟨j, d', k', q⟩ := w'
    simp only at hp
    have := List.filterMap_eq_nil_iff.mp h1 (j, d', k', q) hw'
    simp [hp] at this

/-- If the model predicts no collision for a generator run, the per-declaration files of that run go to
    pairwise distinct paths. -/
theorem no_collisions_nodup (g : G) (cm cc : GCfg) (ds : List Decl) (h : collisions g cm cc ds = []) :
    ((declWrites g cm cc ds).map (fun w => w.2.2.2)).Nodup :=
  collisionsOf_nil_nodup g _ h

theorem eq_of_nodup_fst {α β : Type} (l : List (α × β)) (h : (l.map (·.1)).Nodup) (a b : α × β)
    (ha : a ∈ l) (hb : b ∈ l) (hab : a.1 = b.1) : a = b := by
  induction l with
  | nil => simp at ha
  | cons x xs ih =>
    simp only [List.map_cons, List.nodup_cons] at h
    rcases List.mem_cons.mp ha with rfl | ha' <;> rcases List.mem_cons.mp hb with rfl | hb'
    · rfl
    · exact absurd (List.mem_map.mpr ⟨b, hb', hab.symm⟩) h.1
    · exact absurd (List.mem_map.mpr ⟨a, ha', hab⟩) h.1
    · exact ih h.2 ha' hb'

/-- A write log whose paths are pairwise distinct satisfies the specification, whatever was written. -/
theorem nodup_noOverwrite {κ : Type} [DecidableEq κ] (log : List (String × κ)) (h : (log.map (·.1)).Nodup) :
    noOverwrite log = true := by
  simp only [noOverwrite, List.all_eq_true, Bool.or_eq_true, bne_iff_ne, ne_eq, beq_iff_eq]
  intro a ha b hb
  by_cases hab : a.1 = b.1
  · right
    rw [eq_of_nodup_fst log h a b ha hb hab]
  · left; exact hab


/-- two inline function types that do not differ in any component of the written signature (targets, arity, parameter and
    returned types, `?`, nested signatures, `throws`, parameter names) are one declaration written twice: the overwrite between
    them is keyed `identical-declaration` — never by a Dom clause of the name, whatever name the implementation computed -/
theorem anonCause_of_no_difference (keys : List String) (a b : Sig) (h : sigDiff keys a b = []) :
    anonCause keys a b = "identical-declaration" := by
  simp [anonCause, h]

#guard anonCause ["cpp", "java"] { params := [("x", .ref "i32" false [])], ret := some (.ref "bool" false []) }
    { params := [("x", .ref "i32" false [])], ret := some (.ref "bool" false []) } == "identical-declaration"
#guard anonCause ["cpp", "java"] { params := [("x", .ref "i32" false [])], ret := some (.ref "bool" false []) }
    { params := [("y", .ref "i32" false [])], ret := some (.ref "bool" false []) } == "duplicate-declaration"
#guard sigDiff ["cpp", "java"] { params := [("x", .ref "i32" false [])] } { params := [("x", .ref "i32" false [])] } == []

end Pydjinni.GenC

namespace Pydjinni.SysC
open Pydjinni.GenC

/-- `no_refusal`: the writer is unconditional — a second write to a path is logged and recorded like the
    first one; the code never turns a collision into a diagnostic. -/
theorem write_unconditional {κ : Type} (s : FRW κ) (key : String) (kind : FKind) (p : Path) (c : κ) :
    (s.step (.write key kind p c)).log = s.log ++ [(p, c)] ∧ (s.step (.write key kind p c)).used = s.used ++ [key] := by
  simp [FRW.step, FRW.upd]

end Pydjinni.SysC
