import PydjinniModel.Props.C03Decl
import PydjinniModel.Props.C03Lex
/-!
# C03 — the text level: every layout of a well-formed token sequence lexes back to that sequence
-/
set_option linter.unusedSimpArgs false

namespace Pydjinni.Front

/-! ## 1. well-formed token kinds -/

/-- an `ID` of the grammar: a letter followed by letters, digits, `_` -/
def isIdent : List Char → Bool
  | [] => false
  | c :: r => isLetter c && r.all isLetterOrDigit

/-- split at every `.` (never returns `[]`) -/
def dotSplit : List Char → List (List Char)
  | [] => [[]]
  | c :: cs =>
    if c == '.' then [] :: dotSplit cs
    else match dotSplit cs with
      | [] => [[c]]
      | h :: t => (c :: h) :: t

/-- the inverse of `dotSplit` -/
def joinDots : List (List Char) → List Char
  | [] => []
  | [a] => a
  | a :: b :: r => a ++ '.' :: joinDots (b :: r)

/-- an `NS_ID` that is not a plain `ID`: `.a`, `a.b`, `.a.b.c` … — an optional leading dot, then identifiers
    separated by single dots; without a leading dot at least two components. (Components may be keywords: the
    lexer does not look at them.) -/
def isNsid (cs : List Char) : Bool :=
  match cs with
  | [] => false
  | c :: r =>
    if c == '.' then (dotSplit r).all isIdent
    else (dotSplit cs).all isIdent && decide (2 ≤ (dotSplit cs).length)

/-- a `FILEPATH` literal: `"…"` with no `"` inside (line breaks are allowed, as in the grammar) -/
def isPathLit : List Char → Bool
  | [] => false
  | c :: r => c == '"' && r.getLast? == some '"' && r.dropLast.all (fun x => x != '"')

/-- a target flag: `+` or `-` followed by one or more lower-case letters -/
def isTargetLit : List Char → Bool
  | [] => false
  | c :: r => (c == '+' || c == '-') && !r.isEmpty && r.all isLower

/-- a comment: `#` followed by anything but `\r`, `\n` -/
def isCommentLit : List Char → Bool
  | [] => false
  | c :: r => c == '#' && r.all (fun x => x != '\r' && x != '\n')

/-- **Well-formed token kinds**: the token could have been produced by the lexer.
    * `kw s`: `s` is one of the 29 literal spellings;
    * `id s`: an identifier (letter, then letters/digits/`_`) that is not a keyword;
    * `nsid s`: a dotted name (`isNsid`);
    * `comment s`: `#…` without `\r`/`\n`;
    * `filepath s`: `"…"` without inner `"`;
    * `target s`: `+`/`-` and lower-case letters. -/
def Tk.wf : Tk → Bool
  | .kw s => literals.contains s
  | .filepath s => isPathLit s.toList
  | .target s => isTargetLit s.toList
  | .comment s => isCommentLit s.toList
  | .id s => isIdent s.toList && !literals.contains s
  | .nsid s => isNsid s.toList

def Tk.WF (t : Tk) : Prop := t.wf = true

instance (t : Tk) : Decidable t.WF := inferInstanceAs (Decidable (t.wf = true))

/-- what may follow a word (`ID`, `NS_ID`, word keyword) without being swallowed by it: the end of input, or a
    character that is not a letter/digit/`_` — and, if it is a `.`, the character after it is not a letter
    (`a.b` is one `NS_ID`; `a.` and `a.1` are not) -/
def wordStop : List Char → Bool
  | [] => true
  | c :: r =>
    if c == '.' then (match r with
      | [] => true
      | d :: _ => !isLetter d)
    else !isLetterOrDigit c

/-- **Separator-safe continuation**: `t.stops rest` says that the characters `rest` following the text of `t`
    cannot extend the token.
    * punctuation, `@import`, `@extern`, `->`, file paths: anything may follow;
    * words (identifiers, dotted names, word keywords): `wordStop`;
    * the keyword `.`: not a letter (`.a` is an `NS_ID`);
    * target flags: not a lower-case letter;
    * comments: the end of input or a line end (`\n` or `\r`). -/
def Tk.stops : Tk → List Char → Bool
  | .kw s, rest =>
    match s.toList with
    | [] => true
    | c :: _ =>
      if isLetter c then wordStop rest
      else if c == '.' then (match rest with
        | [] => true
        | d :: _ => !isLetter d)
      else true
  | .filepath _, _ => true
  | .target _, rest => (match rest with
    | [] => true
    | d :: _ => !isLower d)
  | .comment _, rest => (match rest with
    | [] => true
    | d :: _ => d == '\n' || d == '\r')
  | .id _, rest => wordStop rest
  | .nsid _, rest => wordStop rest

/-! ### character classes -/

theorem ne_of_pred {p : Char → Bool} {c d : Char} (hc : p c = true) (hd : p d = false) : c ≠ d := by
  rintro rfl; rw [hc] at hd; cases hd

theorem beq_false_of_pred {p : Char → Bool} {c d : Char} (hc : p c = true) (hd : p d = false) :
    (c == d) = false := by
  simpa using ne_of_pred hc hd

theorem isLetter_isLetterOrDigit {c : Char} (h : isLetter c = true) : isLetterOrDigit c = true := by
  simp [isLetterOrDigit, h]

theorem isLetter_not_ws {c : Char} (h : isLetter c = true) : isWs c = false := by
  cases hw : isWs c with
  | false => rfl
  | true => rw [isWs_not_letter hw] at h; cases h

/-- a character that starts a word or is a dot reaches the `ID`/`NS_ID` branch of `lexOne` -/
theorem lexOne_wordlike (c : Char) (rest : List Char) (h : (isLetter c || c == '.') = true) :
    lexOne (c :: rest) =
      if nsidLen (c :: rest).length (c :: rest) > idLen (c :: rest) then
        .tok (.nsid (String.ofList ((c :: rest).take (nsidLen (c :: rest).length (c :: rest)))))
          (nsidLen (c :: rest).length (c :: rest))
      else if idLen (c :: rest) > 0 then
        if literals.contains (String.ofList ((c :: rest).take (idLen (c :: rest)))) then
          .tok (.kw (String.ofList ((c :: rest).take (idLen (c :: rest))))) (idLen (c :: rest))
        else .tok (.id (String.ofList ((c :: rest).take (idLen (c :: rest))))) (idLen (c :: rest))
      else .tok (.kw ".") 1 := by
  have h1 : isWs c = false ∧ (c == '#') = false ∧ (c == '"') = false ∧ (c == '+' || c == '-') = false ∧
      (c == '@') = false := by
    rcases Bool.or_eq_true_iff.mp h with hl | hd
    · refine ⟨isLetter_not_ws hl, beq_false_of_pred hl (by decide), beq_false_of_pred hl (by decide), ?_,
        beq_false_of_pred hl (by decide)⟩
      rw [beq_false_of_pred hl (d := '+') (by decide), beq_false_of_pred hl (d := '-') (by decide)]; rfl
    · have : c = '.' := by simpa using hd
      subst this
      decide
  obtain ⟨a1, a2, a3, a4, a5⟩ := h1
  rw [lexOne_cons]
  simp only [a1, a2, a3, a4, a5, h, Bool.false_eq_true, if_false, if_true]

/-! ### spans -/

theorem spanLen_append_all (p : Char → Bool) (a rest : List Char) (ha : ∀ x ∈ a, p x = true)
    (hr : ∀ x, rest.head? = some x → p x = false) : spanLen p (a ++ rest) = a.length := by
  induction a with
  | nil =>
    cases rest with
    | nil => rfl
    | cons x r => simp [spanLen, hr x rfl]
  | cons y a ih =>
    simp only [List.cons_append, spanLen, ha y (by simp), if_true, List.length_cons]
    rw [ih (fun x hx => ha x (List.mem_cons_of_mem _ hx))]

theorem wordStop_head {rest : List Char} (h : wordStop rest = true) :
    ∀ x, rest.head? = some x → isLetterOrDigit x = false := by
  intro x hx
  cases rest with
  | nil => simp at hx
  | cons c r =>
    simp at hx; subst hx
    simp only [wordStop] at h
    split at h
    · rename_i hc
      have : c = '.' := by simpa using hc
      subst this; decide
    · simpa using h

theorem isIdent_cons {c : Char} {r : List Char} (h : isIdent (c :: r) = true) :
    isLetter c = true ∧ ∀ x ∈ r, isLetterOrDigit x = true := by
  simpa [isIdent] using h

theorem isIdent_ne_nil {a : List Char} (h : isIdent a = true) : a ≠ [] := by
  rintro rfl; simp [isIdent] at h

/-- an identifier followed by a non-identifier character: `idLen` is its length -/
theorem idLen_ident (a rest : List Char) (ha : isIdent a = true)
    (hr : ∀ x, rest.head? = some x → isLetterOrDigit x = false) : idLen (a ++ rest) = a.length := by
  cases a with
  | nil => simp [isIdent] at ha
  | cons c r =>
    obtain ⟨h1, h2⟩ := isIdent_cons ha
    simp only [List.cons_append, idLen, h1, if_true, List.length_cons]
    rw [spanLen_append_all _ _ _ h2 hr]; omega

theorem idLen_eq_zero {rest : List Char} (h : ∀ x, rest.head? = some x → isLetter x = false) : idLen rest = 0 := by
  cases rest with
  | nil => rfl
  | cons c r => simp [idLen, h c rfl]

/-- after a word stop no further `NS_ID` component follows -/
theorem nsidLen_wordStop (fuel : Nat) {rest : List Char} (h : wordStop rest = true) : nsidLen fuel rest = 0 := by
  cases fuel with
  | zero => rfl
  | succ f =>
    cases rest with
    | nil => exact nsidLen_nil _
    | cons c r =>
      simp only [wordStop] at h
      by_cases hc : c = '.'
      · subst hc
        rw [nsidLen_succ_dot]
        have : idLen r = 0 := by
          apply idLen_eq_zero
          intro x hx
          cases r with
          | nil => simp at hx
          | cons d r' => simp at hx; subst hx; simpa using h
        simp [this]
      · rw [nsidLen_succ_nodot _ _ (by simpa using hc)]
        have h' : isLetterOrDigit c = false := by simpa [hc] using h
        have : idLen (c :: r) = 0 := by
          apply idLen_eq_zero
          intro x hx
          simp at hx; subst hx
          cases hl : isLetter c with
          | false => rfl
          | true => rw [isLetter_isLetterOrDigit hl] at h'; cases h'
        simp [this]

theorem joinDots_cons_cons (a b : List Char) (r : List (List Char)) :
    joinDots (a :: b :: r) = a ++ '.' :: joinDots (b :: r) := rfl

theorem joinDots_head {comps : List (List Char)} (hne : comps ≠ []) (hall : ∀ a ∈ comps, isIdent a = true) :
    ∃ c r, joinDots comps = c :: r ∧ isLetter c = true := by
  cases comps with
  | nil => exact absurd rfl hne
  | cons a t =>
    have ha := hall a (by simp)
    cases a with
    | nil => simp [isIdent] at ha
    | cons c r =>
      obtain ⟨h1, _⟩ := isIdent_cons ha
      cases t with
      | nil => exact ⟨c, r, rfl, h1⟩
      | cons b t => exact ⟨c, r ++ '.' :: joinDots (b :: t), rfl, h1⟩

/-- a dot before a word: one more character -/
theorem nsidLen_dot_cons (fuel : Nat) (c : Char) (r : List Char) (hc : isLetter c = true) :
    nsidLen (fuel+1) ('.' :: c :: r) = 1 + nsidLen (fuel+1) (c :: r) := by
  have hne : (c :: r).head? ≠ some '.' := by
    simp; exact ne_of_pred hc (by decide)
  have hpos : idLen (c :: r) ≠ 0 := by
    have := (idLen_pos_iff c r).mpr hc; omega
  rw [nsidLen_succ_dot, nsidLen_succ_nodot _ _ hne]
  simp only [beq_iff_eq, hpos, if_false]
  omega

/-- **dotted names**: on identifiers joined by dots and followed by a word stop, `nsidLen` is the whole length -/
theorem nsidLen_joinDots (comps : List (List Char)) (rest : List Char) (hne : comps ≠ [])
    (hall : ∀ a ∈ comps, isIdent a = true) (hr : wordStop rest = true) (fuel : Nat)
    (hf : (joinDots comps ++ rest).length ≤ fuel) :
    nsidLen fuel (joinDots comps ++ rest) = (joinDots comps).length := by
  induction comps generalizing fuel with
  | nil => exact absurd rfl hne
  | cons a t ih =>
    have ha := hall a (by simp)
    have hane := isIdent_ne_nil ha
    have hapos : 0 < a.length := List.length_pos_iff.mpr hane
    have hhd : ∀ X : List Char, (a ++ X).head? ≠ some '.' := by
      intro X
      cases a with
      | nil => exact absurd rfl hane
      | cons c r =>
        simp; exact ne_of_pred (isIdent_cons ha).1 (by decide)
    cases t with
    | nil =>
      simp only [joinDots] at hf ⊢
      cases fuel with
      | zero => simp only [List.length_append] at hf; omega
      | succ f =>
        rw [nsidLen_succ_nodot _ _ (hhd _), idLen_ident a rest ha (wordStop_head hr),
          List.drop_left' rfl, nsidLen_wordStop f hr]
        have : a.length ≠ 0 := by omega
        simp [this]
    | cons b t' =>
      rw [joinDots_cons_cons, List.append_assoc, List.cons_append] at hf ⊢
      have hall' : ∀ x ∈ b :: t', isIdent x = true := fun x hx => hall x (List.mem_cons_of_mem _ hx)
      obtain ⟨c, r, hj, hc⟩ := joinDots_head (comps := b :: t') (by simp) hall'
      cases fuel with
      | zero => simp at hf
      | succ f =>
        have hdot : ∀ x, ('.' :: (joinDots (b :: t') ++ rest)).head? = some x → isLetterOrDigit x = false := by
          intro x hx; simp at hx; subst hx; decide
        rw [nsidLen_succ_nodot _ _ (hhd _), idLen_ident a _ ha hdot, List.drop_left' rfl]
        simp only [List.length_append, List.length_cons] at hf
        cases f with
        | zero => omega
        | succ f' =>
          have e : '.' :: (joinDots (b :: t') ++ rest) = '.' :: c :: (r ++ rest) := by rw [hj]; rfl
          rw [e, nsidLen_dot_cons f' c _ hc]
          have e' : c :: (r ++ rest) = joinDots (b :: t') ++ rest := by rw [hj]; rfl
          rw [e', ih (by simp) hall' (f'+1) (by simp only [List.length_append]; omega)]
          have : a.length ≠ 0 := by omega
          simp only [beq_iff_eq, this, if_false, List.length_append, List.length_cons]
          omega

theorem joinDots_dotSplit (cs : List Char) : joinDots (dotSplit cs) = cs := by
  induction cs with
  | nil => rfl
  | cons c cs ih =>
    simp only [dotSplit]
    split
    · rename_i hc
      have : c = '.' := by simpa using hc
      subst this
      cases h : dotSplit cs with
      | nil => rw [h] at ih; simp [joinDots] at ih; subst ih; simp [dotSplit] at h
      | cons a t => rw [h] at ih; rw [joinDots_cons_cons, ih]; rfl
    · split
      · rename_i h; rw [h] at ih; simp [joinDots] at ih; subst ih; simp [dotSplit] at h
      · rename_i a t h
        rw [h] at ih
        cases t with
        | nil => simp [joinDots] at ih ⊢; exact ih
        | cons b t' => rw [joinDots_cons_cons] at ih ⊢; rw [List.cons_append, ih]

theorem dotSplit_ne_nil (cs : List Char) : dotSplit cs ≠ [] := by
  cases cs with
  | nil => simp [dotSplit]
  | cons c cs =>
    simp only [dotSplit]
    split
    · simp
    · split <;> simp

/-! ### `lexOne` on the text of a well-formed token followed by a safe continuation -/

theorem take_append_length (w rest : List Char) : (w ++ rest).take w.length = w := List.take_left' rfl

/-- a word followed by a word stop is read as a whole: as a keyword if it is one, as an identifier otherwise -/
theorem lexOne_word (w rest : List Char) (hw : isIdent w = true) (hr : wordStop rest = true) :
    lexOne (w ++ rest) =
      if literals.contains (String.ofList w) then .tok (.kw (String.ofList w)) w.length
      else .tok (.id (String.ofList w)) w.length := by
  cases w with
  | nil => simp [isIdent] at hw
  | cons c r =>
    obtain ⟨h1, h2⟩ := isIdent_cons hw
    have hi : idLen (c :: r ++ rest) = (c :: r).length := idLen_ident _ _ hw (wordStop_head hr)
    have hn : nsidLen (c :: r ++ rest).length (c :: r ++ rest) = (c :: r).length := by
      have := nsidLen_joinDots [c :: r] rest (by simp) (by simpa using hw) hr _ (Nat.le_refl _)
      simpa [joinDots] using this
    rw [List.cons_append, lexOne_wordlike c _ (by simp [h1])]
    rw [← List.cons_append, hi, hn, take_append_length]
    simp

/-- the single-character tokens of the last branch of `lexOne` -/
def isPunctChar (c : Char) : Bool :=
  !isWs c && c != '#' && c != '"' && !(c == '+' || c == '-') && c != '@' && !(isLetter c || c == '.') &&
    literals.contains (String.singleton c)

theorem lexOne_punct (c : Char) (rest : List Char) (h : isPunctChar c = true) :
    lexOne (c :: rest) = .tok (.kw (String.singleton c)) 1 := by
  simp only [isPunctChar, Bool.and_eq_true, Bool.not_eq_true', bne_iff_ne, ne_eq] at h
  obtain ⟨⟨⟨⟨⟨⟨a1, a2⟩, a3⟩, a4⟩, a5⟩, a6⟩, a7⟩ := h
  have a7' : String.singleton c ∈ literals := by simpa using a7
  rw [lexOne_cons]
  simp [a1, a2, a3, a4, a5, a6, a7']

/-- the 29 literals fall into six classes -/
def kwClassOK (s : String) : Bool :=
  isIdent s.toList || s == "." || s == "@import" || s == "@extern" || s == "->" ||
    (match s.toList with
     | [c] => isPunctChar c
     | _ => false)

theorem literals_classified : literals.all kwClassOK = true := by decide +kernel

theorem lexOne_dot (rest : List Char) (h : ∀ x, rest.head? = some x → isLetter x = false) :
    lexOne ('.' :: rest) = .tok (.kw ".") 1 := by
  rw [lexOne_wordlike '.' rest (by decide)]
  have h0 : idLen ('.' :: rest) = 0 := idLen_eq_zero (by intro x hx; simp at hx; subst hx; decide)
  have h1 : nsidLen ('.' :: rest).length ('.' :: rest) = 0 := by
    rw [List.length_cons, nsidLen_succ_dot, idLen_eq_zero h]; rfl
  rw [h0, h1]
  simp

theorem lexOne_at (rest : List Char) :
    lexOne ('@' :: rest) =
      if startsWith "@import".toList ('@' :: rest) then .tok (.kw "@import") 7
      else if startsWith "@extern".toList ('@' :: rest) then .tok (.kw "@extern") 7
      else .err := by
  rw [lexOne_cons]
  rw [if_neg (by decide), if_neg (by decide), if_neg (by decide), if_neg (by decide), if_pos (by decide)]

theorem lexOne_arrow (rest : List Char) : lexOne ('-' :: '>' :: rest) = .tok (.kw "->") 2 := by
  rw [lexOne_cons]
  rw [if_neg (by decide), if_neg (by decide), if_neg (by decide), if_pos (by decide)]
  have : spanLen isLower ('>' :: rest) = 0 := by simp [spanLen]; decide
  rw [this]
  simp

theorem lexOne_kw (s : String) (rest : List Char) (h : literals.contains s = true)
    (hr : (Tk.kw s).stops rest = true) : lexOne (s.toList ++ rest) = .tok (.kw s) s.toList.length := by
  have hm : s ∈ literals := by simpa using h
  have hc := List.all_eq_true.mp literals_classified s hm
  simp only [kwClassOK, Bool.or_eq_true, beq_iff_eq] at hc
  rcases hc with ((((hc | rfl) | rfl) | rfl) | rfl) | hc
  · have hstop : wordStop rest = true := by
      cases hs : s.toList with
      | nil => rw [hs] at hc; simp [isIdent] at hc
      | cons c r =>
        rw [hs] at hc
        simpa only [Tk.stops, hs, (isIdent_cons hc).1, if_true] using hr
    rw [lexOne_word _ _ hc hstop, String.ofList_toList, if_pos h]
  · have e : ".".toList = ['.'] := by decide +kernel
    rw [e]
    apply lexOne_dot
    intro x hx
    cases rest with
    | nil => simp at hx
    | cons d r =>
      simp at hx; subst hx
      simp only [Tk.stops, e] at hr
      rw [if_neg (by decide), if_pos (by decide)] at hr
      simpa using hr
  · have e : "@import".toList = '@' :: "import".toList := by decide +kernel
    have e7 : "@import".toList.length = 7 := by decide +kernel
    have hp : startsWith "@import".toList ('@' :: ("import".toList ++ rest)) = true := by
      rw [← List.cons_append, ← e]; exact List.isPrefixOf_iff_prefix.mpr (List.prefix_append _ _)
    rw [e7, e, List.cons_append, lexOne_at, if_pos hp]
  · have e : "@extern".toList = '@' :: "extern".toList := by decide +kernel
    have e7 : "@extern".toList.length = 7 := by decide +kernel
    have hp : startsWith "@extern".toList ('@' :: ("extern".toList ++ rest)) = true := by
      rw [← List.cons_append, ← e]; exact List.isPrefixOf_iff_prefix.mpr (List.prefix_append _ _)
    have hn : startsWith "@import".toList ('@' :: ("extern".toList ++ rest)) = false := by
      have e1 : "@import".toList = ['@', 'i', 'm', 'p', 'o', 'r', 't'] := by decide +kernel
      have e2 : "extern".toList = ['e', 'x', 't', 'e', 'r', 'n'] := by decide +kernel
      rw [e1, e2]
      simp [startsWith, List.isPrefixOf]
    rw [e7, e, List.cons_append, lexOne_at, hn, if_pos hp]
    simp
  · have e : "->".toList = ['-', '>'] := by decide +kernel
    rw [e]
    exact lexOne_arrow rest
  · cases hs : s.toList with
    | nil => rw [hs] at hc; simp at hc
    | cons c r =>
      cases r with
      | cons d r' => rw [hs] at hc; simp at hc
      | nil =>
        rw [hs] at hc
        have es : s = String.singleton c := by
          rw [← String.ofList_toList (s := s), hs]; rfl
        rw [List.cons_append, List.nil_append, lexOne_punct c rest hc, ← es]
        rfl

theorem lexOne_comment (r rest : List Char) (hr : ∀ x ∈ r, (x != '\r' && x != '\n') = true)
    (hrest : ∀ x, rest.head? = some x → (x != '\r' && x != '\n') = false) :
    lexOne ('#' :: r ++ rest) = .tok (.comment (String.ofList ('#' :: r))) (r.length + 1) := by
  have ht : ('#' :: (r ++ rest)).take (r.length + 1) = '#' :: r := by
    rw [List.take_succ_cons, List.take_left' rfl]
  rw [List.cons_append, lexOne_cons, if_neg (by decide), if_pos (by decide),
    spanLen_append_all _ r rest hr hrest, ht]

theorem lexOne_path (b rest : List Char) (hb : ∀ x ∈ b, (x != '"') = true) :
    lexOne ('"' :: (b ++ '"' :: rest)) =
      .tok (.filepath (String.ofList ('"' :: (b ++ ['"'])))) (b.length + 2) := by
  have hs : spanLen (fun x => x != '"') (b ++ '"' :: rest) = b.length :=
    spanLen_append_all _ b _ hb (by intro x hx; simp at hx; subst hx; decide)
  have ht : ('"' :: (b ++ '"' :: rest)).take (b.length + 2) = '"' :: (b ++ ['"']) := by
    rw [List.take_succ_cons, List.take_length_add_append]; rfl
  rw [lexOne_cons, if_neg (by decide), if_neg (by decide), if_pos (by decide), hs,
    if_pos (by simp), ht]

theorem lexOne_target (c : Char) (r rest : List Char) (hc : (c == '+' || c == '-') = true) (hne : r ≠ [])
    (hr : ∀ x ∈ r, isLower x = true) (hrest : ∀ x, rest.head? = some x → isLower x = false) :
    lexOne (c :: r ++ rest) = .tok (.target (String.ofList (c :: r))) (r.length + 1) := by
  have ht : (c :: (r ++ rest)).take (r.length + 1) = c :: r := by
    rw [List.take_succ_cons, List.take_left' rfl]
  have hpos : spanLen isLower (r ++ rest) > 0 := by
    rw [spanLen_append_all _ r rest hr hrest]; exact List.length_pos_iff.mpr hne
  have h3 : isWs c = false ∧ (c == '#') = false ∧ (c == '"') = false := by
    rcases (by simpa using hc : c = '+' ∨ c = '-') with rfl | rfl <;> decide
  obtain ⟨a1, a2, a3⟩ := h3
  rw [List.cons_append, lexOne_cons]
  simp only [a1, a2, a3, hc, Bool.false_eq_true, if_false, if_true]
  rw [if_pos hpos, spanLen_append_all _ r rest hr hrest, ht]

theorem head?_cons_imp {rest : List Char} {P : Char → Prop}
    (h : ∀ d r, rest = d :: r → P d) : ∀ x, rest.head? = some x → P x := by
  intro x hx
  cases rest with
  | nil => simp at hx
  | cons d r => simp at hx; subst hx; exact h d r rfl

/-- **One step on a well-formed token**: if the text of a well-formed token kind `t` is followed by a
    continuation that cannot extend it (`t.stops rest`), `lexOne` returns exactly `t` and consumes exactly its
    text. -/
theorem lexOne_wf (t : Tk) (rest : List Char) (hw : t.WF) (hs : t.stops rest = true) :
    lexOne (t.text.toList ++ rest) = .tok t t.text.toList.length := by
  cases t with
  | kw s => exact lexOne_kw s rest hw hs
  | filepath s =>
    simp only [Tk.WF, Tk.wf] at hw
    simp only [Tk.text]
    cases hl : s.toList with
    | nil => rw [hl] at hw; simp [isPathLit] at hw
    | cons c r =>
      rw [hl] at hw
      simp only [isPathLit, Bool.and_eq_true, beq_iff_eq, List.all_eq_true] at hw
      obtain ⟨⟨rfl, h2⟩, h3⟩ := hw
      obtain ⟨b, rfl⟩ := List.getLast?_eq_some_iff.mp h2
      rw [List.dropLast_concat] at h3
      have e := lexOne_path b rest h3
      have es : s = String.ofList ('"' :: (b ++ ['"'])) := by rw [← hl, String.ofList_toList]
      rw [← es] at e
      simp only [List.cons_append, List.append_assoc, List.length_cons, List.length_append,
        List.length_nil] at e ⊢
      exact e
  | target s =>
    simp only [Tk.WF, Tk.wf] at hw
    simp only [Tk.text]
    cases hl : s.toList with
    | nil => rw [hl] at hw; simp [isTargetLit] at hw
    | cons c r =>
      rw [hl] at hw
      simp only [isTargetLit, Bool.and_eq_true, List.all_eq_true, Bool.not_eq_true',
        List.isEmpty_eq_false_iff] at hw
      obtain ⟨⟨h1, h2⟩, h3⟩ := hw
      have hrest : ∀ x, rest.head? = some x → isLower x = false := by
        apply head?_cons_imp
        rintro d r' rfl
        simpa [Tk.stops] using hs
      have e := lexOne_target c r rest h1 h2 h3 hrest
      have es : s = String.ofList (c :: r) := by rw [← hl, String.ofList_toList]
      rw [← es] at e
      simpa using e
  | comment s =>
    simp only [Tk.WF, Tk.wf] at hw
    simp only [Tk.text]
    cases hl : s.toList with
    | nil => rw [hl] at hw; simp [isCommentLit] at hw
    | cons c r =>
      rw [hl] at hw
      simp only [isCommentLit, Bool.and_eq_true, beq_iff_eq, List.all_eq_true] at hw
      obtain ⟨rfl, h2⟩ := hw
      have hrest : ∀ x, rest.head? = some x → (x != '\r' && x != '\n') = false := by
        apply head?_cons_imp
        rintro d r' rfl
        have : d = '\n' ∨ d = '\r' := by simpa [Tk.stops] using hs
        rcases this with rfl | rfl <;> decide
      have e := lexOne_comment r rest (by intro x hx; simpa using h2 x hx) hrest
      have es : s = String.ofList ('#' :: r) := by rw [← hl, String.ofList_toList]
      rw [← es] at e
      simpa using e
  | id s =>
    simp only [Tk.WF, Tk.wf, Bool.and_eq_true, Bool.not_eq_true'] at hw
    simp only [Tk.text]
    have e := lexOne_word s.toList rest hw.1 hs
    rw [String.ofList_toList, hw.2] at e
    simpa using e
  | nsid s =>
    simp only [Tk.WF, Tk.wf] at hw
    simp only [Tk.text]
    have hstop : wordStop rest = true := hs
    cases hl : s.toList with
    | nil => rw [hl] at hw; simp [isNsid] at hw
    | cons c r =>
      rw [hl] at hw
      have es : String.ofList (c :: r) = s := by rw [← hl, String.ofList_toList]
      simp only [isNsid] at hw
      split at hw
      · rename_i hc
        have : c = '.' := by simpa using hc
        subst this
        have hall : ∀ a ∈ dotSplit r, isIdent a = true := by simpa using hw
        obtain ⟨c', r', hj, hc'⟩ := joinDots_head (dotSplit_ne_nil r) hall
        rw [joinDots_dotSplit] at hj
        subst hj
        have hn : nsidLen ('.' :: c' :: r' ++ rest).length ('.' :: c' :: r' ++ rest) = ('.' :: c' :: r').length := by
          simp only [List.cons_append, List.length_cons]
          rw [nsidLen_dot_cons _ c' _ hc']
          have := nsidLen_joinDots (dotSplit (c' :: r')) rest (dotSplit_ne_nil _) hall hstop
            ((c' :: r' ++ rest).length + 1) (by rw [joinDots_dotSplit]; omega)
          rw [joinDots_dotSplit] at this
          simp only [List.cons_append, List.length_cons] at this
          rw [this]; omega
        have hi : idLen ('.' :: c' :: r' ++ rest) = 0 :=
          idLen_eq_zero (by intro x hx; simp at hx; subst hx; decide)
        rw [List.cons_append, lexOne_wordlike '.' _ (by decide), ← List.cons_append, hn, hi,
          take_append_length, es]
        simp
      · rename_i hc
        simp only [Bool.and_eq_true, List.all_eq_true, decide_eq_true_eq] at hw
        obtain ⟨hall, h2⟩ := hw
        have hn : nsidLen (c :: r ++ rest).length (c :: r ++ rest) = (c :: r).length := by
          have := nsidLen_joinDots (dotSplit (c :: r)) rest (dotSplit_ne_nil _) hall hstop
            (c :: r ++ rest).length (by rw [joinDots_dotSplit]; omega)
          rw [joinDots_dotSplit] at this
          exact this
        have hi : idLen (c :: r ++ rest) < (c :: r).length := by
          cases hd : dotSplit (c :: r) with
          | nil => exact absurd hd (dotSplit_ne_nil _)
          | cons a t =>
            cases t with
            | nil => rw [hd] at h2; simp at h2
            | cons b t' =>
              have hj := joinDots_dotSplit (c :: r)
              rw [hd, joinDots_cons_cons] at hj
              rw [← hj, List.append_assoc, List.cons_append,
                idLen_ident a _ (hall a (by rw [hd]; simp)) (by intro x hx; simp at hx; subst hx; decide)]
              simp only [List.length_append, List.length_cons]
              omega
        have hcl : isLetter c = true := by
          obtain ⟨c', r', hj, hc'⟩ := joinDots_head (dotSplit_ne_nil (c :: r)) hall
          rw [joinDots_dotSplit] at hj
          cases hj; exact hc'
        rw [List.cons_append, lexOne_wordlike c _ (by simp [hcl]), ← List.cons_append, hn,
          if_pos hi, take_append_length, es]

end Pydjinni.Front
