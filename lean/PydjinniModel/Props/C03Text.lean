import PydjinniModel.Props.C03Decl
import PydjinniModel.Props.C03Lex
/-!
# C03 — the text level: every layout of a well-formed token sequence lexes back to that sequence

`C03Decl.text_roundtrip` assumes the output of the lexer as a hypothesis. This file removes it: starting from
token *kinds* (or from a file shape) it writes source **text** — with an arbitrary layout — and proves that the
model lexer `lex` (and then `parseText`) reads back exactly what was written.

1. well-formed tokens and safe continuations
   * `Tk.WF` (decidable; `Tk.wf`)     the token kind could have been produced by the lexer: `kw s` with `s` one of
                                      the 29 literals; `id s` a letter followed by letters/digits/`_`, not a
                                      keyword; `nsid s` an optional leading dot and identifiers joined by single
                                      dots (at least one dot); `comment s` = `#…` without `\r`/`\n`;
                                      `filepath s` = `"…"` without inner `"`; `target s` = `+`/`-` and lower-case
                                      letters
   * `Tk.stops t rest` (decidable)    `rest` cannot extend `t`: anything after punctuation/`@import`/`->`/paths;
                                      `wordStop` after words (no letter/digit/`_`, no `.x`); no letter after `.`;
                                      no lower-case letter after a target flag; end of input or `\n`/`\r` after a
                                      comment
   * `lexOne_wf`                      `t.WF → t.stops rest → lexOne (t.text ++ rest) = .tok t |t.text|`
   * `stops_nil`, `stops_ws`, `stops_append`
2. rendering with an arbitrary layout
   * `renderTks sep tks`              `sep 0`, then `tks[i]` followed by the run `sep (i+1)`, for all `i`
   * `needsSpace a b` (decidable)     must `a` and `b` be separated?
   * `Layout sep tks` (decidable; `layout_iff`)   every run is white space (`isWs`: blank, tab, `\r`, `\n`, in any
                                      number and order); an *empty* run only between tokens with
                                      `needsSpace = false` (or at the end); after a comment a non-empty run starts
                                      with `\n` or `\r`.  `Spaced` (strict: non-empty run after every token) implies it;
                                      `tight_layout`, `line_layout`: two layouts admissible for *every* sequence
   * `scan_renderFrom`                the lexer finds exactly the written tokens and the written runs
   * **`lex_render`**                 `(lex (renderTks sep tks)).map (·.map (·.tk)) = some tks` for all well-formed
                                      `tks` and all admissible `sep`;  `lex_render_exact`: with all positions
   * `lex_layout_independent`, `renderTks_injective`
3. files
   * `FileShape.WF` (decidable), `FileShape.good` (syntactic, on the shape) with `FileShape.good_wf`
   * **`source_roundtrip`**           `parseText (renderTks sep (printFile f))` returns a file of shape `f.erase`
   * **`layout_independence`**, **`source_injective`**, `source_exists`
4. positions
   * `lex_render_position`            the `k`-th token is `tks[k]`, starts at `advance 1 0` of the rendered prefix
                                      `renderTks sep (tks.take k)` and ends at `advance` of prefix ++ its text
   * `lex_render_position_prefix`     equal rendered prefixes ⇒ equal start position of the `k`-th token
6. exactness (the conditions are necessary, not only sufficient)
   * `lexOne_wf_iff`                  for well-formed `t`: `lexOne (t.text ++ rest) = .tok t |t.text| ↔ t.stops rest`
   * **`lex_render_iff`**             for well-formed tokens and white-space runs: the lexer returns the written
                                      tokens **iff** `Layout sep tks`;  `glue_iff`: `needsSpace` is exact
7. completeness (every accepted text is a rendering)
   * `lexOne_tok_wf`, `lex_tokens_wf`  the lexer only produces well-formed tokens
   * `lex_is_render`                  `lex s = some toks` ⇒ `s = renderTks sep kinds` for an admissible `sep` read off `s`
   * **`lex_iff_render`**             `(lex s).map kinds = some tks ↔ (∀ t ∈ tks, t.WF) ∧ ∃ sep, Layout sep tks ∧
                                      renderTks sep tks = s` — the accepted texts are exactly the admissible renderings
5. non-vacuity: `exText` rendered with four layouts (kernel-evaluated; `#guard`s are tests), and examples showing
   that `Layout`, `needsSpace` and `Tk.WF` cannot be dropped.
-/
set_option linter.unusedSimpArgs false

namespace Pydjinni.Front

/-! ## 1. well-formed token kinds -/

/-- an `ID` of the grammar: a letter followed by letters, digits, `_` -/
def isIdent : List Char → Bool
  | [] => false
  | c :: r => isLetter c && r.all isLetterOrDigit

/-- split at every `.` (never returns `[]`) -/
def dotSplit : List Char → List (List Char)
  | [] => [[]]
  | c :: cs =>
    if c == '.' then [] :: dotSplit cs
    else match dotSplit cs with
      | [] => [[c]]
      | h :: t => (c :: h) :: t

/-- the inverse of `dotSplit` -/
def joinDots : List (List Char) → List Char
  | [] => []
  | [a] => a
  | a :: b :: r => a ++ '.' :: joinDots (b :: r)

/-- an `NS_ID` that is not a plain `ID`: `.a`, `a.b`, `.a.b.c` … — an optional leading dot, then identifiers
    separated by single dots; without a leading dot at least two components. (Components may be keywords: the
    lexer does not look at them.) -/
def isNsid (cs : List Char) : Bool :=
  match cs with
  | [] => false
  | c :: r =>
    if c == '.' then (dotSplit r).all isIdent
    else (dotSplit cs).all isIdent && decide (2 ≤ (dotSplit cs).length)

/-- a `FILEPATH` literal: `"…"` with no `"` inside (line breaks are allowed, as in the grammar) -/
def isPathLit : List Char → Bool
  | [] => false
  | c :: r => c == '"' && r.getLast? == some '"' && r.dropLast.all (fun x => x != '"')

/-- a target flag: `+` or `-` followed by one or more lower-case letters -/
def isTargetLit : List Char → Bool
  | [] => false
  | c :: r => (c == '+' || c == '-') && !r.isEmpty && r.all isLower

/-- a comment: `#` followed by anything but `\r`, `\n` -/
def isCommentLit : List Char → Bool
  | [] => false
  | c :: r => c == '#' && r.all (fun x => x != '\r' && x != '\n')

/-- **Well-formed token kinds**: the token could have been produced by the lexer.
    * `kw s`: `s` is one of the 29 literal spellings;
    * `id s`: an identifier (letter, then letters/digits/`_`) that is not a keyword;
    * `nsid s`: a dotted name (`isNsid`);
    * `comment s`: `#…` without `\r`/`\n`;
    * `filepath s`: `"…"` without inner `"`;
    * `target s`: `+`/`-` and lower-case letters. -/
def Tk.wf : Tk → Bool
  | .kw s => literals.contains s
  | .filepath s => isPathLit s.toList
  | .target s => isTargetLit s.toList
  | .comment s => isCommentLit s.toList
  | .id s => isIdent s.toList && !literals.contains s
  | .nsid s => isNsid s.toList

def Tk.WF (t : Tk) : Prop := t.wf = true

instance (t : Tk) : Decidable t.WF := inferInstanceAs (Decidable (t.wf = true))

/-- what may follow a word (`ID`, `NS_ID`, word keyword) without being swallowed by it: the end of input, or a
    character that is not a letter/digit/`_` — and, if it is a `.`, the character after it is not a letter
    (`a.b` is one `NS_ID`; `a.` and `a.1` are not) -/
def wordStop : List Char → Bool
  | [] => true
  | c :: r =>
    if c == '.' then (match r with
      | [] => true
      | d :: _ => !isLetter d)
    else !isLetterOrDigit c

/-- **Separator-safe continuation**: `t.stops rest` says that the characters `rest` following the text of `t`
    cannot extend the token.
    * punctuation, `@import`, `@extern`, `->`, file paths: anything may follow;
    * words (identifiers, dotted names, word keywords): `wordStop`;
    * the keyword `.`: not a letter (`.a` is an `NS_ID`);
    * target flags: not a lower-case letter;
    * comments: the end of input or a line end (`\n` or `\r`). -/
def Tk.stops : Tk → List Char → Bool
  | .kw s, rest =>
    match s.toList with
    | [] => true
    | c :: _ =>
      if isLetter c then wordStop rest
      else if c == '.' then (match rest with
        | [] => true
        | d :: _ => !isLetter d)
      else true
  | .filepath _, _ => true
  | .target _, rest => (match rest with
    | [] => true
    | d :: _ => !isLower d)
  | .comment _, rest => (match rest with
    | [] => true
    | d :: _ => d == '\n' || d == '\r')
  | .id _, rest => wordStop rest
  | .nsid _, rest => wordStop rest

/-! ### character classes -/

theorem ne_of_pred {p : Char → Bool} {c d : Char} (hc : p c = true) (hd : p d = false) : c ≠ d := by
  rintro rfl; rw [hc] at hd; cases hd

theorem beq_false_of_pred {p : Char → Bool} {c d : Char} (hc : p c = true) (hd : p d = false) :
    (c == d) = false := by
  simpa using ne_of_pred hc hd

theorem isLetter_isLetterOrDigit {c : Char} (h : isLetter c = true) : isLetterOrDigit c = true := by
  simp [isLetterOrDigit, h]

theorem isLetter_not_ws {c : Char} (h : isLetter c = true) : isWs c = false := by
  cases hw : isWs c with
  | false => rfl
  | true => rw [isWs_not_letter hw] at h; cases h

/-- a character that starts a word or is a dot reaches the `ID`/`NS_ID` branch of `lexOne` -/
theorem lexOne_wordlike (c : Char) (rest : List Char) (h : (isLetter c || c == '.') = true) :
    lexOne (c :: rest) =
      if nsidLen (c :: rest).length (c :: rest) > idLen (c :: rest) then
        .tok (.nsid (String.ofList ((c :: rest).take (nsidLen (c :: rest).length (c :: rest)))))
          (nsidLen (c :: rest).length (c :: rest))
      else if idLen (c :: rest) > 0 then
        if literals.contains (String.ofList ((c :: rest).take (idLen (c :: rest)))) then
          .tok (.kw (String.ofList ((c :: rest).take (idLen (c :: rest))))) (idLen (c :: rest))
        else .tok (.id (String.ofList ((c :: rest).take (idLen (c :: rest))))) (idLen (c :: rest))
      else .tok (.kw ".") 1 := by
  have h1 : isWs c = false ∧ (c == '#') = false ∧ (c == '"') = false ∧ (c == '+' || c == '-') = false ∧
      (c == '@') = false := by
    rcases Bool.or_eq_true_iff.mp h with hl | hd
    · refine ⟨isLetter_not_ws hl, beq_false_of_pred hl (by decide), beq_false_of_pred hl (by decide), ?_,
        beq_false_of_pred hl (by decide)⟩
      rw [beq_false_of_pred hl (d := '+') (by decide), beq_false_of_pred hl (d := '-') (by decide)]; rfl
    · have : c = '.' := by simpa using hd
      subst this
      decide
  obtain ⟨a1, a2, a3, a4, a5⟩ := h1
  rw [lexOne_cons]
  simp only [a1, a2, a3, a4, a5, h, Bool.false_eq_true, if_false, if_true]

/-! ### spans -/

theorem spanLen_append_all (p : Char → Bool) (a rest : List Char) (ha : ∀ x ∈ a, p x = true)
    (hr : ∀ x, rest.head? = some x → p x = false) : spanLen p (a ++ rest) = a.length := by
  induction a with
  | nil =>
    cases rest with
    | nil => rfl
    | cons x r => simp [spanLen, hr x rfl]
  | cons y a ih =>
    simp only [List.cons_append, spanLen, ha y (by simp), if_true, List.length_cons]
    rw [ih (fun x hx => ha x (List.mem_cons_of_mem _ hx))]

theorem wordStop_head {rest : List Char} (h : wordStop rest = true) :
    ∀ x, rest.head? = some x → isLetterOrDigit x = false := by
  intro x hx
  cases rest with
  | nil => simp at hx
  | cons c r =>
    simp at hx; subst hx
    simp only [wordStop] at h
    split at h
    · rename_i hc
      have : c = '.' := by simpa using hc
      subst this; decide
    · simpa using h

theorem isIdent_cons {c : Char} {r : List Char} (h : isIdent (c :: r) = true) :
    isLetter c = true ∧ ∀ x ∈ r, isLetterOrDigit x = true := by
  simpa [isIdent] using h

theorem isIdent_ne_nil {a : List Char} (h : isIdent a = true) : a ≠ [] := by
  rintro rfl; simp [isIdent] at h

/-- an identifier followed by a non-identifier character: `idLen` is its length -/
theorem idLen_ident (a rest : List Char) (ha : isIdent a = true)
    (hr : ∀ x, rest.head? = some x → isLetterOrDigit x = false) : idLen (a ++ rest) = a.length := by
  cases a with
  | nil => simp [isIdent] at ha
  | cons c r =>
    obtain ⟨h1, h2⟩ := isIdent_cons ha
    simp only [List.cons_append, idLen, h1, if_true, List.length_cons]
    rw [spanLen_append_all _ _ _ h2 hr]; omega

theorem idLen_eq_zero {rest : List Char} (h : ∀ x, rest.head? = some x → isLetter x = false) : idLen rest = 0 := by
  cases rest with
  | nil => rfl
  | cons c r => simp [idLen, h c rfl]

/-- after a word stop no further `NS_ID` component follows -/
theorem nsidLen_wordStop (fuel : Nat) {rest : List Char} (h : wordStop rest = true) : nsidLen fuel rest = 0 := by
  cases fuel with
  | zero => rfl
  | succ f =>
    cases rest with
    | nil => exact nsidLen_nil _
    | cons c r =>
      simp only [wordStop] at h
      by_cases hc : c = '.'
      · subst hc
        rw [nsidLen_succ_dot]
        have : idLen r = 0 := by
          apply idLen_eq_zero
          intro x hx
          cases r with
          | nil => simp at hx
          | cons d r' => simp at hx; subst hx; simpa using h
        simp [this]
      · rw [nsidLen_succ_nodot _ _ (by simpa using hc)]
        have h' : isLetterOrDigit c = false := by simpa [hc] using h
        have : idLen (c :: r) = 0 := by
          apply idLen_eq_zero
          intro x hx
          simp at hx; subst hx
          cases hl : isLetter c with
          | false => rfl
          | true => rw [isLetter_isLetterOrDigit hl] at h'; cases h'
        simp [this]

theorem joinDots_cons_cons (a b : List Char) (r : List (List Char)) :
    joinDots (a :: b :: r) = a ++ '.' :: joinDots (b :: r) := rfl

theorem joinDots_head {comps : List (List Char)} (hne : comps ≠ []) (hall : ∀ a ∈ comps, isIdent a = true) :
    ∃ c r, joinDots comps = c :: r ∧ isLetter c = true := by
  cases comps with
  | nil => exact absurd rfl hne
  | cons a t =>
    have ha := hall a (by simp)
    cases a with
    | nil => simp [isIdent] at ha
    | cons c r =>
      obtain ⟨h1, _⟩ := isIdent_cons ha
      cases t with
      | nil => exact ⟨c, r, rfl, h1⟩
      | cons b t => exact ⟨c, r ++ '.' :: joinDots (b :: t), rfl, h1⟩

/-- a dot before a word: one more character -/
theorem nsidLen_dot_cons (fuel : Nat) (c : Char) (r : List Char) (hc : isLetter c = true) :
    nsidLen (fuel+1) ('.' :: c :: r) = 1 + nsidLen (fuel+1) (c :: r) := by
  have hne : (c :: r).head? ≠ some '.' := by
    simp; exact ne_of_pred hc (by decide)
  have hpos : idLen (c :: r) ≠ 0 := by
    have := (idLen_pos_iff c r).mpr hc; omega
  rw [nsidLen_succ_dot, nsidLen_succ_nodot _ _ hne]
  simp only [beq_iff_eq, hpos, if_false]
  omega

/-- **dotted names**: on identifiers joined by dots and followed by a word stop, `nsidLen` is the whole length -/
theorem nsidLen_joinDots (comps : List (List Char)) (rest : List Char) (hne : comps ≠ [])
    (hall : ∀ a ∈ comps, isIdent a = true) (hr : wordStop rest = true) (fuel : Nat)
    (hf : (joinDots comps ++ rest).length ≤ fuel) :
    nsidLen fuel (joinDots comps ++ rest) = (joinDots comps).length := by
  induction comps generalizing fuel with
  | nil => exact absurd rfl hne
  | cons a t ih =>
    have ha := hall a (by simp)
    have hane := isIdent_ne_nil ha
    have hapos : 0 < a.length := List.length_pos_iff.mpr hane
    have hhd : ∀ X : List Char, (a ++ X).head? ≠ some '.' := by
      intro X
      cases a with
      | nil => exact absurd rfl hane
      | cons c r =>
        simp; exact ne_of_pred (isIdent_cons ha).1 (by decide)
    cases t with
    | nil =>
      simp only [joinDots] at hf ⊢
      cases fuel with
      | zero => simp only [List.length_append] at hf; omega
      | succ f =>
        rw [nsidLen_succ_nodot _ _ (hhd _), idLen_ident a rest ha (wordStop_head hr),
          List.drop_left' rfl, nsidLen_wordStop f hr]
        have : a.length ≠ 0 := by omega
        simp [this]
    | cons b t' =>
      rw [joinDots_cons_cons, List.append_assoc, List.cons_append] at hf ⊢
      have hall' : ∀ x ∈ b :: t', isIdent x = true := fun x hx => hall x (List.mem_cons_of_mem _ hx)
      obtain ⟨c, r, hj, hc⟩ := joinDots_head (comps := b :: t') (by simp) hall'
      cases fuel with
      | zero => simp at hf
      | succ f =>
        have hdot : ∀ x, ('.' :: (joinDots (b :: t') ++ rest)).head? = some x → isLetterOrDigit x = false := by
          intro x hx; simp at hx; subst hx; decide
        rw [nsidLen_succ_nodot _ _ (hhd _), idLen_ident a _ ha hdot, List.drop_left' rfl]
        simp only [List.length_append, List.length_cons] at hf
        cases f with
        | zero => omega
        | succ f' =>
          have e : '.' :: (joinDots (b :: t') ++ rest) = '.' :: c :: (r ++ rest) := by rw [hj]; rfl
          rw [e, nsidLen_dot_cons f' c _ hc]
          have e' : c :: (r ++ rest) = joinDots (b :: t') ++ rest := by rw [hj]; rfl
          rw [e', ih (by simp) hall' (f'+1) (by simp only [List.length_append]; omega)]
          have : a.length ≠ 0 := by omega
          simp only [beq_iff_eq, this, if_false, List.length_append, List.length_cons]
          omega

theorem joinDots_dotSplit (cs : List Char) : joinDots (dotSplit cs) = cs := by
  induction cs with
  | nil => rfl
  | cons c cs ih =>
    simp only [dotSplit]
    split
    · rename_i hc
      have : c = '.' := by simpa using hc
      subst this
      cases h : dotSplit cs with
      | nil => rw [h] at ih; simp [joinDots] at ih; subst ih; simp [dotSplit] at h
      | cons a t => rw [h] at ih; rw [joinDots_cons_cons, ih]; rfl
    · split
      · rename_i h; rw [h] at ih; simp [joinDots] at ih; subst ih; simp [dotSplit] at h
      · rename_i a t h
        rw [h] at ih
        cases t with
        | nil => simp [joinDots] at ih ⊢; exact ih
        | cons b t' => rw [joinDots_cons_cons] at ih ⊢; rw [List.cons_append, ih]

theorem dotSplit_ne_nil (cs : List Char) : dotSplit cs ≠ [] := by
  cases cs with
  | nil => simp [dotSplit]
  | cons c cs =>
    simp only [dotSplit]
    split
    · simp
    · split <;> simp

/-! ### `lexOne` on the text of a well-formed token followed by a safe continuation -/

theorem take_append_length (w rest : List Char) : (w ++ rest).take w.length = w := List.take_left' rfl

/-- a word followed by a word stop is read as a whole: as a keyword if it is one, as an identifier otherwise -/
theorem lexOne_word (w rest : List Char) (hw : isIdent w = true) (hr : wordStop rest = true) :
    lexOne (w ++ rest) =
      if literals.contains (String.ofList w) then .tok (.kw (String.ofList w)) w.length
      else .tok (.id (String.ofList w)) w.length := by
  cases w with
  | nil => simp [isIdent] at hw
  | cons c r =>
    obtain ⟨h1, h2⟩ := isIdent_cons hw
    have hi : idLen (c :: r ++ rest) = (c :: r).length := idLen_ident _ _ hw (wordStop_head hr)
    have hn : nsidLen (c :: r ++ rest).length (c :: r ++ rest) = (c :: r).length := by
      have := nsidLen_joinDots [c :: r] rest (by simp) (by simpa using hw) hr _ (Nat.le_refl _)
      simpa [joinDots] using this
    rw [List.cons_append, lexOne_wordlike c _ (by simp [h1])]
    rw [← List.cons_append, hi, hn, take_append_length]
    simp

/-- the single-character tokens of the last branch of `lexOne` -/
def isPunctChar (c : Char) : Bool :=
  !isWs c && c != '#' && c != '"' && !(c == '+' || c == '-') && c != '@' && !(isLetter c || c == '.') &&
    literals.contains (String.singleton c)

theorem lexOne_punct (c : Char) (rest : List Char) (h : isPunctChar c = true) :
    lexOne (c :: rest) = .tok (.kw (String.singleton c)) 1 := by
  simp only [isPunctChar, Bool.and_eq_true, Bool.not_eq_true', bne_iff_ne, ne_eq] at h
  obtain ⟨⟨⟨⟨⟨⟨a1, a2⟩, a3⟩, a4⟩, a5⟩, a6⟩, a7⟩ := h
  have a7' : String.singleton c ∈ literals := by simpa using a7
  rw [lexOne_cons]
  simp [a1, a2, a3, a4, a5, a6, a7']

/-- the 29 literals fall into six classes -/
def kwClassOK (s : String) : Bool :=
  isIdent s.toList || s == "." || s == "@import" || s == "@extern" || s == "->" ||
    (match s.toList with
     | [c] => isPunctChar c
     | _ => false)

theorem literals_classified : literals.all kwClassOK = true := by decide +kernel

theorem lexOne_dot (rest : List Char) (h : ∀ x, rest.head? = some x → isLetter x = false) :
    lexOne ('.' :: rest) = .tok (.kw ".") 1 := by
  rw [lexOne_wordlike '.' rest (by decide)]
  have h0 : idLen ('.' :: rest) = 0 := idLen_eq_zero (by intro x hx; simp at hx; subst hx; decide)
  have h1 : nsidLen ('.' :: rest).length ('.' :: rest) = 0 := by
    rw [List.length_cons, nsidLen_succ_dot, idLen_eq_zero h]; rfl
  rw [h0, h1]
  simp

theorem lexOne_at (rest : List Char) :
    lexOne ('@' :: rest) =
      if startsWith "@import".toList ('@' :: rest) then .tok (.kw "@import") 7
      else if startsWith "@extern".toList ('@' :: rest) then .tok (.kw "@extern") 7
      else .err := by
  rw [lexOne_cons]
  rw [if_neg (by decide), if_neg (by decide), if_neg (by decide), if_neg (by decide), if_pos (by decide)]

theorem lexOne_arrow (rest : List Char) : lexOne ('-' :: '>' :: rest) = .tok (.kw "->") 2 := by
  rw [lexOne_cons]
  rw [if_neg (by decide), if_neg (by decide), if_neg (by decide), if_pos (by decide)]
  have : spanLen isLower ('>' :: rest) = 0 := by simp [spanLen]; decide
  rw [this]
  simp

theorem lexOne_kw (s : String) (rest : List Char) (h : literals.contains s = true)
    (hr : (Tk.kw s).stops rest = true) : lexOne (s.toList ++ rest) = .tok (.kw s) s.toList.length := by
  have hm : s ∈ literals := by simpa using h
  have hc := List.all_eq_true.mp literals_classified s hm
  simp only [kwClassOK, Bool.or_eq_true, beq_iff_eq] at hc
  rcases hc with ((((hc | rfl) | rfl) | rfl) | rfl) | hc
  · have hstop : wordStop rest = true := by
      cases hs : s.toList with
      | nil => rw [hs] at hc; simp [isIdent] at hc
      | cons c r =>
        rw [hs] at hc
        simpa only [Tk.stops, hs, (isIdent_cons hc).1, if_true] using hr
    rw [lexOne_word _ _ hc hstop, String.ofList_toList, if_pos h]
  · have e : ".".toList = ['.'] := by decide +kernel
    rw [e]
    apply lexOne_dot
    intro x hx
    cases rest with
    | nil => simp at hx
    | cons d r =>
      simp at hx; subst hx
      simp only [Tk.stops, e] at hr
      rw [if_neg (by decide), if_pos (by decide)] at hr
      simpa using hr
  · have e : "@import".toList = '@' :: "import".toList := by decide +kernel
    have e7 : "@import".toList.length = 7 := by decide +kernel
    have hp : startsWith "@import".toList ('@' :: ("import".toList ++ rest)) = true := by
      rw [← List.cons_append, ← e]; exact List.isPrefixOf_iff_prefix.mpr (List.prefix_append _ _)
    rw [e7, e, List.cons_append, lexOne_at, if_pos hp]
  · have e : "@extern".toList = '@' :: "extern".toList := by decide +kernel
    have e7 : "@extern".toList.length = 7 := by decide +kernel
    have hp : startsWith "@extern".toList ('@' :: ("extern".toList ++ rest)) = true := by
      rw [← List.cons_append, ← e]; exact List.isPrefixOf_iff_prefix.mpr (List.prefix_append _ _)
    have hn : startsWith "@import".toList ('@' :: ("extern".toList ++ rest)) = false := by
      have e1 : "@import".toList = ['@', 'i', 'm', 'p', 'o', 'r', 't'] := by decide +kernel
      have e2 : "extern".toList = ['e', 'x', 't', 'e', 'r', 'n'] := by decide +kernel
      rw [e1, e2]
      simp [startsWith, List.isPrefixOf]
    rw [e7, e, List.cons_append, lexOne_at, hn, if_pos hp]
    simp
  · have e : "->".toList = ['-', '>'] := by decide +kernel
    rw [e]
    exact lexOne_arrow rest
  · cases hs : s.toList with
    | nil => rw [hs] at hc; simp at hc
    | cons c r =>
      cases r with
      | cons d r' => rw [hs] at hc; simp at hc
      | nil =>
        rw [hs] at hc
        have es : s = String.singleton c := by
          rw [← String.ofList_toList (s := s), hs]; rfl
        rw [List.cons_append, List.nil_append, lexOne_punct c rest hc, ← es]
        rfl

theorem lexOne_comment (r rest : List Char) (hr : ∀ x ∈ r, (x != '\r' && x != '\n') = true)
    (hrest : ∀ x, rest.head? = some x → (x != '\r' && x != '\n') = false) :
    lexOne ('#' :: r ++ rest) = .tok (.comment (String.ofList ('#' :: r))) (r.length + 1) := by
  have ht : ('#' :: (r ++ rest)).take (r.length + 1) = '#' :: r := by
    rw [List.take_succ_cons, List.take_left' rfl]
  rw [List.cons_append, lexOne_cons, if_neg (by decide), if_pos (by decide),
    spanLen_append_all _ r rest hr hrest, ht]

theorem lexOne_path (b rest : List Char) (hb : ∀ x ∈ b, (x != '"') = true) :
    lexOne ('"' :: (b ++ '"' :: rest)) =
      .tok (.filepath (String.ofList ('"' :: (b ++ ['"'])))) (b.length + 2) := by
  have hs : spanLen (fun x => x != '"') (b ++ '"' :: rest) = b.length :=
    spanLen_append_all _ b _ hb (by intro x hx; simp at hx; subst hx; decide)
  have ht : ('"' :: (b ++ '"' :: rest)).take (b.length + 2) = '"' :: (b ++ ['"']) := by
    rw [List.take_succ_cons, List.take_length_add_append]; rfl
  rw [lexOne_cons, if_neg (by decide), if_neg (by decide), if_pos (by decide), hs,
    if_pos (by simp), ht]

theorem lexOne_target (c : Char) (r rest : List Char) (hc : (c == '+' || c == '-') = true) (hne : r ≠ [])
    (hr : ∀ x ∈ r, isLower x = true) (hrest : ∀ x, rest.head? = some x → isLower x = false) :
    lexOne (c :: r ++ rest) = .tok (.target (String.ofList (c :: r))) (r.length + 1) := by
  have ht : (c :: (r ++ rest)).take (r.length + 1) = c :: r := by
    rw [List.take_succ_cons, List.take_left' rfl]
  have hpos : spanLen isLower (r ++ rest) > 0 := by
    rw [spanLen_append_all _ r rest hr hrest]; exact List.length_pos_iff.mpr hne
  have h3 : isWs c = false ∧ (c == '#') = false ∧ (c == '"') = false := by
    rcases (by simpa using hc : c = '+' ∨ c = '-') with rfl | rfl <;> decide
  obtain ⟨a1, a2, a3⟩ := h3
  rw [List.cons_append, lexOne_cons]
  simp only [a1, a2, a3, hc, Bool.false_eq_true, if_false, if_true]
  rw [if_pos hpos, spanLen_append_all _ r rest hr hrest, ht]

theorem head?_cons_imp {rest : List Char} {P : Char → Prop}
    (h : ∀ d r, rest = d :: r → P d) : ∀ x, rest.head? = some x → P x := by
  intro x hx
  cases rest with
  | nil => simp at hx
  | cons d r => simp at hx; subst hx; exact h d r rfl

/-- **One step on a well-formed token**: if the text of a well-formed token kind `t` is followed by a
    continuation that cannot extend it (`t.stops rest`), `lexOne` returns exactly `t` and consumes exactly its
    text. -/
theorem lexOne_wf (t : Tk) (rest : List Char) (hw : t.WF) (hs : t.stops rest = true) :
    lexOne (t.text.toList ++ rest) = .tok t t.text.toList.length := by
  cases t with
  | kw s => exact lexOne_kw s rest hw hs
  | filepath s =>
    simp only [Tk.WF, Tk.wf] at hw
    simp only [Tk.text]
    cases hl : s.toList with
    | nil => rw [hl] at hw; simp [isPathLit] at hw
    | cons c r =>
      rw [hl] at hw
      simp only [isPathLit, Bool.and_eq_true, beq_iff_eq, List.all_eq_true] at hw
      obtain ⟨⟨rfl, h2⟩, h3⟩ := hw
      obtain ⟨b, rfl⟩ := List.getLast?_eq_some_iff.mp h2
      rw [List.dropLast_concat] at h3
      have e := lexOne_path b rest h3
      have es : s = String.ofList ('"' :: (b ++ ['"'])) := by rw [← hl, String.ofList_toList]
      rw [← es] at e
      simp only [List.cons_append, List.append_assoc, List.length_cons, List.length_append,
        List.length_nil] at e ⊢
      exact e
  | target s =>
    simp only [Tk.WF, Tk.wf] at hw
    simp only [Tk.text]
    cases hl : s.toList with
    | nil => rw [hl] at hw; simp [isTargetLit] at hw
    | cons c r =>
      rw [hl] at hw
      simp only [isTargetLit, Bool.and_eq_true, List.all_eq_true, Bool.not_eq_true',
        List.isEmpty_eq_false_iff] at hw
      obtain ⟨⟨h1, h2⟩, h3⟩ := hw
      have hrest : ∀ x, rest.head? = some x → isLower x = false := by
        apply head?_cons_imp
        rintro d r' rfl
        simpa [Tk.stops] using hs
      have e := lexOne_target c r rest h1 h2 h3 hrest
      have es : s = String.ofList (c :: r) := by rw [← hl, String.ofList_toList]
      rw [← es] at e
      simpa using e
  | comment s =>
    simp only [Tk.WF, Tk.wf] at hw
    simp only [Tk.text]
    cases hl : s.toList with
    | nil => rw [hl] at hw; simp [isCommentLit] at hw
    | cons c r =>
      rw [hl] at hw
      simp only [isCommentLit, Bool.and_eq_true, beq_iff_eq, List.all_eq_true] at hw
      obtain ⟨rfl, h2⟩ := hw
      have hrest : ∀ x, rest.head? = some x → (x != '\r' && x != '\n') = false := by
        apply head?_cons_imp
        rintro d r' rfl
        have : d = '\n' ∨ d = '\r' := by simpa [Tk.stops] using hs
        rcases this with rfl | rfl <;> decide
      have e := lexOne_comment r rest (by intro x hx; simpa using h2 x hx) hrest
      have es : s = String.ofList ('#' :: r) := by rw [← hl, String.ofList_toList]
      rw [← es] at e
      simpa using e
  | id s =>
    simp only [Tk.WF, Tk.wf, Bool.and_eq_true, Bool.not_eq_true'] at hw
    simp only [Tk.text]
    have e := lexOne_word s.toList rest hw.1 hs
    rw [String.ofList_toList, hw.2] at e
    simpa using e
  | nsid s =>
    simp only [Tk.WF, Tk.wf] at hw
    simp only [Tk.text]
    have hstop : wordStop rest = true := hs
    cases hl : s.toList with
    | nil => rw [hl] at hw; simp [isNsid] at hw
    | cons c r =>
      rw [hl] at hw
      have es : String.ofList (c :: r) = s := by rw [← hl, String.ofList_toList]
      simp only [isNsid] at hw
      split at hw
      · rename_i hc
        have : c = '.' := by simpa using hc
        subst this
        have hall : ∀ a ∈ dotSplit r, isIdent a = true := by simpa using hw
        obtain ⟨c', r', hj, hc'⟩ := joinDots_head (dotSplit_ne_nil r) hall
        rw [joinDots_dotSplit] at hj
        subst hj
        have hn : nsidLen ('.' :: c' :: r' ++ rest).length ('.' :: c' :: r' ++ rest) = ('.' :: c' :: r').length := by
          simp only [List.cons_append, List.length_cons]
          rw [nsidLen_dot_cons _ c' _ hc']
          have := nsidLen_joinDots (dotSplit (c' :: r')) rest (dotSplit_ne_nil _) hall hstop
            ((c' :: r' ++ rest).length + 1) (by rw [joinDots_dotSplit]; omega)
          rw [joinDots_dotSplit] at this
          simp only [List.cons_append, List.length_cons] at this
          rw [this]; omega
        have hi : idLen ('.' :: c' :: r' ++ rest) = 0 :=
          idLen_eq_zero (by intro x hx; simp at hx; subst hx; decide)
        rw [List.cons_append, lexOne_wordlike '.' _ (by decide), ← List.cons_append, hn, hi,
          take_append_length, es]
        simp
      · rename_i hc
        simp only [Bool.and_eq_true, List.all_eq_true, decide_eq_true_eq] at hw
        obtain ⟨hall, h2⟩ := hw
        have hn : nsidLen (c :: r ++ rest).length (c :: r ++ rest) = (c :: r).length := by
          have := nsidLen_joinDots (dotSplit (c :: r)) rest (dotSplit_ne_nil _) hall hstop
            (c :: r ++ rest).length (by rw [joinDots_dotSplit]; omega)
          rw [joinDots_dotSplit] at this
          exact this
        have hi : idLen (c :: r ++ rest) < (c :: r).length := by
          cases hd : dotSplit (c :: r) with
          | nil => exact absurd hd (dotSplit_ne_nil _)
          | cons a t =>
            cases t with
            | nil => rw [hd] at h2; simp at h2
            | cons b t' =>
              have hj := joinDots_dotSplit (c :: r)
              rw [hd, joinDots_cons_cons] at hj
              rw [← hj, List.append_assoc, List.cons_append,
                idLen_ident a _ (hall a (by rw [hd]; simp)) (by intro x hx; simp at hx; subst hx; decide)]
              simp only [List.length_append, List.length_cons]
              omega
        have hcl : isLetter c = true := by
          obtain ⟨c', r', hj, hc'⟩ := joinDots_head (dotSplit_ne_nil (c :: r)) hall
          rw [joinDots_dotSplit] at hj
          cases hj; exact hc'
        rw [List.cons_append, lexOne_wordlike c _ (by simp [hcl]), ← List.cons_append, hn,
          if_pos hi, take_append_length, es]

/-! ### facts about `WF` and `stops` -/

theorem literals_heads : literals.all (fun s => match s.toList with
    | c :: _ => !isWs c
    | [] => false) = true := by decide +kernel

/-- the text of a well-formed token is non-empty and does not start with white space -/
theorem wf_text_head {t : Tk} (hw : t.WF) : ∃ c r, t.text.toList = c :: r ∧ isWs c = false := by
  cases t with
  | kw s =>
    have hm : s ∈ literals := by simpa [Tk.WF, Tk.wf] using hw
    have := List.all_eq_true.mp literals_heads s hm
    simp only [Tk.text]
    cases hl : s.toList with
    | nil => rw [hl] at this; simp at this
    | cons c r => rw [hl] at this; exact ⟨c, r, rfl, by simpa using this⟩
  | filepath s =>
    simp only [Tk.WF, Tk.wf] at hw
    simp only [Tk.text]
    cases hl : s.toList with
    | nil => rw [hl] at hw; simp [isPathLit] at hw
    | cons c r =>
      rw [hl] at hw
      simp only [isPathLit, Bool.and_eq_true, beq_iff_eq] at hw
      obtain ⟨⟨rfl, -⟩, -⟩ := hw
      exact ⟨_, r, rfl, by decide⟩
  | target s =>
    simp only [Tk.WF, Tk.wf] at hw
    simp only [Tk.text]
    cases hl : s.toList with
    | nil => rw [hl] at hw; simp [isTargetLit] at hw
    | cons c r =>
      rw [hl] at hw
      simp only [isTargetLit, Bool.and_eq_true] at hw
      refine ⟨c, r, rfl, ?_⟩
      rcases (by simpa using hw.1.1 : c = '+' ∨ c = '-') with rfl | rfl <;> decide
  | comment s =>
    simp only [Tk.WF, Tk.wf] at hw
    simp only [Tk.text]
    cases hl : s.toList with
    | nil => rw [hl] at hw; simp [isCommentLit] at hw
    | cons c r =>
      rw [hl] at hw
      simp only [isCommentLit, Bool.and_eq_true, beq_iff_eq] at hw
      obtain ⟨rfl, -⟩ := hw
      exact ⟨_, r, rfl, by decide⟩
  | id s =>
    simp only [Tk.WF, Tk.wf, Bool.and_eq_true] at hw
    simp only [Tk.text]
    cases hl : s.toList with
    | nil => rw [hl] at hw; simp [isIdent] at hw
    | cons c r =>
      rw [hl] at hw
      exact ⟨c, r, rfl, isLetter_not_ws (isIdent_cons hw.1).1⟩
  | nsid s =>
    simp only [Tk.WF, Tk.wf] at hw
    simp only [Tk.text]
    cases hl : s.toList with
    | nil => rw [hl] at hw; simp [isNsid] at hw
    | cons c r =>
      rw [hl] at hw
      refine ⟨c, r, rfl, ?_⟩
      simp only [isNsid] at hw
      split at hw
      · rename_i hc
        have : c = '.' := by simpa using hc
        subst this; decide
      · simp only [Bool.and_eq_true, List.all_eq_true] at hw
        obtain ⟨c', r', hj, hc'⟩ := joinDots_head (dotSplit_ne_nil (c :: r)) hw.1
        rw [joinDots_dotSplit] at hj
        cases hj; exact isLetter_not_ws hc'

theorem wf_text_ne_nil {t : Tk} (hw : t.WF) : t.text.toList ≠ [] := by
  obtain ⟨c, r, h, _⟩ := wf_text_head hw
  rw [h]; simp

theorem wordStop_nil : wordStop [] = true := rfl

theorem wordStop_ws {w : Char} (r : List Char) (hw : isWs w = true) : wordStop (w :: r) = true := by
  simp only [wordStop]
  rw [if_neg (by simpa using isWs_ne_dot hw), isWs_not_letterOrDigit hw]; rfl

/-- the end of input stops every token -/
theorem stops_nil (t : Tk) : t.stops [] = true := by
  cases t with
  | kw s =>
    simp only [Tk.stops]
    split
    · rfl
    · split
      · rfl
      · split <;> rfl
  | _ => rfl

/-- white space stops every token but a comment -/
theorem stops_ws (t : Tk) {w : Char} (r : List Char) (hw : isWs w = true) (hc : ∀ s, t ≠ .comment s) :
    t.stops (w :: r) = true := by
  cases t with
  | kw s =>
    simp only [Tk.stops]
    split
    · rfl
    · split
      · exact wordStop_ws r hw
      · split
        · simp [isWs_not_letter hw]
        · rfl
  | filepath s => rfl
  | target s => simp [Tk.stops, isWs_not_lower hw]
  | comment s => exact absurd rfl (hc s)
  | id s => exact wordStop_ws r hw
  | nsid s => exact wordStop_ws r hw

def isNl (c : Char) : Bool := c == '\n' || c == '\r'

theorem stops_comment (s : String) (c : Char) (r : List Char) : (Tk.comment s).stops (c :: r) = isNl c := rfl

/-- a well-formed token whose text is a single `.` is the keyword `.`; what follows it is not a letter -/
theorem dot_text_stops {b : Tk} {rest : List Char} (hw : b.WF) (ht : b.text.toList = ['.'])
    (hs : b.stops rest = true) : ∀ x, rest.head? = some x → isLetter x = false := by
  apply head?_cons_imp
  rintro d r rfl
  cases b with
  | kw s =>
    simp only [Tk.text] at ht
    simp only [Tk.stops, ht] at hs
    rw [if_neg (by decide), if_pos (by decide)] at hs
    simpa using hs
  | filepath s => simp only [Tk.text] at ht; simp [Tk.WF, Tk.wf, ht, isPathLit] at hw
  | target s => simp only [Tk.text] at ht; simp [Tk.WF, Tk.wf, ht, isTargetLit] at hw
  | comment s => simp only [Tk.text] at ht; simp [Tk.WF, Tk.wf, ht, isCommentLit] at hw
  | id s => simp only [Tk.text] at ht; simp [Tk.WF, Tk.wf, ht, isIdent] at hw; exact absurd hw.1 (by decide)
  | nsid s => simp only [Tk.text] at ht; simp [Tk.WF, Tk.wf, ht, isNsid, dotSplit, isIdent] at hw

theorem wordStop_append {c : Char} {r rest : List Char} (h : wordStop (c :: r) = true)
    (hdot : c = '.' → r = [] → ∀ x, rest.head? = some x → isLetter x = false) :
    wordStop (c :: r ++ rest) = true := by
  simp only [wordStop, List.cons_append] at h ⊢
  split
  · rename_i hc
    rw [if_pos hc] at h
    cases r with
    | cons d r' => exact h
    | nil =>
      simp only [List.nil_append]
      cases rest with
      | nil => rfl
      | cons x rest' =>
        have := hdot (by simpa using hc) rfl x rfl
        simp [this]
  · rename_i hc
    rw [if_neg hc] at h
    exact h

/-- **Gluing**: if `b` may directly follow `a` (judged on the text of `b` alone) and `b` is itself followed by
    a safe continuation, then the whole continuation is safe for `a`. -/
theorem stops_append {a b : Tk} {rest : List Char} (hw : b.WF) (h : a.stops b.text.toList = true)
    (hb : b.stops rest = true) : a.stops (b.text.toList ++ rest) = true := by
  obtain ⟨c, r, hbt, _⟩ := wf_text_head hw
  have hword : wordStop (c :: r) = true → wordStop (c :: r ++ rest) = true := by
    intro h'
    apply wordStop_append h'
    rintro rfl rfl
    exact dot_text_stops hw hbt hb
  rw [hbt] at h ⊢
  cases a with
  | kw s =>
    simp only [Tk.stops] at h ⊢
    split
    · rfl
    · rename_i c' r' hs
      simp only [hs] at h
      split
      · rename_i hl; rw [if_pos hl] at h; exact hword h
      · rename_i hl
        rw [if_neg hl] at h
        split
        · rename_i hd; rw [if_pos hd] at h; exact h
        · rfl
  | filepath s => rfl
  | target s => exact h
  | comment s => exact h
  | id s => exact hword h
  | nsid s => exact hword h

/-! ## 2. rendering a token sequence with an arbitrary layout -/

/-- the layout seen from the next token on -/
def shift (s : Nat → List Char) : Nat → List Char := fun i => s (i+1)

/-- the token texts, the `i`-th one followed by the run `s i` -/
def renderFrom : (Nat → List Char) → List Tk → List Char
  | _, [] => []
  | s, t :: ts => t.text.toList ++ (s 0 ++ renderFrom (shift s) ts)

/-- **Canonical renderer.** `sep 0` (leading white space, may be empty), then for `i = 0, 1, …` the text of
    `tks[i]` followed by the run `sep (i+1)`. -/
def renderTks (sep : Nat → List Char) (tks : List Tk) : String :=
  String.ofList (sep 0 ++ renderFrom (shift sep) tks)

/-- must `a` and `b` be separated by white space? Decidable; looks only at the kind of `a` and the first two
    characters of `b`: punctuation, `@import`, `->` and file paths may be followed by anything; a word must not
    be followed by a letter/digit/`_` nor by `.x`; `.` not by a letter; a target flag not by a lower-case
    letter; a comment always needs (a line end). -/
def needsSpace (a b : Tk) : Bool := !a.stops b.text.toList

/-- is `run` an admissible separator after `t`, when `next` is the following token (if any)?
    `run` is white space; if it is empty, `t` and `next` may be glued (`needsSpace`); if `t` is a comment, a
    non-empty `run` starts with a line end. -/
def sepOK (t : Tk) (next : Option Tk) (run : List Char) : Bool :=
  run.all isWs &&
  match run with
  | [] => (match next with
    | none => true
    | some b => !needsSpace t b)
  | c :: _ => (match t with
    | .comment _ => isNl c
    | _ => true)

def fitsFrom : (Nat → List Char) → List Tk → Bool
  | _, [] => true
  | s, t :: ts => sepOK t ts.head? (s 0) && fitsFrom (shift s) ts

/-- **Admissible layouts** of a token sequence: `sep 0` is white space and for every `i`, `sep (i+1)` is an
    admissible separator between `tks[i]` and `tks[i+1]` (`sepOK`; see `layout_iff`). -/
def Layout (sep : Nat → List Char) (tks : List Tk) : Prop :=
  (sep 0).all isWs = true ∧ fitsFrom (shift sep) tks = true

instance (sep : Nat → List Char) (tks : List Tk) : Decidable (Layout sep tks) := by
  unfold Layout; infer_instance

theorem fitsFrom_iff (s : Nat → List Char) (tks : List Tk) :
    fitsFrom s tks = true ↔ ∀ i (h : i < tks.length), sepOK tks[i] tks[i+1]? (s i) = true := by
  induction tks generalizing s with
  | nil => simp [fitsFrom]
  | cons t ts ih =>
    simp only [fitsFrom, Bool.and_eq_true, ih]
    constructor
    · rintro ⟨h0, h1⟩ i hi
      cases i with
      | zero => simpa [List.head?_eq_getElem?] using h0
      | succ j =>
        have := h1 j (by simpa using hi)
        simpa [shift] using this
    · intro h
      refine ⟨?_, ?_⟩
      · have := h 0 (by simp)
        simpa [List.head?_eq_getElem?] using this
      · intro j hj
        have := h (j+1) (by simpa using hj)
        simpa [shift] using this

/-- the layout condition, index by index -/
theorem layout_iff (sep : Nat → List Char) (tks : List Tk) :
    Layout sep tks ↔ (∀ x ∈ sep 0, isWs x = true) ∧
      ∀ i (h : i < tks.length), sepOK tks[i] tks[i+1]? (sep (i+1)) = true := by
  simp only [Layout, fitsFrom_iff, List.all_eq_true, shift]

/-- the strict layouts: every token is followed by a non-empty white-space run, which after a comment starts
    with a line end -/
def Spaced (sep : Nat → List Char) (tks : List Tk) : Prop :=
  (∀ x ∈ sep 0, isWs x = true) ∧
  ∀ i (h : i < tks.length), sep (i+1) ≠ [] ∧ (∀ x ∈ sep (i+1), isWs x = true) ∧
    ∀ c, tks[i] = .comment c → ∀ x, (sep (i+1)).head? = some x → isNl x = true

theorem Spaced.layout {sep : Nat → List Char} {tks : List Tk} (h : Spaced sep tks) : Layout sep tks := by
  rw [layout_iff]
  refine ⟨h.1, ?_⟩
  intro i hi
  obtain ⟨h1, h2, h3⟩ := h.2 i hi
  simp only [sepOK, Bool.and_eq_true, List.all_eq_true]
  refine ⟨h2, ?_⟩
  cases hs : sep (i+1) with
  | nil => exact absurd hs h1
  | cons c r =>
    simp only []
    split
    · rename_i s ht
      exact h3 s ht c (by rw [hs]; rfl)
    · rfl

/-- the same white space everywhere (starting with a line end) is admissible for every token sequence -/
theorem Spaced.const (run : List Char) (c : Char) (r : List Char) (hrun : run = c :: r) (hc : isNl c = true)
    (hws : ∀ x ∈ run, isWs x = true) (lead : List Char) (hlead : ∀ x ∈ lead, isWs x = true) (tks : List Tk) :
    Spaced (fun i => if i = 0 then lead else run) tks := by
  refine ⟨by simpa using hlead, ?_⟩
  intro i hi
  simp only [Nat.add_one_ne_zero, if_false]
  refine ⟨by rw [hrun]; simp, hws, ?_⟩
  intro _ _ x hx
  rw [hrun] at hx; simp at hx; subst hx; exact hc

/-! ### the scan of a rendering -/

def wsPiece (run : List Char) : List Piece :=
  match run with
  | [] => []
  | c :: r => [.ws (c :: r)]

/-- the pieces the lexer will find in `renderFrom s tks` -/
def piecesFrom : (Nat → List Char) → List Tk → List Piece
  | _, [] => []
  | s, t :: ts => .tok t t.text.toList :: (wsPiece (s 0) ++ piecesFrom (shift s) ts)

theorem renderFrom_head (s : Nat → List Char) (tks : List Tk) (hwf : ∀ t ∈ tks, t.WF) :
    ∀ x, (renderFrom s tks).head? = some x → isWs x = false := by
  intro x hx
  cases tks with
  | nil => simp [renderFrom] at hx
  | cons t ts =>
    obtain ⟨c, r, ht, hc⟩ := wf_text_head (hwf t (by simp))
    simp [renderFrom, ht] at hx
    subst hx; exact hc

/-- an admissible layout puts a safe continuation after every token -/
theorem fits_stops (s : Nat → List Char) (t : Tk) (ts : List Tk) (hwf : ∀ x ∈ t :: ts, x.WF)
    (hfit : fitsFrom s (t :: ts) = true) : t.stops (s 0 ++ renderFrom (shift s) ts) = true := by
  induction ts generalizing s t with
  | nil =>
    simp only [fitsFrom, List.head?_nil, Bool.and_true, sepOK, Bool.and_eq_true, List.all_eq_true] at hfit
    simp only [renderFrom, List.append_nil]
    cases hs : s 0 with
    | nil => exact stops_nil t
    | cons c r =>
      rw [hs] at hfit
      obtain ⟨h1, h2⟩ := hfit
      cases t with
      | comment x => exact h2
      | _ => exact stops_ws _ r (h1 c (by simp)) (by intro x hx; cases hx)
  | cons b ts' ih =>
    have hfit' : fitsFrom (shift s) (b :: ts') = true := by
      simp only [fitsFrom, Bool.and_eq_true] at hfit ⊢; exact hfit.2
    have hb := ih (shift s) b (fun x hx => hwf x (List.mem_cons_of_mem _ hx)) hfit'
    simp only [fitsFrom, List.head?_cons, Bool.and_eq_true, sepOK, List.all_eq_true] at hfit
    obtain ⟨⟨h1, h2⟩, -⟩ := hfit
    cases hs : s 0 with
    | nil =>
      rw [hs] at h2
      simp only [needsSpace, Bool.not_not] at h2
      simp only [List.nil_append, renderFrom]
      exact stops_append (hwf b (by simp)) h2 hb
    | cons c r =>
      rw [hs] at h1 h2
      cases t with
      | comment x => exact h2
      | _ => exact stops_ws _ _ (h1 c (by simp)) (by intro x hx; cases hx)

theorem scan_wsPiece (run cs : List Char) (hws : ∀ x ∈ run, isWs x = true)
    (hcs : ∀ x, cs.head? = some x → isWs x = false) :
    scan (run ++ cs) = (scan cs).map (wsPiece run ++ ·) := by
  cases run with
  | nil => simp [wsPiece]
  | cons c r =>
    rw [scan_ws_run (by simp) hws hcs]
    simp [wsPiece]

/-- **The scan of a rendering**: the lexer finds exactly the written tokens and the written white-space runs. -/
theorem scan_renderFrom (s : Nat → List Char) (tks : List Tk) (hwf : ∀ t ∈ tks, t.WF)
    (hfit : fitsFrom s tks = true) : scan (renderFrom s tks) = some (piecesFrom s tks) := by
  induction tks generalizing s with
  | nil => rfl
  | cons t ts ih =>
    have hw := hwf t (by simp)
    have hstop := fits_stops s t ts hwf hfit
    have hne : renderFrom s (t :: ts) ≠ [] := by
      simp only [renderFrom]
      intro h
      exact wf_text_ne_nil hw (List.append_eq_nil_iff.mp h).1
    have hfit' : fitsFrom (shift s) ts = true := by
      simp only [fitsFrom, Bool.and_eq_true] at hfit; exact hfit.2
    have hws : ∀ x ∈ s 0, isWs x = true := by
      simp only [fitsFrom, sepOK, Bool.and_eq_true, List.all_eq_true] at hfit; exact hfit.1.1
    have hwf' : ∀ x ∈ ts, x.WF := fun x hx => hwf x (List.mem_cons_of_mem _ hx)
    rw [scan_cons hne]
    simp only [renderFrom]
    rw [lexOne_wf t _ hw hstop]
    simp only [List.take_left' rfl, List.drop_left' rfl]
    rw [scan_wsPiece _ _ hws (renderFrom_head _ _ hwf'), ih (shift s) hwf' hfit']
    simp [piecesFrom]

/-! ### from the scan to `lex`: tokens with their positions -/

/-- the tokens of a rendering with their positions, computed without the lexer: the token starts where the
    text before it ends (`advance`), and ends after its own text -/
def placeFrom (line col : Nat) : (Nat → List Char) → List Tk → List Token
  | _, [] => []
  | s, t :: ts =>
    { tk := t, line := line, col := col, len := t.text.toList.length,
      endLine := (advance line col t.text.toList).1, endCol := (advance line col t.text.toList).2 } ::
      placeFrom (advance line col (t.text.toList ++ s 0)).1 (advance line col (t.text.toList ++ s 0)).2 (shift s) ts

theorem tokensOf_wsPiece (line col : Nat) (run : List Char) (ps : List Piece) :
    tokensOf line col (wsPiece run ++ ps) = tokensOf (advance line col run).1 (advance line col run).2 ps := by
  cases run with
  | nil => rfl
  | cons c r => rfl

theorem tokensOf_piecesFrom (line col : Nat) (s : Nat → List Char) (tks : List Tk) :
    tokensOf line col (piecesFrom s tks) = placeFrom line col s tks := by
  induction tks generalizing line col s with
  | nil => rfl
  | cons t ts ih =>
    simp only [piecesFrom, tokensOf, placeFrom, tokensOf_wsPiece, ih, advance_append]

theorem placeFrom_kinds (line col : Nat) (s : Nat → List Char) (tks : List Tk) :
    (placeFrom line col s tks).map (·.tk) = tks := by
  induction tks generalizing line col s with
  | nil => rfl
  | cons t ts ih => simp only [placeFrom, List.map_cons, ih]

theorem placeFrom_length (line col : Nat) (s : Nat → List Char) (tks : List Tk) :
    (placeFrom line col s tks).length = tks.length := by
  rw [← List.length_map (f := (·.tk)), placeFrom_kinds]

theorem renderTks_toList (sep : Nat → List Char) (tks : List Tk) :
    (renderTks sep tks).toList = sep 0 ++ renderFrom (shift sep) tks := by
  simp [renderTks]

/-- **The lexer on a rendering, exactly**: tokens *and* positions. -/
theorem lex_render_exact (sep : Nat → List Char) (tks : List Tk) (hwf : ∀ t ∈ tks, t.WF)
    (hl : Layout sep tks) :
    lex (renderTks sep tks) =
      some (placeFrom (advance 1 0 (sep 0)).1 (advance 1 0 (sep 0)).2 (shift sep) tks) := by
  rw [lex_eq_scan, renderTks_toList,
    scan_wsPiece _ _ (List.all_eq_true.mp hl.1) (renderFrom_head _ _ hwf),
    scan_renderFrom _ _ hwf hl.2]
  simp only [Option.map_some, tokensOf_wsPiece, tokensOf_piecesFrom]

/-- **`lex_render` — layout independence of the lexer.** For every sequence of well-formed token kinds and
    every admissible layout (`Layout`: arbitrary white-space runs between the tokens — blanks, tabs, `\r`, `\n`
    in any number and order —, empty runs where `needsSpace` allows it, a line end after a comment), the lexer
    returns exactly the written tokens. -/
theorem lex_render (sep : Nat → List Char) (tks : List Tk) (hwf : ∀ t ∈ tks, t.WF) (hl : Layout sep tks) :
    (lex (renderTks sep tks)).map (·.map (·.tk)) = some tks := by
  rw [lex_render_exact sep tks hwf hl, Option.map_some, placeFrom_kinds]

/-- the strict version: a non-empty white-space run after every token -/
theorem lex_render_spaced (sep : Nat → List Char) (tks : List Tk) (hwf : ∀ t ∈ tks, t.WF)
    (hl : Spaced sep tks) : (lex (renderTks sep tks)).map (·.map (·.tk)) = some tks :=
  lex_render sep tks hwf hl.layout

/-- two admissible layouts of the same tokens lex to the same token kinds -/
theorem lex_layout_independent (sep sep' : Nat → List Char) (tks : List Tk) (hwf : ∀ t ∈ tks, t.WF)
    (hl : Layout sep tks) (hl' : Layout sep' tks) :
    (lex (renderTks sep tks)).map (·.map (·.tk)) = (lex (renderTks sep' tks)).map (·.map (·.tk)) := by
  rw [lex_render sep tks hwf hl, lex_render sep' tks hwf hl']

/-- rendering is injective on well-formed token sequences, whatever the two layouts -/
theorem renderTks_injective (sep sep' : Nat → List Char) (tks tks' : List Tk)
    (hwf : ∀ t ∈ tks, t.WF) (hwf' : ∀ t ∈ tks', t.WF) (hl : Layout sep tks) (hl' : Layout sep' tks')
    (h : renderTks sep tks = renderTks sep' tks') : tks = tks' := by
  have h1 := lex_render sep tks hwf hl
  have h2 := lex_render sep' tks' hwf' hl'
  rw [h, h2] at h1
  exact (Option.some.inj h1).symm

/-! ## 4. positions -/

theorem renderFrom_take_succ (s : Nat → List Char) (t : Tk) (ts : List Tk) (k : Nat) :
    renderFrom s ((t :: ts).take (k+1)) = t.text.toList ++ (s 0 ++ renderFrom (shift s) (ts.take k)) := by
  simp [renderFrom]

/-- the `k`-th placed token starts where the rendering of the first `k` tokens (with the run after the last of
    them) ends -/
theorem placeFrom_getElem (line col : Nat) (s : Nat → List Char) (tks : List Tk) (k : Nat) (hk : k < tks.length) :
    ∃ h : k < (placeFrom line col s tks).length,
      (placeFrom line col s tks)[k] =
        { tk := tks[k], line := (advance line col (renderFrom s (tks.take k))).1,
          col := (advance line col (renderFrom s (tks.take k))).2,
          len := tks[k].text.toList.length,
          endLine := (advance line col (renderFrom s (tks.take k) ++ tks[k].text.toList)).1,
          endCol := (advance line col (renderFrom s (tks.take k) ++ tks[k].text.toList)).2 } := by
  refine ⟨by rw [placeFrom_length]; exact hk, ?_⟩
  induction tks generalizing line col s k with
  | nil => simp at hk
  | cons t ts ih =>
    cases k with
    | zero => simp [placeFrom, renderFrom, advance]
    | succ j =>
      have hj : j < ts.length := by simpa using hk
      simp only [placeFrom, List.getElem_cons_succ, renderFrom_take_succ]
      rw [ih _ _ (shift s) j hj]
      simp only [← List.append_assoc, advance_append]

/-- **Positions on a rendering.** The `k`-th token returned by the lexer on `renderTks sep tks` is `tks[k]`;
    its `(line, col)` is `advance 1 0` over the rendered prefix `renderTks sep (tks.take k)` (the first `k`
    tokens with their separators), its end position is `advance 1 0` over that prefix followed by its own
    text, and `len` is the length of its text. So the position is determined by the rendered prefix alone. -/
theorem lex_render_position (sep : Nat → List Char) (tks : List Tk) (hwf : ∀ t ∈ tks, t.WF)
    (hl : Layout sep tks) :
    ∃ toks, lex (renderTks sep tks) = some toks ∧ toks.length = tks.length ∧
      ∀ k (hk : k < tks.length) (hk' : k < toks.length),
        toks[k].tk = tks[k] ∧
        (toks[k].line, toks[k].col) = advance 1 0 (renderTks sep (tks.take k)).toList ∧
        (toks[k].endLine, toks[k].endCol) =
          advance 1 0 ((renderTks sep (tks.take k)).toList ++ tks[k].text.toList) ∧
        toks[k].len = tks[k].text.toList.length := by
  refine ⟨_, lex_render_exact sep tks hwf hl, placeFrom_length _ _ _ _, ?_⟩
  intro k hk hk'
  obtain ⟨_, e⟩ := placeFrom_getElem (advance 1 0 (sep 0)).1 (advance 1 0 (sep 0)).2 (shift sep) tks k hk
  rw [e]
  simp only [renderTks_toList, List.append_assoc, advance_append, and_self]

/-- the start position of the `k`-th token does not depend on anything written after it: two token
    sequences/layouts that agree up to the `k`-th token give it the same position -/
theorem lex_render_position_prefix (sep sep' : Nat → List Char) (tks tks' : List Tk)
    (hwf : ∀ t ∈ tks, t.WF) (hwf' : ∀ t ∈ tks', t.WF) (hl : Layout sep tks) (hl' : Layout sep' tks')
    (k : Nat) (hk : k < tks.length) (hk' : k < tks'.length)
    (hpre : renderTks sep (tks.take k) = renderTks sep' (tks'.take k)) :
    ∃ toks toks', lex (renderTks sep tks) = some toks ∧ lex (renderTks sep' tks') = some toks' ∧
      ∃ (h : k < toks.length) (h' : k < toks'.length),
        toks[k].line = toks'[k].line ∧ toks[k].col = toks'[k].col := by
  obtain ⟨toks, h1, h2, h3⟩ := lex_render_position sep tks hwf hl
  obtain ⟨toks', h1', h2', h3'⟩ := lex_render_position sep' tks' hwf' hl'
  refine ⟨toks, toks', h1, h1', by omega, by omega, ?_⟩
  have a := (h3 k hk (by omega)).2.1
  have b := (h3' k hk' (by omega)).2.1
  rw [hpre, ← b] at a
  exact ⟨congrArg Prod.fst a, congrArg Prod.snd a⟩

/-! ## 3. from file shapes to source text and back -/

/-- all tokens of a list are well-formed -/
def AllWF (l : List Tk) : Prop := ∀ t ∈ l, t.WF

theorem allWF_nil : AllWF [] := by intro t h; cases h
theorem allWF_cons {t : Tk} {l : List Tk} : AllWF (t :: l) ↔ t.WF ∧ AllWF l := by
  simp [AllWF]
theorem allWF_append {a b : List Tk} : AllWF (a ++ b) ↔ AllWF a ∧ AllWF b := by
  simp only [AllWF, List.mem_append]
  exact ⟨fun h => ⟨fun t ht => h t (Or.inl ht), fun t ht => h t (Or.inr ht)⟩,
    fun h t ht => ht.elim (h.1 t) (h.2 t)⟩
theorem allWF_map {α : Type} {g : α → Tk} {l : List α} : AllWF (l.map g) ↔ ∀ x ∈ l, (g x).WF := by
  simp [AllWF]
theorem allWF_flatMap {α : Type} {g : α → List Tk} {l : List α} (h : ∀ x ∈ l, AllWF (g x)) :
    AllWF (l.flatMap g) := by
  intro t ht
  obtain ⟨x, hx, hxt⟩ := List.mem_flatMap.mp ht
  exact h x hx t hxt
theorem kw_wf {s : String} (h : literals.contains s = true) : (Tk.kw s).WF := h

/-- **Well-formed file shapes**: every printed token is a well-formed token kind -/
def FileShape.WF (f : FileShape) : Prop := AllWF (printFile f)

instance (f : FileShape) : Decidable f.WF := by
  unfold FileShape.WF AllWF; infer_instance

/-! ### sufficient syntactic conditions -/

/-- an identifier of the grammar that is not a keyword -/
def idOK (s : String) : Bool := isIdent s.toList && !literals.contains s
/-- a name: an identifier, or (if written `dotted`) a dotted name -/
def nameOK (n : String) (d : Bool) : Bool := if d then isNsid n.toList else idOK n
/-- a comment line: `#…` without line break -/
def commentOK (s : String) : Bool := isCommentLit s.toList
def commentsOK (c : List String) : Bool := c.all commentOK
def targetOK (s : String) : Bool := isTargetLit s.toList
def pathOK (s : String) : Bool := isPathLit s.toList

theorem nameTk_wf {n : String} {d : Bool} (h : nameOK n d = true) : (nameTk n d).WF := by
  cases d <;> simpa [nameOK, nameTk, Tk.WF, Tk.wf, idOK] using h

mutual
def TyShape.good : TyShape → Bool
  | .mk n d args _ => nameOK n d && goodArgs args
def goodArgs : List TyShape → Bool
  | [] => true
  | a :: as => a.good && goodArgs as
end

def ItemShape.good (i : ItemShape) : Bool := commentsOK i.comment && idOK i.name
def FlagItemShape.good (i : FlagItemShape) : Bool :=
  commentsOK i.comment && idOK i.name && (match i.modifier with
    | none => true
    | some m => idOK m)
def FieldShape.good (f : FieldShape) : Bool := commentsOK f.comment && idOK f.name && f.ty.good
def ParamShape.good (p : ParamShape) : Bool := idOK p.name && p.ty.good
def SigShape.good (s : SigShape) : Bool :=
  s.params.all ParamShape.good &&
  (match s.throwing with
    | none => true
    | some l => l.all TyShape.good) &&
  (match s.ret with
    | none => true
    | some t => t.good)
def MethodShape.good (m : MethodShape) : Bool := commentsOK m.comment && idOK m.name && m.sig.good
def PropShape.good (p : PropShape) : Bool := commentsOK p.comment && idOK p.name && p.ty.good
def MemberShape.good : MemberShape → Bool
  | .m x => x.good
  | .p x => x.good
def ErrCodeShape.good (e : ErrCodeShape) : Bool :=
  commentsOK e.comment && idOK e.name && e.params.all ParamShape.good
def DeclShape.good : DeclShape → Bool
  | .enum n c is => idOK n && commentsOK c && is.all ItemShape.good
  | .flags n c is => idOK n && commentsOK c && is.all FlagItemShape.good
  | .record n c t fs d => idOK n && commentsOK c && t.all targetOK && fs.all FieldShape.good &&
      (match d with
        | none => true
        | some ds => ds.all idOK)
  | .interface n c _ t ms => idOK n && commentsOK c && t.all targetOK && ms.all MemberShape.good
  | .function n c ft s => idOK n && commentsOK c &&
      (match ft with
        | none => true
        | some l => l.all targetOK) && s.good
  | .error n c cs => idOK n && commentsOK c && cs.all ErrCodeShape.good

mutual
def ContentShape.good : ContentShape → Bool
  | .decl d => d.good
  | .ns n d c cs => nameOK n d && commentsOK c && goodContents cs
def goodContents : List ContentShape → Bool
  | [] => true
  | a :: as => a.good && goodContents as
end

/-- **Syntactic well-formedness of a file shape**: every declared name (types, items, fields, parameters,
    methods, properties, error codes, `deriving` entries, flag modifiers) is an identifier and not a keyword;
    type references and namespace names are identifiers, or dotted names when marked `dotted`; every comment
    line is `#…` without line break; target flags are `+x`/`-x`; import paths are `"…"` without inner quote. -/
def FileShape.good (f : FileShape) : Bool := f.loads.all (fun l => pathOK l.lit) && goodContents f.contents

theorem printComments_wf {c : List String} (h : commentsOK c = true) : AllWF (printComments c) := by
  rw [printComments, allWF_map]
  intro x hx
  exact List.all_eq_true.mp h x hx

theorem printTargets_wf {l : List String} (h : l.all targetOK = true) : AllWF (printTargets l) := by
  rw [printTargets, allWF_map]
  intro x hx
  exact List.all_eq_true.mp h x hx

theorem id_wf {s : String} (h : idOK s = true) : (Tk.id s).WF := h

theorem printTy_wf (s : TyShape) : s.good = true → AllWF (printTy s) := by
  refine TyShape.rec (motive_1 := fun s => s.good = true → AllWF (printTy s))
    (motive_2 := fun l => goodArgs l = true → AllWF (printArgs l)) ?_ ?_ ?_ s
  · intro n d args o ih hg
    simp only [TyShape.good, Bool.and_eq_true] at hg
    have hn := nameTk_wf hg.1
    have ho : AllWF (if o then [Tk.kw "?"] else []) := by
      cases o
      · exact allWF_nil
      · exact allWF_cons.mpr ⟨kw_wf (by decide), allWF_nil⟩
    cases args with
    | nil => rw [printTy_nil]; exact allWF_cons.mpr ⟨hn, ho⟩
    | cons a as =>
      have h2 := ih hg.2
      rw [printArgs_cons, allWF_cons, allWF_append] at h2
      rw [printTy_cons]
      exact allWF_cons.mpr ⟨hn, allWF_cons.mpr ⟨kw_wf (by decide), allWF_append.mpr ⟨h2.2.1,
        allWF_append.mpr ⟨h2.2.2, allWF_cons.mpr ⟨kw_wf (by decide), ho⟩⟩⟩⟩⟩
  · intro _; simp only [printArgs]; exact allWF_nil
  · intro a as iha ihas hg
    simp only [goodArgs, Bool.and_eq_true] at hg
    rw [printArgs_cons]
    exact allWF_cons.mpr ⟨kw_wf (by decide), allWF_append.mpr ⟨iha hg.1, ihas hg.2⟩⟩

theorem allWF_nil_iff : AllWF [] ↔ True := ⟨fun _ => trivial, fun _ => allWF_nil⟩

/-- closes conjunctions of well-formedness facts: hypotheses, or keyword tokens by evaluation -/
macro "wf_close" : tactic => `(tactic| ((repeat' apply And.intro) <;> first | assumption | decide))

theorem printItem_wf {i : ItemShape} (h : i.good = true) : AllWF (printItem i) := by
  simp only [ItemShape.good, Bool.and_eq_true] at h
  have h1 := printComments_wf h.1
  have h2 := id_wf h.2
  simp only [printItem, allWF_append, allWF_cons, allWF_nil_iff]
  wf_close

theorem printFlagItem_wf {i : FlagItemShape} (h : i.good = true) : AllWF (printFlagItem i) := by
  simp only [FlagItemShape.good, Bool.and_eq_true] at h
  have h1 := printComments_wf h.1.1
  have h2 := id_wf h.1.2
  have h3 : AllWF (printModifier i.modifier) := by
    cases hm : i.modifier with
    | none => exact allWF_nil
    | some m =>
      have h3 := h.2
      rw [hm] at h3
      have := id_wf h3
      simp only [printModifier, allWF_cons, allWF_nil_iff]
      wf_close
  simp only [printFlagItem, allWF_append, allWF_cons, allWF_nil_iff]
  wf_close

theorem printField_wf {f : FieldShape} (h : f.good = true) : AllWF (printField f) := by
  simp only [FieldShape.good, Bool.and_eq_true] at h
  have h1 := printComments_wf h.1.1
  have h2 := id_wf h.1.2
  have h3 := printTy_wf _ h.2
  simp only [printField, allWF_append, allWF_cons, allWF_nil_iff]
  wf_close

theorem printParam_wf {p : ParamShape} (h : p.good = true) : AllWF (printParam p) := by
  simp only [ParamShape.good, Bool.and_eq_true] at h
  have h1 := id_wf h.1
  have h2 := printTy_wf _ h.2
  simp only [printParam, allWF_cons]
  wf_close

theorem printParams_wf : ∀ (ps : List ParamShape), ps.all ParamShape.good = true → AllWF (printParams ps)
  | [], _ => allWF_nil
  | [p], h => by
    simp only [printParams]
    exact printParam_wf (by simpa using h)
  | p :: q :: ps, h => by
    simp only [List.all_cons, Bool.and_eq_true] at h
    have h1 := printParam_wf h.1
    have h2 := printParams_wf (q :: ps) (by simp only [List.all_cons, Bool.and_eq_true]; exact h.2)
    simp only [printParams, allWF_append, allWF_cons]
    wf_close

theorem printTys_wf : ∀ (l : List TyShape), l.all TyShape.good = true → AllWF (printTys l)
  | [], _ => allWF_nil
  | [t], h => by
    simp only [printTys]
    exact printTy_wf _ (by simpa using h)
  | t :: u :: ts, h => by
    simp only [List.all_cons, Bool.and_eq_true] at h
    have h1 := printTy_wf _ h.1
    have h2 := printTys_wf (u :: ts) (by simp only [List.all_cons, Bool.and_eq_true]; exact h.2)
    simp only [printTys, allWF_append, allWF_cons]
    wf_close

theorem printIds_wf : ∀ (l : List String), l.all idOK = true → AllWF (printIds l)
  | [], _ => allWF_nil
  | [d], h => by
    have := id_wf (s := d) (by simpa using h)
    simp only [printIds, allWF_cons, allWF_nil_iff]
    wf_close
  | d :: e :: ds, h => by
    simp only [List.all_cons, Bool.and_eq_true] at h
    have h1 := id_wf h.1
    have h2 := printIds_wf (e :: ds) (by simp only [List.all_cons, Bool.and_eq_true]; exact h.2)
    simp only [printIds, allWF_cons]
    wf_close

theorem printSig_wf {s : SigShape} (h : s.good = true) : AllWF (printSig s) := by
  simp only [SigShape.good, Bool.and_eq_true] at h
  have h1 := printParams_wf _ h.1.1
  have h2 : AllWF (printThrowing s.throwing) := by
    cases ht : s.throwing with
    | none => exact allWF_nil
    | some l =>
      have h2 := h.1.2
      rw [ht] at h2
      have := printTys_wf l h2
      simp only [printThrowing, allWF_cons]
      wf_close
  have h3 : AllWF (printRet s.ret) := by
    cases hr : s.ret with
    | none => exact allWF_nil
    | some t =>
      have h3 := h.2
      rw [hr] at h3
      have := printTy_wf t h3
      simp only [printRet, allWF_cons]
      wf_close
  simp only [printSig, allWF_append, allWF_cons]
  wf_close

theorem printMod_wf (b : Bool) (s : String) (h : (Tk.kw s).WF) : AllWF (printMod b s) := by
  cases b
  · exact allWF_nil
  · exact allWF_cons.mpr ⟨h, allWF_nil⟩

theorem printMethod_wf {m : MethodShape} (h : m.good = true) : AllWF (printMethod m) := by
  simp only [MethodShape.good, Bool.and_eq_true] at h
  have h1 := printComments_wf h.1.1
  have h2 := id_wf h.1.2
  have h3 := printSig_wf h.2
  have h4 := printMod_wf m.isStatic "static" (by decide)
  have h5 := printMod_wf m.isConst "const" (by decide)
  have h6 := printMod_wf m.isAsync "async" (by decide)
  simp only [printMethod, allWF_append, allWF_cons, allWF_nil_iff]
  wf_close

theorem printProp_wf {p : PropShape} (h : p.good = true) : AllWF (printProp p) := by
  simp only [PropShape.good, Bool.and_eq_true] at h
  have h1 := printComments_wf h.1.1
  have h2 := id_wf h.1.2
  have h3 := printTy_wf _ h.2
  simp only [printProp, allWF_append, allWF_cons, allWF_nil_iff]
  wf_close

theorem printMember_wf {m : MemberShape} (h : m.good = true) : AllWF (printMember m) := by
  cases m with
  | m x => exact printMethod_wf h
  | p x => exact printProp_wf h

theorem printErrCode_wf {e : ErrCodeShape} (h : e.good = true) : AllWF (printErrCode e) := by
  simp only [ErrCodeShape.good, Bool.and_eq_true] at h
  have h1 := printComments_wf h.1.1
  have h2 := id_wf h.1.2
  have h3 : AllWF (e.params.flatMap printParam) :=
    allWF_flatMap (fun x hx => printParam_wf (List.all_eq_true.mp h.2 x hx))
  simp only [printErrCode]
  cases hp : e.params with
  | nil =>
    simp only [allWF_append, allWF_cons, allWF_nil_iff, List.nil_append]
    wf_close
  | cons p ps =>
    rw [hp] at h3
    simp only [allWF_append, allWF_cons, allWF_nil_iff]
    wf_close

theorem printHead_wf {n : String} {c : List String} {body : List Tk} (hn : idOK n = true)
    (hc : commentsOK c = true) (hb : AllWF body) : AllWF (printHead n c body) := by
  have h1 := printComments_wf hc
  have h2 := id_wf hn
  simp only [printHead, allWF_append, allWF_cons]
  wf_close

theorem printDecl_wf {d : DeclShape} (h : d.good = true) : AllWF (printDecl d) := by
  cases d with
  | enum n c is =>
    simp only [DeclShape.good, Bool.and_eq_true] at h
    have h3 : AllWF (is.flatMap printItem) :=
      allWF_flatMap (fun x hx => printItem_wf (List.all_eq_true.mp h.2 x hx))
    apply printHead_wf h.1.1 h.1.2
    simp only [allWF_append, allWF_cons, allWF_nil_iff]
    wf_close
  | flags n c is =>
    simp only [DeclShape.good, Bool.and_eq_true] at h
    have h3 : AllWF (is.flatMap printFlagItem) :=
      allWF_flatMap (fun x hx => printFlagItem_wf (List.all_eq_true.mp h.2 x hx))
    apply printHead_wf h.1.1 h.1.2
    simp only [allWF_append, allWF_cons, allWF_nil_iff]
    wf_close
  | record n c t fs d =>
    simp only [DeclShape.good, Bool.and_eq_true] at h
    have h3 : AllWF (fs.flatMap printField) :=
      allWF_flatMap (fun x hx => printField_wf (List.all_eq_true.mp h.1.2 x hx))
    have h4 := printTargets_wf h.1.1.2
    have h5 : AllWF (printDeriving d) := by
      cases d with
      | none => exact allWF_nil
      | some ds =>
        have := printIds_wf ds h.2
        simp only [printDeriving, allWF_append, allWF_cons, allWF_nil_iff]
        wf_close
    apply printHead_wf h.1.1.1.1 h.1.1.1.2
    simp only [allWF_append, allWF_cons]
    wf_close
  | interface n c mn t ms =>
    simp only [DeclShape.good, Bool.and_eq_true] at h
    have h3 : AllWF (ms.flatMap printMember) :=
      allWF_flatMap (fun x hx => printMember_wf (List.all_eq_true.mp h.2 x hx))
    have h4 := printTargets_wf h.1.2
    have h5 := printMod_wf mn "main" (by decide)
    apply printHead_wf h.1.1.1 h.1.1.2
    simp only [allWF_append, allWF_cons, allWF_nil_iff]
    wf_close
  | function n c ft s =>
    simp only [DeclShape.good, Bool.and_eq_true] at h
    have h3 := printSig_wf h.2
    have h4 : AllWF (printFnKw ft) := by
      cases ft with
      | none => exact allWF_nil
      | some l =>
        have := printTargets_wf (l := l) h.1.2
        simp only [printFnKw, allWF_cons]
        wf_close
    apply printHead_wf h.1.1.1 h.1.1.2
    simp only [allWF_append, allWF_cons, allWF_nil_iff]
    wf_close
  | error n c cs =>
    simp only [DeclShape.good, Bool.and_eq_true] at h
    have h3 : AllWF (cs.flatMap printErrCode) :=
      allWF_flatMap (fun x hx => printErrCode_wf (List.all_eq_true.mp h.2 x hx))
    apply printHead_wf h.1.1 h.1.2
    simp only [allWF_append, allWF_cons, allWF_nil_iff]
    wf_close

theorem printContents_wf (l : List ContentShape) : goodContents l = true → AllWF (printContents l) := by
  refine ContentShape.rec_1 (motive_1 := fun s => s.good = true → AllWF (printContent s))
    (motive_2 := fun l => goodContents l = true → AllWF (printContents l)) ?_ ?_ ?_ ?_ l
  · intro d h
    simp only [ContentShape.good] at h
    simp only [printContent]
    exact printDecl_wf h
  · intro n d c cs ih h
    simp only [ContentShape.good, Bool.and_eq_true] at h
    have h1 := printComments_wf h.1.2
    have h2 := nameTk_wf h.1.1
    have h3 := ih h.2
    simp only [printContent, allWF_append, allWF_cons, allWF_nil_iff]
    wf_close
  · intro _; simp only [printContents]; exact allWF_nil
  · intro a as iha ihas h
    simp only [goodContents, Bool.and_eq_true] at h
    simp only [printContents]
    exact allWF_append.mpr ⟨iha h.1, ihas h.2⟩

/-- **the syntactic conditions suffice**: a `good` file shape prints to well-formed tokens -/
theorem FileShape.good_wf {f : FileShape} (h : f.good = true) : f.WF := by
  simp only [FileShape.good, Bool.and_eq_true] at h
  have h1 : AllWF (f.loads.flatMap printLoad) := by
    apply allWF_flatMap
    intro l hl
    have hp : (Tk.filepath l.lit).WF := List.all_eq_true.mp h.1 l hl
    have hk : (Tk.kw (if l.isImport then "@import" else "@extern")).WF := by
      cases l.isImport <;> decide
    simp only [printLoad, allWF_cons, allWF_nil_iff]
    wf_close
  exact allWF_append.mpr ⟨h1, printContents_wf _ h.2⟩

/-- **`source_roundtrip`.** Write the printed tokens of a well-formed file shape `f` as text, with *any*
    admissible layout `sep` (any white-space runs between tokens, any line structure, comments ended by a line
    end, optional gluing where harmless): lexing and parsing that text succeeds and returns a file whose shape
    is `f` (up to what the AST does not record: `f.erase`). -/
theorem source_roundtrip (f : FileShape) (hf : f.WF) (sep : Nat → List Char) (hl : Layout sep (printFile f)) :
    ∃ file, parseText (renderTks sep (printFile f)) = some file ∧ file.shape? = some f.erase := by
  have h := lex_render sep (printFile f) hf hl
  cases hlex : lex (renderTks sep (printFile f)) with
  | none => rw [hlex] at h; cases h
  | some toks =>
    rw [hlex] at h
    exact text_roundtrip f _ toks hlex (Option.some.inj h)

/-- the same under the syntactic conditions -/
theorem source_roundtrip_good (f : FileShape) (hf : f.good = true) (sep : Nat → List Char)
    (hl : Layout sep (printFile f)) :
    ∃ file, parseText (renderTks sep (printFile f)) = some file ∧ file.shape? = some f.erase :=
  source_roundtrip f (FileShape.good_wf hf) sep hl

/-- **`layout_independence`.** Two admissible layouts of the same file shape parse (both successfully) to
    files of the same shape. -/
theorem layout_independence (f : FileShape) (hf : f.WF) (sep sep' : Nat → List Char)
    (hl : Layout sep (printFile f)) (hl' : Layout sep' (printFile f)) :
    ∃ file file', parseText (renderTks sep (printFile f)) = some file ∧
      parseText (renderTks sep' (printFile f)) = some file' ∧
      file.shape? = file'.shape? ∧ file.shape? = some f.erase := by
  obtain ⟨file, h1, h2⟩ := source_roundtrip f hf sep hl
  obtain ⟨file', h1', h2'⟩ := source_roundtrip f hf sep' hl'
  exact ⟨file, file', h1, h1', by rw [h2, h2'], h2⟩

/-- **`source_injective`.** If two well-formed file shapes, each with an admissible layout of its own, render
    to the same text, they have the same erased shape: different (erased) shapes never share a source text. -/
theorem source_injective (f g : FileShape) (hf : f.WF) (hg : g.WF) (sep sep' : Nat → List Char)
    (hl : Layout sep (printFile f)) (hl' : Layout sep' (printFile g))
    (h : renderTks sep (printFile f) = renderTks sep' (printFile g)) : f.erase = g.erase :=
  printFile_injective f g (renderTks_injective sep sep' _ _ hf hg hl hl' h)

/-- contrapositive form -/
theorem source_ne_of_shape_ne (f g : FileShape) (hf : f.WF) (hg : g.WF) (sep sep' : Nat → List Char)
    (hl : Layout sep (printFile f)) (hl' : Layout sep' (printFile g)) (h : f.erase ≠ g.erase) :
    renderTks sep (printFile f) ≠ renderTks sep' (printFile g) :=
  fun e => h (source_injective f g hf hg sep sep' hl hl' e)

/-! ## 6. exactness: `stops` and `Layout` are necessary, not only sufficient -/

theorem spanLen_append_pre (p : Char → Bool) (a rest : List Char) (ha : ∀ x ∈ a, p x = true) :
    spanLen p (a ++ rest) = a.length + spanLen p rest := by
  induction a with
  | nil => simp
  | cons y a ih =>
    simp only [List.cons_append, spanLen, ha y (by simp), if_true, List.length_cons]
    rw [ih (fun x hx => ha x (List.mem_cons_of_mem _ hx))]; omega

theorem idLen_ident_gen (a rest : List Char) (ha : isIdent a = true) :
    idLen (a ++ rest) = a.length + spanLen isLetterOrDigit rest := by
  cases a with
  | nil => simp [isIdent] at ha
  | cons c r =>
    obtain ⟨h1, h2⟩ := isIdent_cons ha
    simp only [List.cons_append, idLen, h1, if_true, List.length_cons]
    rw [spanLen_append_pre _ _ _ h2]; omega

/-- the number of characters of the continuation `rest` that a word or dotted name written before it swallows:
    further letters/digits/`_`, then further `.x` components -/
def extra (fuel : Nat) (rest : List Char) : Nat :=
  spanLen isLetterOrDigit rest + nsidLen fuel (rest.drop (spanLen isLetterOrDigit rest))

theorem extra_fuel (f1 f2 : Nat) (rest : List Char) (h1 : rest.length ≤ f1) (h2 : rest.length ≤ f2) :
    extra f1 rest = extra f2 rest := by
  simp only [extra]
  rw [nsidLen_fuel f1 f2 _ (by simp only [List.length_drop]; omega) (by simp only [List.length_drop]; omega)]

/-- **dotted names, exactly**: `nsidLen` on identifiers joined by dots, followed by anything -/
theorem nsidLen_joinDots_gen (comps : List (List Char)) (rest : List Char) (hne : comps ≠ [])
    (hall : ∀ a ∈ comps, isIdent a = true) (fuel : Nat)
    (hf : (joinDots comps ++ rest).length ≤ fuel) :
    nsidLen fuel (joinDots comps ++ rest) = (joinDots comps).length + extra fuel rest := by
  induction comps generalizing fuel with
  | nil => exact absurd rfl hne
  | cons a t ih =>
    have ha := hall a (by simp)
    have hane := isIdent_ne_nil ha
    have hapos : 0 < a.length := List.length_pos_iff.mpr hane
    have hhd : ∀ X : List Char, (a ++ X).head? ≠ some '.' := by
      intro X
      cases a with
      | nil => exact absurd rfl hane
      | cons c r =>
        simp; exact ne_of_pred (isIdent_cons ha).1 (by decide)
    cases t with
    | nil =>
      simp only [joinDots] at hf ⊢
      cases fuel with
      | zero => simp only [List.length_append] at hf; omega
      | succ f =>
        simp only [List.length_append] at hf
        rw [nsidLen_succ_nodot _ _ (hhd _), idLen_ident_gen a rest ha, List.drop_length_add_append]
        have : a.length + spanLen isLetterOrDigit rest ≠ 0 := by omega
        simp only [beq_iff_eq, this, if_false, extra]
        rw [nsidLen_fuel f (f+1) _ (by simp only [List.length_drop]; omega)
          (by simp only [List.length_drop]; omega)]
        omega
    | cons b t' =>
      rw [joinDots_cons_cons, List.append_assoc, List.cons_append] at hf ⊢
      have hall' : ∀ x ∈ b :: t', isIdent x = true := fun x hx => hall x (List.mem_cons_of_mem _ hx)
      obtain ⟨c, r, hj, hc⟩ := joinDots_head (comps := b :: t') (by simp) hall'
      cases fuel with
      | zero => simp at hf
      | succ f =>
        have hdot : ∀ x, ('.' :: (joinDots (b :: t') ++ rest)).head? = some x → isLetterOrDigit x = false := by
          intro x hx; simp at hx; subst hx; decide
        rw [nsidLen_succ_nodot _ _ (hhd _), idLen_ident a _ ha hdot, List.drop_left' rfl]
        simp only [List.length_append, List.length_cons] at hf
        cases f with
        | zero => omega
        | succ f' =>
          have e : '.' :: (joinDots (b :: t') ++ rest) = '.' :: c :: (r ++ rest) := by rw [hj]; rfl
          rw [e, nsidLen_dot_cons f' c _ hc]
          have e' : c :: (r ++ rest) = joinDots (b :: t') ++ rest := by rw [hj]; rfl
          rw [e', ih (by simp) hall' (f'+1) (by simp only [List.length_append]; omega)]
          have : a.length ≠ 0 := by omega
          rw [extra_fuel (f'+1) (f'+1+1) rest (by omega) (by omega)]
          simp only [beq_iff_eq, this, if_false, List.length_append, List.length_cons]
          omega

theorem spanLen_eq_zero {p : Char → Bool} {rest : List Char} (h : ∀ x, rest.head? = some x → p x = false) :
    spanLen p rest = 0 := by
  cases rest with
  | nil => rfl
  | cons c r => simp [spanLen, h c rfl]

/-- nothing is swallowed exactly at a word stop -/
theorem extra_eq_zero_iff (fuel : Nat) (rest : List Char) (hf : rest.length ≤ fuel) :
    extra fuel rest = 0 ↔ wordStop rest = true := by
  constructor
  · intro h
    simp only [extra] at h
    have hk : spanLen isLetterOrDigit rest = 0 := by omega
    have hm : nsidLen fuel rest = 0 := by
      have : nsidLen fuel (rest.drop (spanLen isLetterOrDigit rest)) = 0 := by omega
      rw [hk] at this; simpa using this
    cases rest with
    | nil => rfl
    | cons c r =>
      have hc : isLetterOrDigit c = false := by
        cases hl : isLetterOrDigit c with
        | false => rfl
        | true => simp [spanLen, hl] at hk
      simp only [wordStop]
      split
      · rename_i hd
        have : c = '.' := by simpa using hd
        subst this
        cases r with
        | nil => rfl
        | cons d r' =>
          cases hl : isLetter d with
          | false => simp [hl]
          | true =>
            cases fuel with
            | zero => simp at hf
            | succ f =>
              rw [nsidLen_dot_cons f d r' hl] at hm
              omega
      · simp [hc]
  · intro h
    simp only [extra]
    rw [spanLen_eq_zero (wordStop_head h)]
    simp [nsidLen_wordStop fuel h]

/-- `nsidLen` on an identifier followed by anything -/
theorem nsidLen_ident_gen (w rest : List Char) (hw : isIdent w = true) :
    nsidLen (w ++ rest).length (w ++ rest) = w.length + extra (w ++ rest).length rest := by
  have := nsidLen_joinDots_gen [w] rest (by simp) (by simpa using hw) _ (Nat.le_refl _)
  simpa [joinDots] using this

/-- `nsidLen` on a dotted name followed by anything -/
theorem nsidLen_nsid_gen (w rest : List Char) (hw : isNsid w = true) :
    nsidLen (w ++ rest).length (w ++ rest) = w.length + extra (w ++ rest).length rest ∧
      idLen (w ++ rest) < w.length := by
  cases w with
  | nil => simp [isNsid] at hw
  | cons c r =>
    simp only [isNsid] at hw
    split at hw
    · rename_i hc
      have : c = '.' := by simpa using hc
      subst this
      have hall : ∀ a ∈ dotSplit r, isIdent a = true := by simpa using hw
      obtain ⟨c', r', hj, hc'⟩ := joinDots_head (dotSplit_ne_nil r) hall
      rw [joinDots_dotSplit] at hj
      subst hj
      refine ⟨?_, ?_⟩
      · simp only [List.cons_append, List.length_cons]
        rw [nsidLen_dot_cons _ c' _ hc']
        have := nsidLen_joinDots_gen (dotSplit (c' :: r')) rest (dotSplit_ne_nil _) hall
          ((c' :: r' ++ rest).length + 1) (by rw [joinDots_dotSplit]; omega)
        rw [joinDots_dotSplit] at this
        simp only [List.cons_append, List.length_cons] at this
        rw [this]; omega
      · rw [idLen_eq_zero (by intro x hx; simp at hx; subst hx; decide)]; simp
    · simp only [Bool.and_eq_true, List.all_eq_true, decide_eq_true_eq] at hw
      obtain ⟨hall, h2⟩ := hw
      refine ⟨?_, ?_⟩
      · have := nsidLen_joinDots_gen (dotSplit (c :: r)) rest (dotSplit_ne_nil _) hall
          (c :: r ++ rest).length (by rw [joinDots_dotSplit]; omega)
        rw [joinDots_dotSplit] at this
        exact this
      · cases hd : dotSplit (c :: r) with
        | nil => exact absurd hd (dotSplit_ne_nil _)
        | cons a t =>
          cases t with
          | nil => rw [hd] at h2; simp at h2
          | cons b t' =>
            have hj := joinDots_dotSplit (c :: r)
            rw [hd, joinDots_cons_cons] at hj
            rw [← hj, List.append_assoc, List.cons_append,
              idLen_ident a _ (hall a (by rw [hd]; simp)) (by intro x hx; simp at hx; subst hx; decide)]
            simp only [List.length_append, List.length_cons]
            omega

theorem nsid_head_wordlike {c : Char} {r : List Char} (hw : isNsid (c :: r) = true) :
    (isLetter c || c == '.') = true := by
  simp only [isNsid] at hw
  split at hw
  · rename_i hc; simp [hc]
  · simp only [Bool.and_eq_true, List.all_eq_true] at hw
    obtain ⟨c', r', hj, hc'⟩ := joinDots_head (dotSplit_ne_nil (c :: r)) hw.1
    rw [joinDots_dotSplit] at hj
    cases hj; simp [hc']

/-- converse of `lexOne_word`: a word is read with exactly its own length only before a word stop -/
theorem lexOne_word_conv (w rest : List Char) (t : Tk) (hw : isIdent w = true) (hk : ∀ s, t ≠ .nsid s)
    (h : lexOne (w ++ rest) = .tok t w.length) : wordStop rest = true := by
  have hi := idLen_ident_gen w rest hw
  have hn := nsidLen_ident_gen w rest hw
  rw [← extra_eq_zero_iff (w ++ rest).length rest (by simp)]
  cases w with
  | nil => simp [isIdent] at hw
  | cons c r =>
    obtain ⟨h1, h2⟩ := isIdent_cons hw
    rw [List.cons_append, lexOne_wordlike c _ (by simp [h1]), ← List.cons_append] at h
    simp only [extra] at hn ⊢
    split at h
    · injection h with h3 h4
      exact absurd h3.symm (hk _)
    · rename_i hgt
      split at h
      · split at h <;> (injection h with h3 h4; omega)
      · rename_i hpos
        simp only [List.length_cons] at hi hpos
        omega

theorem lexOne_nsid_conv (w rest : List Char) (s : String) (hw : isNsid w = true)
    (h : lexOne (w ++ rest) = .tok (.nsid s) w.length) : wordStop rest = true := by
  obtain ⟨hn, hi⟩ := nsidLen_nsid_gen w rest hw
  rw [← extra_eq_zero_iff (w ++ rest).length rest (by simp)]
  cases w with
  | nil => simp [isNsid] at hw
  | cons c r =>
    rw [List.cons_append, lexOne_wordlike c _ (nsid_head_wordlike hw), ← List.cons_append] at h
    split at h
    · injection h with h3 h4
      omega
    · split at h
      · split at h <;> (injection h with h3 h4; cases h3)
      · injection h with h3 h4; cases h3

/-- **`stops` is exact**: the text of a well-formed token followed by `rest` is read back as that token with
    exactly its own length **iff** `t.stops rest`. -/
theorem lexOne_wf_iff (t : Tk) (rest : List Char) (hw : t.WF) :
    lexOne (t.text.toList ++ rest) = .tok t t.text.toList.length ↔ t.stops rest = true := by
  refine ⟨fun h => ?_, lexOne_wf t rest hw⟩
  cases t with
  | kw s =>
    have hm : s ∈ literals := by simpa [Tk.WF, Tk.wf] using hw
    have hc := List.all_eq_true.mp literals_classified s hm
    simp only [Tk.text] at h
    simp only [Tk.stops]
    cases hs : s.toList with
    | nil => rfl
    | cons c r =>
      simp only []
      split
      · rename_i hl
        -- a word keyword
        have hid : isIdent s.toList = true := by
          simp only [kwClassOK, Bool.or_eq_true, beq_iff_eq] at hc
          rcases hc with ((((hc | rfl) | rfl) | rfl) | rfl) | hc
          · exact hc
          · rw [show ".".toList = ['.'] from by decide +kernel] at hs; cases hs; exact absurd hl (by decide)
          · rw [show "@import".toList = '@' :: "import".toList from by decide +kernel] at hs
            cases hs; exact absurd hl (by decide)
          · rw [show "@extern".toList = '@' :: "extern".toList from by decide +kernel] at hs
            cases hs; exact absurd hl (by decide)
          · rw [show "->".toList = ['-', '>'] from by decide +kernel] at hs; cases hs; exact absurd hl (by decide)
          · rw [hs] at hc
            cases r with
            | cons d r' => simp at hc
            | nil =>
              simp only [isPunctChar, Bool.and_eq_true, Bool.not_eq_true', Bool.or_eq_false_iff] at hc
              rw [hc.1.2.1] at hl; cases hl
        exact lexOne_word_conv s.toList rest (.kw s) hid (by intro x hx; cases hx) h
      · split
        · rename_i hl hd
          have : c = '.' := by simpa using hd
          subst this
          -- the keyword "."
          have hr : r = [] := by
            simp only [kwClassOK, Bool.or_eq_true, beq_iff_eq] at hc
            rcases hc with ((((hc | rfl) | rfl) | rfl) | rfl) | hc
            · rw [hs] at hc; exact absurd (isIdent_cons hc).1 (by decide)
            · rw [show ".".toList = ['.'] from by decide +kernel] at hs; cases hs; rfl
            · rw [show "@import".toList = '@' :: "import".toList from by decide +kernel] at hs; cases hs
            · rw [show "@extern".toList = '@' :: "extern".toList from by decide +kernel] at hs; cases hs
            · rw [show "->".toList = ['-', '>'] from by decide +kernel] at hs; cases hs
            · rw [hs] at hc
              cases r with
              | cons d r' => simp at hc
              | nil => rfl
          subst hr
          cases rest with
          | nil => rfl
          | cons d r' =>
            simp only []
            cases hl' : isLetter d with
            | false => rfl
            | true =>
              rw [hs, List.cons_append, List.nil_append, lexOne_wordlike '.' _ (by decide)] at h
              have h0 : idLen ('.' :: d :: r') = 0 := idLen_eq_zero (by intro x hx; simp at hx; subst hx; decide)
              have h1 : nsidLen ('.' :: d :: r').length ('.' :: d :: r') > 0 := by
                rw [List.length_cons, nsidLen_dot_cons _ d r' hl']; omega
              rw [h0, if_pos h1] at h
              injection h with h3 h4; cases h3
        · rfl
  | filepath s => rfl
  | target s =>
    simp only [Tk.WF, Tk.wf] at hw
    simp only [Tk.text] at h
    cases hl : s.toList with
    | nil => rw [hl] at hw; simp [isTargetLit] at hw
    | cons c r =>
      rw [hl] at hw h
      simp only [isTargetLit, Bool.and_eq_true, List.all_eq_true, Bool.not_eq_true',
        List.isEmpty_eq_false_iff] at hw
      obtain ⟨⟨h1, h2⟩, h3⟩ := hw
      cases rest with
      | nil => rfl
      | cons d r' =>
        simp only [Tk.stops]
        cases hd : isLower d with
        | false => rfl
        | true =>
          exfalso
          have h3' : isWs c = false ∧ (c == '#') = false ∧ (c == '"') = false := by
            rcases (by simpa using h1 : c = '+' ∨ c = '-') with rfl | rfl <;> decide
          obtain ⟨a1, a2, a3⟩ := h3'
          have hsp : spanLen isLower (r ++ d :: r') = r.length + (spanLen isLower r' + 1) := by
            rw [spanLen_append_pre _ _ _ h3]; simp [spanLen, hd]
          rw [List.cons_append, lexOne_cons] at h
          simp only [a1, a2, a3, h1, Bool.false_eq_true, if_false, if_true] at h
          rw [if_pos (by omega)] at h
          injection h with h4 h5
          simp only [List.length_cons] at h5
          omega
  | comment s =>
    simp only [Tk.WF, Tk.wf] at hw
    simp only [Tk.text] at h
    cases hl : s.toList with
    | nil => rw [hl] at hw; simp [isCommentLit] at hw
    | cons c r =>
      rw [hl] at hw h
      simp only [isCommentLit, Bool.and_eq_true, beq_iff_eq, List.all_eq_true] at hw
      obtain ⟨rfl, h2⟩ := hw
      cases rest with
      | nil => rfl
      | cons d r' =>
        simp only [Tk.stops]
        cases hd : (d == '\n' || d == '\r') with
        | true => rfl
        | false =>
          exfalso
          have hd' : (d != '\r' && d != '\n') = true := by
            simp only [Bool.or_eq_false_iff, beq_eq_false_iff_ne] at hd
            simp [hd.1, hd.2]
          have hsp : spanLen (fun x => x != '\r' && x != '\n') (r ++ d :: r') =
              r.length + (spanLen (fun x => x != '\r' && x != '\n') r' + 1) := by
            rw [spanLen_append_pre _ _ _ (by intro x hx; simpa using h2 x hx)]
            simp only [spanLen, hd', if_true]
          rw [List.cons_append, lexOne_cons, if_neg (by decide), if_pos (by decide)] at h
          injection h with h4 h5
          simp only [List.length_cons] at h5
          omega
  | id s =>
    simp only [Tk.WF, Tk.wf, Bool.and_eq_true] at hw
    exact lexOne_word_conv s.toList rest (.id s) hw.1 (by intro x hx; cases hx) h
  | nsid s =>
    exact lexOne_nsid_conv s.toList rest s hw h

/-! ### `Layout` is exact -/

theorem lexOne_skip_head {c : Char} {r : List Char} {n : Nat} (h : lexOne (c :: r) = .skip n) :
    isWs c = true := by
  rw [lexOne_cons] at h
  split at h
  · assumption
  all_goals (repeat' split at h) <;> cases h

/-- if the step on `t.text ++ rest` returns the kind `t`, it consumed exactly the text of `t` -/
theorem lexOne_tok_len {t : Tk} {rest : List Char} {n : Nat}
    (h : lexOne (t.text.toList ++ rest) = .tok t n) : n = t.text.toList.length := by
  have h1 := congrArg List.length (lexOne_tok_text h)
  have h2 := (lexOne_tok_bounds h).2
  simp only [List.length_take, List.length_append] at h1 h2
  omega

theorem wordStop_of_append {c : Char} {r rest : List Char} (h : wordStop (c :: r ++ rest) = true) :
    wordStop (c :: r) = true := by
  simp only [wordStop, List.cons_append] at h ⊢
  split
  · rename_i hc
    rw [if_pos hc] at h
    cases r with
    | nil => rfl
    | cons d r' => exact h
  · rename_i hc
    rw [if_neg hc] at h
    exact h

/-- converse of `stops_append`: a continuation that is safe for `a` and starts with the text of `b` shows that
    `b` may directly follow `a` -/
theorem stops_of_append {a b : Tk} {rest : List Char} (hw : b.WF)
    (h : a.stops (b.text.toList ++ rest) = true) : a.stops b.text.toList = true := by
  obtain ⟨c, r, hbt, _⟩ := wf_text_head hw
  rw [hbt] at h ⊢
  cases a with
  | kw s =>
    simp only [Tk.stops] at h ⊢
    split
    · rfl
    · rename_i c' r' hs
      simp only [hs] at h
      split
      · rename_i hl; rw [if_pos hl] at h; exact wordStop_of_append h
      · rename_i hl
        rw [if_neg hl] at h
        split
        · rename_i hd; rw [if_pos hd] at h; exact h
        · rfl
  | filepath s => rfl
  | target s => exact h
  | comment s => exact h
  | id s => exact wordStop_of_append h
  | nsid s => exact wordStop_of_append h

theorem kindsOf_wsPiece (run : List Char) (ps : List Piece) : kindsOf (wsPiece run ++ ps) = kindsOf ps := by
  cases run <;> rfl

/-- if the scan of a rendering (white-space runs only) returns the written tokens, the layout was admissible -/
theorem fits_of_scan (s : Nat → List Char) (tks : List Tk) (hwf : ∀ t ∈ tks, t.WF)
    (hws : ∀ i, ∀ x ∈ s i, isWs x = true)
    (h : (scan (renderFrom s tks)).map kindsOf = some tks) : fitsFrom s tks = true := by
  induction tks generalizing s with
  | nil => rfl
  | cons t ts ih =>
    have hw := hwf t (by simp)
    have hwf' : ∀ x ∈ ts, x.WF := fun x hx => hwf x (List.mem_cons_of_mem _ hx)
    obtain ⟨c, r, hc, hcw⟩ := wf_text_head hw
    have hne : renderFrom s (t :: ts) ≠ [] := by
      simp only [renderFrom]
      intro h
      exact wf_text_ne_nil hw (List.append_eq_nil_iff.mp h).1
    rw [scan_cons hne] at h
    simp only [renderFrom] at h
    cases hl : lexOne (t.text.toList ++ (s 0 ++ renderFrom (shift s) ts)) with
    | err => rw [hl] at h; simp at h
    | skip n =>
      exfalso
      rw [hc, List.cons_append] at hl
      have := lexOne_skip_head hl
      rw [hcw] at this; cases this
    | tok t' n =>
      rw [hl] at h
      simp only [] at h
      rw [map_kindsOf_tok] at h
      obtain ⟨ks, hks, hcons⟩ := Option.map_eq_some_iff.mp h
      injection hcons with e1 e2
      subst e1; subst e2
      have hn := lexOne_tok_len hl
      subst hn
      have hstop := (lexOne_wf_iff t' _ hw).mp hl
      rw [List.drop_left' rfl, scan_wsPiece _ _ (hws 0) (renderFrom_head _ _ hwf'), Option.map_map] at hks
      have hks' : (scan (renderFrom (shift s) ks)).map kindsOf = some ks := by
        rw [← hks]
        congr 1
        funext ps
        exact (kindsOf_wsPiece _ _).symm
      have ih' := ih (shift s) hwf' (fun i => hws (i+1)) hks'
      simp only [fitsFrom, Bool.and_eq_true]
      refine ⟨?_, ih'⟩
      simp only [sepOK, Bool.and_eq_true, List.all_eq_true]
      refine ⟨hws 0, ?_⟩
      cases hs0 : s 0 with
      | nil =>
        cases ks with
        | nil => rfl
        | cons b ts' =>
          simp only [List.head?_cons, needsSpace, Bool.not_not]
          rw [hs0] at hstop
          simp only [List.nil_append, renderFrom] at hstop
          exact stops_of_append (hwf' b (by simp)) hstop
      | cons c' r' =>
        rw [hs0] at hstop
        cases t' <;> first | rfl | exact hstop

/-- **`Layout` is exact.** For well-formed tokens separated by white-space runs, the lexer returns the written
    tokens **iff** the layout is admissible: `Layout` cannot be weakened. -/
theorem lex_render_iff (sep : Nat → List Char) (tks : List Tk) (hwf : ∀ t ∈ tks, t.WF)
    (hws : ∀ i, ∀ x ∈ sep i, isWs x = true) :
    (lex (renderTks sep tks)).map (·.map (·.tk)) = some tks ↔ Layout sep tks := by
  refine ⟨fun h => ?_, lex_render sep tks hwf⟩
  refine ⟨List.all_eq_true.mpr (hws 0), ?_⟩
  apply fits_of_scan _ _ hwf (fun i => hws (i+1))
  rw [lex_kinds, renderTks_toList, scan_wsPiece _ _ (hws 0) (renderFrom_head _ _ hwf), Option.map_map] at h
  rw [← h]
  congr 1
  funext ps
  exact (kindsOf_wsPiece _ _).symm

/-- in particular `needsSpace` is exact: two well-formed tokens written without separator come back as the same
    two tokens iff `needsSpace a b = false` -/
theorem glue_iff (a b : Tk) (ha : a.WF) (hb : b.WF) :
    (lex (renderTks (fun _ => []) [a, b])).map (·.map (·.tk)) = some [a, b] ↔ needsSpace a b = false := by
  rw [lex_render_iff _ _ (by intro t ht; simp at ht; rcases ht with rfl | rfl <;> assumption) (by simp)]
  simp [Layout, fitsFrom, sepOK, shift]


/-! ## 7. completeness: every text the lexer accepts is an admissible rendering of its tokens -/

/-! ### every token the lexer produces is well-formed -/

theorem spanLen_split (p : Char → Bool) (cs : List Char) (h : spanLen p cs < cs.length) :
    ∃ x post, cs = cs.take (spanLen p cs) ++ x :: post ∧ p x = false := by
  induction cs with
  | nil => simp at h
  | cons c cs ih =>
    simp only [spanLen] at h ⊢
    split
    · rename_i hc
      rw [if_pos hc] at h
      obtain ⟨x, post, h1, h2⟩ := ih (by simpa using h)
      refine ⟨x, post, ?_, h2⟩
      rw [List.take_succ_cons, List.cons_append, ← h1]
    · rename_i hc
      exact ⟨c, cs, by simp, by simpa using hc⟩

theorem spanLen_drop_head (p : Char → Bool) (cs : List Char) :
    ∀ x, (cs.drop (spanLen p cs)).head? = some x → p x = false := by
  induction cs with
  | nil => simp [spanLen]
  | cons c cs ih =>
    simp only [spanLen]
    split
    · simpa using ih
    · rename_i hc
      intro x hx
      simp at hx; subst hx; simpa using hc

theorem idLen_take_ident (cs : List Char) (h : 0 < idLen cs) : isIdent (cs.take (idLen cs)) = true := by
  cases cs with
  | nil => simp [idLen] at h
  | cons c r =>
    have hc := (idLen_pos_iff c r).mp h
    simp only [idLen, hc, if_true]
    rw [Nat.add_comm, List.take_succ_cons]
    simp only [isIdent, hc, Bool.true_and, List.all_eq_true]
    exact spanLen_take_all _ r

theorem idLen_drop_head (cs : List Char) (h : 0 < idLen cs) :
    ∀ x, (cs.drop (idLen cs)).head? = some x → isLetterOrDigit x = false := by
  cases cs with
  | nil => simp [idLen] at h
  | cons c r =>
    have hc := (idLen_pos_iff c r).mp h
    simp only [idLen, hc, if_true]
    rw [Nat.add_comm, List.drop_succ_cons]
    exact spanLen_drop_head _ r

theorem isIdent_no_dot {a : List Char} (h : isIdent a = true) : ∀ x ∈ a, x ≠ '.' := by
  cases a with
  | nil => simp
  | cons c r =>
    obtain ⟨h1, h2⟩ := isIdent_cons h
    intro x hx
    rcases List.mem_cons.mp hx with rfl | hx
    · exact ne_of_pred h1 (by decide)
    · exact ne_of_pred (h2 x hx) (by decide)

theorem dotSplit_nodot (a : List Char) (h : ∀ x ∈ a, x ≠ '.') : dotSplit a = [a] := by
  induction a with
  | nil => rfl
  | cons c r ih =>
    have hc : c ≠ '.' := h c (by simp)
    simp only [dotSplit]
    rw [if_neg (by simpa using hc), ih (fun x hx => h x (List.mem_cons_of_mem _ hx))]

theorem dotSplit_append_dot (a X : List Char) (h : ∀ x ∈ a, x ≠ '.') :
    dotSplit (a ++ '.' :: X) = a :: dotSplit X := by
  induction a with
  | nil => simp [dotSplit]
  | cons c r ih =>
    have hc : c ≠ '.' := h c (by simp)
    simp only [List.cons_append, dotSplit]
    rw [if_neg (by simpa using hc), ih (fun x hx => h x (List.mem_cons_of_mem _ hx))]

theorem dotSplit_joinDots (comps : List (List Char)) (hne : comps ≠ [])
    (hall : ∀ a ∈ comps, isIdent a = true) : dotSplit (joinDots comps) = comps := by
  induction comps with
  | nil => exact absurd rfl hne
  | cons a t ih =>
    have ha := isIdent_no_dot (hall a (by simp))
    cases t with
    | nil => simp only [joinDots]; exact dotSplit_nodot a ha
    | cons b t' =>
      rw [joinDots_cons_cons, dotSplit_append_dot a _ ha,
        ih (by simp) (fun x hx => hall x (List.mem_cons_of_mem _ hx))]

/-- the shape of the prefix measured by `nsidLen`: an optional dot, then identifiers joined by dots -/
theorem nsidLen_shape (fuel : Nat) (cs : List Char) :
    nsidLen fuel cs = 0 ∨ ∃ comps, comps ≠ [] ∧ (∀ a ∈ comps, isIdent a = true) ∧
      ((cs.head? = some '.' ∧ cs.take (nsidLen fuel cs) = '.' :: joinDots comps) ∨
       (cs.head? ≠ some '.' ∧ cs.take (nsidLen fuel cs) = joinDots comps)) := by
  induction fuel generalizing cs with
  | zero => left; rfl
  | succ f ih =>
    -- the common part: after an identifier `a = take i r` (maximal), what `nsidLen f` adds
    have key : ∀ r : List Char, 0 < idLen r →
        ∃ comps, comps ≠ [] ∧ (∀ a ∈ comps, isIdent a = true) ∧
          r.take (idLen r + nsidLen f (r.drop (idLen r))) = joinDots comps := by
      intro r hi
      have ha := idLen_take_ident r hi
      rw [List.take_add]
      rcases ih (r.drop (idLen r)) with h0 | ⟨comps, hne, hall, hsh⟩
      · rw [h0]
        exact ⟨[r.take (idLen r)], by simp, by simpa using ha, by simp [joinDots]⟩
      · rcases hsh with ⟨_, ht⟩ | ⟨hh, ht⟩
        · refine ⟨r.take (idLen r) :: comps, by simp, ?_, ?_⟩
          · intro a hmem
            rcases List.mem_cons.mp hmem with rfl | hmem
            · exact ha
            · exact hall a hmem
          · rw [ht]
            cases comps with
            | nil => exact absurd rfl hne
            | cons b t => rfl
        · -- impossible: a further component without a dot would have extended the identifier
          exfalso
          by_cases h0 : nsidLen f (r.drop (idLen r)) = 0
          · rw [h0] at ht
            obtain ⟨c, r', hj, _⟩ := joinDots_head hne hall
            rw [hj] at ht; simp at ht
          · cases f with
            | zero => exact h0 rfl
            | succ f' =>
              rw [nsidLen_succ_nodot _ _ hh] at h0
              have hpos : 0 < idLen (r.drop (idLen r)) := by
                by_cases hz : idLen (r.drop (idLen r)) = 0
                · simp [hz] at h0
                · omega
              cases hd : r.drop (idLen r) with
              | nil => rw [hd] at hpos; simp [idLen] at hpos
              | cons x xs =>
                rw [hd] at hpos
                have hx := (idLen_pos_iff x xs).mp hpos
                have := idLen_drop_head r hi x (by rw [hd]; rfl)
                rw [isLetter_isLetterOrDigit hx] at this; cases this
    by_cases h : cs.head? = some '.'
    · obtain ⟨r, rfl⟩ := head?_eq_dot h
      rw [nsidLen_succ_dot]
      by_cases hi : idLen r = 0
      · left; simp [hi]
      · right
        obtain ⟨comps, hne, hall, ht⟩ := key r (by omega)
        refine ⟨comps, hne, hall, Or.inl ⟨rfl, ?_⟩⟩
        simp only [beq_iff_eq, hi, if_false]
        rw [Nat.add_assoc, Nat.add_comm 1, List.take_succ_cons, ht]
    · rw [nsidLen_succ_nodot _ _ h]
      by_cases hi : idLen cs = 0
      · left; simp [hi]
      · right
        obtain ⟨comps, hne, hall, ht⟩ := key cs (by omega)
        refine ⟨comps, hne, hall, Or.inr ⟨h, ?_⟩⟩
        simp only [beq_iff_eq, hi, if_false, Nat.zero_add]
        exact ht

theorem take_ne_nil' {cs : List Char} {n : Nat} (h0 : 0 < n) (hn : n ≤ cs.length) : cs.take n ≠ [] := by
  intro h
  have := congrArg List.length h
  simp only [List.length_take, List.length_nil] at this
  omega

theorem take_succ_of_split {rest a post : List Char} {x : Char} {k : Nat} (h : rest = a ++ x :: post)
    (hk : a.length = k) : rest.take (k+1) = a ++ [x] := by
  subst h; subst hk
  rw [List.take_length_add_append]; rfl

/-- **Every token produced by a lexer step is well-formed.** -/
theorem lexOne_tok_wf {cs : List Char} {t : Tk} {n : Nat} (h : lexOne cs = .tok t n) : t.WF := by
  cases cs with
  | nil => cases h
  | cons c rest =>
    rw [lexOne_cons] at h
    split at h
    · cases h
    split at h
    · rename_i hc
      cases h
      simp only [Tk.WF, Tk.wf, String.toList_ofList]
      rw [List.take_succ_cons]
      simp only [isCommentLit, hc, Bool.true_and, List.all_eq_true]
      exact spanLen_take_all _ rest
    split at h
    · rename_i hc
      split at h
      · rename_i hlt
        cases h
        obtain ⟨x, post, hsplit, hx⟩ := spanLen_split _ rest hlt
        have hx' : x = '"' := by simpa using hx
        subst hx'
        simp only [Tk.WF, Tk.wf, String.toList_ofList]
        rw [List.take_succ_cons]
        have ht : rest.take (spanLen (fun x => x != '"') rest + 1) =
            rest.take (spanLen (fun x => x != '"') rest) ++ ['"'] := by
          have hlen : (rest.take (spanLen (fun x => x != '"') rest)).length = spanLen (fun x => x != '"') rest := by
            rw [List.length_take]; omega
          exact take_succ_of_split hsplit hlen
        rw [ht]
        simp only [isPathLit, hc, Bool.true_and, List.getLast?_append, List.getLast?_singleton,
          Option.some_or, beq_self_eq_true, List.dropLast_concat, List.all_eq_true]
        exact spanLen_take_all _ rest
      · cases h
    split at h
    · rename_i hc
      split at h
      · rename_i hpos
        cases h
        simp only [Tk.WF, Tk.wf, String.toList_ofList]
        rw [List.take_succ_cons]
        simp only [isTargetLit, hc, Bool.true_and, Bool.and_eq_true, Bool.not_eq_true',
          List.isEmpty_eq_false_iff, List.all_eq_true]
        exact ⟨take_ne_nil' hpos (spanLen_le _ _), spanLen_take_all _ rest⟩
      · split at h
        · cases h; decide
        · cases h
    split at h
    · split at h
      · cases h; decide
      · split at h
        · cases h; decide
        · cases h
    split at h
    · rename_i hc
      split at h
      · rename_i hgt
        cases h
        simp only [Tk.WF, Tk.wf, String.toList_ofList]
        rcases nsidLen_shape (c :: rest).length (c :: rest) with h0 | ⟨comps, hne, hall, hsh⟩
        · omega
        · rcases hsh with ⟨hh, ht⟩ | ⟨hh, ht⟩
          · rw [ht]
            simp only [isNsid, beq_self_eq_true, if_true, dotSplit_joinDots comps hne hall, List.all_eq_true]
            exact hall
          · rw [ht]
            obtain ⟨c', r', hj, hc'⟩ := joinDots_head hne hall
            have hcd : (c' == '.') = false := beq_false_of_pred hc' (by decide)
            rw [hj]
            simp only [isNsid, hcd, Bool.false_eq_true, if_false]
            rw [← hj, dotSplit_joinDots comps hne hall]
            simp only [Bool.and_eq_true, List.all_eq_true, decide_eq_true_eq]
            refine ⟨hall, ?_⟩
            -- a single component would be a plain identifier: then `nsidLen ≤ idLen`
            cases comps with
            | nil => exact absurd rfl hne
            | cons a t =>
              cases t with
              | cons b t' => simp
              | nil =>
                exfalso
                simp only [joinDots] at ht
                have ha := hall a (by simp)
                have hsplit : c :: rest = a ++ (c :: rest).drop (nsidLen (c :: rest).length (c :: rest)) := by
                  conv => lhs; rw [← List.take_append_drop (nsidLen (c :: rest).length (c :: rest)) (c :: rest)]
                  rw [ht]
                have hlen : a.length = nsidLen (c :: rest).length (c :: rest) := by
                  rw [← ht, List.length_take]
                  have := nsidLen_le (c :: rest).length (c :: rest)
                  omega
                have hi : idLen (c :: rest) ≥ a.length := by
                  rw [hsplit, idLen_ident_gen a _ ha]; omega
                omega
      · split at h
        · split at h
          · rename_i hlit
            cases h; exact hlit
          · rename_i hpos hlit
            cases h
            simp only [Tk.WF, Tk.wf, String.toList_ofList, Bool.and_eq_true, Bool.not_eq_true']
            exact ⟨idLen_take_ident _ hpos, by simpa using hlit⟩
        · cases h; decide
    · split at h
      · rename_i hlit
        cases h; exact hlit
      · cases h

/-- every token kind found by a successful scan is well-formed -/
theorem scan_kinds_wf {cs : List Char} {ps : List Piece} (h : scan cs = some ps) : ∀ t ∈ kindsOf ps, t.WF := by
  refine scan_induct (motive := fun _ ps => ∀ t ∈ kindsOf ps, t.WF) (by simp [kindsOf]) ?_ ?_ cs ps h
  · intro cs n ps _ _ _ ih t ht
    exact ih t (by simpa [kindsOf] using ht)
  · intro cs t n ps _ hl _ ih t' ht
    simp only [kindsOf, List.mem_cons] at ht
    rcases ht with rfl | ht
    · exact lexOne_tok_wf hl
    · exact ih t' ht

/-- **the lexer only produces well-formed tokens** -/
theorem lex_tokens_wf {s : String} {toks : List Token} (h : lex s = some toks) : ∀ t ∈ toks, t.tk.WF := by
  obtain ⟨ps, hps, _, _, _, hk⟩ := lex_reconstruct h
  intro t ht
  exact scan_kinds_wf hps t.tk (by rw [← hk]; exact List.mem_map_of_mem ht)

/-! ### reading the layout off the pieces -/

/-- the white-space runs of a piece list: the run before the first token (started with `cur`), and the runs
    after each token (empty where two tokens touch) -/
def sepsFrom : List Piece → List Char → List Char × List (List Char)
  | [], cur => (cur, [])
  | .ws w :: ps, cur => sepsFrom ps (cur ++ w)
  | .tok _ _ :: ps, cur => (cur, (sepsFrom ps []).1 :: (sepsFrom ps []).2)

/-- a list of runs as a layout function (empty beyond the list) -/
def sepOfList (l : List (List Char)) : Nat → List Char := fun i => l.getD i []

theorem shift_sepOfList (x : List Char) (l : List (List Char)) : shift (sepOfList (x :: l)) = sepOfList l := by
  funext i; simp [shift, sepOfList]

theorem sepsFrom_render (ps : List Piece) (cur : List Char) (hwf : ∀ p ∈ ps, p.WF) :
    (sepsFrom ps cur).1 ++ renderFrom (sepOfList (sepsFrom ps cur).2) (kindsOf ps) = cur ++ flat ps := by
  induction ps generalizing cur with
  | nil => simp [sepsFrom, kindsOf, renderFrom, flat]
  | cons p ps ih =>
    have hwf' : ∀ q ∈ ps, q.WF := fun q hq => hwf q (List.mem_cons_of_mem _ hq)
    cases p with
    | ws w =>
      simp only [sepsFrom, kindsOf, flat_cons, Piece.chars]
      rw [ih (cur ++ w) hwf', List.append_assoc]
    | tok t w =>
      have ht : t.text.toList = w := (hwf (.tok t w) (by simp)).2
      simp only [sepsFrom, kindsOf, flat_cons, Piece.chars, renderFrom, shift_sepOfList]
      have e0 : sepOfList ((sepsFrom ps []).1 :: (sepsFrom ps []).2) 0 = (sepsFrom ps []).1 := by
        simp [sepOfList]
      rw [e0, ih [] hwf', ht, List.nil_append]

theorem sepsFrom_ws (ps : List Piece) (cur : List Char) (hwf : ∀ p ∈ ps, p.WF) (hcur : ∀ x ∈ cur, isWs x = true) :
    (∀ x ∈ (sepsFrom ps cur).1, isWs x = true) ∧ ∀ run ∈ (sepsFrom ps cur).2, ∀ x ∈ run, isWs x = true := by
  induction ps generalizing cur with
  | nil => simp [sepsFrom]; exact hcur
  | cons p ps ih =>
    have hwf' : ∀ q ∈ ps, q.WF := fun q hq => hwf q (List.mem_cons_of_mem _ hq)
    cases p with
    | ws w =>
      simp only [sepsFrom]
      apply ih _ hwf'
      intro x hx
      rcases List.mem_append.mp hx with hx | hx
      · exact hcur x hx
      · exact (hwf (.ws w) (by simp)).2 x hx
    | tok t w =>
      simp only [sepsFrom]
      obtain ⟨h1, h2⟩ := ih [] hwf' (by simp)
      refine ⟨hcur, ?_⟩
      intro run hrun
      rcases List.mem_cons.mp hrun with rfl | hrun
      · exact h1
      · exact h2 run hrun

theorem sepOfList_ws (l : List (List Char)) (h : ∀ run ∈ l, ∀ x ∈ run, isWs x = true) :
    ∀ i, ∀ x ∈ sepOfList l i, isWs x = true := by
  intro i x hx
  simp only [sepOfList, List.getD_eq_getElem?_getD] at hx
  cases hi : l[i]? with
  | none => rw [hi] at hx; simp at hx
  | some run =>
    rw [hi] at hx
    exact h run (List.mem_of_getElem? hi) x hx

/-- **Completeness: every accepted text is an admissible rendering of its tokens.** If `lex s = some toks`, the
    token kinds are well-formed and there is an admissible layout `sep` (read off the text) such that `s` is
    literally `renderTks sep` of the kinds. -/
theorem lex_is_render {s : String} {toks : List Token} (h : lex s = some toks) :
    (∀ t ∈ toks.map (·.tk), t.WF) ∧
    ∃ sep, Layout sep (toks.map (·.tk)) ∧ renderTks sep (toks.map (·.tk)) = s := by
  obtain ⟨ps, hps, hflat, hwf, _, hk⟩ := lex_reconstruct h
  have hkw : ∀ t ∈ toks.map (·.tk), t.WF := by rw [hk]; exact scan_kinds_wf hps
  refine ⟨hkw, ?_⟩
  let l := sepsFrom ps []
  have hr : renderTks (sepOfList (l.1 :: l.2)) (toks.map (·.tk)) = s := by
    have := sepsFrom_render ps [] hwf
    simp only [renderTks, shift_sepOfList]
    have e0 : sepOfList (l.1 :: l.2) 0 = l.1 := by simp [sepOfList]
    rw [e0, hk, this, List.nil_append, hflat, String.ofList_toList]
  refine ⟨sepOfList (l.1 :: l.2), ?_, hr⟩
  obtain ⟨h1, h2⟩ := sepsFrom_ws ps [] hwf (by simp)
  rw [← lex_render_iff _ _ hkw (sepOfList_ws _ (by
    intro run hrun
    rcases List.mem_cons.mp hrun with rfl | hrun
    · exact h1
    · exact h2 run hrun)), hr, h]
  rfl

/-- **The lexer, characterised.** `lex s` succeeds with token kinds `tks` **iff** `tks` are well-formed and `s` is
    `renderTks sep tks` for some admissible layout `sep`. -/
theorem lex_iff_render (s : String) (tks : List Tk) :
    (lex s).map (·.map (·.tk)) = some tks ↔
      (∀ t ∈ tks, t.WF) ∧ ∃ sep, Layout sep tks ∧ renderTks sep tks = s := by
  constructor
  · intro h
    cases hl : lex s with
    | none => rw [hl] at h; cases h
    | some toks =>
      rw [hl] at h
      have e : toks.map (·.tk) = tks := Option.some.inj h
      rw [← e]
      exact lex_is_render hl
  · rintro ⟨hwf, sep, hl, rfl⟩
    exact lex_render sep tks hwf hl


/-! ### two canonical layouts, admissible for every token sequence -/

/-- the *tight* layout: nothing between two tokens unless `needsSpace` demands it (then one blank; one line end
    after a comment); no leading or trailing white space -/
def tightSep (tks : List Tk) : Nat → List Char
  | 0 => []
  | i+1 =>
    match tks[i]?, tks[i+1]? with
    | some a, some b =>
      if needsSpace a b then
        (match a with
         | .comment _ => ['\n']
         | _ => [' '])
      else []
    | _, _ => []

/-- the tight layout is admissible for every token sequence -/
theorem tight_layout (tks : List Tk) : Layout (tightSep tks) tks := by
  rw [layout_iff]
  refine ⟨by simp [tightSep], ?_⟩
  intro i hi
  have e : tks[i]? = some tks[i] := List.getElem?_eq_getElem hi
  cases hn : tks[i+1]? with
  | none => simp [tightSep, hn, sepOK]
  | some b =>
    simp only [tightSep, e, hn]
    cases hs : needsSpace tks[i] b with
    | false => simp [sepOK, hs]
    | true =>
      simp only [if_true]
      cases tks[i] <;> simp [sepOK, isWs, isNl]

/-- a *line-oriented* layout: a line end after comments, `;`, `{` and `}`, one blank elsewhere -/
def lineSep (tks : List Tk) : Nat → List Char
  | 0 => []
  | i+1 =>
    match tks[i]? with
    | some (.comment _) => ['\n']
    | some (.kw s) => if s == ";" || s == "{" || s == "}" then ['\n'] else [' ']
    | _ => [' ']

theorem line_layout (tks : List Tk) : Layout (lineSep tks) tks := by
  apply Spaced.layout
  refine ⟨by simp [lineSep], ?_⟩
  intro i hi
  have e : tks[i]? = some tks[i] := List.getElem?_eq_getElem hi
  simp only [lineSep, e]
  cases h : tks[i] with
  | kw s =>
    simp only []
    split
    · refine ⟨by simp, by simp [isWs], ?_⟩
      intro c hc; cases hc
    · refine ⟨by simp, by simp [isWs], ?_⟩
      intro c hc; cases hc
  | comment s =>
    refine ⟨by simp, by simp [isWs], ?_⟩
    intro c _ x hx
    simp at hx; subst hx; decide
  | _ =>
    refine ⟨by simp, by simp [isWs], ?_⟩
    intro c hc; cases hc

/-- every well-formed file shape has a source text — even several: the line-oriented and the tight one -/
theorem source_exists (f : FileShape) (hf : f.WF) :
    ∃ file file', parseText (renderTks (lineSep (printFile f)) (printFile f)) = some file ∧
      parseText (renderTks (tightSep (printFile f)) (printFile f)) = some file' ∧
      file.shape? = file'.shape? ∧ file.shape? = some f.erase :=
  layout_independence f hf _ _ (line_layout _) (tight_layout _)

/-! ## 5. non-vacuity: worked examples (kernel-evaluated unless marked as tests) -/

/-- import line, dotted namespace with a comment, enum with a commented item, record with target flag, an
    optional generic field and `deriving`, interface with a static async method with two parameters (one of a
    dotted type), `throws` and a return type, and a property -/
def exText : FileShape :=
  { loads := [⟨true, "\"base.pydjinni\""⟩],
    contents := [
      .ns "app.core" true ["# the core namespace"] [
        .decl (.enum "color" [] [⟨"red", ["# warm"]⟩, ⟨"green", []⟩]),
        .decl (.record "point" [] ["+cpp"]
          [⟨"x", ty "i32", []⟩, ⟨"tags", .mk "list" false [ty "string"] true, []⟩] (some ["eq", "ord"])),
        .decl (.interface "service" ["# entry point"] true ["+cpp", "-java"] [
          .m ⟨"run", true, false, true,
              ⟨[⟨"p", ty "point"⟩, ⟨"n", .mk "base.count" true [] false⟩], some [ty "failure"], some (ty "bool")⟩,
              ["# runs"]⟩,
          .p ⟨"state", ty "color", []⟩])]] }

/-- every token on a line of its own -/
def layLines : Nat → List Char := fun i => if i = 0 then [] else ['\n']
/-- a wild mixture of `\r\n`, tabs, blanks and empty lines (each run starting with a line end) -/
def layWild : Nat → List Char := fun i =>
  if i % 4 = 0 then ['\r', '\n', '\t'] else if i % 4 = 1 then ['\n', ' ', ' ']
  else if i % 4 = 2 then ['\n'] else ['\r', '\r', '\n', ' ', '\n']

example : exText.good = true := by decide +kernel
theorem exText_wf : exText.WF := FileShape.good_wf (by decide +kernel)
theorem exText_layLines : Layout layLines (printFile exText) := by decide +kernel
theorem exText_layWild : Layout layWild (printFile exText) := by decide +kernel

/-- the line-oriented rendering of `exText`, as text -/
example : renderTks (lineSep (printFile exText)) (printFile exText) =
"@import \"base.pydjinni\" # the core namespace
namespace app.core {
color = enum {
# warm
red ;
green ;
}
point = record +cpp {
x : i32 ;
tags : list < string > ? ;
}
deriving ( eq , ord ) # entry point
service = main interface +cpp -java {
# runs
static async run ( p : point , n : base.count ) throws failure -> bool ;
property state : color ;
}
}
" := by decide +kernel

/-- the tight rendering: blanks only where two words (or a target flag and a word) meet -/
example : renderTks (tightSep (printFile exText)) (printFile exText) =
"@import\"base.pydjinni\"# the core namespace
namespace app.core{color=enum{# warm
red;green;}point=record+cpp{x:i32;tags:list<string>?;}deriving(eq,ord)# entry point
service=main interface+cpp-java{# runs
static async run(p:point,n:base.count)throws failure->bool;property state:color;}}" := by decide +kernel

/-- `layout_independence` instantiated: the "one token per line" text and the wild `\r\n`/tab/blank-line text
    both parse, to files of the same shape `exText.erase` -/
example : ∃ file file', parseText (renderTks layLines (printFile exText)) = some file ∧
    parseText (renderTks layWild (printFile exText)) = some file' ∧
    file.shape? = file'.shape? ∧ file.shape? = some exText.erase :=
  layout_independence exText exText_wf layLines layWild exText_layLines exText_layWild

/-- … and the two texts are really different -/
example : renderTks layLines (printFile exText) ≠ renderTks layWild (printFile exText) := by decide +kernel

/-- independent check by evaluation (not using the theorems): lexing + parsing the four texts gives the shape -/
example : (parseText (renderTks layWild (printFile exText))).bind File.shape? = some exText.erase := by
  decide +kernel
example : (parseText (renderTks (tightSep (printFile exText)) (printFile exText))).bind File.shape? =
    some exText.erase := by decide +kernel
-- tests (compiler-evaluated)
#guard (parseText (renderTks layLines (printFile exText))).bind File.shape? == some exText.erase
#guard (parseText (renderTks (lineSep (printFile exText)) (printFile exText))).bind File.shape? == some exText.erase
#guard (lex (renderTks layWild (printFile exText))).map (·.map (·.tk)) == some (printFile exText)

/-- `lex_render_position` on a small sequence: positions computed by the lexer = `advance` over the prefix -/
example : (lex (renderTks layWild [.id "a", .kw "=", .kw "enum", .kw "{", .kw "}"])).map
      (·.map (fun t => (t.line, t.col))) =
    some [(2, 1), (3, 2), (4, 0), (6, 0), (7, 1)] := by decide +kernel
example : advance 1 0 (renderTks layWild ([Tk.id "a", .kw "=", .kw "enum", .kw "{", .kw "}"].take 3)).toList = (6, 0) := by
  decide +kernel

/-- `lex_iff_render` on a hand-written text: the source `exSmallSrc` of `C03Decl` *is* an admissible rendering
    of the tokens `printFile exSmall` -/
example : ∃ sep, Layout sep (printFile exSmall) ∧ renderTks sep (printFile exSmall) = exSmallSrc :=
  ((lex_iff_render exSmallSrc (printFile exSmall)).mp exSmall_lex).2

/-! the hypotheses are needed -/

/-- `Layout` is needed (1): two words glued together are one word -/
example : needsSpace (.id "a") (.id "b") = true ∧
    (lex (renderTks (fun _ => []) [.id "a", .id "b"])).map (·.map (·.tk)) = some [.id "ab"] := by decide +kernel
/-- (2): a word and a dotted name, a target flag and a word, `.` and a word glue as well -/
example : needsSpace (.id "a") (.nsid ".b") = true ∧ needsSpace (.target "+c") (.id "pp") = true ∧
    needsSpace (.kw ".") (.id "x") = true ∧
    (lex (renderTks (fun _ => []) [.id "a", .nsid ".b"])).map (·.map (·.tk)) = some [.nsid "a.b"] ∧
    (lex (renderTks (fun _ => []) [.target "+c", .id "pp"])).map (·.map (·.tk)) = some [.target "+cpp"] ∧
    (lex (renderTks (fun _ => []) [.kw ".", .id "x"])).map (·.map (·.tk)) = some [.nsid ".x"] := by
  decide +kernel
/-- (3): after a comment, a run of blanks is not enough — the comment swallows the rest of the line -/
example : ¬ Layout (fun _ => [' ']) [.comment "#c", .id "a"] ∧
    (lex (renderTks (fun _ => [' ']) [.comment "#c", .id "a"])).map (·.map (·.tk)) =
      some [.comment "#c a "] := by decide +kernel
/-- gluing is fine where `needsSpace` says so: `a:list<b>?;` -/
example : Layout (fun _ => []) [.id "a", .kw ":", .id "list", .kw "<", .id "b", .kw ">", .kw "?", .kw ";"] ∧
    renderTks (fun _ => []) [.id "a", .kw ":", .id "list", .kw "<", .id "b", .kw ">", .kw "?", .kw ";"] =
      "a:list<b>?;" := by decide +kernel
/-- `a.` followed by a non-letter is not a dotted name: `.` may be glued to a word if no letter follows -/
example : Layout (fun _ => []) [.id "a", .kw ".", .kw ";"] ∧ ¬ Layout (fun _ => []) [.id "a", .kw ".", .id "b"] := by
  decide +kernel
/-- `Tk.WF` is needed: a keyword written as identifier, an identifier starting with `_`, a comment with a line
    break, a "dotted" name without dot do not come back -/
example : ¬ (Tk.id "enum").WF ∧ ¬ (Tk.id "_a").WF ∧ ¬ (Tk.id "1a").WF ∧ ¬ (Tk.comment "#a\nb").WF ∧
    ¬ (Tk.nsid "a").WF ∧ ¬ (Tk.nsid "a..b").WF ∧ ¬ (Tk.nsid "a.").WF ∧ ¬ (Tk.filepath "\"a\"b\"").WF ∧
    ¬ (Tk.target "+").WF ∧ ¬ (Tk.target "+Cpp").WF ∧ ¬ (Tk.kw "class").WF := by decide +kernel
example : (Tk.id "a_1").WF ∧ (Tk.nsid "a.b").WF ∧ (Tk.nsid ".a.enum").WF ∧ (Tk.comment "#").WF ∧
    (Tk.filepath "\"\"").WF ∧ (Tk.filepath "\"a\nb\"").WF ∧ (Tk.target "-objc").WF ∧ (Tk.kw "->").WF := by
  decide +kernel
example : (lex (renderTks layLines [.id "enum"])).map (·.map (·.tk)) = some [.kw "enum"] ∧
    (lex (renderTks layLines [.nsid "a"])).map (·.map (·.tk)) = some [.id "a"] ∧
    lex (renderTks layLines [.id "_a"]) = none ∧
    (lex (renderTks layLines [.comment "#a\nb"])).map (·.map (·.tk)) = some [.comment "#a", .id "b"] := by
  decide +kernel
/-- `FileShape.good` rejects a keyword used as a name and a comment without `#` -/
example : FileShape.good { loads := [], contents := [.decl (.enum "record" [] [])] } = false ∧
    FileShape.good { loads := [], contents := [.decl (.enum "e" ["doc"] [])] } = false := by decide +kernel

#print axioms lexOne_wf
#print axioms lexOne_wf_iff
#print axioms lex_render_iff
#print axioms glue_iff
#print axioms lexOne_tok_wf
#print axioms lex_tokens_wf
#print axioms lex_is_render
#print axioms lex_iff_render
#print axioms scan_renderFrom
#print axioms lex_render_exact
#print axioms lex_render
#print axioms lex_render_spaced
#print axioms lex_layout_independent
#print axioms renderTks_injective
#print axioms lex_render_position
#print axioms lex_render_position_prefix
#print axioms FileShape.good_wf
#print axioms source_roundtrip
#print axioms source_roundtrip_good
#print axioms layout_independence
#print axioms source_injective
#print axioms tight_layout
#print axioms line_layout
#print axioms source_exists

end Pydjinni.Front
