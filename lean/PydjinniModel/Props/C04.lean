import PydjinniModel.Front.Imports
import PydjinniModel.Front.Spec
/-!
# C04 — type references resolve by lexical namespace scoping, uniquely

Theorems about `Resolver.register/resolve` as modelled in `Front/Sem.lean`, for every registry,
every namespace depth and every name.

* `resolve_eq_lexical`            the inner-to-outer loop is lexical scoping (longest enclosing prefix first;
                                  a leading dot searches the root only)
* `resolve_none_iff`              a reference is unknown iff no enclosing prefix holds the name
* `resolve_perm`                  which declaration is found does not depend on registration order
* `registerAll_ok_iff`            registration succeeds iff no qualified name is taken twice
* `registerAll_error_dup`         a failing registration stops at a site whose key is already taken
* `registerAll_ok_eq`             a successful registration makes exactly the given declarations available
* `resolveStep_binds_lexical`     the deferred resolution loop binds a reference to `lexicalLookup`
-/
namespace Pydjinni.Front

theorem resolveRel_eq_findSome (r : Registry) (name : String) (nsRev : List String) :
    resolveRel r name nsRev = (prefixesLongestFirst nsRev).findSome? (fun p => r.get (regKey p name)) := by
  induction nsRev with
  | nil => simp [resolveRel, prefixesLongestFirst]
  | cons n ns ih =>
    simp only [resolveRel, prefixesLongestFirst, List.findSome?_cons]
    cases h : r.get (regKey (n :: ns).reverse name) with
    | some d => simp
    | none => simpa using ih

/-- `Resolver.resolve` is lexical scoping. -/
theorem resolve_eq_lexical (r : Registry) (ns : List String) (name : String) :
    resolve r ns name = lexicalLookup r ns name := by
  unfold resolve lexicalLookup
  split
  · rfl
  · exact resolveRel_eq_findSome r name ns.reverse

/-- Unknown-type diagnostic iff nothing matches: relative references. -/
theorem resolve_none_iff (r : Registry) (ns : List String) (name : String) (h : name.startsWith "." = false) :
    resolve r ns name = none ↔ ∀ p ∈ prefixesLongestFirst ns.reverse, r.get (regKey p name) = none := by
  rw [resolve_eq_lexical]
  unfold lexicalLookup
  simp [h, List.findSome?_eq_none_iff]

/-- Unknown-type diagnostic iff nothing matches: absolute references look at the root only. -/
theorem resolve_abs (r : Registry) (ns : List String) (name : String) (h : name.startsWith "." = true) :
    resolve r ns name = r.get (name.drop 1).toString := by
  unfold resolve; simp [h]

/-- The root is always searched last, and the innermost namespace first. -/
theorem prefixes_head (n : String) (ns : List String) :
    (prefixesLongestFirst (n :: ns)).head? = some (n :: ns).reverse := by
  simp [prefixesLongestFirst]

theorem prefixes_getLast (nsRev : List String) : (prefixesLongestFirst nsRev).getLast? = some [] := by
  induction nsRev with
  | nil => simp [prefixesLongestFirst]
  | cons n ns ih =>
    simp only [prefixesLongestFirst]
    rw [List.getLast?_cons_of_ne_nil]
    · exact ih
    · cases ns <;> simp [prefixesLongestFirst]

/-- With distinct keys, lookup does not depend on registration order. -/
theorem get_perm (r r' : Registry) (hp : r.Perm r') (hn : (r.map (·.key)).Nodup) (k : String) :
    r.get k = r'.get k := by
  induction hp with
  | nil => rfl
  | cons x _ ih =>
    simp only [List.map_cons, List.nodup_cons] at hn
    simp only [Registry.get, List.find?_cons] at *
    cases hx : x.key == k <;> simp
    exact ih hn.2
  | swap x y l =>
    simp only [List.map_cons, List.nodup_cons, List.mem_cons, not_or] at hn
    simp only [Registry.get, List.find?_cons]
    cases hx : x.key == k <;> cases hy : y.key == k <;> simp
    have := hn.1.1
    simp at hx hy; exact absurd (hy.trans hx.symm) this
  | trans h1 h2 ih1 ih2 =>
    have hn' := (h1.map (·.key)).nodup_iff.mp hn
    exact (ih1 hn).trans (ih2 hn')

/-- Resolution is independent of declaration order (and hence of which file a declaration was
    registered from): any permutation of a duplicate-free registry binds every reference alike. -/
theorem resolve_perm (r r' : Registry) (hp : r.Perm r') (hn : (r.map (·.key)).Nodup)
    (ns : List String) (name : String) : resolve r ns name = resolve r' ns name := by
  rw [resolve_eq_lexical, resolve_eq_lexical]
  unfold lexicalLookup
  split
  · exact get_perm r r' hp hn _
  · congr 1; funext p; exact get_perm r r' hp hn _

theorem get_isSome_iff (r : Registry) (k : String) : (r.get k).isSome = true ↔ k ∈ r.map (·.key) := by
  unfold Registry.get
  simp [List.find?_isSome]

def siteDef (s : RegSite) : Def := { key := s.key, prim := s.prim, arity := s.arity }

/-- A successful registration makes exactly the given declarations available, in order. -/
theorem registerAll_ok_eq (r r' : Registry) (sites : List RegSite) (h : registerAll r sites = .ok r') :
    r' = r ++ sites.map siteDef := by
  induction sites generalizing r with
  | nil => simp [registerAll] at h; simp [h]
  | cons s rest ih =>
    simp only [registerAll] at h
    split at h
    · cases h
    · have := ih _ h
      simp [this, siteDef, List.append_assoc]

/-- Registration succeeds iff no qualified name is taken twice — neither by the registry so far
    (built-ins, external types, imported files) nor by two of the new declarations. -/
theorem registerAll_ok_iff (r : Registry) (sites : List RegSite) :
    (∃ r', registerAll r sites = .ok r') ↔
      (sites.map (·.key)).Nodup ∧ ∀ s ∈ sites, s.key ∉ r.map (·.key) := by
  induction sites generalizing r with
  | nil => simp [registerAll]
  | cons s rest ih =>
    simp only [registerAll]
    by_cases hs : (r.get s.key).isSome = true
    · simp only [hs, if_true]
      constructor
      · rintro ⟨_, h⟩; cases h
      · rintro ⟨_, h⟩
        exact absurd ((get_isSome_iff r s.key).mp hs) (h s (by simp))
    · have hnot : s.key ∉ r.map (·.key) := fun hm => hs ((get_isSome_iff r s.key).mpr hm)
      rw [if_neg hs, ih]
      constructor
      · rintro ⟨hnd, hall⟩
        refine ⟨?_, ?_⟩
        · rw [List.map_cons, List.nodup_cons]
          refine ⟨?_, hnd⟩
          intro hm
          obtain ⟨x, hx, hk⟩ := List.mem_map.mp hm
          exact hall x hx (by simp [hk])
        · intro x hx
          rcases List.mem_cons.mp hx with rfl | hx
          · exact hnot
          · intro hm; exact hall x hx (by simp only [List.map_append, List.mem_append]; exact Or.inl hm)
      · rintro ⟨hnd, hall⟩
        rw [List.map_cons, List.nodup_cons] at hnd
        refine ⟨hnd.2, fun x hx hm => ?_⟩
        simp only [List.map_append, List.mem_append, List.map_cons, List.map_nil, List.mem_singleton] at hm
        rcases hm with hm | hm
        · exact hall x (List.mem_cons_of_mem _ hx) hm
        · exact hnd.1 (List.mem_map.mpr ⟨x, hx, hm⟩)

/-- A failing registration stops at a declaration whose qualified name is already taken by the
    registry it started from or by an earlier declaration of the same list. -/
theorem registerAll_error_dup (r : Registry) (sites : List RegSite) (s : RegSite)
    (h : registerAll r sites = .error s) :
    ∃ pre post, sites = pre ++ s :: post ∧ s.key ∈ (r ++ pre.map siteDef).map (·.key) := by
  induction sites generalizing r with
  | nil => simp [registerAll] at h
  | cons x rest ih =>
    simp only [registerAll] at h
    split at h
    · rename_i hx
      cases h
      exact ⟨[], rest, by simp, by simpa using (get_isSome_iff r s.key).mp hx⟩
    · obtain ⟨pre, post, hsplit, hmem⟩ := ih _ h
      refine ⟨x :: pre, post, by simp [hsplit], ?_⟩
      simpa [siteDef, List.append_assoc] using hmem

/-- The deferred resolution step binds a not-yet-bound reference to what lexical scoping denotes,
    and reports `unknown-type` at the reference exactly when lexical scoping finds nothing. -/
theorem resolveStep_binds_lexical (reg : Registry) (m : Resolved) (ds : List Diag) (r : RefSite)
    (hfresh : m.get r.file r.pos = none) :
    (lexicalLookup reg r.ns r.name = none →
        resolveStep reg (m, ds) r = .ok (m, ds ++ [{ cls := "TypeResolvingException", rule := "unknown-type", file := r.file, pos := r.pos }]))
    ∧ (∀ d, lexicalLookup reg r.ns r.name = some d →
        ∃ ds', resolveStep reg (m, ds) r = .ok (m ++ [((r.file, r.pos), d)], ds')) := by
  constructor
  · intro h
    simp [resolveStep, hfresh, resolve_eq_lexical, h]
  · intro d h
    simp only [resolveStep, hfresh, resolve_eq_lexical, h]
    split
    · exact ⟨_, rfl⟩
    · split <;> exact ⟨_, rfl⟩

/-! Non-vacuity: a concrete shadowing registry — `a.b.x`, `a.x` and `x` — seen from `a.b`, `a.d`, the root. -/
def exReg : Registry :=
  [{ key := "x", prim := .enum, arity := 0 }, { key := "a.x", prim := .record, arity := 0 }, { key := "a.b.x", prim := .interface, arity := 0 }]

example : (resolve exReg ["a", "b"] "x").map (·.key) = some "a.b.x" := by decide +kernel
example : (resolve exReg ["a", "d"] "x").map (·.key) = some "a.x" := by decide +kernel
example : (resolve exReg ["a", "b"] ".x").map (·.key) = some "x" := by decide +kernel
example : (resolve exReg ["a", "b"] "b.x").map (·.key) = some "a.b.x" := by decide +kernel
example : resolve exReg ["a", "b"] "c.x" = none := by decide +kernel
example : (exReg.map (·.key)).Nodup := by decide +kernel

end Pydjinni.Front

namespace Pydjinni.Front

/-! ### the deferred resolution loop binds every reference lexically and reports exactly the reference-level violations -/

/-- what the rules say about one reference (cf. `Spec.refRule`) -/
def refDiags (reg : Registry) (r : RefSite) : List Diag :=
  match lexicalLookup reg r.ns r.name with
  | none => [{ cls := "TypeResolvingException", rule := "unknown-type", file := r.file, pos := r.pos }]
  | some d =>
    if r.nargs > 0 && d.arity == 0 then [{ cls := "ParsingException", rule := "no-generics", file := r.file, pos := r.pos }]
    else if r.nargs > 0 && d.arity != r.nargs then [{ cls := "ParsingException", rule := "generic-arity", file := r.file, pos := r.pos }]
    else []

theorem Pos.beq_iff (a b : Pos) : (a == b) = true ↔ a = b := by
  cases a; cases b
  simp only [Pos.mk.injEq]
  constructor
  · intro h
    simp [BEq.beq, instBEqPos.beq] at h
    exact h
  · intro h
    simp [BEq.beq, instBEqPos.beq, h]

theorem Resolved.get_append_same (m : Resolved) (file : String) (pos : Pos) (d : Def) (h : m.get file pos = none) :
    Resolved.get (m ++ [((file, pos), d)]) file pos = some d := by
  unfold Resolved.get at *
  rw [List.find?_append]
  cases hf : m.find? (fun e => e.1.1 == file && e.1.2 == pos) with
  | some x => simp [hf] at h
  | none => simp [(Pos.beq_iff pos pos).mpr rfl]

theorem Resolved.get_append_other (m : Resolved) (file file' : String) (pos pos' : Pos) (d : Def)
    (hne : (file', pos') ≠ (file, pos)) :
    Resolved.get (m ++ [((file', pos'), d)]) file pos = m.get file pos := by
  unfold Resolved.get
  rw [List.find?_append]
  cases hf : m.find? (fun e => e.1.1 == file && e.1.2 == pos) with
  | some x => simp
  | none =>
    have : ((file' == file) && (pos' == pos)) = false := by
      cases h1 : file' == file <;> cases h2 : pos' == pos <;> simp
      exact hne (by simp at h1; rw [h1, (Pos.beq_iff pos' pos).mp h2])
    simp [this]

/-- one step: a fresh reference is bound to what lexical scoping denotes (or stays unbound when nothing matches),
    earlier bindings are untouched, and exactly the reference's own diagnostics are added -/
theorem resolveStep_spec (reg : Registry) (m : Resolved) (ds : List Diag) (r : RefSite) (hfresh : m.get r.file r.pos = none) :
    ∃ m', resolveStep reg (m, ds) r = .ok (m', ds ++ refDiags reg r)
      ∧ m'.get r.file r.pos = lexicalLookup reg r.ns r.name
      ∧ ∀ f p, (f, p) ≠ (r.file, r.pos) → m'.get f p = m.get f p := by
  simp only [resolveStep, hfresh, resolve_eq_lexical, refDiags]
  cases hl : lexicalLookup reg r.ns r.name with
  | none => exact ⟨m, rfl, hfresh, fun _ _ _ => rfl⟩
  | some d =>
    refine ⟨m ++ [((r.file, r.pos), d)], ?_, Resolved.get_append_same m _ _ d hfresh,
      fun f p hne => Resolved.get_append_other m f r.file p r.pos d (fun h => hne h.symm)⟩
    simp only
    split
    · rfl
    · split
      · rfl
      · simp

/-- **Deferred resolution = lexical scoping, for every reference of the program.**
    Given references at pairwise distinct positions, none of them bound yet, the loop terminates normally,
    binds every reference to the declaration lexical lookup denotes in the registry of *all* declarations
    (forward references included), and appends exactly the reference-level diagnostics of every reference. -/
theorem resolveLoop_spec (reg : Registry) (refs : List RefSite) (m0 : Resolved) (ds0 : List Diag)
    (hnd : (refs.map (fun r => (r.file, r.pos))).Nodup)
    (hfresh : ∀ r ∈ refs, m0.get r.file r.pos = none) :
    ∃ m, resolveLoop reg (m0, ds0) refs = .ok (m, ds0 ++ refs.flatMap (refDiags reg))
      ∧ (∀ r ∈ refs, m.get r.file r.pos = lexicalLookup reg r.ns r.name)
      ∧ (∀ f p, (f, p) ∉ refs.map (fun r => (r.file, r.pos)) → m.get f p = m0.get f p) := by
  induction refs generalizing m0 ds0 with
  | nil => exact ⟨m0, by simp [resolveLoop], by simp, fun _ _ _ => rfl⟩
  | cons r rs ih =>
    simp only [List.map_cons, List.nodup_cons] at hnd
    obtain ⟨m1, hstep, hget, hother⟩ := resolveStep_spec reg m0 ds0 r (hfresh r (by simp))
    have hfresh1 : ∀ x ∈ rs, m1.get x.file x.pos = none := by
      intro x hx
      have hne : (x.file, x.pos) ≠ (r.file, r.pos) := by
        intro heq
        exact hnd.1 (List.mem_map.mpr ⟨x, hx, heq⟩)
      rw [hother x.file x.pos hne]
      exact hfresh x (List.mem_cons_of_mem _ hx)
    obtain ⟨m, hloop, hall, hout⟩ := ih m1 (ds0 ++ refDiags reg r) hnd.2 hfresh1
    refine ⟨m, ?_, ?_, ?_⟩
    · simp only [resolveLoop, hstep, bind, Except.bind, hloop, List.flatMap_cons, List.append_assoc]
    · intro x hx
      rcases List.mem_cons.mp hx with rfl | hx
      · rw [hout x.file x.pos hnd.1]
        exact hget
      · exact hall x hx
    · intro f p hnot
      simp only [List.map_cons, List.mem_cons, not_or] at hnot
      rw [hout f p hnot.2]
      exact hother f p hnot.1

end Pydjinni.Front

namespace Pydjinni.Front

/-! ### registrations of a file = its declarations, in order; duplicate rejection at file level -/

@[simp] theorem Collected.regs_append' (a b : Collected) : (a ++ b).regs = a.regs ++ b.regs := rfl

mutual
theorem regs_walkT (e : Env) (ns : List String) (t : TypeRef) : (walkT e ns t).regs = [] := by
  cases t with
  | data name args opt pos => simp [walkT, regs_walkTs e ns args]
  | fn sig pos => simp only [walkT]; exact regs_walkF e ns sig
theorem regs_walkTs (e : Env) (ns : List String) (ts : List TypeRef) : (walkTs e ns ts).regs = [] := by
  cases ts with
  | nil => rfl
  | cons t ts => simp [walkTs, regs_walkT e ns t, regs_walkTs e ns ts]
theorem regs_walkF (e : Env) (ns : List String) (sig : FnSig) : (walkF e ns sig).regs = [] := by
  cases sig with
  | mk flags fpos params thr ret =>
    have h1 := regs_walkOT e ns ret
    have h2 := regs_walkPs e ns params
    have h3 := regs_walkOTs e ns thr
    cases flags <;> simp [walkF, h1, h2, h3] <;> rfl
theorem regs_walkPs (e : Env) (ns : List String) (ps : List Param) : (walkPs e ns ps).regs = [] := by
  cases ps with
  | nil => rfl
  | cons p ps => cases p with | mk n t pos => simp [walkPs, regs_walkT e ns t, regs_walkPs e ns ps]
theorem regs_walkOT (e : Env) (ns : List String) (o : Option TypeRef) : (walkOT e ns o).regs = [] := by
  cases o with
  | none => rfl
  | some t => simp only [walkOT]; exact regs_walkT e ns t
theorem regs_walkOTs (e : Env) (ns : List String) (o : Option (List TypeRef)) : (walkOTs e ns o).regs = [] := by
  cases o with
  | none => rfl
  | some ts => simp only [walkOTs]; exact regs_walkTs e ns ts
end

theorem regs_walkMethods (e : Env) (ns : List String) (ms : List Method) : (walkMethods e ns ms).regs = [] := by
  induction ms with
  | nil => rfl
  | cons m ms ih =>
    simp only [walkMethods, walkMethod, Collected.regs_append', regs_walkPs, regs_walkOT, regs_walkOTs, ih, List.append_nil, List.nil_append]
    split <;> rfl

theorem regs_walkProps (e : Env) (ns : List String) (ps : List Prop') : (walkProps e ns ps).regs = [] := by
  induction ps with
  | nil => rfl
  | cons p ps ih => simp [walkProps, regs_walkT, ih]

theorem regs_walkFields (e : Env) (ns : List String) (fs : List Field) : (walkFields e ns fs).regs = [] := by
  induction fs with
  | nil => rfl
  | cons f fs ih =>
    simp only [walkFields, walkField, Collected.regs_append', regs_walkT, ih, List.append_nil, List.nil_append]
    split <;> rfl

theorem regs_walkCodes (e : Env) (ns : List String) (cs : List ErrCode) : (walkCodes e ns cs).regs = [] := by
  induction cs with
  | nil => rfl
  | cons c cs ih => simp [walkCodes, regs_walkPs, ih]

/-- Every declaration — of any kind — is registered exactly once, under its qualified name. -/
theorem regs_walkDecl (e : Env) (ns : List String) (d : Decl) : (walkDecl e ns d).regs.map (·.key) = [declKey ns d] := by
  cases d with
  | enum n c items pos => simp [walkDecl, reg1, declKey]
  | flags n c items pos => simp [walkDecl, reg1, declKey]
  | record n c fl fp fields der pos => simp [walkDecl, reg1, declKey, regs_walkFields]
  | interface n c main fl fp methods props pos => simp [walkDecl, reg1, declKey, regs_walkMethods, regs_walkProps]
  | function n c sig pos => simp [walkDecl, declKey, regs_walkF]
  | error n c codes pos => simp [walkDecl, reg1, declKey, regs_walkCodes]

mutual
theorem regs_walkContent (e : Env) (ns : List String) (c : Content) :
    (walkContent e ns c).regs.map (·.key) = (declsOfContent ns c).map (fun x => declKey x.1 x.2) := by
  cases c with
  | decl d => simp [walkContent, declsOfContent, regs_walkDecl]
  | ns name cm children pos => simp only [walkContent, declsOfContent]; exact regs_walkContents e _ children
theorem regs_walkContents (e : Env) (ns : List String) (cs : List Content) :
    (walkContents e ns cs).regs.map (·.key) = (declsOfContents ns cs).map (fun x => declKey x.1 x.2) := by
  cases cs with
  | nil => rfl
  | cons c cs =>
    simp only [walkContents, declsOfContents, Collected.regs_append', List.map_append]
    rw [regs_walkContent e ns c, regs_walkContents e ns cs]
end

/-- **Duplicates at file level**: the declarations of a file can all be registered iff their qualified names
    (through any depth of namespaces) are pairwise distinct and none is already taken by a built-in, an external
    type or a declaration of a file imported before. Otherwise the file is rejected as a duplicate. -/
theorem file_registers_iff (e : Env) (r : Registry) (contents : List Content) :
    (∃ r', registerAll r (walkContents e [] contents).regs = .ok r') ↔
      ((declsOfContents [] contents).map (fun x => declKey x.1 x.2)).Nodup
        ∧ ∀ x ∈ declsOfContents [] contents, declKey x.1 x.2 ∉ r.map (·.key) := by
  rw [registerAll_ok_iff, regs_walkContents]
  apply and_congr Iff.rfl
  have hk := regs_walkContents e [] contents
  constructor
  · intro h x hx
    have : declKey x.1 x.2 ∈ (walkContents e [] contents).regs.map (·.key) := by
      rw [hk]; exact List.mem_map.mpr ⟨x, hx, rfl⟩
    obtain ⟨s, hs, hsk⟩ := List.mem_map.mp this
    rw [← hsk]; exact h s hs
  · intro h s hs
    have : s.key ∈ (declsOfContents [] contents).map (fun x => declKey x.1 x.2) := by
      rw [← hk]; exact List.mem_map.mpr ⟨s, hs, rfl⟩
    obtain ⟨x, hx, hxk⟩ := List.mem_map.mp this
    rw [← hxk]; exact h x hx

/-! ### reading a reference before later files are registered

An imported file is finished — its references bound — before the importing file registers anything. The registry it
is read against is a prefix `r` of the final one `r ++ extra`. -/

theorem get_append (r extra : Registry) (k : String) :
    (r ++ extra).get k = (r.get k).or (extra.get k) := by
  unfold Registry.get
  rw [List.find?_append]

theorem get_mem (r : Registry) (k : String) (d : Def) (h : r.get k = some d) : d ∈ r ∧ d.key = k := by
  unfold Registry.get at h
  refine ⟨List.mem_of_find?_eq_some h, ?_⟩
  have := List.find?_some h
  simpa using this

/-- a definition of the earlier part is never also found in the later part (names are unique) -/
theorem not_in_both (r extra : Registry) (hn : ((r ++ extra).map (·.key)).Nodup) (d d' : Def)
    (hd : d ∈ r) (hd' : d' ∈ extra) : d.key ≠ d'.key := by
  intro hk
  rw [List.map_append, List.nodup_append] at hn
  exact hn.2.2 d.key (List.mem_map.mpr ⟨d, hd, rfl⟩) d'.key (List.mem_map.mpr ⟨d', hd', rfl⟩) hk

theorem get_stable (r extra : Registry) (hn : ((r ++ extra).map (·.key)).Nodup) (k : String) (d : Def)
    (h : (r ++ extra).get k = some d) (hin : d ∈ r) : r.get k = some d := by
  rw [get_append] at h
  cases hr : r.get k with
  | some y => rw [hr] at h; simpa using h
  | none =>
    rw [hr] at h
    simp only [Option.none_or] at h
    obtain ⟨hmem, _⟩ := get_mem extra k d h
    exact absurd rfl (not_in_both r extra hn d d hin hmem)

theorem get_none_of_append_none (r extra : Registry) (k : String) (h : (r ++ extra).get k = none) : r.get k = none := by
  rw [get_append] at h
  cases hr : r.get k with
  | none => rfl
  | some y => rw [hr] at h; simp at h

/-- **Stability of lexical scoping under later registrations**: if, in the final registry `r ++ extra`, a reference
    denotes a definition that is already present in `r` (a built-in, an external type, a declaration of the same
    file or of a file finished earlier), then reading the reference against `r` alone — as the nested parser of an
    imported file does — gives the same definition. (When the final denotation lies in `extra`, i.e. in the importing
    file, the two readings differ: the imported file is a unit of its own; see the example below.) -/
theorem lexicalLookup_stable (r extra : Registry) (hn : ((r ++ extra).map (·.key)).Nodup)
    (ns : List String) (name : String) (d : Def)
    (h : lexicalLookup (r ++ extra) ns name = some d) (hin : d ∈ r) :
    lexicalLookup r ns name = some d := by
  unfold lexicalLookup at *
  split at h
  · next hdot => rw [if_pos hdot]; exact get_stable r extra hn _ d h hin
  · next hdot =>
    rw [if_neg hdot]
    generalize prefixesLongestFirst ns.reverse = ps at h
    induction ps with
    | nil => simp at h
    | cons p ps ih =>
      rw [List.findSome?_cons] at h ⊢
      cases hp : (r ++ extra).get (regKey p name) with
      | some x =>
        rw [hp] at h
        have hx : x = d := by simpa using h
        subst hx
        rw [get_stable r extra hn _ x hp hin]
      | none =>
        rw [hp] at h
        rw [get_none_of_append_none r extra _ hp]
        exact ih h

/-- a later registration can capture a relative reference: read early it denotes the outer `t`, read against the final
    registry the inner `a.t` -/
example :
    lexicalLookup [{ key := "t", prim := .enum, arity := 0 }] ["a"] "t" = some { key := "t", prim := .enum, arity := 0 }
    ∧ lexicalLookup ([{ key := "t", prim := .enum, arity := 0 }] ++ [{ key := "a.t", prim := .error, arity := 0 }]) ["a"] "t"
        = some { key := "a.t", prim := .error, arity := 0 } := by
  constructor <;> decide +kernel

end Pydjinni.Front
