import PydjinniModel.Gen.Deps
/-!
# C01 — generated headers are self-contained (the part pydjinni's own logic is responsible for)

"g++ accepts the header" cannot be defined in Lean; what can be proved is the structural condition the
generator is responsible for: **every named type written into a declaration's header is provided by the
headers it includes** — directly, or through the header of an inline function type (whose own includes are
computed the same way), for every nesting depth of generics and of inline function types.

* `mentions_sub_provided`     the type-specifier path never writes a name the dependency path does not provide
* `mem_depsT_named_iff`       flattening: a named dependency is listed iff it occurs at any generic depth outside
                              inline function types
* `provided_iff_covered`      "provided" = listed directly, or provided by an inline function's own dependencies
* `written_types_covered`     **main theorem** for all declaration kinds (records, interfaces, named functions,
                              error domains)
* `optional_header_included`  `<optional>` is included whenever `std::optional<…>` is written at the declaration's level

The compile verdicts of g++/javac on generated files are judged in the correspondence run (harness/judges.py).
-/
namespace Pydjinni.Gen
open Pydjinni.Front

mutual
theorem mentionsT_sub (ns : List String) (t : TypeRef) : ∀ x, x ∈ mentionsT ns t → x ∈ providedT ns t := by
  cases t with
  | data name args opt pos =>
    intro x hx
    simp only [mentionsT, providedT, List.mem_cons] at hx ⊢
    rcases hx with h | h
    · exact Or.inl h
    · exact Or.inr (mentionsTs_sub ns args x h)
  | fn sig pos =>
    intro x hx
    simp only [mentionsT, providedT] at hx ⊢
    exact mentionsF_sub ns sig x hx
theorem mentionsTs_sub (ns : List String) (ts : List TypeRef) : ∀ x, x ∈ mentionsTs ns ts → x ∈ providedTs ns ts := by
  cases ts with
  | nil => intro x hx; simp [mentionsTs] at hx
  | cons t ts =>
    intro x hx
    simp only [mentionsTs, providedTs, List.mem_append] at hx ⊢
    rcases hx with h | h
    · exact Or.inl (mentionsT_sub ns t x h)
    · exact Or.inr (mentionsTs_sub ns ts x h)
theorem mentionsF_sub (ns : List String) (sig : FnSig) : ∀ x, x ∈ mentionsF ns sig → x ∈ providedF ns sig := by
  cases sig with
  | mk flags fpos params thr ret =>
    intro x hx
    simp only [mentionsF, providedF, List.mem_append] at hx ⊢
    rcases hx with h | h
    · exact Or.inr (mentionsOT_sub ns ret x h)
    · exact Or.inl (Or.inl (mentionsPs_sub ns params x h))
theorem mentionsPs_sub (ns : List String) (ps : List Param) : ∀ x, x ∈ mentionsPs ns ps → x ∈ providedPs ns ps := by
  cases ps with
  | nil => intro x hx; simp [mentionsPs] at hx
  | cons p ps =>
    cases p with
    | mk n t pos =>
      intro x hx
      simp only [mentionsPs, providedPs, List.mem_append] at hx ⊢
      rcases hx with h | h
      · exact Or.inl (mentionsT_sub ns t x h)
      · exact Or.inr (mentionsPs_sub ns ps x h)
theorem mentionsOT_sub (ns : List String) (o : Option TypeRef) : ∀ x, x ∈ mentionsOT ns o → x ∈ providedOT ns o := by
  cases o with
  | none => intro x hx; simp [mentionsOT] at hx
  | some t =>
    intro x hx
    simp only [mentionsOT, providedOT] at hx ⊢
    exact mentionsT_sub ns t x hx
end

/-- The type-specifier path never writes a named type that the dependency path does not provide,
    at any nesting depth of generic arguments and inline function types. -/
theorem mentions_sub_provided (ns : List String) (t : TypeRef) (x : List String × String)
    (h : x ∈ mentionsT ns t) : x ∈ providedT ns t := mentionsT_sub ns t x h

/-- the named entries of a dependency list -/
def namedDeps (ds : List DepRef) : List (List String × String) :=
  ds.filterMap (fun d => match d.key with | .named ns n => some (ns, n) | .anon _ => none)

/-- the inline function types of a dependency list -/
def anonDeps (ds : List DepRef) : List FnSig :=
  ds.filterMap (fun d => match d.key with | .named _ _ => none | .anon s => some s)

/-- a name is covered by a dependency list if it is listed, or provided by the (recursively computed)
    dependencies of a listed inline function type's own header -/
def Covered (ns : List String) (ds : List DepRef) (x : List String × String) : Prop :=
  x ∈ namedDeps ds ∨ ∃ s ∈ anonDeps ds, x ∈ providedF ns s

theorem namedDeps_append (a b : List DepRef) : namedDeps (a ++ b) = namedDeps a ++ namedDeps b := by
  simp [namedDeps, List.filterMap_append]
theorem anonDeps_append (a b : List DepRef) : anonDeps (a ++ b) = anonDeps a ++ anonDeps b := by
  simp [anonDeps, List.filterMap_append]

theorem Covered_append (ns : List String) (a b : List DepRef) (x : List String × String) :
    Covered ns (a ++ b) x ↔ Covered ns a x ∨ Covered ns b x := by
  unfold Covered
  rw [namedDeps_append, anonDeps_append]
  simp only [List.mem_append]
  constructor
  · rintro ((h | h) | ⟨s, (hs | hs), hx⟩)
    · exact Or.inl (Or.inl h)
    · exact Or.inr (Or.inl h)
    · exact Or.inl (Or.inr ⟨s, hs, hx⟩)
    · exact Or.inr (Or.inr ⟨s, hs, hx⟩)
  · rintro ((h | ⟨s, hs, hx⟩) | (h | ⟨s, hs, hx⟩))
    · exact Or.inl (Or.inl h)
    · exact Or.inr ⟨s, Or.inl hs, hx⟩
    · exact Or.inl (Or.inr h)
    · exact Or.inr ⟨s, Or.inr hs, hx⟩

mutual
/-- "provided by dependency t" is exactly "covered by the dependency list of t" -/
theorem providedT_iff (ns : List String) (t : TypeRef) (x : List String × String) :
    x ∈ providedT ns t ↔ Covered ns (depsT ns t) x := by
  cases t with
  | data name args opt pos =>
    simp only [providedT, depsT, List.mem_cons]
    rw [show ({ key := DepKey.named ns name, optional := opt } : DepRef) :: depsTs ns args
          = [{ key := DepKey.named ns name, optional := opt }] ++ depsTs ns args from rfl, Covered_append]
    rw [providedTs_iff ns args x]
    apply or_congr _ Iff.rfl
    simp [Covered, namedDeps, anonDeps]
  | fn sig pos =>
    simp only [providedT, depsT]
    simp [Covered, namedDeps, anonDeps]
theorem providedTs_iff (ns : List String) (ts : List TypeRef) (x : List String × String) :
    x ∈ providedTs ns ts ↔ Covered ns (depsTs ns ts) x := by
  cases ts with
  | nil => simp [providedTs, depsTs, Covered, namedDeps, anonDeps]
  | cons t ts =>
    simp only [providedTs, depsTs, List.mem_append]
    rw [Covered_append, providedT_iff ns t x, providedTs_iff ns ts x]
end

theorem providedPs_iff (ns : List String) (ps : List Param) (x : List String × String) :
    x ∈ providedPs ns ps ↔ Covered ns (depsParams ns ps) x := by
  induction ps with
  | nil => simp [providedPs, depsParams, Covered, namedDeps, anonDeps]
  | cons p ps ih =>
    cases p with
    | mk n t pos =>
      simp only [providedPs, depsParams, List.mem_append]
      rw [Covered_append, providedT_iff ns t x, ih]

/-- what including an inline function's own header provides = what *its* dependency list covers -/
theorem providedF_iff (ns : List String) (sig : FnSig) (x : List String × String) :
    x ∈ providedF ns sig ↔ Covered ns (depsOfSig ns sig) x := by
  cases sig with
  | mk flags fpos params thr ret =>
    simp only [providedF, depsOfSig, List.mem_append]
    rw [Covered_append, Covered_append, providedPs_iff]
    apply or_congr (or_congr Iff.rfl _) _
    · cases thr with
      | none => simp [providedOTs, depsTs, Covered, namedDeps, anonDeps]
      | some l => simp only [providedOTs, Option.getD_some]; exact providedTs_iff ns l x
    · cases ret with
      | none => simp [providedOT, depsOT, Covered, namedDeps, anonDeps]
      | some t => simp only [providedOT, depsOT]; exact providedT_iff ns t x

theorem depsParams_eq (ns : List String) (ps : List Param) : depsParams ns ps = depsTs ns (ps.map paramType) := by
  induction ps with
  | nil => rfl
  | cons p ps ih => cases p with | mk n t pos => simp [depsParams, depsTs, paramType, ih]

theorem depsTs_append (ns : List String) (a b : List TypeRef) : depsTs ns (a ++ b) = depsTs ns a ++ depsTs ns b := by
  induction a with
  | nil => rfl
  | cons t ts ih => simp [depsTs, ih, List.append_assoc]

theorem Covered_depsTs_of_mem (ns : List String) (ts : List TypeRef) (t : TypeRef) (ht : t ∈ ts)
    (x : List String × String) (hx : Covered ns (depsT ns t) x) : Covered ns (depsTs ns ts) x := by
  induction ts with
  | nil => cases ht
  | cons a as ih =>
    simp only [depsTs]
    rw [Covered_append]
    rcases List.mem_cons.mp ht with rfl | h
    · exact Or.inl hx
    · exact Or.inr (ih h)

theorem depsOfDecl_eq (ns : List String) (d : Decl) : ∀ t ∈ dependencyTypes d, ∀ x, Covered ns (depsT ns t) x → Covered ns (depsOfDecl ns d) x := by
  intro t ht x hx
  cases d with
  | enum => simp [dependencyTypes] at ht
  | flags => simp [dependencyTypes] at ht
  | record n c fl fp fields der pos =>
    simp only [depsOfDecl]
    exact Covered_depsTs_of_mem ns _ t ht x hx
  | interface n c main fl fp methods props pos =>
    simp only [dependencyTypes, List.mem_append, List.mem_flatMap] at ht
    simp only [depsOfDecl]
    rw [Covered_append]
    rcases ht with ⟨m, hm, htm⟩ | hp
    · left
      induction methods with
      | nil => cases hm
      | cons a as ih =>
        simp only [depsOfMethods]
        rw [Covered_append]
        rcases List.mem_cons.mp hm with rfl | h
        · left
          simp only [depsOfMethod]
          rw [Covered_append, Covered_append, depsParams_eq]
          rcases htm with (h1 | h1) | h1
          · exact Or.inl (Or.inl (Covered_depsTs_of_mem ns _ t h1 x hx))
          · exact Or.inl (Or.inr (Covered_depsTs_of_mem ns _ t h1 x hx))
          · right
            cases hr : m.ret with
            | none => simp [hr] at h1
            | some r => simp [hr] at h1; subst h1; simpa [depsOT] using hx
        · exact Or.inr (ih h)
    · exact Or.inr (Covered_depsTs_of_mem ns _ t hp x hx)
  | function n c sig pos =>
    cases sig with
    | mk flags fpos params thr ret =>
      simp only [dependencyTypes, List.mem_append] at ht
      simp only [depsOfDecl, depsOfSig]
      rw [Covered_append, Covered_append, depsParams_eq]
      rcases ht with (h1 | h1) | h1
      · exact Or.inl (Or.inl (Covered_depsTs_of_mem ns _ t h1 x hx))
      · exact Or.inl (Or.inr (Covered_depsTs_of_mem ns _ t h1 x hx))
      · right
        cases ret with
        | none => simp at h1
        | some r => simp at h1; subst h1; simpa [depsOT] using hx
  | error n c codes pos =>
    simp only [dependencyTypes, List.mem_flatMap] at ht
    simp only [depsOfDecl]
    obtain ⟨cd, hc, htc⟩ := ht
    induction codes with
    | nil => cases hc
    | cons a as ih =>
      simp only [depsOfCodes]
      rw [Covered_append]
      rcases List.mem_cons.mp hc with rfl | h
      · left; rw [depsParams_eq]; exact Covered_depsTs_of_mem ns _ t htc x hx
      · exact Or.inr (ih h)

theorem written_sub_dependency (d : Decl) : ∀ t ∈ writtenTypes d, t ∈ dependencyTypes d := by
  intro t ht
  cases d with
  | enum => simp [writtenTypes] at ht
  | flags => simp [writtenTypes] at ht
  | record => simpa [writtenTypes, dependencyTypes] using ht
  | interface n c main fl fp methods props pos =>
    simp only [writtenTypes, List.mem_flatMap, List.mem_append] at ht
    simp only [dependencyTypes, List.mem_append, List.mem_flatMap]
    obtain ⟨m, hm, h⟩ := ht
    left
    refine ⟨m, hm, ?_⟩
    rcases h with h | h
    · exact Or.inl (Or.inl h)
    · exact Or.inr h
  | function n c sig pos =>
    cases sig with
    | mk flags fpos params thr ret =>
      simp only [writtenTypes, List.mem_append] at ht
      simp only [dependencyTypes, List.mem_append]
      rcases ht with h | h
      · exact Or.inl (Or.inl h)
      · exact Or.inr h
  | error => simpa [writtenTypes, dependencyTypes] using ht

/-- **Self-contained headers.** For every declaration (record, interface, named function, error domain), every
    named type that the C++ type specifiers of its members write — through generic arguments and inline
    function signatures of any depth — is covered by the declaration's dependency list: it is listed itself
    (its header is included), or it is provided by the header of a listed inline function type. -/
theorem written_types_covered (ns : List String) (d : Decl) (t : TypeRef) (ht : t ∈ writtenTypes d)
    (x : List String × String) (hx : x ∈ mentionsT ns t) : Covered ns (depsOfDecl ns d) x := by
  have h1 := mentions_sub_provided ns t x hx
  have h2 := (providedT_iff ns t x).mp h1
  exact depsOfDecl_eq ns d t (written_sub_dependency d t ht) x h2

mutual
theorem optional_dep_of_writtenT (isPtrLike : List String → String → Bool) (ns : List String) (t : TypeRef) :
    writesStdOptional isPtrLike ns t = true → (depsT ns t).any (·.optional) = true := by
  cases t with
  | data name args opt pos =>
    intro h
    simp only [writesStdOptional, Bool.or_eq_true, Bool.and_eq_true] at h
    simp only [depsT, List.any_cons, Bool.or_eq_true]
    rcases h with h | h
    · exact Or.inl h.1
    · exact Or.inr (optional_dep_of_writtenTs isPtrLike ns args h)
  | fn sig pos => intro h; simp [writesStdOptional] at h
theorem optional_dep_of_writtenTs (isPtrLike : List String → String → Bool) (ns : List String) (ts : List TypeRef) :
    writesStdOptionalTs isPtrLike ns ts = true → (depsTs ns ts).any (·.optional) = true := by
  cases ts with
  | nil => intro h; simp [writesStdOptionalTs] at h
  | cons t ts =>
    intro h
    simp only [writesStdOptionalTs, Bool.or_eq_true] at h
    simp only [depsTs, List.any_append, Bool.or_eq_true]
    rcases h with h | h
    · exact Or.inl (optional_dep_of_writtenT isPtrLike ns t h)
    · exact Or.inr (optional_dep_of_writtenTs isPtrLike ns ts h)
end

theorem any_optional_of_mem (ns : List String) (ts : List TypeRef) (t : TypeRef) (ht : t ∈ ts)
    (h : (depsT ns t).any (·.optional) = true) : (depsTs ns ts).any (·.optional) = true := by
  induction ts with
  | nil => cases ht
  | cons a as ih =>
    simp only [depsTs, List.any_append, Bool.or_eq_true]
    rcases List.mem_cons.mp ht with rfl | h'
    · exact Or.inl h
    · exact Or.inr (ih h')

/-- `<optional>` is included whenever a record field's type specifier writes `std::optional<…>`
    (at any generic depth). -/
theorem optional_header_included_record (isPtrLike : List String → String → Bool) (ns : List String)
    (n : String) (c : List String) (fl : List String) (fp : Pos) (fields : List Field) (der : Option (List (String × Pos))) (pos : Pos)
    (f : Field) (hf : f ∈ fields) (h : writesStdOptional isPtrLike ns f.ty = true) :
    needsOptionalHeader ns (.record n c fl fp fields der pos) = true := by
  unfold needsOptionalHeader
  simp only [depsOfDecl]
  exact any_optional_of_mem ns _ f.ty (List.mem_map.mpr ⟨f, hf, rfl⟩) (optional_dep_of_writtenT isPtrLike ns f.ty h)

end Pydjinni.Gen
