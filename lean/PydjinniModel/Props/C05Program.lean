import PydjinniModel.Props.C05SpecPerm
import PydjinniModel.Props.C16Order
/-!
# C05 — whole programs: the multi-file front end reports exactly what the specification says

`Props/C05SpecPerm.lean` shows, for the own content of ONE file, that `finishFile` reports a permutation of the
specification's `violations`; `Props/C16Order.lean` shows that `parseOne` finishes the files of a program in the order
`finishOrder` / `programInOrder` computes, each against the registry `regUpTo`. This file composes them: for a
program whose reachable files are all inside the grammar, whose `@import` lines all resolve, without circular import,
without `@extern` line and without duplicate declaration, the model `front` returns normally and its diagnostics are
a permutation of `violationsOrdered` of the program `programInOrder`.

* `finishFile_out_gen`           `finishFile_out` for a resolution map that already binds references of *other* files
* `Reachable`, `ImportPath`, `CleanImports`   the hypotheses on the import graph, declaratively
* `parseOne_post`                the simulation (forward: success is a conclusion), induction over fuel and load lists
* `front_run`                    the root call: success, diagnostics, final registry, bindings
* `front_eq_violationsOrdered`   **the main theorem**
* `front_accepts_iff`            accepted iff the specification finds no violation
* `front_bindings_lexical`       every reference of file number `i` is bound to `lexicalLookup (regUpTo … i)` (C04, whole programs)
* `front_split_invariance`       C11 for the model: two dependency-closed programs with the same declarations
* `front_single_file`            the one-file special case
* `cleanCheck`, `cleanCheck_sound`, `progChecks`, `front_of_progChecks`
                                 a computable sufficient check of the hypotheses (used for the examples)

Hypotheses that are not in the informal statement: the files of the program have pairwise distinct *names*
(`showPath` of the normalised path; the model keys its resolution map by file name and position, so two files with the
same name would share bindings — an artefact of the model, the implementation keeps the binding in the reference
object); and `RefPositionsDistinct` (H4) is assumed, not derived from the lexer/parser model. `CleanImports`
quantifies over all (file, spelling) pairs reachable by `@import` lines, which includes spellings of a file under
which the model never parses it (it parses a file once, under the first spelling it meets).
-/
namespace Pydjinni.Front

/-! ### the references a file's visit collects carry the file's name -/

def RefsIn (file : String) (c : Collected) : Prop := ∀ r ∈ c.refs, r.file = file

theorem RefsIn.append {file : String} {a b : Collected} (ha : RefsIn file a) (hb : RefsIn file b) :
    RefsIn file (a ++ b) := by
  intro r hr
  rw [Collected.refs_append] at hr
  rcases List.mem_append.mp hr with h | h
  · exact ha r h
  · exact hb r h

theorem RefsIn.of_nil {file : String} {c : Collected} (h : c.refs = []) : RefsIn file c := by
  intro r hr; rw [h] at hr; cases hr

theorem siteOf_file (e : Env) (ns : List String) (n : TypeRef) (r : RefSite) (h : siteOf e ns n = some r) :
    r.file = e.file := by
  cases n with
  | data name args o pos => simp only [siteOf, Option.some.injEq] at h; rw [← h]
  | fn sig pos => simp [siteOf] at h

theorem refsIn_of_filterMap (e : Env) (ns : List String) (c : Collected) (L : List TypeRef)
    (h : ∀ r, r ∈ c.refs ↔ r ∈ L.filterMap (siteOf e ns)) : RefsIn e.file c := by
  intro r hr
  obtain ⟨n, _, hs⟩ := List.mem_filterMap.mp ((h r).mp hr)
  exact siteOf_file e ns n r hs

theorem refsIn_walkT (e : Env) (ns : List String) (t : TypeRef) : RefsIn e.file (walkT e ns t) :=
  refsIn_of_filterMap e ns _ _ (refs_walkT e ns t)
theorem refsIn_walkF (e : Env) (ns : List String) (s : FnSig) : RefsIn e.file (walkF e ns s) :=
  refsIn_of_filterMap e ns _ _ (refs_walkF e ns s)
theorem refsIn_walkPs (e : Env) (ns : List String) (ps : List Param) : RefsIn e.file (walkPs e ns ps) :=
  refsIn_of_filterMap e ns _ _ (refs_walkPs e ns ps)
theorem refsIn_walkOT (e : Env) (ns : List String) (o : Option TypeRef) : RefsIn e.file (walkOT e ns o) :=
  refsIn_of_filterMap e ns _ _ (refs_walkOT e ns o)
theorem refsIn_walkOTs (e : Env) (ns : List String) (o : Option (List TypeRef)) : RefsIn e.file (walkOTs e ns o) :=
  refsIn_of_filterMap e ns _ _ (refs_walkOTs e ns o)

theorem refsIn_walkMethods (e : Env) (ns : List String) (ms : List Method) : RefsIn e.file (walkMethods e ns ms) := by
  induction ms with
  | nil => exact RefsIn.of_nil rfl
  | cons m ms ih =>
    simp only [walkMethods, walkMethod]
    refine RefsIn.append (RefsIn.append (RefsIn.append (RefsIn.append (refsIn_walkPs e ns _) (refsIn_walkOT e ns _))
      (refsIn_walkOTs e ns _)) ?_) ih
    split <;> exact RefsIn.of_nil rfl

theorem refsIn_walkProps (e : Env) (ns : List String) (ps : List Prop') : RefsIn e.file (walkProps e ns ps) := by
  induction ps with
  | nil => exact RefsIn.of_nil rfl
  | cons p ps ih => simp only [walkProps]; exact RefsIn.append (refsIn_walkT e ns _) ih

theorem refsIn_walkFields (e : Env) (ns : List String) (fs : List Field) : RefsIn e.file (walkFields e ns fs) := by
  induction fs with
  | nil => exact RefsIn.of_nil rfl
  | cons f fs ih =>
    simp only [walkFields, walkField]
    refine RefsIn.append (RefsIn.append (refsIn_walkT e ns _) ?_) ih
    split <;> exact RefsIn.of_nil rfl

theorem refsIn_walkCodes (e : Env) (ns : List String) (cs : List ErrCode) : RefsIn e.file (walkCodes e ns cs) := by
  induction cs with
  | nil => exact RefsIn.of_nil rfl
  | cons c cs ih => simp only [walkCodes]; exact RefsIn.append (refsIn_walkPs e ns _) ih

theorem refsIn_reg1 (e : Env) (ns : List String) (n : String) (p : Prim) (pos : Pos) (u : CheckUnit) :
    RefsIn e.file (reg1 e ns n p pos u) := RefsIn.of_nil rfl

theorem refsIn_walkDecl (e : Env) (ns : List String) (d : Decl) : RefsIn e.file (walkDecl e ns d) := by
  cases d with
  | enum n c items pos => exact refsIn_reg1 _ _ _ _ _ _
  | flags n c items pos => exact RefsIn.append (RefsIn.of_nil rfl) (refsIn_reg1 _ _ _ _ _ _)
  | record n c fl fp fields der pos =>
    exact RefsIn.append (RefsIn.append (refsIn_walkFields e ns fields) (RefsIn.of_nil rfl)) (refsIn_reg1 _ _ _ _ _ _)
  | interface n c main fl fp methods props pos =>
    exact RefsIn.append (RefsIn.append (RefsIn.append (refsIn_walkMethods e ns methods) (refsIn_walkProps e ns props))
      (RefsIn.of_nil rfl)) (refsIn_reg1 _ _ _ _ _ _)
  | function n c sig pos => exact fun r hr => refsIn_walkF e ns sig r hr
  | error n c codes pos => exact RefsIn.append (refsIn_walkCodes e ns codes) (refsIn_reg1 _ _ _ _ _ _)

mutual
theorem refsIn_walkContent (e : Env) (ns : List String) (c : Content) : RefsIn e.file (walkContent e ns c) := by
  cases c with
  | decl d => simp only [walkContent]; exact refsIn_walkDecl e ns d
  | ns name cm children pos => simp only [walkContent]; exact refsIn_walkContents e _ children
theorem refsIn_walkContents (e : Env) (ns : List String) (cs : List Content) : RefsIn e.file (walkContents e ns cs) := by
  cases cs with
  | nil => exact RefsIn.of_nil rfl
  | cons c cs => simp only [walkContents]; exact RefsIn.append (refsIn_walkContent e ns c) (refsIn_walkContents e ns cs)
end

/-! ### one file, in a run that has already finished other files -/

/-- `finishFile_out` for the state in the middle of a run: results of the file's loads accumulated in `res`, and a
    resolution map that already holds bindings — but none for a reference of this file. The bindings of all other
    references are left alone. -/
theorem finishFile_out_gen (cfg : Cfg) (file : APath) (contents : List Content) (res : PResult) (st : PState) (reg : Registry)
    (hreg : registerAll st.reg (walkContents { file := showPath file, keys := cfg.keys, defaultDeriving := cfg.defaultDeriving } [] contents).regs = .ok reg)
    (hnd : ((walkContents { file := showPath file, keys := cfg.keys, defaultDeriving := cfg.defaultDeriving } [] contents).refs.map
              (fun r => (r.file, r.pos))).Nodup)
    (hfresh : ∀ r ∈ (walkContents { file := showPath file, keys := cfg.keys, defaultDeriving := cfg.defaultDeriving } [] contents).refs,
      st.resolved.get r.file r.pos = none) :
    let c := walkContents { file := showPath file, keys := cfg.keys, defaultDeriving := cfg.defaultDeriving } [] contents
    ∃ m, finishFile cfg file contents res st
        = .ok ({ units := res.units ++ c.units, refs := res.refs ++ c.refs, errors := res.errors ++ outOf m reg c },
               { st with reg := reg, resolved := m })
      ∧ Binds m reg c.refs
      ∧ ∀ f p, (f, p) ∉ c.refs.map (fun r => (r.file, r.pos)) → m.get f p = st.resolved.get f p := by
  intro c
  obtain ⟨m, hloop, hbind, hother⟩ := resolveLoop_spec reg c.refs st.resolved [] hnd hfresh
  refine ⟨m, ?_, hbind, hother⟩
  unfold finishFile
  simp only [hreg]
  show (match resolveLoop reg (st.resolved, []) c.refs with
    | .error site => Except.error (Abort.crash site)
    | .ok (resolved, rdiags) =>
      match checkUnits resolved c.units with
      | .error site => Except.error (Abort.crash site)
      | .ok cdiags => _) = _
  rw [hloop]
  simp only [List.nil_append]
  rw [checkUnits_eq]
  simp only [outOf, List.append_assoc]
  rfl

/-- the list reported for a file's own content is a permutation of the specification's violations of the one-file
    program, read on top of the registry the file is finished in -/
theorem outOf_perm_violations (cfg : Cfg) (file : String) (contents : List Content) (pre reg : Registry) (m : Resolved)
    (hreg : registerAll pre (walkContents { file := file, keys := cfg.keys, defaultDeriving := cfg.defaultDeriving } [] contents).regs = .ok reg)
    (hbind : Binds m reg (walkContents { file := file, keys := cfg.keys, defaultDeriving := cfg.defaultDeriving } [] contents).refs) :
    (outOf m reg (walkContents { file := file, keys := cfg.keys, defaultDeriving := cfg.defaultDeriving } [] contents)).Perm
      (violations cfg.keys cfg.defaultDeriving pre [{ file := file, contents := contents }]) := by
  have hregeq := registerAll_eq_progRegistry
    { file := file, keys := cfg.keys, defaultDeriving := cfg.defaultDeriving } pre reg contents hreg
  refine List.perm_iff_count.mpr (fun x => ?_)
  rw [violations_single_eq, ← hregeq]
  exact count_walkContents { file := file, keys := cfg.keys, defaultDeriving := cfg.defaultDeriving } reg m [] x contents hbind

/-! ### the specification with the registry threaded through the files -/

/-- `violationsOrdered`, file by file: each file is read against the registry before it plus its own declarations,
    which is then the registry before the next file -/
def specFrom (keys dd : List String) : Registry → List ProgFile → List Diag
  | _, [] => []
  | R, f :: rest => violations keys dd R [f] ++ specFrom keys dd (progRegistry R [f]) rest

theorem progRegistry_cons (R : Registry) (f : ProgFile) (rest : List ProgFile) :
    progRegistry (progRegistry R [f]) rest = progRegistry R (f :: rest) := by
  simp only [progRegistry_eq, List.flatMap_cons, List.flatMap_nil, List.append_nil, List.append_assoc]

theorem progRegistry_append (R : Registry) (a b : List ProgFile) :
    progRegistry (progRegistry R a) b = progRegistry R (a ++ b) := by
  simp only [progRegistry_eq, List.flatMap_append, List.append_assoc]

theorem specFrom_append (keys dd : List String) (R : Registry) (a b : List ProgFile) :
    specFrom keys dd R (a ++ b) = specFrom keys dd R a ++ specFrom keys dd (progRegistry R a) b := by
  induction a generalizing R with
  | nil => simp [specFrom, progRegistry_eq]
  | cons f a ih =>
    simp only [List.cons_append, specFrom, ih, List.append_assoc, progRegistry_cons]

theorem violations_one (keys dd : List String) (R : Registry) (f : ProgFile) :
    violations keys dd R [f]
      = (progDecls [f]).flatMap (fun x => declRules { keys := keys, defaultDeriving := dd, reg := progRegistry R [f] } x.1 x.2.1 x.2.2) := rfl

theorem violationsFrom_eq_specFrom (keys dd : List String) (pre : Registry) (rest done : List ProgFile) :
    violationsFrom keys dd pre (done ++ rest) done.length rest = specFrom keys dd (progRegistry pre done) rest := by
  induction rest generalizing done with
  | nil => rfl
  | cons f rest ih =>
    have htake : (done ++ f :: rest).take (done.length + 1) = done ++ [f] := by
      rw [List.take_append]
      simp [List.take_of_length_le]
    have hreg : regUpTo pre (done ++ f :: rest) done.length = progRegistry (progRegistry pre done) [f] := by
      rw [regUpTo, htake, progRegistry_append]
    have ih' := ih (done ++ [f])
    rw [List.append_assoc, List.length_append] at ih'
    simp only [List.singleton_append, List.length_cons, List.length_nil, Nat.zero_add] at ih'
    unfold violationsFrom specFrom
    rw [ih', hreg, violations_one, progRegistry_append]

theorem violationsOrdered_eq_specFrom (keys dd : List String) (pre : Registry) (p : List ProgFile) :
    violationsOrdered keys dd pre p = specFrom keys dd pre p := by
  have := violationsFrom_eq_specFrom keys dd pre p []
  simpa [violationsOrdered, progRegistry_eq] using this

/-! ### the hypotheses on the import graph

A file is parsed under the *spelling* it was found under (the un-normalised path of the search candidate): the
directory of the importing file's spelling is one of the places `findFile` looks in. The import graph therefore has
the nodes (file, spelling). -/

/-- the `@import`/`@extern` lines of a file (none if it is not IDL text inside the grammar) -/
def loadsOf (fs : FS) (p : APath) : List LoadAt :=
  match fs.get p with
  | some (.idl text) => (match parseText text with | some f => f.loads | none => [])
  | _ => []

/-- `(file, spelled)` has an `@import` line that `findFile` resolves to `file'`, found under the spelling `spelled'` -/
def ImportEdge (cfg : Cfg) (fs : FS) (n n' : APath × APath) : Prop :=
  ∃ l ∈ loadsOf fs n.1, l.isImport = true ∧ ∃ c, findFile cfg fs n.2 (filepathText l.lit) = some (c, n'.1) ∧ n'.2 = c.path

/-- reachable from the root file by `@import` lines -/
inductive Reachable (cfg : Cfg) (fs : FS) (root : APath) : APath × APath → Prop
  | root : Reachable cfg fs root (normPath root, root)
  | step {n n' : APath × APath} : Reachable cfg fs root n → ImportEdge cfg fs n n' → Reachable cfg fs root n'

/-- a chain of one or more `@import` lines -/
inductive ImportPath (cfg : Cfg) (fs : FS) : APath × APath → APath × APath → Prop
  | single {a b : APath × APath} : ImportEdge cfg fs a b → ImportPath cfg fs a b
  | tail {a b c : APath × APath} : ImportPath cfg fs a b → ImportEdge cfg fs b c → ImportPath cfg fs a c

/-- **H1, H2**: every file reachable from the root is IDL text inside the grammar; it has no `@extern` line; every
    one of its `@import` lines resolves to a file; and no chain of imports leads from a reachable file back to itself
    (in particular no file imports itself). An `@extern` line always either loads an external type file (a
    registration the specification's `violationsOrdered` has no place for) or is reported (missing file, not a valid
    external type file, self reference), so "no `@extern` load and no diagnostic other than rule violations" means no
    `@extern` line; `importsOnly` implies `AllFinished (rootEvents …)` of `Props/C16Order.lean`
    (`cleanImports_allFinished`). -/
structure CleanImports (cfg : Cfg) (fs : FS) (root : APath) : Prop where
  parsable : ∀ n, Reachable cfg fs root n → Parsable fs n.1
  importsOnly : ∀ n, Reachable cfg fs root n → ∀ l ∈ loadsOf fs n.1, l.isImport = true
  resolves : ∀ n, Reachable cfg fs root n → ∀ l ∈ loadsOf fs n.1, findFile cfg fs n.2 (filepathText l.lit) ≠ none
  acyclic : ∀ n n', Reachable cfg fs root n → ImportPath cfg fs n n' → n'.1 ≠ n.1

/-- **H4**: the type references written in a file are at pairwise distinct positions (they are distinct tokens). In
    this file it is a hypothesis on the parsed contents; `Props/C03Pos.lean` (`parseText_refPositionsDistinct`) derives
    it for every text the parser model accepts, and `Props/C16ProgramPos.lean` restates the whole-program theorems
    without it (`front_eq_violationsOrdered'`, `front_eq_programDiags'`). -/
def RefPositionsDistinct (cfg : Cfg) (f : ProgFile) : Prop :=
  ((walkContents { file := f.file, keys := cfg.keys, defaultDeriving := cfg.defaultDeriving } [] f.contents).refs.map
    (fun r => (r.file, r.pos))).Nodup

/-- what is assumed about a list of finished files: no qualified name is declared twice (**H3**: neither by two of
    the files nor by a file and a built-in), the files have pairwise distinct names (the resolution map is keyed by
    file name and position), and **H4** -/
def Good (cfg : Cfg) (fs : FS) (R0 : Registry) (done : List APath) : Prop :=
  ((R0 ++ done.flatMap (fileDefs fs)).map (·.key)).Nodup ∧ (done.map showPath).Nodup
    ∧ ∀ q ∈ done, RefPositionsDistinct cfg (progFile fs q)

theorem Good.prefix {cfg : Cfg} {fs : FS} {R0 : Registry} {a b : List APath} (h : Good cfg fs R0 (a ++ b)) :
    Good cfg fs R0 a := by
  obtain ⟨h1, h2, h3⟩ := h
  refine ⟨?_, ?_, fun q hq => h3 q (List.mem_append_left _ hq)⟩
  · rw [List.flatMap_append, ← List.append_assoc, List.map_append] at h1
    exact (List.nodup_append.mp h1).1
  · rw [List.map_append] at h2
    exact (List.nodup_append.mp h2).1

/-- bindings so far only concern finished files -/
def ResInv (m : Resolved) (done : List APath) : Prop := ∀ f p, m.get f p ≠ none → ∃ q ∈ done, f = showPath q

/-- the files in progress are a chain of importers of the current file -/
def StackOk (cfg : Cfg) (fs : FS) (root : APath) (stack : List APath) (n : APath × APath) : Prop :=
  ∀ q ∈ stack, ∃ s, Reachable cfg fs root (q, s) ∧ ImportPath cfg fs (q, s) n

theorem Visited.enter {visited stack imported : List APath} (p : APath) (h : Visited visited stack imported) :
    Visited (visited ++ [p]) (stack ++ [p]) (imported ++ [p]) := by
  intro q
  have := h q
  simp only [List.mem_append, List.mem_singleton, this]
  constructor
  · rintro ((h1 | h1) | h1)
    · exact Or.inl (Or.inl h1)
    · exact Or.inr (Or.inl h1)
    · exact Or.inl (Or.inr h1)
  · rintro ((h1 | h1) | (h1 | h1))
    · exact Or.inl (Or.inl h1)
    · exact Or.inr h1
    · exact Or.inl (Or.inr h1)
    · exact Or.inr h1

theorem Visited.exit {visited stack imported : List APath} (p : APath) (h : Visited visited (stack ++ [p]) imported)
    (hp : p ∈ imported) : Visited visited stack imported := by
  intro q
  rw [h q]
  simp only [List.mem_append, List.mem_singleton]
  constructor
  · rintro ((h1 | h1) | h1)
    · exact Or.inl h1
    · exact Or.inr (h1 ▸ hp)
    · exact Or.inr h1
  · rintro (h1 | h1)
    · exact Or.inl (Or.inl h1)
    · exact Or.inr h1

theorem progFile_eq (fs : FS) (p : APath) (text : String) (f : File)
    (hf : fs.get p = some (.idl text)) (hp : parseText text = some f) :
    progFile fs p = { file := showPath p, contents := f.contents } := by
  simp [progFile, hf, hp]

theorem fileDefs_eq (fs : FS) (p : APath) (text : String) (f : File)
    (hf : fs.get p = some (.idl text)) (hp : parseText text = some f) : fileDefs fs p = declDefs f.contents := by
  simp [fileDefs, hf, hp]

theorem progRegistry_files (fs : FS) (R : Registry) (l : List APath) :
    progRegistry R (l.map (progFile fs)) = R ++ l.flatMap (fileDefs fs) := progRegistry_order fs R l

/-! ### bindings, file by file -/

/-- the references written in a file, as the visitor collects them -/
def fileRefs (cfg : Cfg) (f : ProgFile) : List RefSite :=
  (walkContents { file := f.file, keys := cfg.keys, defaultDeriving := cfg.defaultDeriving } [] f.contents).refs

/-- every reference of every file is bound to what lexical scoping denotes in the registry before the file plus the
    file's own declarations (`specFrom` for bindings) -/
def bindsFrom (cfg : Cfg) (m : Resolved) : Registry → List ProgFile → Prop
  | _, [] => True
  | R, f :: rest => Binds m (progRegistry R [f]) (fileRefs cfg f) ∧ bindsFrom cfg m (progRegistry R [f]) rest

theorem bindsFrom_append (cfg : Cfg) (m : Resolved) (R : Registry) (a b : List ProgFile) :
    bindsFrom cfg m R (a ++ b) ↔ bindsFrom cfg m R a ∧ bindsFrom cfg m (progRegistry R a) b := by
  induction a generalizing R with
  | nil => simp [bindsFrom, progRegistry_eq]
  | cons f a ih => simp only [List.cons_append, bindsFrom, ih, progRegistry_cons, and_assoc]

/-- `bindsFrom` only reads the resolution map at the names of the files concerned -/
theorem bindsFrom_congr (cfg : Cfg) (fs : FS) (m m' : Resolved) (l : List APath)
    (h : ∀ q ∈ l, ∀ p, m'.get (showPath q) p = m.get (showPath q) p) (R : Registry)
    (hb : bindsFrom cfg m R (l.map (progFile fs))) : bindsFrom cfg m' R (l.map (progFile fs)) := by
  induction l generalizing R with
  | nil => trivial
  | cons q l ih =>
    simp only [List.map_cons, bindsFrom] at hb ⊢
    refine ⟨fun r hr => ?_, ih (fun q' hq' => h q' (List.mem_cons_of_mem _ hq')) _ hb.2⟩
    have hf : r.file = showPath q := refsIn_walkContents _ [] _ r hr
    rw [hf, h q (by simp) r.pos, ← hf]
    exact hb.1 r hr

theorem regUpTo_append_cons (pre : Registry) (done : List ProgFile) (f : ProgFile) (rest : List ProgFile) :
    regUpTo pre (done ++ f :: rest) done.length = progRegistry (progRegistry pre done) [f] := by
  have htake : (done ++ f :: rest).take (done.length + 1) = done ++ [f] := by
    rw [List.take_append]
    simp [List.take_of_length_le]
  rw [regUpTo, htake, progRegistry_append]

/-- `bindsFrom` in terms of `regUpTo`: file number `i` binds its references in `regUpTo … i` -/
theorem bindsFrom_regUpTo (cfg : Cfg) (m : Resolved) (pre : Registry) (rest done : List ProgFile)
    (hb : bindsFrom cfg m (progRegistry pre done) rest) :
    ∀ i (hi : i < rest.length), Binds m (regUpTo pre (done ++ rest) (done.length + i)) (fileRefs cfg rest[i]) := by
  induction rest generalizing done with
  | nil => intro i hi; cases hi
  | cons f rest ih =>
    intro i hi
    simp only [bindsFrom] at hb
    cases i with
    | zero => rw [Nat.add_zero, regUpTo_append_cons]; exact hb.1
    | succ j =>
      have hb2 := hb.2
      rw [progRegistry_append] at hb2
      have := ih (done ++ [f]) hb2 j (by simpa using hi)
      simp only [List.append_assoc, List.singleton_append, List.length_append, List.length_cons, List.length_nil,
        Nat.zero_add] at this
      rw [show done.length + (j + 1) = done.length + 1 + j by omega]
      exact this

/-! ### the simulation -/

/-- what a (nested) call returns: it runs out of fuel, or it succeeds; then the search has added the files `new` to
    the finished files, the `visited` list is again the stack plus the imported set, the registry has grown by the
    declarations of `new`, bindings only concern finished files, the diagnostics added are a permutation of what
    the specification says about `new`, read on top of the registry the call started with, the bindings of the files
    finished before the call are untouched, and every reference of `new` is bound lexically (`bindsFrom`). -/
def Post (cfg : Cfg) (fs : FS) (st : PState) (acc out : List APath × List APath) (stack : List APath)
    (r : Except Abort (PResult × PState)) (errs0 : List Diag) : Prop :=
  r = .error .outOfFuel ∨
  ∃ res st' new errs, r = .ok (res, st') ∧ out.2 = acc.2 ++ new ∧ Visited out.1 stack st'.imported
    ∧ st'.reg = st.reg ++ new.flatMap (fileDefs fs) ∧ ResInv st'.resolved out.2
    ∧ res.errors = errs0 ++ errs
    ∧ errs.Perm (specFrom cfg.keys cfg.defaultDeriving st.reg (new.map (progFile fs)))
    ∧ (∀ q ∈ acc.2, ∀ p, st'.resolved.get (showPath q) p = st.resolved.get (showPath q) p)
    ∧ bindsFrom cfg st'.resolved st.reg (new.map (progFile fs))

theorem foldl_finishStep_extends (cfg : Cfg) (fs : FS) (n : Nat) (spelled : APath) (ls : List LoadAt)
    (a : List APath × List APath) :
    ∃ ext, (ls.foldl (finishStep cfg fs (finishOrder cfg fs n) spelled) a).2 = a.2 ++ ext := by
  obtain ⟨new, h, _⟩ := foldl_finishStep_addsNew cfg fs (finishOrder cfg fs n)
    (fun p s v d hp => finishOrder_addsNew cfg fs n p s v d hp) spelled ls a.1 a.2
  exact ⟨new, h⟩

theorem doLoads_post (cfg : Cfg) (fs : FS) (root : APath) (hc : CleanImports cfg fs root) (n : Nat) (R0 : Registry)
    (ih : ∀ stack file spelled st acc, Reachable cfg fs root (file, spelled) → StackOk cfg fs root stack (file, spelled) →
      SelfOk fs spelled file → Visited acc.1 (stack ++ [file]) st.imported → st.reg = R0 ++ acc.2.flatMap (fileDefs fs) →
      ResInv st.resolved acc.2 → Good cfg fs R0 (finishOrder cfg fs n file spelled acc).2 →
      Post cfg fs st acc (finishOrder cfg fs n file spelled acc) (stack ++ [file]) (parseOne cfg fs n stack file spelled st) [])
    (stack0 : List APath) (file spelled : APath)
    (hreach : Reachable cfg fs root (file, spelled)) (hstack : StackOk cfg fs root stack0 (file, spelled))
    (hself : SelfOk fs spelled file)
    (ls : List LoadAt) (hls : ∀ l ∈ ls, l ∈ loadsOf fs file) (res : PResult) (st : PState) (acc : List APath × List APath)
    (hv : Visited acc.1 (stack0 ++ [file]) st.imported) (hr : st.reg = R0 ++ acc.2.flatMap (fileDefs fs))
    (hres : ResInv st.resolved acc.2)
    (hgood : Good cfg fs R0 (ls.foldl (finishStep cfg fs (finishOrder cfg fs n) spelled) acc).2) :
    Post cfg fs st acc (ls.foldl (finishStep cfg fs (finishOrder cfg fs n) spelled) acc) (stack0 ++ [file])
      (doLoads cfg fs (parseOne cfg fs n) (stack0 ++ [file]) file spelled ls res st) res.errors := by
  induction ls generalizing res st acc with
  | nil =>
    refine Or.inr ⟨res, st, [], [], by simp [doLoads], by simp, hv, by simp, hres, by simp, ?_, fun _ _ _ => rfl, trivial⟩
    simp [specFrom]
  | cons l ls ihl =>
    have hl : l ∈ loadsOf fs file := hls l (by simp)
    have himp : l.isImport = true := hc.importsOnly _ hreach l hl
    obtain ⟨cp, hfind⟩ := Option.ne_none_iff_exists'.mp (hc.resolves _ hreach l hl)
    obtain ⟨c, p⟩ := cp
    have hedge : ImportEdge cfg fs (file, spelled) (p, c.path) := ⟨l, hl, himp, c, hfind, rfl⟩
    have hpne : p ≠ file := fun h => hc.acyclic _ _ hreach (.single hedge) h
    have hpst : p ∉ stack0 := fun hm => by
      obtain ⟨s, hrs, hps⟩ := hstack p hm
      exact hc.acyclic (p, s) (p, c.path) hrs (.tail hps hedge) rfl
    have hs : (c.spelledAbsolute && c.path == spelled) = false := by
      cases hb : (c.spelledAbsolute && c.path == spelled) with
      | false => rfl
      | true =>
        exfalso
        simp only [Bool.and_eq_true, beq_iff_eq] at hb
        obtain ⟨_, _, _, _, hq⟩ := findFile_first cfg fs spelled _ c p hfind
        rw [hb.2] at hq
        exact hpne (hself p hq)
    have hstc : (stack0 ++ [file]).contains p = false := by simp [hpst, hpne]
    have hstep : finishStep cfg fs (finishOrder cfg fs n) spelled acc l
        = if acc.1.contains p then acc else finishOrder cfg fs n p c.path (acc.1 ++ [p], acc.2) := by
      simp [finishStep, himp, hfind]
    simp only [List.foldl_cons] at hgood ⊢
    by_cases hi : p ∈ st.imported
    · have hvp : p ∈ acc.1 := (hv p).mpr (Or.inr hi)
      have hstep' : finishStep cfg fs (finishOrder cfg fs n) spelled acc l = acc := by rw [hstep]; simp [hvp]
      rw [doLoads_once cfg fs _ _ _ _ l ls res st c p hfind hs himp hstc (by simpa using hi)]
      rw [hstep'] at hgood ⊢
      exact ihl (fun l' hl' => hls l' (List.mem_cons_of_mem _ hl')) res st acc hv hr hres hgood
    · have hvp : p ∉ acc.1 := fun hm => by
        rcases (hv p).mp hm with h1 | h1
        · simp only [List.mem_append, List.mem_singleton] at h1
          rcases h1 with h1 | h1
          · exact hpst h1
          · exact hpne h1
        · exact hi h1
      have hstep' : finishStep cfg fs (finishOrder cfg fs n) spelled acc l
          = finishOrder cfg fs n p c.path (acc.1 ++ [p], acc.2) := by rw [hstep]; simp [hvp]
      rw [hstep'] at hgood ⊢
      have hic : st.imported.contains p = false := by simpa using hi
      have hd : doLoads cfg fs (parseOne cfg fs n) (stack0 ++ [file]) file spelled (l :: ls) res st
          = match parseOne cfg fs n (stack0 ++ [file]) p c.path { st with imported := st.imported ++ [p] } with
            | .error a => .error a
            | .ok (r, st1) => doLoads cfg fs (parseOne cfg fs n) (stack0 ++ [file]) file spelled ls
                { units := res.units ++ r.units, refs := res.refs ++ r.refs, errors := res.errors ++ r.errors } st1 := by
        simp only [doLoads, hfind, hs, himp, hstc, hic, Bool.false_eq_true, if_false, if_true]
        rfl
      rw [hd]
      obtain ⟨ext, hext⟩ := foldl_finishStep_extends cfg fs n spelled ls (finishOrder cfg fs n p c.path (acc.1 ++ [p], acc.2))
      have hgood1 : Good cfg fs R0 (finishOrder cfg fs n p c.path (acc.1 ++ [p], acc.2)).2 := by
        rw [hext] at hgood; exact hgood.prefix
      have hstack1 : StackOk cfg fs root (stack0 ++ [file]) (p, c.path) := by
        intro q hq
        simp only [List.mem_append, List.mem_singleton] at hq
        rcases hq with hq | hq
        · obtain ⟨s, hrs, hps⟩ := hstack q hq
          exact ⟨s, hrs, .tail hps hedge⟩
        · subst hq; exact ⟨spelled, hreach, .single hedge⟩
      have h1 := ih (stack0 ++ [file]) p c.path { st with imported := st.imported ++ [p] } (acc.1 ++ [p], acc.2)
        (.step hreach hedge) hstack1 (SelfOk.found cfg fs spelled _ c p hfind) (Visited.enter p hv) hr hres hgood1
      rcases h1 with h1 | ⟨r1, st1, new1, errs1, hok, hout1, hv1, hreg1, hres1, herr1, hperm1, hpres1, hb1⟩
      · rw [h1]; exact Or.inl rfl
      · rw [hok]
        simp only
        have hpin : p ∈ st1.imported := parseOne_imported_mono cfg fs n _ p c.path _ r1 st1 hok p (by simp)
        have hv1' := Visited.exit p hv1 hpin
        have hreg1' : st1.reg = R0 ++ (finishOrder cfg fs n p c.path (acc.1 ++ [p], acc.2)).2.flatMap (fileDefs fs) := by
          rw [hreg1, hout1]; simp only [hr, List.flatMap_append, List.append_assoc]
        have h2 := ihl (fun l' hl' => hls l' (List.mem_cons_of_mem _ hl'))
          { units := res.units ++ r1.units, refs := res.refs ++ r1.refs, errors := res.errors ++ r1.errors } st1
          (finishOrder cfg fs n p c.path (acc.1 ++ [p], acc.2)) hv1' hreg1' hres1 hgood
        rcases h2 with h2 | ⟨res2, st2, new2, errs2, hok2, hout2, hv2, hreg2, hres2, herr2, hperm2, hpres2, hb2⟩
        · exact Or.inl h2
        · have hreg1'' : st.reg ++ new1.flatMap (fileDefs fs) = st1.reg := hreg1.symm
          refine Or.inr ⟨res2, st2, new1 ++ new2, errs1 ++ errs2, hok2, ?_, hv2, ?_, hres2, ?_, ?_, ?_, ?_⟩
          · rw [hout2, hout1]; simp only [List.append_assoc]
          · rw [hreg2, hreg1]; simp only [List.flatMap_append, List.append_assoc]
          · rw [herr2, herr1]; simp only [List.nil_append, List.append_assoc]
          · rw [List.map_append, specFrom_append, progRegistry_files, hreg1'']
            exact List.Perm.append hperm1 hperm2
          · intro q hq pos
            rw [hpres2 q (by rw [hout1]; exact List.mem_append_left _ hq) pos]
            exact hpres1 q hq pos
          · rw [List.map_append, bindsFrom_append, progRegistry_files, hreg1'']
            exact ⟨bindsFrom_congr cfg fs _ _ new1
              (fun q hq pos => hpres2 q (by rw [hout1]; exact List.mem_append_right _ hq) pos) _ hb1, hb2⟩

theorem parseText_some (text : String) (f : File) (h : parseText text = some f) :
    ∃ toks, lex text = some toks ∧ parseFile toks = some f := by
  unfold parseText at h
  cases hl : lex text with
  | none => rw [hl] at h; cases h
  | some toks => rw [hl] at h; exact ⟨toks, rfl, h⟩

theorem loadsOf_eq (fs : FS) (p : APath) (text : String) (f : File)
    (hf : fs.get p = some (.idl text)) (hp : parseText text = some f) : loadsOf fs p = f.loads := by
  simp [loadsOf, hf, hp]

/-- **The simulation.** Under the hypotheses on the import graph, a call of `parseOne` that starts in a state
    matching the search (`visited` = stack + imported, registry = start registry + the finished files' declarations,
    bindings only for finished files) and whose finished files at the end are `Good` (no duplicate name, distinct file
    names, distinct reference positions) returns normally — unless it runs out of fuel — with `Post`. -/
theorem parseOne_post (cfg : Cfg) (fs : FS) (root : APath) (hc : CleanImports cfg fs root) (R0 : Registry) (n : Nat) :
    ∀ stack file spelled st acc, Reachable cfg fs root (file, spelled) → StackOk cfg fs root stack (file, spelled) →
      SelfOk fs spelled file → Visited acc.1 (stack ++ [file]) st.imported → st.reg = R0 ++ acc.2.flatMap (fileDefs fs) →
      ResInv st.resolved acc.2 → Good cfg fs R0 (finishOrder cfg fs n file spelled acc).2 →
      Post cfg fs st acc (finishOrder cfg fs n file spelled acc) (stack ++ [file]) (parseOne cfg fs n stack file spelled st) [] := by
  induction n with
  | zero => intro stack file spelled st acc _ _ _ _ _ _ _; exact Or.inl (by simp [parseOne])
  | succ n ih =>
    intro stack file spelled st acc hreach hstack hself hv hr hres hgood
    obtain ⟨text, f, hfile, hpt⟩ := hc.parsable _ hreach
    have hfile : fs.get file = some (.idl text) := hfile
    obtain ⟨toks, hlex, hparse⟩ := parseText_some text f hpt
    obtain ⟨loads, contents⟩ := f
    have hloads : loadsOf fs file = loads := loadsOf_eq fs file text _ hfile hpt
    have hfo : finishOrder cfg fs (n + 1) file spelled acc
        = ((loads.foldl (finishStep cfg fs (finishOrder cfg fs n) spelled) acc).1,
           (loads.foldl (finishStep cfg fs (finishOrder cfg fs n) spelled) acc).2 ++ [file]) := by
      rw [finishOrder_succ]; simp only [hfile, hpt]
    rw [hfo] at hgood ⊢
    have hpo : parseOne cfg fs (n + 1) stack file spelled st
        = match doLoads cfg fs (parseOne cfg fs n) (stack ++ [file]) file spelled loads {} st with
          | .error a => .error a
          | .ok (res, st) => finishFile cfg file contents res st := by
      simp only [parseOne, hfile, hlex, hparse]
      rfl
    rw [hpo]
    have h1 := doLoads_post cfg fs root hc n R0 ih stack file spelled hreach hstack hself loads
      (fun l hl => by rw [hloads]; exact hl) {} st acc hv hr hres hgood.prefix
    rcases h1 with h1 | ⟨res1, st1, new1, errs1, hok, hout1, hv1, hreg1, hres1, herr1, hperm1, hpres1, hb1⟩
    · rw [h1]; exact Or.inl rfl
    · rw [hok]
      simp only
      obtain ⟨hkeys, hnames, hrefs⟩ := hgood
      -- the registry the file is finished in
      have hreg1' : st1.reg = R0 ++ (loads.foldl (finishStep cfg fs (finishOrder cfg fs n) spelled) acc).2.flatMap (fileDefs fs) := by
        rw [hreg1, hout1]; simp only [hr, List.flatMap_append, List.append_assoc]
      have hfd : fileDefs fs file = declDefs contents := fileDefs_eq fs file text _ hfile hpt
      have hkeys' : ((st1.reg ++ declDefs contents).map (·.key)).Nodup := by
        rw [hreg1', ← hfd]
        simpa only [List.flatMap_append, List.flatMap_cons, List.flatMap_nil, List.append_nil, List.append_assoc] using hkeys
      have hdk : (declDefs contents).map (·.key) = (declsOfContents [] contents).map (fun x => declKey x.1 x.2) := by
        simp [declDefs, List.map_map, Function.comp_def]
      rw [List.map_append, hdk] at hkeys'
      obtain ⟨_, hk2, hk3⟩ := List.nodup_append.mp hkeys'
      obtain ⟨reg, hreg⟩ := (file_registers_iff
        { file := showPath file, keys := cfg.keys, defaultDeriving := cfg.defaultDeriving } st1.reg contents).mpr
        ⟨hk2, fun x hx hm => hk3 _ hm _ (List.mem_map.mpr ⟨x, hx, rfl⟩) rfl⟩
      -- reference positions, freshness
      have hpf : progFile fs file = { file := showPath file, contents := contents } := progFile_eq fs file text _ hfile hpt
      have hnd := hrefs file (by simp)
      rw [hpf] at hnd
      have hnotin : ∀ q ∈ (loads.foldl (finishStep cfg fs (finishOrder cfg fs n) spelled) acc).2, showPath file ≠ showPath q := by
        intro q hq heq
        rw [List.map_append] at hnames
        exact (List.nodup_append.mp hnames).2.2 _ (List.mem_map.mpr ⟨q, hq, rfl⟩) _ (by simp) heq.symm
      have hfresh : ∀ r ∈ (walkContents { file := showPath file, keys := cfg.keys, defaultDeriving := cfg.defaultDeriving } [] contents).refs,
          st1.resolved.get r.file r.pos = none := by
        intro r hrm
        have hrf : r.file = showPath file :=
          refsIn_walkContents { file := showPath file, keys := cfg.keys, defaultDeriving := cfg.defaultDeriving } [] contents r hrm
        cases hg : st1.resolved.get r.file r.pos with
        | none => rfl
        | some d =>
          exfalso
          obtain ⟨q, hq, hfq⟩ := hres1 r.file r.pos (by rw [hg]; simp)
          exact hnotin q hq (hrf ▸ hfq)
      obtain ⟨m, hfin, hbind, hother⟩ := finishFile_out_gen cfg file contents res1 st1 reg hreg hnd hfresh
      rw [hfin]
      have hregeq : reg = st1.reg ++ declDefs contents := by
        rw [registerAll_ok_eq _ _ _ hreg, defs_file]
      -- the bindings of the files finished before are untouched
      have hkeep : ∀ q ∈ (loads.foldl (finishStep cfg fs (finishOrder cfg fs n) spelled) acc).2, ∀ pos,
          m.get (showPath q) pos = st1.resolved.get (showPath q) pos := by
        intro q hq pos
        refine hother _ _ (fun hmem => ?_)
        obtain ⟨r, hrm, hreq⟩ := List.mem_map.mp hmem
        have hrf : r.file = showPath file :=
          refsIn_walkContents { file := showPath file, keys := cfg.keys, defaultDeriving := cfg.defaultDeriving } [] contents r hrm
        exact hnotin q hq (hrf ▸ (Prod.mk.inj hreq).1)
      refine Or.inr ⟨_, _, new1 ++ [file], errs1 ++ outOf m reg
        (walkContents { file := showPath file, keys := cfg.keys, defaultDeriving := cfg.defaultDeriving } [] contents),
        rfl, ?_, hv1, ?_, ?_, ?_, ?_, ?_, ?_⟩
      · show _ ++ [file] = _
        rw [hout1, List.append_assoc]
      · show reg = _
        rw [hregeq, hreg1, ← hfd]
        simp only [List.flatMap_append, List.flatMap_cons, List.flatMap_nil, List.append_nil, List.append_assoc]
      · intro fl p hne
        show ∃ q ∈ _ ++ [file], fl = showPath q
        by_cases hmem : (fl, p) ∈ (walkContents { file := showPath file, keys := cfg.keys, defaultDeriving := cfg.defaultDeriving } []
            contents).refs.map (fun r => (r.file, r.pos))
        · obtain ⟨r, hrm, hreq⟩ := List.mem_map.mp hmem
          have hrf : r.file = showPath file :=
            refsIn_walkContents { file := showPath file, keys := cfg.keys, defaultDeriving := cfg.defaultDeriving } [] contents r hrm
          refine ⟨file, by simp, ?_⟩
          rw [← hrf]; exact (Prod.mk.inj hreq).1.symm
        · have hne' : st1.resolved.get fl p ≠ none := by rw [← hother fl p hmem]; exact hne
          obtain ⟨q, hq, hfq⟩ := hres1 fl p hne'
          exact ⟨q, List.mem_append_left _ hq, hfq⟩
      · show res1.errors ++ _ = _
        rw [herr1]; simp only [List.nil_append]
      · rw [List.map_append, specFrom_append, progRegistry_files, ← hreg1]
        refine List.Perm.append hperm1 ?_
        simp only [List.map_cons, List.map_nil, specFrom, List.append_nil, hpf]
        exact outOf_perm_violations cfg (showPath file) contents st1.reg reg m hreg hbind
      · intro q hq pos
        show m.get (showPath q) pos = _
        rw [hkeep q (by rw [hout1]; exact List.mem_append_left _ hq) pos]
        exact hpres1 q hq pos
      · show bindsFrom cfg m st.reg _
        rw [List.map_append, bindsFrom_append, progRegistry_files, ← hreg1]
        refine ⟨bindsFrom_congr cfg fs _ _ new1
          (fun q hq pos => hkeep q (by rw [hout1]; exact List.mem_append_right _ hq) pos) _ hb1, ?_⟩
        simp only [List.map_cons, List.map_nil, bindsFrom, hpf, and_true, fileRefs]
        rw [← registerAll_eq_progRegistry
          { file := showPath file, keys := cfg.keys, defaultDeriving := cfg.defaultDeriving } st1.reg reg contents hreg]
        exact hbind

/-! ### whole programs -/

theorem outcome_of_errors (errs : List Diag) :
    (if errs.isEmpty then Outcome.ok else Outcome.diags errs) = (if errs = [] then Outcome.ok else Outcome.diags errs) := by
  cases errs <;> simp

/-- The root call of the front end, under the hypotheses of `front_eq_violationsOrdered`: it returns normally; its
    diagnostics are a permutation of `violationsOrdered`; the final registry is the registry of the program; and the
    final resolution map binds every reference of every file as `bindsFrom` says. -/
theorem front_run (cfg : Cfg) (fs : FS) (builtins : Registry) (root : APath) (prog : List ProgFile)
    (hprog : programInOrder cfg fs.files root = some prog)
    (hclean : CleanImports cfg fs root)
    (hdup : ((progRegistry builtins prog).map (·.key)).Nodup)
    (hnames : (prog.map (·.file)).Nodup)
    (hpos : ∀ f ∈ prog, RefPositionsDistinct cfg f) :
    ∃ res st, parseOne cfg fs (fs.files.length + 2) [] (normPath root) root { reg := builtins } = .ok (res, st)
      ∧ res.errors.Perm (violationsOrdered cfg.keys cfg.defaultDeriving builtins prog)
      ∧ st.reg = progRegistry builtins prog
      ∧ bindsFrom cfg st.resolved builtins prog := by
  rw [programInOrder_eq] at hprog
  have hprog' : prog = (rootOrder cfg fs root).map (progFile fs) := (Option.some.inj hprog).symm
  subst hprog'
  have hgood : Good cfg fs builtins (rootOrder cfg fs root) := by
    refine ⟨?_, ?_, fun q hq => hpos _ (List.mem_map.mpr ⟨q, hq, rfl⟩)⟩
    · rw [← progRegistry_files]; exact hdup
    · rw [List.map_map] at hnames; exact hnames
  have h := parseOne_post cfg fs root hclean builtins (fs.files.length + 2) [] (normPath root) root { reg := builtins }
    ([normPath root], []) .root (fun q hq => by cases hq) (SelfOk.root fs root) (Visited.root root) (by simp)
    (fun f p hne => absurd rfl hne) hgood
  rcases h with h | ⟨res, st', new, errs, hok, hout, _, hreg, _, herr, hperm, _, hb⟩
  · exfalso
    refine parseOne_fuel_sufficient cfg fs _ _ _ _ _ ?_ h
    have := remaining_le fs ([] : List APath)
    simp only; omega
  · have hnew : new = rootOrder cfg fs root := by
      have : rootOrder cfg fs root = [] ++ new := hout
      rw [this]; rfl
    subst hnew
    refine ⟨res, st', hok, ?_, ?_, hb⟩
    · rw [violationsOrdered_eq_specFrom, herr, List.nil_append]; exact hperm
    · rw [progRegistry_files]; exact hreg

/-- **The multi-file front end reports exactly the specification's violations.** Let `prog` be the program reachable
    from `root`, files in finish order (`programInOrder`). Assume
    * (H1, H2) `CleanImports`: every reachable file is IDL text inside the grammar, has no `@extern` line, each of its
      `@import` lines resolves to a file, and no chain of imports leads back to the file it starts from;
    * (H3) no qualified name is declared twice — by two declarations of the program or by a declaration and a built-in;
    * the files of the program have pairwise distinct names (`showPath` of their normalised paths: the model keys the
      resolution map by file name and position);
    * (H4) within each file, the type references are at pairwise distinct positions.

    Then `front` neither aborts nor runs out of fuel: it returns normally, and the diagnostics `ds` it reports
    (`.ok` iff there are none) are a permutation of `violationsOrdered` — every violation is reported exactly as often
    as the specification lists it, with class, rule, file and position, and nothing else is reported. -/
theorem front_eq_violationsOrdered (cfg : Cfg) (fs : FS) (builtins : Registry) (root : APath) (prog : List ProgFile)
    (hprog : programInOrder cfg fs.files root = some prog)
    (hclean : CleanImports cfg fs root)
    (hdup : ((progRegistry builtins prog).map (·.key)).Nodup)
    (hnames : (prog.map (·.file)).Nodup)
    (hpos : ∀ f ∈ prog, RefPositionsDistinct cfg f) :
    ∃ ds, front cfg fs builtins root = (if ds = [] then Outcome.ok else Outcome.diags ds)
      ∧ ds.Perm (violationsOrdered cfg.keys cfg.defaultDeriving builtins prog) := by
  obtain ⟨res, st, hok, hperm, _, _⟩ := front_run cfg fs builtins root prog hprog hclean hdup hnames hpos
  refine ⟨res.errors, ?_, hperm⟩
  unfold front
  rw [hok]
  exact outcome_of_errors res.errors

/-- **Every reference of the program is bound lexically, file by file (C04 for whole programs).** Under the
    hypotheses of `front_eq_violationsOrdered`, in the resolution map at the end of the run
    (`frontWithBindings … |>.2.1`), every type reference written in file number `i` of the program is bound to what
    lexical scoping denotes in `regUpTo builtins prog i` — the built-ins and the declarations of the files finished
    no later than file `i` — and is unbound iff nothing matches there; and the final registry is the program's. -/
theorem front_bindings_lexical (cfg : Cfg) (fs : FS) (builtins : Registry) (root : APath) (prog : List ProgFile)
    (hprog : programInOrder cfg fs.files root = some prog)
    (hclean : CleanImports cfg fs root)
    (hdup : ((progRegistry builtins prog).map (·.key)).Nodup)
    (hnames : (prog.map (·.file)).Nodup)
    (hpos : ∀ f ∈ prog, RefPositionsDistinct cfg f) :
    (∀ i (hi : i < prog.length), ∀ r ∈ fileRefs cfg prog[i],
        (frontWithBindings cfg fs builtins root).2.1.get r.file r.pos = lexicalLookup (regUpTo builtins prog i) r.ns r.name)
      ∧ builtins ++ (frontWithBindings cfg fs builtins root).2.2.1 = progRegistry builtins prog := by
  obtain ⟨res, st, hok, _, hreg, hb⟩ := front_run cfg fs builtins root prog hprog hclean hdup hnames hpos
  have hfw : (frontWithBindings cfg fs builtins root).2 = (st.resolved, st.reg.drop builtins.length, st.imported) := by
    unfold frontWithBindings; rw [hok]
  rw [hfw]
  refine ⟨fun i hi r hr => ?_, ?_⟩
  · have := bindsFrom_regUpTo cfg st.resolved builtins prog [] (by simpa [progRegistry_eq] using hb) i hi
    simp only [List.nil_append, List.length_nil, Nat.zero_add] at this
    exact this r hr
  · show builtins ++ st.reg.drop builtins.length = _
    rw [hreg, progRegistry_eq, List.drop_left]

/-- **Accepted iff no violation**: under the hypotheses of `front_eq_violationsOrdered`, the front end accepts the
    program iff the specification finds no violation in it. -/
theorem front_accepts_iff (cfg : Cfg) (fs : FS) (builtins : Registry) (root : APath) (prog : List ProgFile)
    (hprog : programInOrder cfg fs.files root = some prog)
    (hclean : CleanImports cfg fs root)
    (hdup : ((progRegistry builtins prog).map (·.key)).Nodup)
    (hnames : (prog.map (·.file)).Nodup)
    (hpos : ∀ f ∈ prog, RefPositionsDistinct cfg f) :
    front cfg fs builtins root = .ok ↔ violationsOrdered cfg.keys cfg.defaultDeriving builtins prog = [] := by
  obtain ⟨ds, hfront, hperm⟩ := front_eq_violationsOrdered cfg fs builtins root prog hprog hclean hdup hnames hpos
  rw [hfront]
  constructor
  · intro h
    by_cases hds : ds = []
    · subst hds; exact hperm.symm.eq_nil
    · rw [if_neg hds] at h; cases h
  · intro h
    rw [h] at hperm
    rw [if_pos hperm.eq_nil]

/-- membership form of `front_eq_violationsOrdered` -/
theorem front_mem_iff (cfg : Cfg) (fs : FS) (builtins : Registry) (root : APath) (prog : List ProgFile)
    (hprog : programInOrder cfg fs.files root = some prog)
    (hclean : CleanImports cfg fs root)
    (hdup : ((progRegistry builtins prog).map (·.key)).Nodup)
    (hnames : (prog.map (·.file)).Nodup)
    (hpos : ∀ f ∈ prog, RefPositionsDistinct cfg f) :
    ∃ ds, front cfg fs builtins root = (if ds = [] then Outcome.ok else Outcome.diags ds)
      ∧ ∀ x, x ∈ ds ↔ x ∈ violationsOrdered cfg.keys cfg.defaultDeriving builtins prog := by
  obtain ⟨ds, hfront, hperm⟩ := front_eq_violationsOrdered cfg fs builtins root prog hprog hclean hdup hnames hpos
  exact ⟨ds, hfront, fun x => hperm.mem_iff⟩

/-- **Split invariance for the model (C11).** Two programs — two file systems, two roots, possibly two
    configurations with the same target keys and default deriving — that satisfy the hypotheses of
    `front_eq_violationsOrdered`, have the same declarations up to order and grouping into files, and are both
    dependency-closed (`Closed`; this includes H3) are accepted together and get the same diagnostics up to order. -/
theorem front_split_invariance (cfg cfg' : Cfg) (fs fs' : FS) (builtins : Registry) (root root' : APath)
    (prog prog' : List ProgFile)
    (hk : cfg.keys = cfg'.keys) (hd : cfg.defaultDeriving = cfg'.defaultDeriving)
    (hprog : programInOrder cfg fs.files root = some prog) (hprog' : programInOrder cfg' fs'.files root' = some prog')
    (hclean : CleanImports cfg fs root) (hclean' : CleanImports cfg' fs' root')
    (hnames : (prog.map (·.file)).Nodup) (hnames' : (prog'.map (·.file)).Nodup)
    (hpos : ∀ f ∈ prog, RefPositionsDistinct cfg f) (hpos' : ∀ f ∈ prog', RefPositionsDistinct cfg' f)
    (hdecls : (progDecls prog).Perm (progDecls prog'))
    (hcl : Closed builtins prog) (hcl' : Closed builtins prog') :
    ∃ ds ds', front cfg fs builtins root = (if ds = [] then Outcome.ok else Outcome.diags ds)
      ∧ front cfg' fs' builtins root' = (if ds' = [] then Outcome.ok else Outcome.diags ds')
      ∧ ds.Perm ds'
      ∧ (front cfg fs builtins root = .ok ↔ front cfg' fs' builtins root' = .ok) := by
  obtain ⟨ds, hfront, hperm⟩ := front_eq_violationsOrdered cfg fs builtins root prog hprog hclean hcl.1 hnames hpos
  obtain ⟨ds', hfront', hperm'⟩ := front_eq_violationsOrdered cfg' fs' builtins root' prog' hprog' hclean' hcl'.1 hnames' hpos'
  have hsplit := split_invariance cfg.keys cfg.defaultDeriving builtins prog prog' hdecls hcl hcl'
  rw [← hk, ← hd] at hperm'
  refine ⟨ds, ds', hfront, hfront', hperm.trans (hsplit.trans hperm'.symm), ?_⟩
  rw [front_accepts_iff cfg fs builtins root prog hprog hclean hcl.1 hnames hpos,
    front_accepts_iff cfg' fs' builtins root' prog' hprog' hclean' hcl'.1 hnames' hpos', ← hk, ← hd]
  exact split_invariance_accepted cfg.keys cfg.defaultDeriving builtins prog prog' hdecls hcl hcl'

/-! ### one file -/

theorem reachable_of_no_loads (cfg : Cfg) (fs : FS) (root : APath) (h : loadsOf fs (normPath root) = [])
    (n : APath × APath) (hn : Reachable cfg fs root n) : n = (normPath root, root) := by
  induction hn with
  | root => rfl
  | step _ hedge ih =>
    subst ih
    obtain ⟨l, hl, _⟩ := hedge
    rw [h] at hl; cases hl

theorem importPath_first (cfg : Cfg) (fs : FS) (a b : APath × APath) (h : ImportPath cfg fs a b) :
    ∃ c, ImportEdge cfg fs a c := by
  induction h with
  | single hedge => exact ⟨_, hedge⟩
  | tail _ _ ih => exact ih

/-- **The one-file special case**: a root file inside the grammar without `@import`/`@extern` lines, whose declared
    names are pairwise distinct and not built-ins, with references at pairwise distinct positions: `front` reports
    a permutation of `violations` of the one-file program. -/
theorem front_single_file (cfg : Cfg) (fs : FS) (builtins : Registry) (root : APath) (text : String) (contents : List Content)
    (hfile : fs.get (normPath root) = some (.idl text))
    (hpt : parseText text = some { loads := [], contents := contents })
    (hdup : ((progRegistry builtins [{ file := showPath (normPath root), contents := contents }]).map (·.key)).Nodup)
    (hpos : RefPositionsDistinct cfg { file := showPath (normPath root), contents := contents }) :
    ∃ ds, front cfg fs builtins root = (if ds = [] then Outcome.ok else Outcome.diags ds)
      ∧ ds.Perm (violations cfg.keys cfg.defaultDeriving builtins [{ file := showPath (normPath root), contents := contents }]) := by
  have hloads : loadsOf fs (normPath root) = [] := loadsOf_eq fs _ text _ hfile hpt
  have hclean : CleanImports cfg fs root := by
    refine ⟨fun n hn => ?_, fun n hn l hl => ?_, fun n hn l hl => ?_, fun n n' hn hp => ?_⟩
    · rw [reachable_of_no_loads cfg fs root hloads n hn]; exact ⟨text, _, hfile, hpt⟩
    · rw [reachable_of_no_loads cfg fs root hloads n hn, hloads] at hl; cases hl
    · rw [reachable_of_no_loads cfg fs root hloads n hn, hloads] at hl; cases hl
    · obtain ⟨c, l, hl, _⟩ := importPath_first cfg fs n n' hp
      rw [reachable_of_no_loads cfg fs root hloads n hn, hloads] at hl; cases hl
  have horder : rootOrder cfg fs root = [normPath root] := by
    unfold rootOrder
    rw [finishOrder_succ]
    simp only [hfile, hpt, List.foldl_nil, List.nil_append]
  have hprog : programInOrder cfg fs.files root = some [{ file := showPath (normPath root), contents := contents }] := by
    rw [programInOrder_eq, horder]
    simp only [List.map_cons, List.map_nil, progFile_eq fs _ text _ hfile hpt]
  obtain ⟨ds, hfront, hperm⟩ := front_eq_violationsOrdered cfg fs builtins root _ hprog hclean hdup (by simp)
    (fun f hf => by simp only [List.mem_singleton] at hf; subst hf; exact hpos)
  rw [violationsOrdered_single] at hperm
  exact ⟨ds, hfront, hperm⟩

/-! ### link to `Props/C16Order.lean`: no `@extern` load -/

theorem loadStep_allFinished_reach (cfg : Cfg) (fs : FS) (root : APath)
    (hio : ∀ n, Reachable cfg fs root n → ∀ l ∈ loadsOf fs n.1, l.isImport = true)
    (rec : APath → APath → OrderAcc → OrderAcc) (file spelled : APath) (hreach : Reachable cfg fs root (file, spelled))
    (hrec : ∀ p s a, Reachable cfg fs root (p, s) → AllFinished a.2 → AllFinished (rec p s a).2)
    (l : LoadAt) (hl : l ∈ loadsOf fs file) (acc : OrderAcc) (ha : AllFinished acc.2) :
    AllFinished (loadStep cfg fs rec spelled acc l).2 := by
  have himp : l.isImport = true := hio _ hreach l hl
  unfold loadStep
  split
  · exact ha
  · rename_i c p hfind
    rw [if_pos himp]
    split
    · exact ha
    · exact hrec _ _ _ (.step hreach ⟨l, hl, himp, c, hfind, rfl⟩) ha

theorem foldl_loadStep_allFinished_reach (cfg : Cfg) (fs : FS) (root : APath)
    (hio : ∀ n, Reachable cfg fs root n → ∀ l ∈ loadsOf fs n.1, l.isImport = true)
    (rec : APath → APath → OrderAcc → OrderAcc) (file spelled : APath) (hreach : Reachable cfg fs root (file, spelled))
    (hrec : ∀ p s a, Reachable cfg fs root (p, s) → AllFinished a.2 → AllFinished (rec p s a).2)
    (ls : List LoadAt) (hls : ∀ l ∈ ls, l ∈ loadsOf fs file) (acc : OrderAcc) (ha : AllFinished acc.2) :
    AllFinished (ls.foldl (loadStep cfg fs rec spelled) acc).2 := by
  induction ls generalizing acc with
  | nil => exact ha
  | cons l ls ih =>
    simp only [List.foldl_cons]
    exact ih (fun l' hl' => hls l' (List.mem_cons_of_mem _ hl')) _
      (loadStep_allFinished_reach cfg fs root hio rec file spelled hreach hrec l (hls l (by simp)) acc ha)

theorem loadOrder_allFinished_reach (cfg : Cfg) (fs : FS) (root : APath)
    (hio : ∀ n, Reachable cfg fs root n → ∀ l ∈ loadsOf fs n.1, l.isImport = true) (fuel : Nat) :
    ∀ file spelled acc, Reachable cfg fs root (file, spelled) → AllFinished acc.2 →
      AllFinished (loadOrder cfg fs fuel file spelled acc).2 := by
  induction fuel with
  | zero => intro _ _ _ _ ha; exact ha
  | succ n ih =>
    intro file spelled acc hreach ha
    simp only [loadOrder]
    cases hf : fs.get file with
    | none => exact ha
    | some fc =>
      cases fc with
      | idl text =>
        simp only []
        cases hp : parseText text with
        | none => exact ha
        | some f =>
          simp only []
          refine AllFinished.append ?_ (fun e he => ⟨file, by simpa using he⟩)
          exact foldl_loadStep_allFinished_reach cfg fs root hio _ file spelled hreach ih f.loads
            (fun l hl => by rw [loadsOf_eq fs file text f hf hp]; exact hl) acc ha
      | _ => exact ha

/-- When the reachable files have no `@extern` line, no `@extern` line loads an external type file: the hypothesis
    `AllFinished (rootEvents …)` of `front_registry_is_regUpTo`, `front_final_registry` (`Props/C16Order.lean`). -/
theorem cleanImports_allFinished (cfg : Cfg) (fs : FS) (root : APath) (hc : CleanImports cfg fs root) :
    AllFinished (rootEvents cfg fs root) :=
  loadOrder_allFinished_reach cfg fs root hc.importsOnly _ _ _ _ .root (fun _ h => by cases h)

/-! ### a computable sufficient check of `CleanImports`

`CleanImports` quantifies over the reachable nodes (file, spelling) of the import graph. Given a candidate list of
nodes and a candidate finish order, `cleanCheck` verifies by evaluation that the list contains the root, is closed
under `@import` lines, that every node is inside the grammar, has only `@import` lines, all of which resolve, and that
every import leads to a file earlier in the order (so there is no cycle). It is used with `#guard` below. -/

def lineOk (cfg : Cfg) (fs : FS) (nodes : List (APath × APath)) (rank : APath → Nat) (n : APath × APath) (l : LoadAt) : Bool :=
  l.isImport &&
    match findFile cfg fs n.2 (filepathText l.lit) with
    | none => false
    | some cp => nodes.contains (cp.2, cp.1.path) && decide (rank cp.2 < rank n.1)

def nodeOk (cfg : Cfg) (fs : FS) (nodes : List (APath × APath)) (rank : APath → Nat) (n : APath × APath) : Bool :=
  (match fs.get n.1 with
    | some (.idl text) => (parseText text).isSome
    | _ => false) && (loadsOf fs n.1).all (lineOk cfg fs nodes rank n)

def cleanCheck (cfg : Cfg) (fs : FS) (root : APath) (nodes : List (APath × APath)) (order : List APath) : Bool :=
  nodes.contains (normPath root, root) && nodes.all (nodeOk cfg fs nodes (fun p => order.idxOf p))

theorem lineOk_spec (cfg : Cfg) (fs : FS) (nodes : List (APath × APath)) (rank : APath → Nat) (n : APath × APath) (l : LoadAt)
    (h : lineOk cfg fs nodes rank n l = true) :
    l.isImport = true ∧ ∃ c p, findFile cfg fs n.2 (filepathText l.lit) = some (c, p) ∧ (p, c.path) ∈ nodes ∧ rank p < rank n.1 := by
  unfold lineOk at h
  rw [Bool.and_eq_true] at h
  refine ⟨h.1, ?_⟩
  have h2 := h.2
  cases hf : findFile cfg fs n.2 (filepathText l.lit) with
  | none => rw [hf] at h2; cases h2
  | some cp =>
    rw [hf] at h2
    simp only [Bool.and_eq_true, decide_eq_true_eq, List.contains_iff_mem] at h2
    exact ⟨cp.1, cp.2, rfl, h2.1, h2.2⟩

theorem nodeOk_spec (cfg : Cfg) (fs : FS) (nodes : List (APath × APath)) (rank : APath → Nat) (n : APath × APath)
    (h : nodeOk cfg fs nodes rank n = true) :
    Parsable fs n.1 ∧ ∀ l ∈ loadsOf fs n.1, lineOk cfg fs nodes rank n l = true := by
  unfold nodeOk at h
  rw [Bool.and_eq_true, List.all_eq_true] at h
  refine ⟨?_, h.2⟩
  have h1 := h.1
  cases hf : fs.get n.1 with
  | none => rw [hf] at h1; cases h1
  | some fc =>
    rw [hf] at h1
    cases fc with
    | idl text =>
      simp only at h1
      cases hp : parseText text with
      | none => rw [hp] at h1; cases h1
      | some f => exact ⟨text, f, hf, hp⟩
    | ext d => cases h1
    | badExt => cases h1
    | notText pos => cases h1

/-- **`cleanCheck` is sound**: if the check evaluates to `true` for some candidate node list and order, the import
    graph satisfies `CleanImports`. -/
theorem cleanCheck_sound (cfg : Cfg) (fs : FS) (root : APath) (nodes : List (APath × APath)) (order : List APath)
    (h : cleanCheck cfg fs root nodes order = true) : CleanImports cfg fs root := by
  unfold cleanCheck at h
  rw [Bool.and_eq_true, List.all_eq_true, List.contains_iff_mem] at h
  obtain ⟨hroot, hall⟩ := h
  have hedge : ∀ n n', n ∈ nodes → ImportEdge cfg fs n n' → n' ∈ nodes ∧ order.idxOf n'.1 < order.idxOf n.1 := by
    intro n n' hn ⟨l, hl, _, c, hfind, hsp⟩
    obtain ⟨_, c', p', hfind', hmem, hlt⟩ := lineOk_spec cfg fs nodes _ n l ((nodeOk_spec cfg fs nodes _ n (hall n hn)).2 l hl)
    rw [hfind] at hfind'
    cases hfind'
    obtain ⟨a, b⟩ := n'
    simp only at hsp hmem hlt ⊢
    subst hsp
    exact ⟨hmem, hlt⟩
  have hreach : ∀ n, Reachable cfg fs root n → n ∈ nodes := by
    intro n hn
    induction hn with
    | root => exact hroot
    | step _ he ih => exact (hedge _ _ ih he).1
  have hpath : ∀ n n', ImportPath cfg fs n n' → n ∈ nodes → n' ∈ nodes ∧ order.idxOf n'.1 < order.idxOf n.1 := by
    intro n n' hp
    induction hp with
    | single he => exact fun hn => hedge _ _ hn he
    | tail _ he ih =>
      intro hn
      obtain ⟨hb, hlt⟩ := ih hn
      obtain ⟨hc, hlt'⟩ := hedge _ _ hb he
      exact ⟨hc, Nat.lt_trans hlt' hlt⟩
  refine ⟨fun n hn => (nodeOk_spec cfg fs nodes _ n (hall n (hreach n hn))).1, fun n hn l hl => ?_, fun n hn l hl => ?_,
    fun n n' hn hp heq => ?_⟩
  · exact (lineOk_spec cfg fs nodes _ n l ((nodeOk_spec cfg fs nodes _ n (hall n (hreach n hn))).2 l hl)).1
  · obtain ⟨_, c, p, hfind, _⟩ := lineOk_spec cfg fs nodes _ n l ((nodeOk_spec cfg fs nodes _ n (hall n (hreach n hn))).2 l hl)
    rw [hfind]; exact fun h => by cases h
  · have := (hpath n n' hp (hreach n hn)).2
    rw [heq] at this
    exact Nat.lt_irrefl _ this

instance (cfg : Cfg) (f : ProgFile) : Decidable (RefPositionsDistinct cfg f) := by
  unfold RefPositionsDistinct; infer_instance

/-- all hypotheses of `front_eq_violationsOrdered`, as one computable check (`nodes`: a candidate list of the
    reachable (file, spelling) nodes of the import graph) -/
def progChecks (cfg : Cfg) (fs : FS) (builtins : Registry) (root : APath) (nodes : List (APath × APath)) : Bool :=
  match programInOrder cfg fs.files root with
  | none => false
  | some prog =>
    cleanCheck cfg fs root nodes (rootOrder cfg fs root)
      && decide (((progRegistry builtins prog).map (·.key)).Nodup)
      && decide ((prog.map (·.file)).Nodup)
      && prog.all (fun f => decide (RefPositionsDistinct cfg f))

/-- `front_eq_violationsOrdered` with its hypotheses discharged by evaluation -/
theorem front_of_progChecks (cfg : Cfg) (fs : FS) (builtins : Registry) (root : APath) (nodes : List (APath × APath))
    (h : progChecks cfg fs builtins root nodes = true) :
    ∃ prog ds, programInOrder cfg fs.files root = some prog
      ∧ front cfg fs builtins root = (if ds = [] then Outcome.ok else Outcome.diags ds)
      ∧ ds.Perm (violationsOrdered cfg.keys cfg.defaultDeriving builtins prog) := by
  unfold progChecks at h
  cases hp : programInOrder cfg fs.files root with
  | none => rw [hp] at h; cases h
  | some prog =>
    rw [hp] at h
    simp only [Bool.and_eq_true, decide_eq_true_eq, List.all_eq_true] at h
    obtain ⟨⟨⟨h1, h2⟩, h3⟩, h4⟩ := h
    obtain ⟨ds, hfront, hperm⟩ := front_eq_violationsOrdered cfg fs builtins root prog hp
      (cleanCheck_sound cfg fs root nodes _ h1) h2 h3 h4
    exact ⟨prog, ds, rfl, hfront, hperm⟩

/-! ### non-vacuity

Compiled evaluation with `#guard` — tests, not proofs (kernel reduction of the path-splitting functions and of the
lexer is too slow for `decide`, as in `Props/C16.lean`). For each program: the hypotheses of the theorem hold
(`progChecks`, sound by `front_of_progChecks`), the diagnostics of `front` are a permutation of `violationsOrdered`,
and there are violations in the imported files as well as in the importing file. -/

namespace C05ProgramExamples

def bi : Registry := [⟨"i32", .primitive, 0⟩, ⟨"list", .collection, 1⟩]

def diagsOf (o : Outcome) : Option (List Diag) := match o with | .ok => some [] | .diags ds => some ds | .abort _ => none

def specOf (cfg : Cfg) (fs : FS) (builtins : Registry) (root : APath) : Option (List Diag) :=
  (programInOrder cfg fs.files root).map (violationsOrdered cfg.keys cfg.defaultDeriving builtins)

def agree (cfg : Cfg) (fs : FS) (builtins : Registry) (root : APath) : Bool :=
  match diagsOf (front cfg fs builtins root), specOf cfg fs builtins root with
  | some ds, some vs => ds.isPerm vs
  | _, _ => false

def node (n : String) : APath × APath := (["w", n], ["w", n])

-- three files: `a` imports `b` and `c`, `b` imports `c`; a violation in each file. `b` refers to `ta`, which only the
-- importing file declares afterwards: unknown in `b` (the file-by-file reading). `static const` in `b` is reported at
-- visit time by the model, i.e. before `b`'s unknown type: the two lists agree up to order only.
def ex3 : FS := fsOf [
  ("a", "@import \"b\"\n@import \"c\"\nta = record { x: tb; y: nope; z: list<tc>; }"),
  ("b", "@import \"c\"\ntb = record { u: tc; v: ta; }\nib = interface { static const m(); }"),
  ("c", "tc = record { w: missing; }\nnamespace n { tc2 = enum { k; } }")]
#guard rootOrder cfg0 ex3 ["w", "a"] == [["w", "c"], ["w", "b"], ["w", "a"]]
#guard progChecks cfg0 ex3 bi ["w", "a"] [node "a", node "b", node "c"]
#guard agree cfg0 ex3 bi ["w", "a"]
#guard (diagsOf (front cfg0 ex3 bi ["w", "a"])).map (·.map (fun d => (d.rule, d.file)))
  == some [("unknown-type", "/w/c"), ("static-const", "/w/b"), ("unknown-type", "/w/b"), ("unknown-type", "/w/a")]
#guard (specOf cfg0 ex3 bi ["w", "a"]).map (·.map (fun d => (d.rule, d.file)))
  == some [("unknown-type", "/w/c"), ("unknown-type", "/w/b"), ("static-const", "/w/b"), ("unknown-type", "/w/a")]

-- a diamond without violations: accepted, and the specification finds nothing
def exDiamondOk : FS := fsOf [("a", "@import \"b\"\n@import \"c\"\nta = record { x: tb; y: tc; z: td; }"),
  ("b", "@import \"d\"\ntb = record { x: td; }"), ("c", "@import \"d\"\ntc = record { x: list<td>; }"), ("d", "td = enum { k; }")]
#guard progChecks cfg0 exDiamondOk bi ["w", "a"] [node "a", node "b", node "c", node "d"]
#guard diagsOf (front cfg0 exDiamondOk bi ["w", "a"]) == some []
#guard specOf cfg0 exDiamondOk bi ["w", "a"] == some []

-- the root spelled with `..`: the node of the root is (normalised path, spelling)
#guard progChecks cfg0 ex3 bi ["w", "x", "..", "a"] [(["w", "a"], ["w", "x", "..", "a"]), node "b", node "c"]
#guard agree cfg0 ex3 bi ["w", "x", "..", "a"]

-- the hypotheses are needed: with a circular import, a missing file or a duplicate name the check fails, and the
-- model reports more than the rule violations (or aborts)
def exCyc : FS := fsOf [("a", "@import \"b\"\nta = enum { k; }"), ("b", "@import \"a\"\ntb = enum { k; }")]
#guard !progChecks cfg0 exCyc bi ["w", "a"] [node "a", node "b"]
#guard !agree cfg0 exCyc bi ["w", "a"]
def exMissing : FS := fsOf [("a", "@import \"nope\"\nta = enum { k; }")]
#guard !progChecks cfg0 exMissing bi ["w", "a"] [node "a"]
#guard !agree cfg0 exMissing bi ["w", "a"]
def exDup : FS := fsOf [("a", "@import \"b\"\nt = enum { k; }"), ("b", "t = enum { k; }")]
#guard !progChecks cfg0 exDup bi ["w", "a"] [node "a", node "b"]
#guard !agree cfg0 exDup bi ["w", "a"]

def bindingsAgree (cfg : Cfg) (fs : FS) (builtins : Registry) (root : APath) : Bool :=
  match programInOrder cfg fs.files root with
  | none => false
  | some prog =>
    (List.range prog.length).all (fun i =>
      match prog[i]? with
      | none => false
      | some f => (fileRefs cfg f).all (fun r =>
          (frontWithBindings cfg fs builtins root).2.1.get r.file r.pos == lexicalLookup (regUpTo builtins prog i) r.ns r.name))

-- `front_bindings_lexical` on `ex3`: every reference is bound as `regUpTo` says; `ta` in `b` stays unbound although the
-- final registry has it
#guard bindingsAgree cfg0 ex3 bi ["w", "a"]
#guard bindingsAgree cfg0 exDiamondOk bi ["w", "a"]
#guard ((frontWithBindings cfg0 ex3 bi ["w", "a"]).2.1.get "/w/b" ⟨2, 24, 2, 26⟩).isNone
#guard ((frontWithBindings cfg0 ex3 bi ["w", "a"]).2.1.get "/w/b" ⟨2, 17, 2, 19⟩).map (·.key) == some "tc"
#guard ((frontWithBindings cfg0 ex3 bi ["w", "a"]).2.2.1.map (·.key)).contains "ta"

-- `front_split_invariance`: the same three files with the two `@import` lines of the root exchanged — a different
-- finish order; both programs are dependency-closed, have the same declarations, satisfy the hypotheses, and the model
-- reports the same diagnostics up to order (violations in the imported file `b` and in the root)
def exSwap1 : FS := fsOf [("a", "@import \"b\"\n@import \"c\"\nta = record { x: tb; y: tc; z: nope; }"),
  ("b", "tb = record { q: missing; }"), ("c", "tc = enum { k; }")]
def exSwap2 : FS := fsOf [("a", "@import \"c\"\n@import \"b\"\nta = record { x: tb; y: tc; z: nope; }"),
  ("b", "tb = record { q: missing; }"), ("c", "tc = enum { k; }")]
def closedB (fs : FS) : Bool :=
  match programInOrder cfg0 fs.files ["w", "a"] with | some p => decide (Closed bi p) | none => false
/-- the declarations of a program by file, qualified name and position (`Decl` has no `BEq`) -/
def declsRepr (fs : FS) : List (String × String × Pos) :=
  match programInOrder cfg0 fs.files ["w", "a"] with
  | some p => (progDecls p).map (fun x => (x.1, declKey x.2.1 x.2.2, declPos x.2.2))
  | none => []
#guard rootOrder cfg0 exSwap1 ["w", "a"] == [["w", "b"], ["w", "c"], ["w", "a"]]
#guard rootOrder cfg0 exSwap2 ["w", "a"] == [["w", "c"], ["w", "b"], ["w", "a"]]
#guard progChecks cfg0 exSwap1 bi ["w", "a"] [node "a", node "b", node "c"]
#guard progChecks cfg0 exSwap2 bi ["w", "a"] [node "a", node "b", node "c"]
#guard closedB exSwap1 && closedB exSwap2
#guard (declsRepr exSwap1).isPerm (declsRepr exSwap2) && declsRepr exSwap1 != declsRepr exSwap2
#guard match diagsOf (front cfg0 exSwap1 bi ["w", "a"]), diagsOf (front cfg0 exSwap2 bi ["w", "a"]) with
  | some d1, some d2 => d1.isPerm d2 && d1.map (·.file) == ["/w/b", "/w/a"]
  | _, _ => false
-- `ex3` is not closed (`b` refers to a name of the importing file)
#guard !closedB ex3

end C05ProgramExamples

end Pydjinni.Front
