import PydjinniModel.Front.Parser
/-!
# C03 — parse ∘ print = id for the data-type sub-language of the model parser (modulo positions)

`TyShape` is the position-free shape of a `dataType`; `printTy` prints it to token *kinds* following
`dataType : nsIdentifier (LT (dataType COMMA)* dataType GT)? OPTIONAL?`; `shapeOf` reads the shape
back from a `TypeRef` (`dotted` is not recoverable from the AST, so shapes are compared after
`TyShape.erase`). Tokens carry arbitrary positions: the hypotheses only constrain `tk`.

print, then parse (all shapes, any nesting depth / argument count, all token lists):
* `dataType_print`, `dataArgs_print`       core mutual induction, with the exact follow-set conditions
                                           `FollowOK` / `ArgsFollowOK` and the tight fuel bound `need`
* `dataType_roundtrip`, `dataArgs_roundtrip`   the same with the simple conditions "next token is not `<`/`?`
                                           (/`,`)" and the fuel bound `size`
* `dataType_roundtrip_length`              `size s ≤` number of printed tokens, so the `parseFile` fuel suffices
* `dataType_follow_necessary`              `FollowOK` is also necessary (uses `dataType_mono`: fuel monotonicity)
* `typeRefL_print`, `typeRefL_roundtrip`   the list-of-successes layer has exactly one candidate
* `field_roundtrip`                        `# c… name : T ;` parses to the field with that name/comment/shape
parse, then print (all inputs, all fuel):
* `dataType_sound`, `dataArgs_sound`       what is consumed is a printing of the shape of what is returned
* `dataType_consumes_prefix`, `dataArgs_consumes_prefix`, `dataType_is_data`
Non-vacuity examples run the real `lex` on `map<string, list<a.b?>>? ;`.
-/
namespace Pydjinni.Front

/-- position-free shape of a data type reference -/
inductive TyShape
  | mk (name : String) (dotted : Bool) (args : List TyShape) (optional : Bool)
deriving Repr

mutual
def TyShape.decEq : (a b : TyShape) → Decidable (a = b)
  | .mk n d as o, .mk n' d' as' o' =>
    if h1 : n = n' then
      if h2 : d = d' then
        if h3 : o = o' then
          match decEqArgs as as' with
          | isTrue h4 => isTrue (by rw [h1, h2, h3, h4])
          | isFalse h4 => isFalse (by intro h; cases h; exact h4 rfl)
        else isFalse (by intro h; cases h; exact h3 rfl)
      else isFalse (by intro h; cases h; exact h2 rfl)
    else isFalse (by intro h; cases h; exact h1 rfl)
def decEqArgs : (a b : List TyShape) → Decidable (a = b)
  | [], [] => isTrue rfl
  | [], _ :: _ => isFalse (by intro h; cases h)
  | _ :: _, [] => isFalse (by intro h; cases h)
  | a :: as, b :: bs =>
    match TyShape.decEq a b with
    | isTrue h1 =>
      match decEqArgs as bs with
      | isTrue h2 => isTrue (by rw [h1, h2])
      | isFalse h2 => isFalse (by intro h; cases h; exact h2 rfl)
    | isFalse h1 => isFalse (by intro h; cases h; exact h1 rfl)
end
instance : DecidableEq TyShape := TyShape.decEq

mutual
def TyShape.erase : TyShape → TyShape
  | .mk n _ args o => .mk n false (eraseArgs args) o
def eraseArgs : List TyShape → List TyShape
  | [] => []
  | a :: as => a.erase :: eraseArgs as
end

mutual
def shapeOf : TypeRef → Option TyShape
  | .data n args o _ => (shapesOf args).map (fun l => TyShape.mk n false l o)
  | .fn _ _ => none
def shapesOf : List TypeRef → Option (List TyShape)
  | [] => some []
  | a :: as => match shapeOf a, shapesOf as with
    | some x, some xs => some (x :: xs)
    | _, _ => none
end

mutual
def printTy : TyShape → List Tk
  | .mk n d args o =>
    [if d then Tk.nsid n else Tk.id n] ++ (match args with
      | [] => []
      | a :: as => [Tk.kw "<"] ++ printTy a ++ printArgs as ++ [Tk.kw ">"]) ++ (if o then [Tk.kw "?"] else [])
def printArgs : List TyShape → List Tk
  | [] => []
  | a :: as => [Tk.kw ","] ++ printTy a ++ printArgs as
end

mutual
def TyShape.size : TyShape → Nat
  | .mk _ _ args _ => 1 + (match args with | [] => 0 | a :: as => a.size + sizeArgs as)
def sizeArgs : List TyShape → Nat
  | [] => 1
  | a :: as => 1 + a.size + sizeArgs as
end

/- `need`: a tighter fuel bound than `size` (nesting depth, where the `k`-th argument of a list
   sits `k` levels deeper because `dataArgs` recurses along the list) -/
mutual
def TyShape.need : TyShape → Nat
  | .mk _ _ args _ => 1 + (match args with | [] => 0 | a :: as => max a.need (needArgs as))
def needArgs : List TyShape → Nat
  | [] => 1
  | a :: as => 1 + max a.need (needArgs as)
end

/-- the tail of `dataType`: the optional `?` -/
def finishTy (name : String) (args : List TypeRef) (ts0 ts : List Token) : Option (TypeRef × List Token) :=
  if peekKw "?" ts then some (.data name args true (spanPos ts0 ts.tail), ts.tail)
  else some (.data name args false (spanPos ts0 ts), ts)

theorem dataType_succ (fuel : Nat) (ts0 : List Token) : dataType (fuel+1) ts0 =
    match nsIdent ts0 with
    | none => none
    | some (name, ts) =>
      if peekKw "<" ts then
        match kw? "<" ts with
        | none => none
        | some ts1 =>
          match dataType fuel ts1 with
          | none => none
          | some (a, ts2) =>
            match dataArgs fuel ts2 with
            | none => none
            | some (as, ts3) =>
              match kw? ">" ts3 with
              | none => none
              | some ts4 => finishTy name (a :: as) ts0 ts4
      else finishTy name [] ts0 ts := by
  rw [dataType.eq_2]
  cases nsIdent ts0 with
  | none => rfl
  | some x =>
    obtain ⟨name, ts⟩ := x
    simp only [Option.bind_eq_bind, Option.bind_some, Option.pure_def, finishTy]
    split
    · cases kw? "<" ts with
      | none => rfl
      | some ts1 =>
        simp only [Option.bind_some]
        cases dataType fuel ts1 with
        | none => rfl
        | some y =>
          obtain ⟨a, ts2⟩ := y
          simp only [Option.bind_some]
          cases dataArgs fuel ts2 with
          | none => rfl
          | some z =>
            obtain ⟨as, ts3⟩ := z
            simp only [Option.bind_some]
            cases kw? ">" ts3 with
            | none => rfl
            | some ts4 => rfl
    · rfl

theorem dataArgs_succ (fuel : Nat) (ts : List Token) : dataArgs (fuel+1) ts =
    if peekKw "," ts then
      match dataType fuel ts.tail with
      | none => none
      | some (a, ts2) =>
        match dataArgs fuel ts2 with
        | none => none
        | some (as, ts3) => some (a :: as, ts3)
    else some ([], ts) := by
  rw [dataArgs.eq_2]
  split
  · cases dataType fuel ts.tail with
    | none => rfl
    | some y =>
      obtain ⟨a, ts2⟩ := y
      simp only [Option.bind_eq_bind, Option.bind_some, Option.pure_def]
      cases dataArgs fuel ts2 with
      | none => rfl
      | some z => rfl
  · rfl

/-! ### print, then parse -/

/-- the token kind of a (possibly dotted) name -/
def nameTk (n : String) (d : Bool) : Tk := if d then Tk.nsid n else Tk.id n

theorem printTy_nil (n d o) : printTy (.mk n d [] o) = nameTk n d :: (if o then [Tk.kw "?"] else []) := by
  simp [printTy, nameTk]

theorem printTy_cons (n d a as o) : printTy (.mk n d (a :: as) o) =
    nameTk n d :: Tk.kw "<" :: (printTy a ++ (printArgs as ++ (Tk.kw ">" :: (if o then [Tk.kw "?"] else [])))) := by
  simp [printTy, nameTk]

theorem printArgs_cons (a as) : printArgs (a :: as) = Tk.kw "," :: (printTy a ++ printArgs as) := by
  simp [printArgs]

/-- exact follow-set condition for a printed data type: after a non-optional type the next token
    must not be `?`; after a non-optional, argument-free type it must not be `<` either.
    Nothing is required after an optional type. -/
def FollowOK : TyShape → List Token → Prop
  | .mk _ _ args o, rest => o = false → (peekKw "?" rest = false ∧ (args = [] → peekKw "<" rest = false))

/-- exact follow-set condition for a printed argument tail `(, T)*`: no further `,`, and the last
    argument (if any) must satisfy its own follow condition -/
def ArgsFollowOK : List TyShape → List Token → Prop
  | [], rest => peekKw "," rest = false
  | a :: as, rest => (as = [] → FollowOK a rest) ∧ ArgsFollowOK as rest

theorem FollowOK_of_simple (s : TyShape) (rest : List Token)
    (h1 : peekKw "<" rest = false) (h2 : peekKw "?" rest = false) : FollowOK s rest := by
  cases s; intro _; exact ⟨h2, fun _ => h1⟩

theorem ArgsFollowOK_of_simple (as : List TyShape) (rest : List Token) (h0 : peekKw "," rest = false)
    (h1 : peekKw "<" rest = false) (h2 : peekKw "?" rest = false) : ArgsFollowOK as rest := by
  induction as with
  | nil => exact h0
  | cons a as ih => exact ⟨fun _ => FollowOK_of_simple a rest h1 h2, ih⟩

theorem peekKw_cons (s : String) (t : Token) (ts : List Token) : peekKw s (t :: ts) = (t.tk == .kw s) := rfl

theorem kw?_cons (s : String) (t : Token) (ts : List Token) (h : t.tk = .kw s) : kw? s (t :: ts) = some ts := by
  simp [kw?, h]

theorem nsIdent_name (t : Token) (ts : List Token) (n d) (h : t.tk = nameTk n d) :
    nsIdent (t :: ts) = some (n, ts) := by
  cases d <;> simp [nsIdent, nameTk] at h ⊢ <;> simp [h]

theorem finishTy_print (n : String) (args : List TypeRef) (ts0 q rest : List Token) (o : Bool)
    (hq : q.map (·.tk) = if o then [Tk.kw "?"] else []) (hf : o = false → peekKw "?" rest = false) :
    ∃ p, finishTy n args ts0 (q ++ rest) = some (.data n args o p, rest) := by
  cases o with
  | false =>
    simp at hq; subst hq
    simp [finishTy, hf rfl]
  | true =>
    simp at hq
    obtain ⟨t, rfl, ht⟩ := hq
    simp [finishTy, peekKw_cons, ht]

theorem printTy_ne_nil (s : TyShape) : printTy s ≠ [] := by
  cases s with
  | mk n d args o => cases args <;> simp [printTy]

mutual
theorem dataType_print (s : TyShape) (pre rest : List Token) (fuel : Nat)
    (hp : pre.map (·.tk) = printTy s) (hf : FollowOK s rest) (hfuel : s.need ≤ fuel) :
    ∃ t, dataType fuel (pre ++ rest) = some (t, rest) ∧ shapeOf t = some s.erase := by
  match s with
  | .mk n d [] o =>
    cases fuel with
    | zero => simp [TyShape.need] at hfuel
    | succ fuel =>
      rw [printTy_nil] at hp
      obtain ⟨t, q, rfl, ht, hq⟩ := List.map_eq_cons_iff.mp hp
      have hlt : peekKw "<" (q ++ rest) = false := by
        cases o with
        | false => simp at hq; subst hq; exact (hf rfl).2 rfl
        | true =>
          simp at hq
          obtain ⟨t, rfl, ht⟩ := hq
          simp [peekKw_cons, ht]
      obtain ⟨p, hfin⟩ := finishTy_print n [] (t :: q ++ rest) q rest o hq (fun h => (hf h).1)
      refine ⟨.data n [] o p, ?_, ?_⟩
      · rw [dataType_succ, List.cons_append, nsIdent_name t _ n d ht]
        simp only [hlt, Bool.false_eq_true, if_false]
        exact hfin
      · simp [shapeOf, shapesOf, TyShape.erase, eraseArgs]
  | .mk n d (a :: as) o =>
    cases fuel with
    | zero => simp [TyShape.need] at hfuel
    | succ fuel =>
      have ha : a.need ≤ fuel := by simp [TyShape.need] at hfuel; omega
      have has : needArgs as ≤ fuel := by simp [TyShape.need] at hfuel; omega
      rw [printTy_cons] at hp
      obtain ⟨t, pre1, rfl, ht, hp⟩ := List.map_eq_cons_iff.mp hp
      obtain ⟨l, pre2, rfl, hl, hp⟩ := List.map_eq_cons_iff.mp hp
      obtain ⟨pa, pre3, rfl, hpa, hp⟩ := List.map_eq_append_iff.mp hp
      obtain ⟨pas, pre4, rfl, hpas, hp⟩ := List.map_eq_append_iff.mp hp
      obtain ⟨g, q, rfl, hg, hq⟩ := List.map_eq_cons_iff.mp hp
      -- first argument
      have hfa : FollowOK a (pas ++ (g :: q ++ rest)) := by
        apply FollowOK_of_simple
        · cases as with
          | nil => simp [printArgs] at hpas; subst hpas; simp [peekKw_cons, hg]
          | cons b bs =>
            rw [printArgs_cons] at hpas
            obtain ⟨c, _, rfl, hc, _⟩ := List.map_eq_cons_iff.mp hpas
            simp [peekKw_cons, hc]
        · cases as with
          | nil => simp [printArgs] at hpas; subst hpas; simp [peekKw_cons, hg]
          | cons b bs =>
            rw [printArgs_cons] at hpas
            obtain ⟨c, _, rfl, hc, _⟩ := List.map_eq_cons_iff.mp hpas
            simp [peekKw_cons, hc]
      obtain ⟨ta, h1, hsa⟩ := dataType_print a pa (pas ++ (g :: q ++ rest)) fuel hpa hfa ha
      -- remaining arguments
      have hfas : ArgsFollowOK as (g :: q ++ rest) := by
        apply ArgsFollowOK_of_simple <;> simp [peekKw_cons, hg]
      obtain ⟨tas, h2, hsas⟩ := dataArgs_print as pas (g :: q ++ rest) fuel hpas hfas has
      obtain ⟨p, hfin⟩ := finishTy_print n (ta :: tas) (t :: l :: (pa ++ (pas ++ (g :: q ++ rest)))) q rest o hq
        (fun h => (hf h).1)
      refine ⟨.data n (ta :: tas) o p, ?_, ?_⟩
      · have e : t :: l :: (pa ++ (pas ++ g :: q)) ++ rest = t :: l :: (pa ++ (pas ++ (g :: q ++ rest))) := by simp
        rw [e, dataType_succ, nsIdent_name t _ n d ht]
        simp only [peekKw_cons, kw?_cons _ _ _ hl, hl, beq_self_eq_true, if_true, h1, h2]
        rw [List.cons_append, kw?_cons _ _ _ hg]
        exact hfin
      · simp [shapeOf, shapesOf, TyShape.erase, eraseArgs, hsa, hsas]
theorem dataArgs_print (as : List TyShape) (pre rest : List Token) (fuel : Nat)
    (hp : pre.map (·.tk) = printArgs as) (hf : ArgsFollowOK as rest) (hfuel : needArgs as ≤ fuel) :
    ∃ l, dataArgs fuel (pre ++ rest) = some (l, rest) ∧ shapesOf l = some (eraseArgs as) := by
  match as with
  | [] =>
    cases fuel with
    | zero => simp [needArgs] at hfuel
    | succ fuel =>
      simp [printArgs] at hp; subst hp
      refine ⟨[], ?_, ?_⟩
      · have : peekKw "," rest = false := hf
        rw [dataArgs_succ]; simp [this]
      · simp [shapesOf, eraseArgs]
  | a :: as =>
    cases fuel with
    | zero => simp [needArgs] at hfuel
    | succ fuel =>
      have ha : a.need ≤ fuel := by simp [needArgs] at hfuel; omega
      have has : needArgs as ≤ fuel := by simp [needArgs] at hfuel; omega
      rw [printArgs_cons] at hp
      obtain ⟨c, pre1, rfl, hc, hp⟩ := List.map_eq_cons_iff.mp hp
      obtain ⟨pa, pas, rfl, hpa, hpas⟩ := List.map_eq_append_iff.mp hp
      have hfa : FollowOK a (pas ++ rest) := by
        cases as with
        | nil => simp [printArgs] at hpas; subst hpas; exact hf.1 rfl
        | cons b bs =>
          rw [printArgs_cons] at hpas
          obtain ⟨c', _, rfl, hc', _⟩ := List.map_eq_cons_iff.mp hpas
          apply FollowOK_of_simple <;> simp [peekKw_cons, hc']
      obtain ⟨ta, h1, hsa⟩ := dataType_print a pa (pas ++ rest) fuel hpa hfa ha
      obtain ⟨tas, h2, hsas⟩ := dataArgs_print as pas rest fuel hpas hf.2 has
      refine ⟨ta :: tas, ?_, ?_⟩
      · rw [dataArgs_succ]
        simp only [List.cons_append, peekKw_cons, hc, beq_self_eq_true, if_true, List.tail_cons,
          List.append_assoc, h1, h2]
      · simp [shapesOf, eraseArgs, hsa, hsas]
end

/-! ### fuel: the size of a shape is bounded by the number of printed tokens -/

mutual
theorem size_le_length (s : TyShape) : s.size ≤ (printTy s).length := by
  match s with
  | .mk n d [] o => simp [printTy_nil, TyShape.size]
  | .mk n d (a :: as) o =>
    have h1 := size_le_length a
    have h2 := sizeArgs_le_length as
    simp only [printTy_cons, TyShape.size, List.length_cons, List.length_append]
    omega
theorem sizeArgs_le_length (as : List TyShape) : sizeArgs as ≤ (printArgs as).length + 1 := by
  match as with
  | [] => simp [sizeArgs]
  | a :: as =>
    have h1 := size_le_length a
    have h2 := sizeArgs_le_length as
    simp only [printArgs_cons, sizeArgs, List.length_cons, List.length_append]
    omega
end

mutual
theorem need_le_size (s : TyShape) : s.need ≤ s.size := by
  match s with
  | .mk n d [] o => simp [TyShape.need, TyShape.size]
  | .mk n d (a :: as) o =>
    have h1 := need_le_size a
    have h2 := needArgs_le_sizeArgs as
    simp only [TyShape.need, TyShape.size]
    omega
theorem needArgs_le_sizeArgs (as : List TyShape) : needArgs as ≤ sizeArgs as := by
  match as with
  | [] => simp [needArgs, sizeArgs]
  | a :: as =>
    have h1 := need_le_size a
    have h2 := needArgs_le_sizeArgs as
    simp only [needArgs, sizeArgs]
    omega
end

/-! ### the requested statements -/

/-- `erase` is idempotent, so the result of `shapeOf` is already erased -/
theorem shapeOf_erased_of_eq {t : TypeRef} {s : TyShape} (h : shapeOf t = some s.erase) :
    (shapeOf t).map TyShape.erase = some s.erase := by
  have idem : ∀ s : TyShape, s.erase.erase = s.erase := by
    intro s
    refine TyShape.rec (motive_1 := fun s => s.erase.erase = s.erase)
      (motive_2 := fun l => eraseArgs (eraseArgs l) = eraseArgs l) ?_ ?_ ?_ s
    · intro n d args o ih; simp [TyShape.erase, ih]
    · simp [eraseArgs]
    · intro a as iha ihas; simp [eraseArgs, iha, ihas]
  simp [h, idem]

/-- **parse ∘ print = id** for `dataType`, modulo positions: if the token kinds of `pre` are the
    printing of the shape `s`, the token after `pre` is neither `<` nor `?`, and the fuel is at
    least the size of `s`, then `dataType` consumes exactly `pre` and returns a data type of shape
    `s`. No well-formedness condition on `s` is needed (names are arbitrary strings; an empty
    argument list prints no `<…>`). -/
theorem dataType_roundtrip (s : TyShape) (pre rest : List Token) (fuel : Nat)
    (hp : pre.map (·.tk) = printTy s)
    (hfollow : peekKw "<" rest = false ∧ peekKw "?" rest = false)
    (hfuel : s.size ≤ fuel) :
    ∃ t, dataType fuel (pre ++ rest) = some (t, rest) ∧ (shapeOf t).map TyShape.erase = some s.erase := by
  obtain ⟨t, h, hs⟩ := dataType_print s pre rest fuel hp (FollowOK_of_simple s rest hfollow.1 hfollow.2)
    (Nat.le_trans (need_le_size s) hfuel)
  exact ⟨t, h, shapeOf_erased_of_eq hs⟩

/-- the same with the fuel bounded by the number of tokens (in particular the fuel
    `8 * length + 16` used by `parseFile` always suffices) -/
theorem dataType_roundtrip_length (s : TyShape) (pre rest : List Token) (fuel : Nat)
    (hp : pre.map (·.tk) = printTy s)
    (hfollow : peekKw "<" rest = false ∧ peekKw "?" rest = false)
    (hfuel : pre.length ≤ fuel) :
    ∃ t, dataType fuel (pre ++ rest) = some (t, rest) ∧ (shapeOf t).map TyShape.erase = some s.erase := by
  apply dataType_roundtrip s pre rest fuel hp hfollow
  have := size_le_length s
  rw [← hp, List.length_map] at this
  omega

/-- companion statement for the argument tail `(COMMA dataType)*` -/
theorem dataArgs_roundtrip (as : List TyShape) (pre rest : List Token) (fuel : Nat)
    (hp : pre.map (·.tk) = printArgs as)
    (hfollow : peekKw "," rest = false ∧ peekKw "<" rest = false ∧ peekKw "?" rest = false)
    (hfuel : sizeArgs as ≤ fuel) :
    ∃ l, dataArgs fuel (pre ++ rest) = some (l, rest) ∧ shapesOf l = some (eraseArgs as) :=
  dataArgs_print as pre rest fuel hp (ArgsFollowOK_of_simple as rest hfollow.1 hfollow.2.1 hfollow.2.2)
    (Nat.le_trans (needArgs_le_sizeArgs as) hfuel)

/-! ### the list-of-successes layer -/

theorem typeRefL_print (s : TyShape) (pre rest : List Token) (fuel : Nat)
    (hp : pre.map (·.tk) = printTy s) (hf : FollowOK s rest) (hfuel : s.need ≤ fuel) :
    ∃ t, typeRefL fuel (pre ++ rest) = [(t, rest)] ∧ shapeOf t = some s.erase := by
  obtain ⟨t, h, hs⟩ := dataType_print s pre rest fuel hp hf hfuel
  refine ⟨t, ?_, hs⟩
  cases fuel with
  | zero => simp [dataType] at h
  | succ fuel =>
    obtain ⟨n, d, args, o⟩ := s
    have hhd : ∃ x xs, pre = x :: xs ∧ x.tk = nameTk n d := by
      cases args with
      | nil => rw [printTy_nil] at hp; obtain ⟨x, xs, rfl, hx, _⟩ := List.map_eq_cons_iff.mp hp; exact ⟨x, xs, rfl, hx⟩
      | cons a as => rw [printTy_cons] at hp; obtain ⟨x, xs, rfl, hx, _⟩ := List.map_eq_cons_iff.mp hp; exact ⟨x, xs, rfl, hx⟩
    obtain ⟨x, xs, rfl, hx⟩ := hhd
    have e1 : peekKw "function" (x :: xs ++ rest) = false := by
      cases d <;> simp [peekKw_cons, hx, nameTk]
    have e2 : peekKw "(" (x :: xs ++ rest) = false := by
      cases d <;> simp [peekKw_cons, hx, nameTk]
    rw [typeRefL.eq_2, e1, e2, h]
    rfl

/-- `typeRefL` has exactly one candidate on a printed data type, namely the round-trip parse -/
theorem typeRefL_roundtrip (s : TyShape) (pre rest : List Token) (fuel : Nat)
    (hp : pre.map (·.tk) = printTy s)
    (hfollow : peekKw "<" rest = false ∧ peekKw "?" rest = false)
    (hfuel : s.size ≤ fuel) :
    ∃ t, typeRefL fuel (pre ++ rest) = [(t, rest)] ∧ (shapeOf t).map TyShape.erase = some s.erase := by
  obtain ⟨t, h, hs⟩ := typeRefL_print s pre rest fuel hp (FollowOK_of_simple s rest hfollow.1 hfollow.2)
    (Nat.le_trans (need_le_size s) hfuel)
  exact ⟨t, h, shapeOf_erased_of_eq hs⟩

/-! ### parse, then print: the parser consumes a printing of what it returns -/

theorem nsIdent_inv {ts0 ts : List Token} {n : String} (h : nsIdent ts0 = some (n, ts)) :
    ∃ t d, ts0 = t :: ts ∧ t.tk = nameTk n d := by
  cases ts0 with
  | nil => simp [nsIdent] at h
  | cons t r =>
    simp only [nsIdent] at h
    split at h
    · next s hs => simp at h; obtain ⟨rfl, rfl⟩ := h; exact ⟨t, false, rfl, by simp [nameTk, hs]⟩
    · next s hs => simp at h; obtain ⟨rfl, rfl⟩ := h; exact ⟨t, true, rfl, by simp [nameTk, hs]⟩
    · simp at h

theorem kw?_inv {s : String} {ts r : List Token} (h : kw? s ts = some r) :
    ∃ t, ts = t :: r ∧ t.tk = .kw s := by
  cases ts with
  | nil => simp [kw?] at h
  | cons t r' =>
    simp only [kw?] at h
    split at h
    · next hb => simp at h; subst h; exact ⟨t, rfl, by simpa using hb⟩
    · simp at h

theorem peekKw_inv {s : String} {ts : List Token} (h : peekKw s ts = true) :
    ∃ t, ts = t :: ts.tail ∧ t.tk = .kw s := by
  cases ts with
  | nil => simp [peekKw] at h
  | cons t r => exact ⟨t, rfl, by simpa [peekKw] using h⟩

theorem finishTy_inv {n : String} {args : List TypeRef} {ts0 ts rest : List Token} {t : TypeRef}
    (h : finishTy n args ts0 ts = some (t, rest)) :
    ∃ o q p, t = .data n args o p ∧ ts = q ++ rest ∧ q.map (·.tk) = if o then [Tk.kw "?"] else [] := by
  unfold finishTy at h
  split at h
  · next hq =>
    obtain ⟨x, hx, hxt⟩ := peekKw_inv hq
    simp at h; obtain ⟨rfl, rfl⟩ := h
    exact ⟨true, [x], _, rfl, by simpa using hx, by simp [hxt]⟩
  · simp at h; obtain ⟨rfl, rfl⟩ := h
    exact ⟨false, [], _, rfl, by simp, by simp⟩

/-- **print ∘ parse = id**: whatever `dataType` / `dataArgs` accept is a printing of the shape of
    what they return, followed by the returned remainder (for every input and every fuel) -/
theorem dataType_dataArgs_sound (fuel : Nat) :
    (∀ ts t rest, dataType fuel ts = some (t, rest) →
      ∃ pre s, ts = pre ++ rest ∧ pre.map (·.tk) = printTy s ∧ shapeOf t = some s.erase) ∧
    (∀ ts l rest, dataArgs fuel ts = some (l, rest) →
      ∃ pre as, ts = pre ++ rest ∧ pre.map (·.tk) = printArgs as ∧ shapesOf l = some (eraseArgs as)) := by
  induction fuel with
  | zero => constructor <;> (intro ts t rest h; simp [dataType, dataArgs] at h)
  | succ fuel ih =>
    obtain ⟨ihT, ihA⟩ := ih
    constructor
    · intro ts0 t rest h
      rw [dataType_succ] at h
      cases hn : nsIdent ts0 with
      | none => simp [hn] at h
      | some x =>
        obtain ⟨n, ts⟩ := x
        obtain ⟨tn, d, rfl, htn⟩ := nsIdent_inv hn
        simp only [hn] at h
        by_cases hlt : peekKw "<" ts = true
        · simp only [hlt, if_true] at h
          cases hk : kw? "<" ts with
          | none => simp [hk] at h
          | some ts1 =>
            obtain ⟨l, rfl, hl⟩ := kw?_inv hk
            simp only [hk] at h
            cases h1 : dataType fuel ts1 with
            | none => simp [h1] at h
            | some y =>
              obtain ⟨a, ts2⟩ := y
              simp only [h1] at h
              cases h2 : dataArgs fuel ts2 with
              | none => simp [h2] at h
              | some z =>
                obtain ⟨as, ts3⟩ := z
                simp only [h2] at h
                cases hg : kw? ">" ts3 with
                | none => simp [hg] at h
                | some ts4 =>
                  obtain ⟨g, rfl, hgt⟩ := kw?_inv hg
                  simp only [hg] at h
                  obtain ⟨o, q, p, rfl, rfl, hq⟩ := finishTy_inv h
                  obtain ⟨pa, sa, rfl, hpa, hsa⟩ := ihT _ _ _ h1
                  obtain ⟨pas, sas, rfl, hpas, hsas⟩ := ihA _ _ _ h2
                  refine ⟨tn :: l :: (pa ++ (pas ++ g :: q)), .mk n d (sa :: sas) o, by simp, ?_, ?_⟩
                  · rw [printTy_cons]; simp [htn, hl, hpa, hpas, hgt, hq]
                  · simp [shapeOf, shapesOf, TyShape.erase, eraseArgs, hsa, hsas]
        · simp only [hlt, Bool.false_eq_true, if_false] at h
          obtain ⟨o, q, p, rfl, rfl, hq⟩ := finishTy_inv h
          refine ⟨tn :: q, .mk n d [] o, by simp, ?_, ?_⟩
          · rw [printTy_nil]; simp [htn, hq]
          · simp [shapeOf, shapesOf, TyShape.erase, eraseArgs]
    · intro ts l rest h
      rw [dataArgs_succ] at h
      by_cases hc : peekKw "," ts = true
      · simp only [hc, if_true] at h
        obtain ⟨c, hcs, hct⟩ := peekKw_inv hc
        cases h1 : dataType fuel ts.tail with
        | none => simp [h1] at h
        | some y =>
          obtain ⟨a, ts2⟩ := y
          simp only [h1] at h
          cases h2 : dataArgs fuel ts2 with
          | none => simp [h2] at h
          | some z =>
            obtain ⟨as, ts3⟩ := z
            simp only [h2] at h
            simp at h; obtain ⟨rfl, rfl⟩ := h
            obtain ⟨pa, sa, hts, hpa, hsa⟩ := ihT _ _ _ h1
            obtain ⟨pas, sas, rfl, hpas, hsas⟩ := ihA _ _ _ h2
            refine ⟨c :: (pa ++ pas), sa :: sas, ?_, ?_, ?_⟩
            · rw [hcs, hts]; simp
            · rw [printArgs_cons]; simp [hct, hpa, hpas]
            · simp [shapesOf, eraseArgs, hsa, hsas]
      · simp only [hc, Bool.false_eq_true, if_false] at h
        simp at h; obtain ⟨rfl, rfl⟩ := h
        exact ⟨[], [], by simp, by simp [printArgs], by simp [shapesOf, eraseArgs]⟩

theorem dataType_sound (fuel : Nat) (ts : List Token) (t : TypeRef) (rest : List Token)
    (h : dataType fuel ts = some (t, rest)) :
    ∃ pre s, ts = pre ++ rest ∧ pre.map (·.tk) = printTy s ∧ shapeOf t = some s.erase :=
  (dataType_dataArgs_sound fuel).1 ts t rest h

theorem dataArgs_sound (fuel : Nat) (ts : List Token) (l : List TypeRef) (rest : List Token)
    (h : dataArgs fuel ts = some (l, rest)) :
    ∃ pre as, ts = pre ++ rest ∧ pre.map (·.tk) = printArgs as ∧ shapesOf l = some (eraseArgs as) :=
  (dataType_dataArgs_sound fuel).2 ts l rest h

/-- the parser consumes a non-empty prefix of its input and never invents tokens -/
theorem dataType_consumes_prefix (fuel : Nat) (ts : List Token) (t : TypeRef) (rest : List Token)
    (h : dataType fuel ts = some (t, rest)) : ∃ pre, ts = pre ++ rest ∧ pre ≠ [] := by
  obtain ⟨pre, s, rfl, hp, _⟩ := dataType_sound fuel ts t rest h
  refine ⟨pre, rfl, ?_⟩
  rintro rfl
  exact printTy_ne_nil s (by simpa using hp.symm)

theorem dataArgs_consumes_prefix (fuel : Nat) (ts : List Token) (l : List TypeRef) (rest : List Token)
    (h : dataArgs fuel ts = some (l, rest)) : ∃ pre, ts = pre ++ rest := by
  obtain ⟨pre, _, rfl, _, _⟩ := dataArgs_sound fuel ts l rest h
  exact ⟨pre, rfl⟩

/-- a successful `dataType` parse never returns a function type -/
theorem dataType_is_data (fuel : Nat) (ts : List Token) (t : TypeRef) (rest : List Token)
    (h : dataType fuel ts = some (t, rest)) : (shapeOf t).isSome = true := by
  obtain ⟨_, _, _, _, hs⟩ := dataType_sound fuel ts t rest h
  simp [hs]

/-! ### record fields -/

theorem comments_print (cs : List Token) (cstr : List String) (r : List Token)
    (hcs : cs.map (·.tk) = cstr.map Tk.comment) (hr : ∀ x xs, r = x :: xs → ∀ c, x.tk ≠ .comment c) :
    comments (cs ++ r) = (cstr, r) := by
  induction cs generalizing cstr with
  | nil =>
    simp at hcs; subst hcs
    cases r with
    | nil => simp [comments]
    | cons x xs =>
      have := hr x xs rfl
      simp only [List.nil_append, comments]
  | cons c cs ih =>
    cases cstr with
    | nil => simp at hcs
    | cons s ss =>
      simp at hcs
      obtain ⟨h1, h2⟩ := hcs
      simp [comments, h1, ih ss (by simpa using h2)]

/-- round trip for record fields: `# c₁ … # cₖ  name : T ;` parses to the field with that name,
    those comment lines and a type of shape `T`, consuming exactly the printed tokens -/
theorem field_roundtrip (s : TyShape) (name : String) (cstr : List String)
    (cs : List Token) (nt colon semi : Token) (pre rest : List Token) (fuel : Nat)
    (hcs : cs.map (·.tk) = cstr.map Tk.comment) (hn : nt.tk = .id name) (hc : colon.tk = .kw ":")
    (hp : pre.map (·.tk) = printTy s) (hsemi : semi.tk = .kw ";") (hfuel : s.need ≤ fuel) :
    ∃ f, field fuel (cs ++ nt :: colon :: (pre ++ semi :: rest)) = some (f, rest) ∧
      f.name = name ∧ f.comment = cstr ∧ shapeOf f.ty = some s.erase := by
  have hfol : FollowOK s (semi :: rest) := by
    apply FollowOK_of_simple <;> simp [peekKw_cons, hsemi]
  obtain ⟨t, ht, hs⟩ := typeRefL_print s pre (semi :: rest) fuel hp hfol hfuel
  have hcm := comments_print cs cstr (nt :: colon :: (pre ++ semi :: rest)) hcs
    (by intro x xs h c; simp at h; rw [← h.1, hn]; simp)
  refine ⟨{ name := name, ty := t, comment := cstr,
            pos := spanPos (cs ++ nt :: colon :: (pre ++ semi :: rest)) rest }, ?_, rfl, rfl, hs⟩
  unfold field
  simp only [Option.bind_eq_bind, Option.pure_def, hcm, ident, hn, Option.bind_some,
    kw?_cons _ _ _ hc, ht, firstThat, List.findSome?_cons, kw?_cons _ _ _ hsemi]

/-! ### the follow-set condition is necessary -/

theorem dataType_dataArgs_mono (fuel : Nat) :
    (∀ ts r, dataType fuel ts = some r → dataType (fuel+1) ts = some r) ∧
    (∀ ts r, dataArgs fuel ts = some r → dataArgs (fuel+1) ts = some r) := by
  induction fuel with
  | zero => constructor <;> (intro ts r h; simp [dataType, dataArgs] at h)
  | succ fuel ih =>
    obtain ⟨ihT, ihA⟩ := ih
    constructor
    · intro ts0 r h
      rw [dataType_succ] at h ⊢
      cases hn : nsIdent ts0 with
      | none => simp [hn] at h
      | some x =>
        obtain ⟨n, ts⟩ := x
        simp only [hn] at h ⊢
        by_cases hlt : peekKw "<" ts = true
        · simp only [hlt, if_true] at h ⊢
          cases hk : kw? "<" ts with
          | none => simp [hk] at h
          | some ts1 =>
            simp only [hk] at h ⊢
            cases h1 : dataType fuel ts1 with
            | none => simp [h1] at h
            | some y =>
              obtain ⟨a, ts2⟩ := y
              simp only [h1, ihT _ _ h1] at h ⊢
              cases h2 : dataArgs fuel ts2 with
              | none => simp [h2] at h
              | some z =>
                obtain ⟨as, ts3⟩ := z
                simp only [h2, ihA _ _ h2] at h ⊢
                exact h
        · simp only [hlt, Bool.false_eq_true, if_false] at h ⊢
          exact h
    · intro ts r h
      rw [dataArgs_succ] at h ⊢
      by_cases hc : peekKw "," ts = true
      · simp only [hc, if_true] at h ⊢
        cases h1 : dataType fuel ts.tail with
        | none => simp [h1] at h
        | some y =>
          obtain ⟨a, ts2⟩ := y
          simp only [h1, ihT _ _ h1] at h ⊢
          cases h2 : dataArgs fuel ts2 with
          | none => simp [h2] at h
          | some z =>
            obtain ⟨as, ts3⟩ := z
            simp only [h2, ihA _ _ h2] at h ⊢
            exact h
      · simp only [hc, Bool.false_eq_true, if_false] at h ⊢
        exact h

/-- more fuel never changes a successful parse -/
theorem dataType_mono {fuel fuel' : Nat} (hle : fuel ≤ fuel') {ts : List Token} {r : TypeRef × List Token}
    (h : dataType fuel ts = some r) : dataType fuel' ts = some r := by
  induction hle with
  | refl => exact h
  | step _ ih => exact (dataType_dataArgs_mono _).1 _ _ ih

theorem printTy_opt (n d args) : printTy (.mk n d args true) = printTy (.mk n d args false) ++ [Tk.kw "?"] := by
  cases args <;> simp [printTy_nil, printTy_cons]

/-- the follow-set condition `FollowOK` of `dataType_print` is not only sufficient but necessary:
    if the parser consumes exactly a printing of `s`, the next token satisfies `FollowOK s` -/
theorem dataType_follow_necessary (s : TyShape) (pre rest : List Token) (fuel : Nat) (t : TypeRef)
    (hp : pre.map (·.tk) = printTy s) (h : dataType fuel (pre ++ rest) = some (t, rest)) :
    FollowOK s rest := by
  obtain ⟨n, d, args, o⟩ := s
  intro ho
  subst ho
  constructor
  · -- a following `?` would have been consumed
    cases hq : peekKw "?" rest with
    | false => rfl
    | true =>
      exfalso
      obtain ⟨q, hrest, hqt⟩ := peekKw_inv hq
      have hp' : (pre ++ [q]).map (·.tk) = printTy (.mk n d args true) := by
        rw [printTy_opt, List.map_append, hp]; simp [hqt]
      obtain ⟨t', h', _⟩ := dataType_print (.mk n d args true) (pre ++ [q]) rest.tail
        (max fuel (TyShape.mk n d args true).need) hp' (by intro h; cases h) (Nat.le_max_right _ _)
      have h'' := dataType_mono (Nat.le_max_left fuel (TyShape.mk n d args true).need) h
      rw [hrest] at h''
      simp only [List.append_assoc, List.singleton_append] at h'
      rw [h''] at h'
      have := congrArg (fun x => x.2.length) (Option.some.inj h')
      simp at this
  · -- a following `<` would have started an argument list
    intro hargs
    subst hargs
    cases hl : peekKw "<" rest with
    | false => rfl
    | true =>
      exfalso
      obtain ⟨l, hrest, hlt⟩ := peekKw_inv hl
      rw [printTy_nil] at hp
      simp at hp
      obtain ⟨tn, rfl, htn⟩ := hp
      cases fuel with
      | zero => simp [dataType] at h
      | succ fuel =>
        rw [dataType_succ, List.cons_append, nsIdent_name tn _ n d htn] at h
        simp only [List.nil_append, hl, if_true] at h
        rw [hrest, kw?_cons _ _ _ hlt] at h
        simp only at h
        cases h1 : dataType fuel rest.tail with
        | none => simp [h1] at h
        | some y =>
          obtain ⟨a, ts2⟩ := y
          simp only [h1] at h
          cases h2 : dataArgs fuel ts2 with
          | none => simp [h2] at h
          | some z =>
            obtain ⟨as, ts3⟩ := z
            simp only [h2] at h
            cases hg : kw? ">" ts3 with
            | none => simp [hg] at h
            | some ts4 =>
              simp only [hg] at h
              obtain ⟨g, rfl, _⟩ := kw?_inv hg
              obtain ⟨_, q, _, _, rfl, _⟩ := finishTy_inv h
              obtain ⟨pa, e1, _⟩ := dataType_consumes_prefix _ _ _ _ h1
              obtain ⟨pas, rfl⟩ := dataArgs_consumes_prefix _ _ _ _ h2
              have := congrArg List.length e1
              rw [hrest] at this
              simp at this
              omega

/-! ### non-vacuity: the hypotheses are satisfied by real lexer output -/

/-- `map<string, list<a.b?>>?` -/
def exShape : TyShape :=
  .mk "map" false [.mk "string" false [] false, .mk "list" false [.mk "a.b" true [] true] false] true

def exSrc : String := "map<string, list<a.b?>>? ;"

/-- the real lexer produces exactly the printing of `exShape` followed by `;` -/
theorem ex_lex : (lex exSrc).map (fun ts => ts.map (·.tk)) = some (printTy exShape ++ [.kw ";"]) := by
  decide +kernel

/-- running the model parser on the lexer output (fuel as in `parseFile`) returns the shape and
    leaves the `;` -/
example : (lex exSrc).bind (fun ts => (dataType (8 * ts.length + 16) ts).map
      (fun (t, r) => (shapeOf t, r.map (·.tk)))) = some (some exShape.erase, [.kw ";"]) := by
  decide +kernel

/-- the fuel bound `need` is attained: one unit less and the parser gives up -/
example : exShape.need = 4 ∧ exShape.size = 7 ∧ (printTy exShape).length = 11 ∧
    (lex exSrc).bind (fun ts => (dataType 4 ts).map (fun (t, _) => shapeOf t)) = some (some exShape.erase) ∧
    (lex exSrc).bind (fun ts => (dataType 3 ts).map (fun (t, _) => shapeOf t)) = none := by
  decide +kernel

/-- the round-trip theorem instantiated on the lexer output: all its hypotheses hold -/
example : ∀ toks, lex exSrc = some toks →
    ∃ t, dataType exShape.size toks = some (t, toks.drop 11) ∧
      (shapeOf t).map TyShape.erase = some exShape.erase ∧ (toks.drop 11).map (·.tk) = [.kw ";"] := by
  intro toks h
  have hk : toks.map (·.tk) = printTy exShape ++ [.kw ";"] := by
    have := ex_lex; rw [h] at this; simpa using this
  have hpre : (toks.take 11).map (·.tk) = printTy exShape := by
    rw [List.map_take, hk]; decide +kernel
  have hrest : (toks.drop 11).map (·.tk) = [.kw ";"] := by
    rw [List.map_drop, hk]; decide +kernel
  obtain ⟨x, xs, hx, hxt, hxs⟩ := List.map_eq_cons_iff.mp hrest
  rw [List.map_eq_nil_iff] at hxs
  subst hxs
  obtain ⟨t, ht, hs⟩ := dataType_roundtrip exShape (toks.take 11) (toks.drop 11) exShape.size hpre
    (by rw [hx]; simp [peekKw_cons, hxt]) (Nat.le_refl _)
  rw [List.take_append_drop] at ht
  exact ⟨t, ht, hs, hrest⟩

/-- the follow condition matters: on `a<b>` the shape `a` alone is *not* what the parser returns -/
example : (lex "a<b> ;").bind (fun ts => (dataType 9 ts).map (fun (t, r) => (shapeOf t, r.length))) =
    some (some (.mk "a" false [.mk "b" false [] false] false), 1) := by
  decide +kernel

/-- a record field with two comment lines, through the real lexer and `field` -/
example : (lex "# one\n# two\nx : map<string, list<a.b?>>? ;").bind (fun ts => (field (8 * ts.length + 16) ts).map
      (fun (f, r) => (f.name, f.comment, shapeOf f.ty, r.length))) =
    some ("x", ["# one", "# two"], some exShape.erase, 0) := by
  decide +kernel

#print axioms dataType_print
#print axioms dataArgs_print
#print axioms dataType_roundtrip
#print axioms dataType_roundtrip_length
#print axioms dataArgs_roundtrip
#print axioms typeRefL_roundtrip
#print axioms dataType_sound
#print axioms dataArgs_sound
#print axioms dataType_consumes_prefix
#print axioms dataArgs_consumes_prefix
#print axioms dataType_follow_necessary
#print axioms field_roundtrip
#print axioms ex_lex

end Pydjinni.Front
