import PydjinniModel.Props.C05
import PydjinniModel.Props.C05Front
import PydjinniModel.Props.C05Spec
/-! All C05 theorems. -/
