import PydjinniModel.Props.C05
import PydjinniModel.Props.C05Front
import PydjinniModel.Props.C05Spec
import PydjinniModel.Props.C05SpecPerm
/-! All C05 theorems. -/
