import PydjinniModel.Props.C05
import PydjinniModel.Props.C05Front
/-! All C05 theorems. -/
