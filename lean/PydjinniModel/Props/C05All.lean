import PydjinniModel.Props.C05
import PydjinniModel.Props.C05Front
import PydjinniModel.Props.C05Spec
import PydjinniModel.Props.C05SpecPerm
import PydjinniModel.Props.C05Program
/-! All C05 theorems. -/
