import PydjinniModel.Lang.CLex
import PydjinniModel.Gen.Comment
/-!
# C12 — IDL comments only ever become documentation

Statement of the property for the generated text: whatever the (rendered) comment text `s` is,

* `block_comment_contained`, `line_comment_contained` — the text `commentBlock style ind (cfLines s)` that
  `comment_filter` (followed by `indent(ind)`) produces takes the C-family lexer from its initial state back to its
  initial state and yields comment tokens only (`lexC (pre ++ comment ++ suf) = lexC pre ++ [comment…] ++ lexC suf`,
  `block_comment_lexC`, `line_comment_lexC`); line splicing (backslash, white space, newline) included;
* `java_comment_wellformed` — the same for Java: unicode-escape translation leaves the comment unchanged and reports
  no illegal escape, and the comment is one comment token;
* `deprecated_literal_wellformed`, `deprecated_literal_decodes`, `deprecated{Cpp,Objc,CppCli}_wellformed` — the
  deprecation attribute contains the message as exactly one well-formed string token that decodes to the message,
  and (`deprecated_one_line`) it is a single line for every later `indent`;
* `indent_commentFilter` — Jinja's `indent(w)` applied to `comment_filter(s)` is `commentBlock style w (cfLines s)`.

All theorems are unconditional in `s` (after the `fix:` commits); the counterexamples at the end show, by `decide`,
what the unneutralised wrapper of the pinned tree did on the witnesses of `findings/C12.json`.
-/
namespace Pydjinni.C12
open Pydjinni.Lang.CLex Pydjinni.Gen.Comment

/-! ## the lexers are sequential machines -/

theorem feedAll_append (m : Mode) (a b : List Char) :
    feedAll m (a ++ b) = ((feedAll (feedAll m a).1 b).1, (feedAll m a).2 ++ (feedAll (feedAll m a).1 b).2) := by
  induction a generalizing m with
  | nil => simp [feedAll]
  | cons c cs ih => simp [feedAll, ih, List.append_assoc]

/-- lexing `a ++ b` is lexing `a`, then `b` from the state `a` ended in -/
theorem run_append (sp : Bool) (s : St) (a b : List Char) :
    run sp s (a ++ b) = ((run sp (run sp s a).1 b).1, (run sp s a).2 ++ (run sp (run sp s a).1 b).2) := by
  induction a generalizing s with
  | nil => simp [run]
  | cons c cs ih => simp [run, ih, List.append_assoc]

theorem run_cons (sp : Bool) (s : St) (c : Char) (cs : List Char) :
    run sp s (c :: cs) = ((run sp (step sp s c).1 cs).1, (step sp s c).2 ++ (run sp (step sp s c).1 cs).2) := rfl

/-- a text that brings the lexer from its initial state back to its initial state splits the token stream -/
theorem lexFrom_append_clean (sp : Bool) (a b : List Char) (ta : List Tok) (h : run sp init a = (init, ta)) :
    lexFrom sp init (a ++ b) = ta ++ lexFrom sp init b := by
  simp [lexFrom, run_append, h, List.append_assoc]

/-! ## held-back characters -/

/-- what the lexer holds back is a backslash followed by horizontal white space -/
def PendOK (pend : List Char) : Prop := ∀ c ∈ pend, c = '\\' ∨ isHSpace c = true

theorem isHSpace_ne (c : Char) (h : isHSpace c = true) : c ≠ '/' ∧ c ≠ '*' ∧ c ≠ '\n' ∧ c ≠ '\r' ∧ c ≠ '\\' := by
  simp [isHSpace] at h
  rcases h with ((h | h) | h) | h <;> subst h <;> decide

theorem pendOK_ne (pend : List Char) (h : PendOK pend) : ∀ c ∈ pend, c ≠ '/' ∧ c ≠ '*' ∧ c ≠ '\n' ∧ c ≠ '\r' := by
  intro c hc
  rcases h c hc with h | h
  · subst h; decide
  · have := isHSpace_ne c h; exact ⟨this.1, this.2.1, this.2.2.1, this.2.2.2.1⟩

def InBlock (m : Mode) : Prop := m = .block ∨ m = .blockStar

/-- inside a block comment, characters other than `*` and `/` are swallowed -/
theorem feedAll_block (m : Mode) (hm : InBlock m) (cs : List Char) (h : ∀ c ∈ cs, c ≠ '/' ∧ c ≠ '*') :
    (feedAll m cs).2 = [] ∧ InBlock (feedAll m cs).1 ∧ (cs ≠ [] → (feedAll m cs).1 = .block) := by
  induction cs generalizing m with
  | nil => simp [feedAll, hm]
  | cons c cs ih =>
    have hc := h c (by simp)
    have hfeed : feed m c = (.block, []) := by
      rcases hm with rfl | rfl <;> simp [feed, hc.1, hc.2]
    have := ih .block (Or.inl rfl) (fun d hd => h d (by simp [hd]))
    simp only [feedAll, hfeed]
    refine ⟨by simpa using this.1, this.2.1, fun _ => ?_⟩
    cases cs with
    | nil => simp [feedAll]
    | cons d ds => exact this.2.2 (by simp)

/-! ## a block comment: nothing but `*/` ends it -/

structure Blockish (s : St) : Prop where
  mode : InBlock s.mode
  pend : PendOK s.pend
  cr : s.cr = false

theorem Blockish_iff (s : St) : Blockish s ↔ InBlock s.mode ∧ PendOK s.pend ∧ s.cr = false :=
  ⟨fun h => ⟨h.mode, h.pend, h.cr⟩, fun h => ⟨h.1, h.2.1, h.2.2⟩⟩

theorem pairAt_closer_star (rest : List Char) (h : pairAt closerP '*' rest = false) : rest.head? ≠ some '/' := by
  intro hh
  simp [pairAt, hh, closerP] at h

/-- one character of a line inside a block comment: no token, still inside, and a live `*` is not followed by `/` -/
theorem step_block (sp : Bool) (s : St) (hb : Blockish s) (c : Char) (rest : List Char)
    (hc : c ≠ '\n' ∧ c ≠ '\r') (hp : pairAt closerP c rest = false)
    (hs : s.mode = .blockStar → s.pend = [] → c ≠ '/') :
    (step sp s c).2 = [] ∧ Blockish (step sp s c).1 ∧
      ((step sp s c).1.mode = .blockStar → (step sp s c).1.pend = [] → rest.head? ≠ some '/') := by
  obtain ⟨mode, pend, cr⟩ := s
  obtain ⟨hm, hpd, hcr⟩ := hb
  simp only at hm hpd hcr hs
  subst hcr
  have star : c = '*' → rest.head? ≠ some '/' := fun h => pairAt_closer_star rest (h ▸ hp)
  by_cases hpe : pend = []
  · subst hpe
    by_cases hbs : sp = true ∧ c = '\\'
    · simp only [step, hbs]
      refine ⟨by simp, ⟨hm, ?_, rfl⟩, by simp⟩
      intro d hd; simp at hd; left; simp_all
    · have hst : step sp ⟨mode, [], false⟩ c = (⟨(feed mode c).1, [], false⟩, (feed mode c).2) := by
        simp [step, hbs]
      rw [hst]
      rcases hm with rfl | rfl
      · by_cases h1 : c = '*'
        · subst h1
          exact ⟨by simp [feed], ⟨by simp [feed, InBlock], by intro d hd; simp at hd, rfl⟩, fun _ _ => star rfl⟩
        · exact ⟨by simp [feed, h1], ⟨by simp [feed, h1, InBlock], by intro d hd; simp at hd, rfl⟩, by simp [feed, h1]⟩
      · have h2 : c ≠ '/' := hs rfl rfl
        by_cases h1 : c = '*'
        · subst h1
          exact ⟨by simp [feed], ⟨by simp [feed, InBlock], by intro d hd; simp at hd, rfl⟩, fun _ _ => star rfl⟩
        · exact ⟨by simp [feed, h1, h2], ⟨by simp [feed, h1, h2, InBlock], by intro d hd; simp at hd, rfl⟩, by simp [feed, h1, h2]⟩
  · have hfa := feedAll_block mode hm pend (fun d hd => ⟨(pendOK_ne pend hpd d hd).1, (pendOK_ne pend hpd d hd).2.1⟩)
    by_cases hh : isHSpace c = true
    · have : step sp ⟨mode, pend, false⟩ c = (⟨mode, pend ++ [c], false⟩, []) := by
        simp [step, hpe, hc.1, hc.2, hh]
      rw [this]
      refine ⟨rfl, ⟨hm, ?_, rfl⟩, by simp⟩
      intro d hd
      simp at hd
      rcases hd with hd | hd
      · exact hpd d hd
      · right; exact hd ▸ hh
    · by_cases hbs : c = '\\'
      · have : step sp ⟨mode, pend, false⟩ c = (⟨(feedAll mode pend).1, [c], false⟩, (feedAll mode pend).2) := by
          have hb' : isHSpace '\\' = false := by decide
          simp [step, hpe, hbs, hb']
        rw [this]
        refine ⟨hfa.1, ⟨hfa.2.1, ?_, rfl⟩, by simp⟩
        intro d hd; simp at hd; left; rw [hd]; exact hbs
      · have : step sp ⟨mode, pend, false⟩ c =
            (⟨(feed (feedAll mode pend).1 c).1, [], false⟩, (feedAll mode pend).2 ++ (feed (feedAll mode pend).1 c).2) := by
          simp [step, hpe, hc.1, hc.2, hh, hbs]
        rw [this, hfa.2.2 hpe, hfa.1]
        by_cases h1 : c = '*'
        · subst h1
          exact ⟨by simp [feed], ⟨by simp [feed, InBlock], by intro d hd; simp at hd, rfl⟩, fun _ _ => star rfl⟩
        · exact ⟨by simp [feed, h1], ⟨by simp [feed, h1, InBlock], by intro d hd; simp at hd, rfl⟩, by simp [feed, h1]⟩

/-- a whole line without `*/` and without newline characters, from any state inside a block comment -/
theorem run_line_block (sp : Bool) (l : List Char) (s : St) (hb : Blockish s)
    (hl : ∀ c ∈ l, c ≠ '\n' ∧ c ≠ '\r') (hn : noPair closerP l = true)
    (hs : s.mode = .blockStar → s.pend = [] → l.head? ≠ some '/') :
    (run sp s l).2 = [] ∧ Blockish (run sp s l).1 := by
  induction l generalizing s with
  | nil => simp [run, hb]
  | cons c rest ih =>
    simp only [noPair, Bool.and_eq_true, Bool.not_eq_true'] at hn
    have h1 := step_block sp s hb c rest (hl c (by simp)) hn.1 (fun a b => by simpa using hs a b)
    have h2 := ih (step sp s c).1 h1.2.1 (fun d hd => hl d (by simp [hd])) hn.2 h1.2.2
    rw [run_cons]
    exact ⟨by simp [h1.1, h2.1], h2.2⟩

theorem step_block_plain (sp : Bool) (s : St) (hb : Blockish s) (hp : s.pend = []) (c : Char)
    (h : c ≠ '\\' ∧ c ≠ '*' ∧ c ≠ '/') : step sp s c = (⟨.block, [], false⟩, []) := by
  obtain ⟨mode, pend, cr⟩ := s
  obtain ⟨hm, -, hcr⟩ := hb
  simp only at hm hcr hp
  subst hcr hp
  rcases hm with rfl | rfl <;> simp [step, feed, h.1, h.2.1, h.2.2]

/-- a newline inside a block comment: a real newline, or the end of a line splice; nothing is held back afterwards -/
theorem step_block_nl (sp : Bool) (s : St) (hb : Blockish s) :
    (step sp s '\n').2 = [] ∧ Blockish (step sp s '\n').1 ∧ (step sp s '\n').1.pend = [] := by
  obtain ⟨mode, pend, cr⟩ := s
  obtain ⟨hm, -, hcr⟩ := hb
  simp only at hm hcr
  subst hcr
  by_cases hpe : pend = []
  · subst hpe
    rcases hm with rfl | rfl <;> simp [step, feed, Blockish_iff, InBlock, PendOK]
  · simp [step, hpe, Blockish_iff, hm, PendOK]

theorem run_spaces_block (sp : Bool) (n : Nat) (s : St) (hb : Blockish s) (hp : s.pend = []) :
    (run sp s (spaces n)).2 = [] ∧ Blockish (run sp s (spaces n)).1 ∧ (run sp s (spaces n)).1.pend = [] := by
  induction n generalizing s with
  | zero => simp [spaces, run, hb, hp]
  | succ n ih =>
    have h1 := step_block_plain sp s hb hp ' ' (by decide)
    have h2 := ih ⟨.block, [], false⟩ ⟨Or.inl rfl, by simp [PendOK], rfl⟩ rfl
    simp only [spaces, List.replicate_succ, run_cons, h1] at h2 ⊢
    simpa using h2

/-- separator between two lines of a `/** … */` comment: back at the start of a line inside the comment -/
theorem run_sep_block (sp : Bool) (ind : Nat) (s : St) (hb : Blockish s) :
    run sp s (sep blockStyle ind) = (⟨.block, [], false⟩, []) := by
  have h1 := step_block_nl sp s hb
  have h2 := run_spaces_block sp ind (step sp s '\n').1 h1.2.1 h1.2.2
  have h3 := step_block_plain sp (run sp (step sp s '\n').1 (spaces ind)).1 h2.2.1 h2.2.2 ' ' (by decide)
  have h4 : run sp ⟨.block, [], false⟩ ['*', ' '] = (⟨.block, [], false⟩, []) := by cases sp <;> rfl
  show run sp s ('\n' :: (spaces ind ++ ' ' :: ['*', ' '])) = _
  rw [run_cons, run_append, run_cons, h3, h4]
  simp [h1.1, h2.1]

/-- the closing line -/
theorem run_stop_block (sp : Bool) (ind : Nat) (s : St) (hb : Blockish s) :
    run sp s ('\n' :: (spaces ind ++ [' ', '*', '/'])) = (init, [.comment]) := by
  have h1 := step_block_nl sp s hb
  have h2 := run_spaces_block sp ind (step sp s '\n').1 h1.2.1 h1.2.2
  have h3 := step_block_plain sp (run sp (step sp s '\n').1 (spaces ind)).1 h2.2.1 h2.2.2 ' ' (by decide)
  have h4 : run sp ⟨.block, [], false⟩ ['*', '/'] = (init, [.comment]) := by cases sp <;> rfl
  show run sp s ('\n' :: (spaces ind ++ ' ' :: ['*', '/'])) = _
  rw [run_cons, run_append, run_cons, h3, h4]
  simp [h1.1, h2.1]

/-- a line of a generated comment: no newline characters, no `*/` -/
def GoodBlockLine (l : List Char) : Prop := (∀ c ∈ l, c ≠ '\n' ∧ c ≠ '\r') ∧ noPair closerP l = true

theorem run_body_block (sp : Bool) (ind : Nat) (ls : List (List Char)) (l0 : List Char)
    (h : ∀ l ∈ l0 :: ls, GoodBlockLine l) :
    (run sp ⟨.block, [], false⟩ (l0 ++ joinLines blockStyle ind ls)).2 = [] ∧
      Blockish (run sp ⟨.block, [], false⟩ (l0 ++ joinLines blockStyle ind ls)).1 := by
  induction ls generalizing l0 with
  | nil =>
    have := run_line_block sp l0 ⟨.block, [], false⟩ ⟨Or.inl rfl, by simp [PendOK], rfl⟩ (h l0 (by simp)).1 (h l0 (by simp)).2 (by simp)
    simpa [joinLines] using this
  | cons l1 ls ih =>
    have h0 := run_line_block sp l0 ⟨.block, [], false⟩ ⟨Or.inl rfl, by simp [PendOK], rfl⟩ (h l0 (by simp)).1 (h l0 (by simp)).2 (by simp)
    have h1 := run_sep_block sp ind (run sp ⟨.block, [], false⟩ l0).1 h0.2
    have h2 := ih l1 (fun l hl => h l (by simp at hl ⊢; right; exact hl))
    simp only [joinLines, run_append, h0.1, h1, List.append_assoc, List.nil_append] at h2 ⊢
    exact h2

/-- **block_comment_contained**, for any lines without newline characters and without `*/` -/
theorem block_lines_contained (sp : Bool) (ind : Nat) (l0 : List Char) (ls : List (List Char))
    (h : ∀ l ∈ l0 :: ls, GoodBlockLine l) :
    run sp init (commentBlock blockStyle ind (l0 :: ls)) = (init, [.comment]) := by
  have hstart : run sp init ['/', '*', '*'] = (⟨.blockStar, [], false⟩, []) := by cases sp <;> rfl
  have h1 := run_sep_block sp ind ⟨.blockStar, [], false⟩ ⟨Or.inr rfl, by simp [PendOK], rfl⟩
  have h2 := run_body_block sp ind ls l0 h
  have h3 := run_stop_block sp ind _ h2.2
  have hshape : commentBlock blockStyle ind (l0 :: ls) =
      ['/', '*', '*'] ++ (sep blockStyle ind ++ ((l0 ++ joinLines blockStyle ind ls) ++ ('\n' :: (spaces ind ++ [' ', '*', '/'])))) := by
    simp [commentBlock, blockStyle, sep, List.append_assoc]
  rw [hshape, run_append, hstart, run_append, h1, run_append, h3]
  simp [h2.1]

/-! ## `neutralise`: what the lines of a generated comment can never contain -/

theorem pairAt_nil (p : Char → Char → Bool) (c : Char) : pairAt p c [] = false := rfl
theorem pairAt_cons (p : Char → Char → Bool) (c d : Char) (r : List Char) : pairAt p c (d :: r) = p c d := rfl

/-- characters that never start a `q` pair can be dropped from the front -/
theorem noPair_inert_append (q : Char → Char → Bool) (a X : List Char) (h : ∀ x ∈ a, ∀ d, q x d = false) :
    noPair q (a ++ X) = noPair q X := by
  induction a with
  | nil => rfl
  | cons x a ih =>
    have hx : pairAt q x (a ++ X) = false := by
      cases hh : a ++ X with
      | nil => rfl
      | cons d r => simp [pairAt_cons, h x (by simp)]
    simp [noPair, hx, ih (fun y hy => h y (by simp [hy]))]

theorem noPair_prefix (q : Char → Char → Bool) (a b : List Char) (h : noPair q (a ++ b) = true) : noPair q a = true := by
  induction a with
  | nil => rfl
  | cons c a ih =>
    simp only [List.cons_append, noPair, Bool.and_eq_true, Bool.not_eq_true'] at h ⊢
    refine ⟨?_, ih h.2⟩
    cases a with
    | nil => rfl
    | cons d r => simpa [pairAt_cons] using h.1

theorem noPair_append_inert (q : Char → Char → Bool) (a : List Char) (e0 : Char) (es : List Char)
    (ha : noPair q a = true) (h1 : ∀ x ∈ e0 :: es, ∀ d, q x d = false) (h3 : ∀ c, q c e0 = false) :
    noPair q (a ++ e0 :: es) = true := by
  induction a with
  | nil =>
    have := noPair_inert_append q (e0 :: es) [] h1
    simp only [List.append_nil] at this
    simpa [noPair] using this
  | cons c a ih =>
    simp only [List.cons_append, noPair, Bool.and_eq_true, Bool.not_eq_true'] at ha ⊢
    refine ⟨?_, ih ha.2⟩
    cases a with
    | nil => simp [pairAt_cons, h3]
    | cons d r => simpa [pairAt_cons] using ha.1

/-- every `q` pair of `l` is a `p` pair -/
def subPair (q p : Char → Char → Bool) : List Char → Bool
  | [] => true
  | c :: rest => (!pairAt q c rest || pairAt p c rest) && subPair q p rest

theorem subPair_self (p : Char → Char → Bool) (l : List Char) : subPair p p l = true := by
  induction l with
  | nil => rfl
  | cons c rest ih => cases h : pairAt p c rest <;> simp [subPair, h, ih]

theorem subPair_of_noPair (q p : Char → Char → Bool) (l : List Char) (h : noPair q l = true) : subPair q p l = true := by
  induction l with
  | nil => rfl
  | cons c rest ih =>
    simp only [noPair, Bool.and_eq_true, Bool.not_eq_true'] at h
    simp [subPair, h.1, ih h.2]

theorem head?_escFirst (p : Char → Char → Bool) (e0 : Char) (es : List Char) (c : Char) (rest : List Char) :
    (escFirst p (e0 :: es) (c :: rest)).head? = if pairAt p c rest = true then some e0 else some c := by
  by_cases h : pairAt p c rest = true <;> simp [escFirst, h]

/-- replacing the first character of every `p` pair by an entity whose characters start no `q` pair and whose first
    character ends no `q` pair leaves no `q` pair, provided every `q` pair of the input was a `p` pair -/
theorem noPair_escFirst (q p : Char → Char → Bool) (e0 : Char) (es : List Char)
    (h1 : ∀ x ∈ e0 :: es, ∀ d, q x d = false) (h3 : ∀ c, q c e0 = false)
    (l : List Char) (hl : subPair q p l = true) : noPair q (escFirst p (e0 :: es) l) = true := by
  induction l with
  | nil => rfl
  | cons c rest ih =>
    simp only [subPair, Bool.and_eq_true, Bool.or_eq_true, Bool.not_eq_true'] at hl
    have ih' := ih hl.2
    by_cases hp : pairAt p c rest = true
    · simp only [escFirst, hp, if_true]
      rw [noPair_inert_append q (e0 :: es) _ h1]
      exact ih'
    · have hp : pairAt p c rest = false := by simpa using hp
      simp only [escFirst, hp, Bool.false_eq_true, if_false]
      have hq : pairAt q c rest = false := by
        rcases hl.1 with h | h
        · exact h
        · rw [hp] at h; cases h
      simp only [noPair, Bool.and_eq_true, Bool.not_eq_true']
      refine ⟨?_, ih'⟩
      cases rest with
      | nil => rfl
      | cons d r =>
        have hq' : q c d = false := by simpa [pairAt_cons] using hq
        unfold pairAt
        rw [head?_escFirst]
        by_cases hd : pairAt p d r = true
        · simp [hd, h3]
        · simp [hd, hq']

theorem mem_escFirst (p : Char → Char → Bool) (ent l : List Char) (x : Char) (h : x ∈ escFirst p ent l) : x ∈ l ∨ x ∈ ent := by
  induction l with
  | nil => simp [escFirst] at h
  | cons c rest ih =>
    cases hp : pairAt p c rest
    · simp only [escFirst, hp, Bool.false_eq_true, if_false, List.mem_cons] at h
      rcases h with h | h
      · exact Or.inl (by simp [h])
      · rcases ih h with h | h
        · exact Or.inl (by simp [h])
        · exact Or.inr h
    · simp only [escFirst, hp, if_true, List.mem_append] at h
      rcases h with h | h
      · exact Or.inr h
      · rcases ih h with h | h
        · exact Or.inl (by simp [h])
        · exact Or.inr h

theorem rstrip_prefix (l : List Char) : ∃ t, l = rstrip l ++ t := by
  refine ⟨(l.reverse.takeWhile isPyWs).reverse, ?_⟩
  have := List.takeWhile_append_dropWhile (p := isPyWs) (l := l.reverse)
  have h2 := congrArg List.reverse this
  simp only [List.reverse_append, List.reverse_reverse] at h2
  exact h2.symm

/-- in the trailing-backslash case the kept part is a prefix of the line -/
theorem neutralise_caseA_prefix (l2 : List Char) (h : (rstrip l2).getLast? = some '\\') :
    ∃ t, l2 = (rstrip l2).dropLast ++ t := by
  obtain ⟨t, ht⟩ := rstrip_prefix l2
  obtain ⟨ys, hys⟩ := List.getLast?_eq_some_iff.mp h
  refine ⟨'\\' :: t, ?_⟩
  rw [hys, List.dropLast_concat]
  rw [hys] at ht
  simpa using ht

theorem ent92_closer : ∀ x ∈ ent92, ∀ d, closerP x d = false := by
  intro x hx d; simp [ent92] at hx; rcases hx with rfl | rfl | rfl | rfl | rfl <;> simp [closerP]
theorem ent42_closer : ∀ x ∈ ent42, ∀ d, closerP x d = false := by
  intro x hx d; simp [ent42] at hx; rcases hx with rfl | rfl | rfl | rfl | rfl <;> simp [closerP]
theorem ent92_bu : ∀ x ∈ ent92, ∀ d, buP x d = false := by
  intro x hx d; simp [ent92] at hx; rcases hx with rfl | rfl | rfl | rfl | rfl <;> simp [buP]
theorem amp_closer : ∀ c, closerP c '&' = false := by intro c; simp [closerP]
theorem amp_bu : ∀ c, buP c '&' = false := by intro c; simp [buP]

/-- `neutralise` leaves no `*/` -/
theorem neutralise_noCloser (line : List Char) : noPair closerP (neutralise line) = true := by
  have h1 : noPair closerP (escFirst closerP ent42 line) = true :=
    noPair_escFirst closerP closerP '&' _ ent42_closer amp_closer line (subPair_self _ _)
  have h2 : noPair closerP (escFirst buP ent92 (escFirst closerP ent42 line)) = true :=
    noPair_escFirst closerP buP '&' _ ent92_closer amp_closer _ (subPair_of_noPair _ _ _ h1)
  unfold neutralise
  simp only
  split
  · rename_i hA
    obtain ⟨t, ht⟩ := neutralise_caseA_prefix _ hA
    have hp := noPair_prefix closerP _ t (ht ▸ h2)
    exact noPair_append_inert closerP _ '&' _ hp ent92_closer amp_closer
  · exact h2

/-- `neutralise` leaves no `\u` -/
theorem neutralise_noBU (line : List Char) : noPair buP (neutralise line) = true := by
  have h2 : noPair buP (escFirst buP ent92 (escFirst closerP ent42 line)) = true :=
    noPair_escFirst buP buP '&' _ ent92_bu amp_bu _ (subPair_self _ _)
  unfold neutralise
  simp only
  split
  · rename_i hA
    obtain ⟨t, ht⟩ := neutralise_caseA_prefix _ hA
    have hp := noPair_prefix buP _ t (ht ▸ h2)
    exact noPair_append_inert buP _ '&' _ hp ent92_bu amp_bu
  · exact h2

theorem mem_neutralise (line : List Char) (x : Char) (h : x ∈ neutralise line) : x ∈ line ∨ x ∈ ent42 ∨ x ∈ ent92 := by
  have hl2 : ∀ y ∈ escFirst buP ent92 (escFirst closerP ent42 line), y ∈ line ∨ y ∈ ent42 ∨ y ∈ ent92 := by
    intro y hy
    rcases mem_escFirst _ _ _ _ hy with hy | hy
    · rcases mem_escFirst _ _ _ _ hy with hy | hy
      · exact Or.inl hy
      · exact Or.inr (Or.inl hy)
    · exact Or.inr (Or.inr hy)
  unfold neutralise at h
  simp only at h
  split at h
  · rename_i hA
    obtain ⟨t, ht⟩ := neutralise_caseA_prefix _ hA
    rcases List.mem_append.mp h with h | h
    · exact hl2 x (by rw [ht]; exact List.mem_append_left _ h)
    · exact Or.inr (Or.inr h)
  · exact hl2 x h

/-! ## the lines `comment_filter` works on -/

theorem splitLinesAux_noBreak (s : List Char) (afterCR : Bool) (cur : List Char) (hcur : ∀ c ∈ cur, isLineBreak c = false) :
    ∀ l ∈ splitLinesAux afterCR cur s, ∀ c ∈ l, isLineBreak c = false := by
  induction s generalizing afterCR cur with
  | nil =>
    intro l hl
    by_cases h : cur = []
    · simp [splitLinesAux, h] at hl
    · simp only [splitLinesAux, h, if_false, List.mem_singleton] at hl
      subst hl; exact hcur
  | cons c rest ih =>
    intro l hl
    unfold splitLinesAux at hl
    split at hl
    · exact ih false cur hcur l hl
    · split at hl
      · rcases List.mem_cons.mp hl with h | h
        · subst h; exact hcur
        · exact ih _ [] (by simp) l h
      · rename_i _ hb
        refine ih false (cur ++ [c]) ?_ l hl
        intro d hd
        rcases List.mem_append.mp hd with h | h
        · exact hcur d h
        · simp at h; subst h; simpa using hb

/-- no line of `str.splitlines()` contains a line-boundary character -/
theorem splitLines_noBreak (s : List Char) : ∀ l ∈ splitLines s, ∀ c ∈ l, isLineBreak c = false :=
  splitLinesAux_noBreak s false [] (by simp)

theorem ent_noBreak : ∀ c, c ∈ ent42 ∨ c ∈ ent92 → isLineBreak c = false := by
  intro c h
  simp [ent42, ent92] at h
  rcases h with (rfl | rfl | rfl | rfl | rfl) | (rfl | rfl | rfl | rfl | rfl) <;> decide

/-- **neutralise_noBreak**: the lines handed to the wrapper contain no character at which a compiler or `str.splitlines` ends a line -/
theorem neutralise_noBreak (s : List Char) : ∀ l ∈ cfLines s, ∀ c ∈ l, isLineBreak c = false := by
  intro l hl c hc
  unfold cfLines at hl
  obtain ⟨l0, hl0, rfl⟩ := List.mem_map.mp hl
  have hsrc : ∀ d ∈ l0, isLineBreak d = false := by
    split at hl0
    · simp at hl0; subst hl0; simp
    · exact splitLines_noBreak s l0 hl0
  rcases mem_neutralise l0 c hc with h | h | h
  · exact hsrc c h
  · exact ent_noBreak c (Or.inl h)
  · exact ent_noBreak c (Or.inr h)

theorem noBreak_ne (c : Char) (h : isLineBreak c = false) : c ≠ '\n' ∧ c ≠ '\r' := by
  constructor <;> (intro hc; subst hc; simp [isLineBreak] at h)

theorem cfLines_ne_nil (s : List Char) : cfLines s ≠ [] := by
  unfold cfLines
  split <;> simp_all

theorem cfLines_good (s : List Char) : ∀ l ∈ cfLines s, GoodBlockLine l := by
  intro l hl
  refine ⟨fun c hc => noBreak_ne c (neutralise_noBreak s l hl c hc), ?_⟩
  unfold cfLines at hl
  obtain ⟨l0, -, rfl⟩ := List.mem_map.mp hl
  exact neutralise_noCloser l0

/-- **block_comment_contained**: whatever the rendered comment text `s` is, the `/** … */` wrapper that `comment_filter`
    builds (with the indentation `ind` a following `indent` filter adds) is exactly one comment for the C-family lexer
    (`sp = true`: with line splicing) and for the Java lexer after unicode translation (`sp = false`), and the lexer is
    back in its initial state afterwards. -/
theorem block_comment_contained (sp : Bool) (ind : Nat) (s : List Char) :
    run sp init (commentBlock blockStyle ind (cfLines s)) = (init, [.comment]) := by
  have hg := cfLines_good s
  cases h : cfLines s with
  | nil => exact absurd h (cfLines_ne_nil s)
  | cons l0 ls => exact block_lines_contained sp ind l0 ls (h ▸ hg)

/-- … hence between any text `pre` that leaves the lexer in its initial state and any `suf`: `lex pre ++ [comment] ++ lex suf` -/
theorem block_comment_lexC (ind : Nat) (s pre suf : List Char) (tp : List Tok) (hpre : run true init pre = (init, tp)) :
    lexC (pre ++ commentBlock blockStyle ind (cfLines s) ++ suf) = tp ++ [.comment] ++ lexC suf := by
  unfold lexC
  rw [List.append_assoc, lexFrom_append_clean true pre _ tp hpre,
    lexFrom_append_clean true _ suf [.comment] (block_comment_contained true ind s)]
  simp

/-! ## a `///` comment: a line must not end in backslash + horizontal white space -/

/-- what the C lexer holds back after one more character that is not a newline -/
def pendStep (pend : List Char) (c : Char) : List Char :=
  if pend = [] then (if c = '\\' then [c] else [])
  else if isHSpace c = true then pend ++ [c] else if c = '\\' then [c] else []

theorem pendStep_ok (pend : List Char) (c : Char) (h : PendOK pend) : PendOK (pendStep pend c) := by
  unfold pendStep
  split
  · split
    · intro d hd; simp at hd; left; simp_all
    · intro d hd; simp at hd
  · split
    · rename_i hh
      intro d hd
      rcases List.mem_append.mp hd with hd | hd
      · exact h d hd
      · simp at hd; right; rw [hd]; exact hh
    · split
      · intro d hd; simp at hd; left; simp_all
      · intro d hd; simp at hd

theorem feedAll_line (cs : List Char) (h : ∀ c ∈ cs, c ≠ '\n' ∧ c ≠ '\r') : feedAll .line cs = (.line, []) := by
  induction cs with
  | nil => rfl
  | cons c cs ih =>
    have hc := h c (by simp)
    have : feed .line c = (.line, []) := by simp [feed, hc.1, hc.2]
    simp [feedAll, this, ih (fun d hd => h d (by simp [hd]))]

/-- one character of a line inside a `//` comment -/
theorem step_line (s : St) (hm : s.mode = .line) (hp : PendOK s.pend) (hcr : s.cr = false) (c : Char)
    (hc : c ≠ '\n' ∧ c ≠ '\r') : step true s c = (⟨.line, pendStep s.pend c, false⟩, []) := by
  obtain ⟨mode, pend, cr⟩ := s
  simp only at hm hp hcr
  subst hm hcr
  have hfa := feedAll_line pend (fun d hd => ⟨(pendOK_ne pend hp d hd).2.2.1, (pendOK_ne pend hp d hd).2.2.2⟩)
  by_cases hpe : pend = []
  · subst hpe
    by_cases hb : c = '\\'
    · simp [step, pendStep, hb]
    · simp [step, pendStep, hb, feed, hc.1, hc.2]
  · by_cases hh : isHSpace c = true
    · simp [step, pendStep, hpe, hc.1, hc.2, hh]
    · by_cases hb : c = '\\'
      · have hb' : isHSpace '\\' = false := by decide
        simp [step, pendStep, hpe, hb, hb', hfa]
      · simp [step, pendStep, hpe, hc.1, hc.2, hh, hb, hfa, feed]

theorem run_line_line (l : List Char) (pend : List Char) (hp : PendOK pend) (hl : ∀ c ∈ l, c ≠ '\n' ∧ c ≠ '\r') :
    run true ⟨.line, pend, false⟩ l = (⟨.line, l.foldl pendStep pend, false⟩, []) := by
  induction l generalizing pend with
  | nil => rfl
  | cons c rest ih =>
    rw [run_cons, step_line ⟨.line, pend, false⟩ rfl hp rfl c (hl c (by simp))]
    simp [ih (pendStep pend c) (pendStep_ok pend c hp) (fun d hd => hl d (by simp [hd]))]

theorem isHSpace_isPyWs (c : Char) (h : isHSpace c = true) : isPyWs c = true := by
  simp [isHSpace] at h
  rcases h with ((h | h) | h) | h <;> subst h <;> decide

theorem rstrip_snoc (l : List Char) (c : Char) : rstrip (l ++ [c]) = if isPyWs c = true then rstrip l else l ++ [c] := by
  unfold rstrip
  by_cases h : isPyWs c = true <;> simp [h]

theorem snoc_induction {P : List Char → Prop} (h0 : P []) (hs : ∀ l c, P l → P (l ++ [c])) : ∀ l, P l := by
  intro l
  have : ∀ r : List Char, P r.reverse := by
    intro r
    induction r with
    | nil => simpa using h0
    | cons c r ih => simpa using hs _ c ih
  simpa using this l.reverse

/-- if the lexer still holds something back at the end of a line, the line ends (up to white space) in a backslash -/
theorem pend_rstrip (l : List Char) : l.foldl pendStep [] ≠ [] → (rstrip l).getLast? = some '\\' := by
  refine snoc_induction (P := fun l => l.foldl pendStep [] ≠ [] → (rstrip l).getLast? = some '\\') (by simp) ?_ l
  · intro l c ih
    rw [List.foldl_append, rstrip_snoc]
    simp only [List.foldl_cons, List.foldl_nil]
    generalize l.foldl pendStep [] = P at ih ⊢
    intro hne
    unfold pendStep at hne
    have hbs : isPyWs '\\' = false := by decide
    by_cases hpe : P = []
    · by_cases hb : c = '\\'
      · subst hb; simp [hbs]
      · simp [hpe, hb] at hne
    · by_cases hh : isHSpace c = true
      · simp [isHSpace_isPyWs c hh, ih hpe]
      · by_cases hb : c = '\\'
        · subst hb; simp [hbs]
        · simp [hpe, hh, hb] at hne

theorem foldl_pendStep_inert (pend : List Char) (cs : List Char)
    (h : ∀ c ∈ cs, c ≠ '\\' ∧ isHSpace c = false) (hne : cs ≠ []) : cs.foldl pendStep pend = [] := by
  induction cs generalizing pend with
  | nil => exact absurd rfl hne
  | cons c cs ih =>
    have hc := h c (by simp)
    have h1 : pendStep pend c = [] := by
      unfold pendStep; by_cases hp : pend = [] <;> simp [hp, hc.1, hc.2]
    rw [List.foldl_cons, h1]
    cases cs with
    | nil => rfl
    | cons d ds => exact ih [] (fun x hx => h x (by simp [hx])) (by simp)

/-- **neutralise_noPending**: at the end of a neutralised line the C lexer holds nothing back — a newline that follows
    is a newline, not the end of a line splice -/
theorem neutralise_noPending (line : List Char) : (neutralise line).foldl pendStep [] = [] := by
  unfold neutralise
  simp only
  split
  · rw [List.foldl_append]
    exact foldl_pendStep_inert _ ent92 (by
      intro c hc; simp [ent92] at hc
      rcases hc with rfl | rfl | rfl | rfl | rfl <;> decide) (by simp [ent92])
  · rename_i hB
    apply Classical.byContradiction
    intro hne
    exact hB (pend_rstrip _ hne)

/-- a line of a `///` comment: no newline characters, and nothing held back at its end -/
def GoodLineLine (l : List Char) : Prop := (∀ c ∈ l, c ≠ '\n' ∧ c ≠ '\r') ∧ l.foldl pendStep [] = []

/-- tokens of one separator of a `///` comment: the comment that ends, the newline, the indentation -/
def lineSepToks (ind : Nat) : List Tok := [.comment, .ch '\n'] ++ List.replicate ind (.ch ' ')

theorem run_spaces_code (n : Nat) : run true ⟨.code, [], false⟩ (spaces n) = (⟨.code, [], false⟩, List.replicate n (.ch ' ')) := by
  induction n with
  | zero => rfl
  | succ n ih =>
    have h1 : step true ⟨.code, [], false⟩ ' ' = (⟨.code, [], false⟩, [.ch ' ']) := by decide
    simp only [spaces, List.replicate_succ, run_cons, h1] at ih ⊢
    simp [ih]

theorem run_line_good (l : List Char) (h : GoodLineLine l) : run true ⟨.line, [], false⟩ l = (⟨.line, [], false⟩, []) := by
  rw [run_line_line l [] (by simp [PendOK]) h.1, h.2]

theorem run_sep_line (ind : Nat) : run true ⟨.line, [], false⟩ (sep lineStyle ind) = (⟨.line, [], false⟩, lineSepToks ind) := by
  have h1 : step true ⟨.line, [], false⟩ '\n' = (⟨.code, [], false⟩, [.comment, .ch '\n']) := by decide
  have h3 : run true ⟨.code, [], false⟩ ['/', '/', '/', ' '] = (⟨.line, [], false⟩, []) := by decide
  show run true _ ('\n' :: (spaces ind ++ ['/', '/', '/', ' '])) = _
  rw [run_cons, h1, run_append, run_spaces_code, h3]
  simp [lineSepToks]

theorem run_body_line (ind : Nat) (ls : List (List Char)) (l0 : List Char) (h : ∀ l ∈ l0 :: ls, GoodLineLine l) :
    run true ⟨.line, [], false⟩ (l0 ++ joinLines lineStyle ind ls) =
      (⟨.line, [], false⟩, (ls.map (fun _ => lineSepToks ind)).flatten) := by
  induction ls generalizing l0 with
  | nil => simpa [joinLines] using run_line_good l0 (h l0 (by simp))
  | cons l1 ls ih =>
    have h2 := ih l1 (fun l hl => h l (by simp at hl ⊢; right; exact hl))
    have hj : l0 ++ joinLines lineStyle ind (l1 :: ls) = l0 ++ (sep lineStyle ind ++ (l1 ++ joinLines lineStyle ind ls)) := by
      simp [joinLines, List.append_assoc]
    rw [hj, run_append, run_line_good l0 (h l0 (by simp)), run_append, run_sep_line, h2]
    simp

theorem line_lines_contained (ind : Nat) (l0 : List Char) (ls : List (List Char)) (h : ∀ l ∈ l0 :: ls, GoodLineLine l) :
    run true init (commentBlock lineStyle ind (l0 :: ls) ++ ['\n']) =
      (init, (ls.map (fun _ => lineSepToks ind)).flatten ++ [.comment, .ch '\n']) := by
  have hstart : run true init ['/', '/', '/', ' '] = (⟨.line, [], false⟩, []) := by decide
  have hend : run true ⟨.line, [], false⟩ ['\n'] = (init, [.comment, .ch '\n']) := by decide
  have hshape : commentBlock lineStyle ind (l0 :: ls) ++ ['\n'] =
      ['/', '/', '/', ' '] ++ ((l0 ++ joinLines lineStyle ind ls) ++ ['\n']) := by
    simp [commentBlock, lineStyle, List.append_assoc]
  rw [hshape, run_append, hstart, run_append, run_body_line ind ls l0 h, hend]
  simp

theorem cfLines_goodLine (s : List Char) : ∀ l ∈ cfLines s, GoodLineLine l := by
  intro l hl
  refine ⟨fun c hc => noBreak_ne c (neutralise_noBreak s l hl c hc), ?_⟩
  unfold cfLines at hl
  obtain ⟨l0, -, rfl⟩ := List.mem_map.mp hl
  exact neutralise_noPending l0

/-- **line_comment_contained**: whatever the rendered comment text `s` is, the `///` lines that `comment_filter` builds
    for Objective-C (with indentation `ind`), followed by the newline the template puts after them, are comment tokens
    separated by newline and indentation only — one per line of `cfLines s` — and the lexer is back in its initial state:
    no line can splice the next generated line into the comment. -/
theorem line_comment_contained (ind : Nat) (s : List Char) :
    run true init (commentBlock lineStyle ind (cfLines s) ++ ['\n']) =
      (init, ((cfLines s).tail.map (fun _ => lineSepToks ind)).flatten ++ [.comment, .ch '\n']) := by
  have hg := cfLines_goodLine s
  cases h : cfLines s with
  | nil => exact absurd h (cfLines_ne_nil s)
  | cons l0 ls => exact line_lines_contained ind l0 ls (h ▸ hg)

theorem line_comment_lexC (ind : Nat) (s pre suf : List Char) (tp : List Tok) (hpre : run true init pre = (init, tp)) :
    lexC (pre ++ commentBlock lineStyle ind (cfLines s) ++ '\n' :: suf) =
      tp ++ ((cfLines s).tail.map (fun _ => lineSepToks ind)).flatten ++ [.comment, .ch '\n'] ++ lexC suf := by
  unfold lexC
  have : pre ++ commentBlock lineStyle ind (cfLines s) ++ '\n' :: suf =
      pre ++ ((commentBlock lineStyle ind (cfLines s) ++ ['\n']) ++ suf) := by simp
  rw [this, lexFrom_append_clean true pre _ tp hpre,
    lexFrom_append_clean true _ suf _ (line_comment_contained ind s)]
  simp

/-! ## Java: unicode escape translation leaves the comment alone -/

theorem urun_append (m : UMode) (a b : List Char) :
    urun m (a ++ b) = match urun m a with
      | none => none
      | some r => match urun r.1 b with
        | none => none
        | some r2 => some (r2.1, r.2 ++ r2.2) := by
  induction a generalizing m with
  | nil => simp [urun]; cases urun m b <;> simp
  | cons c cs ih =>
    simp only [List.cons_append, urun]
    cases h1 : ustep m c with
    | none => simp
    | some r =>
      simp only [ih]
      cases h2 : urun r.1 cs with
      | none => simp
      | some r2 =>
        simp only
        cases h3 : urun r2.1 b with
        | none => simp
        | some r3 => simp [List.append_assoc]

/-- the backslash the translation holds back -/
def held : UMode → List Char
  | .bs => ['\\']
  | _ => []

/-- a text without `\u` passes the translation unchanged (a trailing backslash stays held back) -/
theorem urun_noBU (t : List Char) (m : UMode) (hm : m = .normal ∨ m = .bs) (hn : noPair buP t = true)
    (hh : m = .bs → t.head? ≠ some 'u') :
    ∃ m' out, (m' = .normal ∨ m' = .bs) ∧ urun m t = some (m', out) ∧ held m ++ t = out ++ held m' := by
  induction t generalizing m with
  | nil => exact ⟨m, [], hm, rfl, by simp⟩
  | cons c rest ih =>
    simp only [noPair, Bool.and_eq_true, Bool.not_eq_true'] at hn
    rcases hm with rfl | rfl
    · by_cases hb : c = '\\'
      · subst hb
        have hhead : rest.head? ≠ some 'u' := by
          intro hu; have := hn.1; simp [pairAt, hu, buP] at this
        obtain ⟨m', out, hm', hrun, heq⟩ := ih .bs (Or.inr rfl) hn.2 (fun _ => hhead)
        refine ⟨m', out, hm', ?_, ?_⟩
        · simp [urun, ustep, hrun]
        · simpa [held] using heq
      · obtain ⟨m', out, hm', hrun, heq⟩ := ih .normal (Or.inl rfl) hn.2 (by simp)
        refine ⟨m', c :: out, hm', ?_, ?_⟩
        · simp [urun, ustep, hb, hrun]
        · simp only [held, List.nil_append] at heq ⊢
          rw [heq]; simp
    · have hu : c ≠ 'u' := by intro h; exact hh rfl (by simp [h])
      obtain ⟨m', out, hm', hrun, heq⟩ := ih .normal (Or.inl rfl) hn.2 (by simp)
      refine ⟨m', '\\' :: c :: out, hm', ?_, ?_⟩
      · simp [urun, ustep, hu, hrun]
      · simp only [held, List.nil_append] at heq ⊢
        rw [heq]; simp

theorem urun_plain (t : List Char) (h : ∀ c ∈ t, c ≠ '\\') : urun .normal t = some (.normal, t) := by
  induction t with
  | nil => rfl
  | cons c rest ih =>
    have hc := h c (by simp)
    simp [urun, ustep, hc, ih (fun d hd => h d (by simp [hd]))]

/-- a line without `\u` followed by text without any backslash that does not start with `u` -/
theorem urun_line_then_plain (l t : List Char) (hn : noPair buP l = true) (c : Char) (t' : List Char) (ht : t = c :: t')
    (hc : c ≠ 'u') (hp : ∀ d ∈ t, d ≠ '\\') : urun .normal (l ++ t) = some (.normal, l ++ t) := by
  obtain ⟨m', out, hm', hrun, heq⟩ := urun_noBU l .normal (Or.inl rfl) hn (by simp)
  have hcb : c ≠ '\\' := hp c (by simp [ht])
  have hrest := urun_plain t' (fun d hd => hp d (by simp [ht, hd]))
  rw [urun_append, hrun]
  simp only [held, List.nil_append] at heq
  subst ht
  rcases hm' with rfl | rfl
  · simp only [List.append_nil] at heq
    subst heq
    simp [urun, ustep, hcb, hrest]
  · simp only at heq
    subst heq
    simp [urun, ustep, hc, hrest]

theorem urun_cat (a b : List Char) (ha : urun .normal a = some (.normal, a)) (hb : urun .normal b = some (.normal, b)) :
    urun .normal (a ++ b) = some (.normal, a ++ b) := by
  rw [urun_append, ha]; simp [hb]

theorem sep_block_plain (ind : Nat) : ∀ d ∈ sep blockStyle ind, d ≠ '\\' := by
  intro d hd
  simp [sep, blockStyle, spaces, List.mem_replicate] at hd
  rcases hd with rfl | ⟨-, rfl⟩ | rfl | rfl | rfl <;> decide

theorem stop_block_plain (ind : Nat) : ∀ d ∈ ('\n' :: (spaces ind ++ [' ', '*', '/']) : List Char), d ≠ '\\' := by
  intro d hd
  simp [spaces, List.mem_replicate] at hd
  rcases hd with rfl | ⟨-, rfl⟩ | rfl | rfl | rfl <;> decide

theorem urun_body_block (ind : Nat) (ls : List (List Char)) (l0 : List Char) (h : ∀ l ∈ l0 :: ls, noPair buP l = true) :
    urun .normal (l0 ++ joinLines blockStyle ind ls ++ '\n' :: (spaces ind ++ [' ', '*', '/'])) =
      some (.normal, l0 ++ joinLines blockStyle ind ls ++ '\n' :: (spaces ind ++ [' ', '*', '/'])) := by
  induction ls generalizing l0 with
  | nil =>
    simpa [joinLines] using urun_line_then_plain l0 _ (h l0 (by simp)) '\n' _ rfl (by decide) (stop_block_plain ind)
  | cons l1 ls ih =>
    have h1 := urun_line_then_plain l0 (sep blockStyle ind) (h l0 (by simp)) '\n' _ rfl (by decide) (sep_block_plain ind)
    have h2 := ih l1 (fun l hl => h l (by simp at hl ⊢; right; exact hl))
    have := urun_cat _ _ h1 h2
    simpa [joinLines, List.append_assoc] using this

/-- **java_unicode_identity**: the unicode-escape translation of javac (JLS §3.3) reports no illegal escape inside the
    generated comment and leaves it unchanged, whatever the comment text is -/
theorem java_unicode_identity (ind : Nat) (s : List Char) :
    urun .normal (commentBlock blockStyle ind (cfLines s)) = some (.normal, commentBlock blockStyle ind (cfLines s)) := by
  have hg : ∀ l ∈ cfLines s, noPair buP l = true := by
    intro l hl
    unfold cfLines at hl
    obtain ⟨l0, -, rfl⟩ := List.mem_map.mp hl
    exact neutralise_noBU l0
  cases h : cfLines s with
  | nil => exact absurd h (cfLines_ne_nil s)
  | cons l0 ls =>
    have hstart : urun .normal (['/', '*', '*'] ++ sep blockStyle ind) = some (.normal, ['/', '*', '*'] ++ sep blockStyle ind) :=
      urun_plain _ (by
        intro d hd
        rcases List.mem_append.mp hd with hd | hd
        · simp at hd; rcases hd with rfl | rfl | rfl <;> decide
        · exact sep_block_plain ind d hd)
    have hbody := urun_body_block ind ls l0 (h ▸ hg)
    have := urun_cat _ _ hstart hbody
    have hshape : commentBlock blockStyle ind (l0 :: ls) =
        (['/', '*', '*'] ++ sep blockStyle ind) ++ (l0 ++ joinLines blockStyle ind ls ++ '\n' :: (spaces ind ++ [' ', '*', '/'])) := by
      simp [commentBlock, blockStyle, sep, List.append_assoc]
    rw [hshape]; exact this

/-- **java_comment_wellformed**: between a text `pre` whose translation `pre'` ends outside any escape and leaves the
    lexer in its initial state, and any `suf`, the generated Javadoc comment is exactly one comment token; the unit is
    rejected for an illegal unicode escape only if `suf` on its own is. -/
theorem java_comment_wellformed (ind : Nat) (s pre suf pre' : List Char) (tp : List Tok)
    (hu : urun .normal pre = some (.normal, pre')) (hp : run false init pre' = (init, tp)) :
    lexJava (pre ++ commentBlock blockStyle ind (cfLines s) ++ suf) =
      (lexJava suf).map (fun ts => tp ++ [.comment] ++ ts) := by
  unfold lexJava unicodePre
  rw [List.append_assoc, urun_append, hu]
  simp only
  rw [urun_append, java_unicode_identity]
  simp only
  cases h1 : urun .normal suf with
  | none => simp
  | some r =>
    simp only
    cases h2 : ufinish r.1 with
    | none => simp
    | some t =>
      simp only [Option.map_some, Option.some.injEq]
      rw [List.append_assoc, List.append_assoc, lexFrom_append_clean false pre' _ tp hp,
        lexFrom_append_clean false _ _ [.comment] (block_comment_contained false ind s)]
      simp

/-! ## deprecation messages: one well-formed string literal that decodes to the message -/

/-- where no newline character occurs, line splicing changes nothing: releasing what the lexer holds back at the end
    gives what the comment/literal machine gives on the plain text -/
theorem step_noNL (s : St) (hcr : s.cr = false) (c : Char) (hc : c ≠ '\n' ∧ c ≠ '\r') :
    (step true s c).1.cr = false ∧
    (feedAll (step true s c).1.mode (step true s c).1.pend).1 = (feedAll s.mode (s.pend ++ [c])).1 ∧
    (step true s c).2 ++ (feedAll (step true s c).1.mode (step true s c).1.pend).2 = (feedAll s.mode (s.pend ++ [c])).2 := by
  obtain ⟨mode, pend, cr⟩ := s
  simp only at hcr
  subst hcr
  by_cases hpe : pend = []
  · subst hpe
    by_cases hb : c = '\\'
    · simp [step, hb]
    · simp [step, hb, feedAll]
  · by_cases hh : isHSpace c = true
    · simp [step, hpe, hc.1, hc.2, hh]
    · by_cases hb : c = '\\'
      · have hb' : isHSpace '\\' = false := by decide
        simp [step, hpe, hb, hb', feedAll_append, feedAll]
      · simp [step, hpe, hc.1, hc.2, hh, hb, feedAll_append, feedAll]

theorem run_noNL (cs : List Char) (s : St) (hcr : s.cr = false) (h : ∀ c ∈ cs, c ≠ '\n' ∧ c ≠ '\r') :
    (run true s cs).1.cr = false ∧
    (feedAll (run true s cs).1.mode (run true s cs).1.pend).1 = (feedAll s.mode (s.pend ++ cs)).1 ∧
    (run true s cs).2 ++ (feedAll (run true s cs).1.mode (run true s cs).1.pend).2 = (feedAll s.mode (s.pend ++ cs)).2 := by
  induction cs generalizing s with
  | nil => simp [run, hcr]
  | cons c cs ih =>
    have h1 := step_noNL s hcr c (h c (by simp))
    have h2 := ih (step true s c).1 h1.1 (fun d hd => h d (by simp [hd]))
    have hsplit : s.pend ++ c :: cs = (s.pend ++ [c]) ++ cs := by simp
    rw [run_cons, hsplit, feedAll_append (a := s.pend ++ [c]), ← h1.2.1, ← h1.2.2]
    rw [feedAll_append] at h2
    refine ⟨h2.1, h2.2.1, ?_⟩
    simp only [List.append_assoc]
    rw [h2.2.2]

theorem tableGet_some (t : List (Char × List Char)) (c : Char) (e : List Char) (h : tableGet t c = some e) : (c, e) ∈ t := by
  induction t with
  | nil => simp [tableGet] at h
  | cons p rest ih =>
    unfold tableGet at h
    split at h
    · rename_i hp
      simp only [Option.some.injEq] at h
      subst h hp
      simp
    · exact List.mem_cons_of_mem _ (ih h)

theorem tableGet_none (t : List (Char × List Char)) (c : Char) (h : tableGet t c = none) : ∀ p ∈ t, p.1 ≠ c := by
  induction t with
  | nil => simp
  | cons p rest ih =>
    unfold tableGet at h
    split at h
    · cases h
    · rename_i hp
      intro q hq
      rcases List.mem_cons.mp hq with rfl | hq
      · exact hp
      · exact ih h q hq

/-- either an entry of the table, or the character itself — which then is none of the table's keys -/
theorem escChar_cases (c : Char) :
    (∃ e, (c, e) ∈ escTable ∧ escChar c = e) ∨ (escChar c = [c] ∧ (∀ p ∈ escTable, p.1 ≠ c) ∧ tableGet escTable c = none) := by
  unfold escChar
  cases h : tableGet escTable c with
  | some e => exact Or.inl ⟨e, tableGet_some _ _ _ h, rfl⟩
  | none => exact Or.inr ⟨rfl, tableGet_none _ _ h, rfl⟩

theorem escTable_keys (c : Char) (h : ∀ p ∈ escTable, p.1 ≠ c) : c ≠ '\\' ∧ c ≠ '"' ∧ c ≠ '\n' ∧ c ≠ '\r' := by
  refine ⟨?_, ?_, ?_, ?_⟩ <;> intro hc <;> subst hc
  · exact h ('\\', ['\\', '\\']) (by simp [escTable]) rfl
  · exact h ('"', ['\\', '"']) (by simp [escTable]) rfl
  · exact h ('\n', ['\\', 'n']) (by simp [escTable]) rfl
  · exact h ('\r', ['\\', 'r']) (by simp [escTable]) rfl

theorem escChar_noNL (c : Char) : ∀ x ∈ escChar c, x ≠ '\n' ∧ x ≠ '\r' := by
  have htab : ∀ p ∈ escTable, ∀ x ∈ p.2, x ≠ '\n' ∧ x ≠ '\r' := by decide
  intro x hx
  rcases escChar_cases c with ⟨e, he, heq⟩ | ⟨heq, hk, hnone⟩
  · rw [heq] at hx; exact htab (c, e) he x hx
  · rw [heq] at hx; simp at hx; subst hx
    exact ⟨(escTable_keys x hk).2.2.1, (escTable_keys x hk).2.2.2⟩

theorem escDep_noNL (s : List Char) : ∀ x ∈ escDep s, x ≠ '\n' ∧ x ≠ '\r' := by
  intro x hx
  simp only [escDep, List.mem_flatMap] at hx
  obtain ⟨c, -, hc⟩ := hx
  exact escChar_noNL c x hc

/-- every escape sequence `string_literal` writes is swallowed by the literal and is a valid C escape -/
theorem feedAll_str_escChar (c : Char) : feedAll (.str false) (escChar c) = (.str false, []) := by
  have htab : ∀ p ∈ escTable, feedAll (.str false) p.2 = (.str false, []) := by decide
  rcases escChar_cases c with ⟨e, he, heq⟩ | ⟨heq, hk, hnone⟩
  · rw [heq]; exact htab (c, e) he
  · have := escTable_keys c hk
    rw [heq]; simp [feedAll, feed, this.1, this.2.1, this.2.2.1, this.2.2.2]

theorem feedAll_str_escDep (s : List Char) : feedAll (.str false) (escDep s) = (.str false, []) := by
  induction s with
  | nil => rfl
  | cons c cs ih =>
    have : escDep (c :: cs) = escChar c ++ escDep cs := by simp [escDep]
    rw [this, feedAll_append, feedAll_str_escChar, ih]; rfl

/-- **deprecated_literal_wellformed**: for every message `m`, the literal `"…"` that `string_literal` writes takes the
    C-family lexer (line splicing included) from its initial state back to its initial state and is exactly one string
    token without a malformed escape sequence. -/
theorem deprecated_literal_wellformed (m : List Char) :
    run true init ('"' :: (escDep m ++ ['"'])) = (init, [.str false]) := by
  have hsplit : ('"' :: (escDep m ++ ['"']) : List Char) = ('"' :: escDep m) ++ ['"'] := by simp
  have hnl : ∀ x ∈ ('"' :: escDep m : List Char), x ≠ '\n' ∧ x ≠ '\r' := by
    intro x hx
    rcases List.mem_cons.mp hx with rfl | hx
    · decide
    · exact escDep_noNL m x hx
  have hfeed : feedAll .code ('"' :: escDep m) = (.str false, []) := by
    simp [feedAll, feed, feedAll_str_escDep]
  obtain ⟨hcr, hmode, htoks⟩ := run_noNL ('"' :: escDep m) init rfl hnl
  simp only [init, List.nil_append, hfeed] at hcr hmode htoks
  obtain ⟨ht1, ht2⟩ := List.append_eq_nil_iff.mp htoks
  rw [hsplit, run_append]
  simp only [init] at ht1 ⊢
  rw [ht1]
  generalize run true ⟨.code, [], false⟩ ('"' :: escDep m) = r at hcr hmode ht2
  obtain ⟨⟨mode, pend, cr⟩, toks⟩ := r
  simp only at hcr hmode ht2
  subst hcr
  have hq : isHSpace '"' = false := by decide
  by_cases hpe : pend = []
  · subst hpe
    have hm2 : mode = .str false := by simpa [feedAll] using hmode
    subst hm2
    simp [run, step, feed]
  · have hst : step true ⟨mode, pend, false⟩ '"' =
        (⟨(feed (feedAll mode pend).1 '"').1, [], false⟩, (feedAll mode pend).2 ++ (feed (feedAll mode pend).1 '"').2) := by
      simp [step, hpe, hq]
    rw [run_cons, hst, hmode, ht2]
    simp [run, feed]

/-- … hence between any head that leaves the lexer in its initial state and any tail -/
theorem deprecated_literal_lexC (m hd tl : List Char) (th : List Tok) (hh : run true init hd = (init, th)) :
    lexC (hd ++ '"' :: (escDep m ++ '"' :: tl)) = th ++ [.str false] ++ lexC tl := by
  unfold lexC
  have : hd ++ '"' :: (escDep m ++ '"' :: tl) = hd ++ (('"' :: (escDep m ++ ['"'])) ++ tl) := by simp
  rw [this, lexFrom_append_clean true hd _ th hh, lexFrom_append_clean true _ tl _ (deprecated_literal_wellformed m)]
  simp

theorem drun_append (m : DMode) (a b : List Char) :
    drun m (a ++ b) = ((drun (drun m a).1 b).1, (drun m a).2 ++ (drun (drun m a).1 b).2) := by
  induction a generalizing m with
  | nil => simp [drun]
  | cons c cs ih => simp [drun, ih, List.append_assoc]

theorem drun_escChar (c : Char) : drun .plain (escChar c) = (.plain, [c]) := by
  have htab : ∀ p ∈ escTable, drun .plain p.2 = (.plain, [p.1]) := by decide
  rcases escChar_cases c with ⟨e, he, heq⟩ | ⟨heq, hk, hnone⟩
  · rw [heq]; exact htab (c, e) he
  · rw [heq]; simp [drun, dstep, (escTable_keys c hk).1]

theorem drun_escDep (m : List Char) : drun .plain (escDep m) = (.plain, m) := by
  induction m with
  | nil => rfl
  | cons c cs ih =>
    have : escDep (c :: cs) = escChar c ++ escDep cs := by simp [escDep]
    rw [this, drun_append, drun_escChar, ih]; rfl

/-- **deprecated_literal_decodes**: the literal's value is the message -/
theorem deprecated_literal_decodes (m : List Char) : unescape (escDep m) = some m := by
  simp [unescape, drun_escDep]

/-- ordinary code characters: one token each, nothing held back -/
def PlainCode (hd : List Char) : Prop := ∀ c ∈ hd, c ≠ '/' ∧ c ≠ '"' ∧ c ≠ '\'' ∧ c ≠ '\\'

theorem run_plain_code (hd : List Char) (h : PlainCode hd) : run true init hd = (init, hd.map Tok.ch) := by
  induction hd with
  | nil => rfl
  | cons c cs ih =>
    have hc := h c (by simp)
    have hs : step true init c = (init, [.ch c]) := by
      simp [step, init, feed, hc.1, hc.2.1, hc.2.2.1, hc.2.2.2]
    rw [run_cons, hs, ih (fun d hd => h d (by simp [hd]))]
    simp

/-- the attribute around the literal: any `pre` that leaves the lexer in its initial state, a head of ordinary code
    characters, any tail -/
theorem deprecated_attr_lexC (m pre hd tl : List Char) (tp : List Tok) (hpre : run true init pre = (init, tp))
    (hhd : PlainCode hd) :
    lexC (pre ++ hd ++ '"' :: (escDep m ++ '"' :: tl)) = tp ++ hd.map Tok.ch ++ [.str false] ++ lexC tl := by
  have h : run true init (pre ++ hd) = (init, tp ++ hd.map Tok.ch) := by
    rw [run_append, hpre]
    simp only [run_plain_code hd hhd]
  exact deprecated_literal_lexC m (pre ++ hd) tl _ h

/-- **deprecatedCpp_wellformed**: `[[deprecated("…")]]` of `cpp/type.py: deprecated` -/
theorem deprecatedCpp_wellformed (m pre post : List Char) (hm : m ≠ []) (tp : List Tok) (hpre : run true init pre = (init, tp)) :
    lexC (deprecatedCpp (.msg m) pre post) =
      tp ++ (cppDepHead ++ ['(']).map Tok.ch ++ [.str false] ++ lexC (')' :: (cppDepTail ++ post)) := by
  have hshape : deprecatedCpp (.msg m) pre post =
      pre ++ (cppDepHead ++ ['(']) ++ '"' :: (escDep m ++ '"' :: (')' :: (cppDepTail ++ post))) := by
    cases m with
    | nil => exact absurd rfl hm
    | cons c cs => simp [deprecatedCpp, Dep.truthy, quoted, List.append_assoc]
  rw [hshape]
  exact deprecated_attr_lexC m pre _ _ tp hpre (by unfold PlainCode; decide)

/-- **deprecatedObjc_wellformed**: `DEPRECATED_MSG_ATTRIBUTE("…")` -/
theorem deprecatedObjc_wellformed (m : List Char) :
    lexC (deprecatedObjc (.msg m)) = (objcDepHead ++ ['(']).map Tok.ch ++ [.str false] ++ lexC [')'] := by
  have hshape : deprecatedObjc (.msg m) =
      [] ++ (objcDepHead ++ ['(']) ++ '"' :: (escDep m ++ '"' :: [')']) := by
    simp [deprecatedObjc, quoted, List.append_assoc]
  rw [hshape, deprecated_attr_lexC m [] _ [')'] [] rfl (by unfold PlainCode; decide)]
  rfl

/-- **deprecatedCppCli_wellformed**: `[System::Obsolete("…")]` -/
theorem deprecatedCppCli_wellformed (m : List Char) :
    lexC (deprecatedCppCli (.msg m)) = (cliDepHead ++ ['(']).map Tok.ch ++ [.str false] ++ lexC [')', ']'] := by
  have hshape : deprecatedCppCli (.msg m) =
      [] ++ (cliDepHead ++ ['(']) ++ '"' :: (escDep m ++ '"' :: [')', ']']) := by
    simp [deprecatedCppCli, quoted, List.append_assoc]
  rw [hshape, deprecated_attr_lexC m [] _ [')', ']'] [] rfl (by unfold PlainCode; decide)]
  rfl

/-! ## Jinja's `indent` after the comment filter and around the attributes -/

/-- `splitlines` on a piece without line-boundary characters that is followed by a newline -/
theorem splitLinesAux_piece (t cur rest : List Char) (ht : ∀ c ∈ t, isLineBreak c = false) :
    splitLinesAux false cur (t ++ '\n' :: rest) = (cur ++ t) :: splitLinesAux false [] rest := by
  induction t generalizing cur with
  | nil => simp [splitLinesAux, isLineBreak]
  | cons c t ih =>
    have hc := ht c (by simp)
    simp only [List.cons_append, splitLinesAux, hc]
    simp only [Bool.false_eq_true, false_and, if_false]
    rw [ih (cur ++ [c]) (fun d hd => ht d (by simp [hd]))]
    simp

/-- pieces joined by newlines -/
def joinNL : List (List Char) → List Char
  | [] => []
  | p :: ps => '\n' :: (p ++ joinNL ps)

theorem splitLines_pieces (ps : List (List Char)) (p0 : List Char) (h : ∀ p ∈ p0 :: ps, ∀ c ∈ p, isLineBreak c = false) :
    splitLinesAux false [] (p0 ++ joinNL ps ++ ['\n']) = p0 :: ps := by
  induction ps generalizing p0 with
  | nil =>
    have := splitLinesAux_piece p0 [] [] (h p0 (by simp))
    simpa [joinNL, splitLinesAux] using this
  | cons p1 ps ih =>
    have h1 := splitLinesAux_piece p0 [] (p1 ++ joinNL ps ++ ['\n']) (h p0 (by simp))
    have h2 := ih p1 (fun p hp => h p (by simp at hp ⊢; right; exact hp))
    simp only [joinNL, List.append_assoc, List.cons_append, List.nil_append] at h1 h2 ⊢
    rw [h1, h2]

/-- `indent(w)` on non-empty pieces without line-boundary characters indents every piece but the first -/
theorem jinjaIndent_pieces (w : Nat) (ps : List (List Char)) (p0 : List Char)
    (h : ∀ p ∈ p0 :: ps, ∀ c ∈ p, isLineBreak c = false) (hne : ∀ p ∈ ps, p ≠ []) :
    jinjaIndent w (p0 ++ joinNL ps) = p0 ++ joinNL (ps.map (fun p => spaces w ++ p)) := by
  unfold jinjaIndent splitLines
  rw [splitLines_pieces ps p0 h]
  simp only [List.append_cancel_left_eq]
  induction ps with
  | nil => rfl
  | cons p ps ih =>
    have hp : p ≠ [] := hne p (by simp)
    simp only [List.map_cons, List.flatten_cons, joinNL, hp, if_false]
    rw [ih (fun q hq => h q (by simp at hq ⊢; rcases hq with rfl | hq; exact Or.inl rfl; exact Or.inr (Or.inr hq)))
      (fun q hq => hne q (by simp [hq]))]
    simp

/-- **deprecated_one_line**: an attribute whose head and tail contain no line boundary is a single line for `indent` -/
theorem deprecated_one_line (w : Nat) (m hd tl : List Char) (hh : ∀ c ∈ hd, isLineBreak c = false) (ht : ∀ c ∈ tl, isLineBreak c = false) :
    jinjaIndent w (hd ++ '"' :: (escDep m ++ '"' :: tl)) = hd ++ '"' :: (escDep m ++ '"' :: tl) := by
  have hkeys : ∀ c ∈ (['\n', '\r', '\x0b', '\x0c', '\x1c', '\x1d', '\x1e', '\x85', '\u2028', '\u2029'] : List Char),
      tableGet escTable c ≠ none := by decide
  have hesc : ∀ x ∈ escDep m, isLineBreak x = false := by
    have htab : ∀ p ∈ escTable, ∀ x ∈ p.2, isLineBreak x = false := by decide
    intro x hx
    simp only [escDep, List.mem_flatMap] at hx
    obtain ⟨c, -, hc⟩ := hx
    rcases escChar_cases c with ⟨e, he, heq⟩ | ⟨heq, hk, hnone⟩
    · rw [heq] at hc; exact htab (c, e) he x hc
    · rw [heq] at hc; simp at hc; subst hc
      cases hb : isLineBreak x with
      | false => rfl
      | true =>
        refine absurd hnone (hkeys x ?_)
        simp [isLineBreak] at hb
        simp only [List.mem_cons, List.mem_nil_iff, or_false]
        rcases hb with ((((((((h | h) | h) | h) | h) | h) | h) | h) | h) | h <;> simp [h]
  have := jinjaIndent_pieces w [] (hd ++ '"' :: (escDep m ++ '"' :: tl)) (by
    intro p hp c hc
    simp at hp; subst hp
    simp at hc
    rcases hc with hc | rfl | hc | rfl | hc
    · exact hh c hc
    · decide
    · exact hesc c hc
    · decide
    · exact ht c hc) (by simp)
  simpa [joinNL] using this

theorem joinNL_append (a b : List (List Char)) : joinNL (a ++ b) = joinNL a ++ joinNL b := by
  induction a with
  | nil => rfl
  | cons p ps ih => simp [joinNL, ih, List.append_assoc]

theorem joinLines_eq (st : Style) (k : Nat) (ls : List (List Char)) :
    joinLines st k ls = joinNL (ls.map (fun l => spaces k ++ (st.linePrefix ++ l))) := by
  induction ls with
  | nil => rfl
  | cons l ls ih => simp [joinLines, joinNL, sep, ih, List.append_assoc]

theorem spaces_zero_append (l : List Char) : spaces 0 ++ l = l := rfl

/-- the `/** … */` comment as newline-separated pieces, each indented by `k` except the first -/
theorem commentBlock_block_pieces (k : Nat) (l0 : List Char) (ls : List (List Char)) :
    commentBlock blockStyle k (l0 :: ls) =
      ['/', '*', '*'] ++ joinNL ((((l0 :: ls).map (fun l => [' ', '*', ' '] ++ l)) ++ [[' ', '*', '/']]).map (fun p => spaces k ++ p)) := by
  simp [commentBlock, blockStyle, joinLines_eq, joinNL, joinNL_append, List.append_assoc, Function.comp_def]

theorem commentBlock_line_pieces (k : Nat) (l0 : List Char) (ls : List (List Char)) :
    commentBlock lineStyle k (l0 :: ls) =
      (['/', '/', '/', ' '] ++ l0) ++ joinNL ((ls.map (fun l => ['/', '/', '/', ' '] ++ l)).map (fun p => spaces k ++ p)) := by
  simp [commentBlock, lineStyle, joinLines_eq, Function.comp_def]

theorem map_spaces_zero (ps : List (List Char)) : ps.map (fun p => spaces 0 ++ p) = ps := by
  induction ps with
  | nil => rfl
  | cons p ps ih => simp [spaces_zero_append]

/-- **indent_commentFilter**: Jinja's `indent(w)` applied to the output of the comment filter indents every line of
    the comment and does nothing else — it finds exactly the line boundaries the comment filter put there -/
theorem indent_commentFilter (w : Nat) (s : List Char) :
    jinjaIndent w (commentFilter blockStyle s) = commentBlock blockStyle w (cfLines s) ∧
    jinjaIndent w (commentFilter lineStyle s) = commentBlock lineStyle w (cfLines s) := by
  have hnb := neutralise_noBreak s
  unfold commentFilter
  cases h : cfLines s with
  | nil => exact absurd h (cfLines_ne_nil s)
  | cons l0 ls =>
    rw [h] at hnb
    constructor
    · rw [commentBlock_block_pieces 0, commentBlock_block_pieces w, map_spaces_zero]
      apply jinjaIndent_pieces
      · intro p hp c hc
        simp only [List.mem_cons, List.mem_append, List.mem_map, List.mem_nil_iff, or_false] at hp
        rcases hp with rfl | ⟨l, hl, rfl⟩ | rfl
        · simp at hc; rcases hc with rfl | rfl | rfl <;> decide
        · simp only [List.mem_append, List.mem_cons, List.mem_nil_iff, or_false] at hc
          rcases hc with (rfl | rfl | rfl) | hc
          · decide
          · decide
          · decide
          · exact hnb l (by simpa using hl) c hc
        · simp at hc; rcases hc with rfl | rfl | rfl <;> decide
      · intro p hp
        simp only [List.mem_append, List.mem_map, List.mem_cons, List.mem_nil_iff, or_false] at hp
        rcases hp with ⟨l, -, rfl⟩ | rfl <;> simp
    · rw [commentBlock_line_pieces 0, commentBlock_line_pieces w, map_spaces_zero]
      apply jinjaIndent_pieces
      · intro p hp c hc
        simp only [List.mem_cons, List.mem_map] at hp
        rcases hp with rfl | ⟨l, hl, rfl⟩
        · simp only [List.mem_append, List.mem_cons, List.mem_nil_iff, or_false] at hc
          rcases hc with (rfl | rfl | rfl | rfl) | hc
          · decide
          · decide
          · decide
          · decide
          · exact hnb l0 (by simp) c hc
        · simp only [List.mem_append, List.mem_cons, List.mem_nil_iff, or_false] at hc
          rcases hc with (rfl | rfl | rfl | rfl) | hc
          · decide
          · decide
          · decide
          · decide
          · exact hnb l (by simp [hl]) c hc
      · intro p hp
        simp only [List.mem_map] at hp
        rcases hp with ⟨l, -, rfl⟩; simp

/-! ## instances, and what the pinned tree did (the witnesses of `findings/C12.json`, reproduced against the real tools) -/

example : commentFilter blockStyle "ends */ int injected;".toList = "/**\n * ends &#42;/ int injected;\n */".toList := by decide
example : commentFilter lineStyle "see C:\\users\\ \nnext\x0cpage".toList = "/// see C:&#92;users&#92;\n/// next\n/// page".toList := by decide
example : lexC ("int y;\n".toList ++ commentFilter blockStyle "ends */ int injected; \\".toList ++ "\nint x;".toList)
    = lexC "int y;\n".toList ++ [.comment] ++ lexC "\nint x;".toList := by decide
example : lexJava (commentFilter blockStyle "C:\\users \\u002a\\u002f x".toList) = some [.comment] := by decide
example : lexC (deprecatedCpp (.msg "a\\\" x\x1d".toList) [] [' ']) =
    (cppDepHead ++ ['(']).map Tok.ch ++ [.str false] ++ [.ch ')', .ch ']', .ch ']', .ch ' '] := by decide

/-- the wrapper of the pinned tree: `content.split('\n')`, no neutralisation -/
def splitNL : List Char → List Char → List (List Char)
  | cur, [] => [cur]
  | cur, c :: r => if c = '\n' then cur :: splitNL [] r else splitNL (cur ++ [c]) r
def oldFilter (st : Style) (s : List Char) : List Char := commentBlock st 0 (splitNL [] s)
/-- the escaping of the pinned tree: newline and quote only -/
def oldEscDep (s : List Char) : List Char :=
  s.flatMap (fun c => if c = '\n' then ['\\', 'n'] else if c = '"' then ['\\', '"'] else [c])

/-- `*/` in the text ended the comment: the rest of the text was code (row 17) -/
theorem old_block_closer_counterexample :
    lexC ("int y;\n".toList ++ oldFilter blockStyle "ends */ int injected;".toList ++ "\nint x;".toList)
      ≠ lexC "int y;\n".toList ++ [.comment] ++ lexC "\nint x;".toList := by decide

/-- a `///` line ending in a backslash swallowed the next generated line (row 35): `int x;` is gone -/
theorem old_line_backslash_counterexample :
    lexC (oldFilter lineStyle "path is C:\\".toList ++ "\nint x;\n".toList) = [.comment, .ch '\n'] := by decide

/-- `C:\users` in a Javadoc comment: illegal unicode escape (row 35); `\u002a\u002f` closed the comment -/
theorem old_java_backslash_u_counterexample :
    lexJava (oldFilter blockStyle "see C:\\users".toList) = none ∧
    lexJava (oldFilter blockStyle "\\u002a\\u002f x".toList) ≠ some [.comment] := by decide

/-- a form feed in the text is a line boundary for `indent`: the text after it lost its `///` prefix and became code -/
theorem old_indent_line_break_counterexample :
    (lexC (jinjaIndent 4 (oldFilter lineStyle "first\x0cint injected;".toList) ++ ['\n'])).contains (.ch 'i') = true := by decide

/-- a backslash at the end of a deprecation message swallowed the closing quote (row 17) -/
theorem old_deprecated_backslash_counterexample :
    lexC ('"' :: (oldEscDep "a\\".toList ++ ['"', ')', ']', ']'])) = [.err] := by decide

/-- … and `\"` ended the literal early: the rest of the message was tokens -/
theorem old_deprecated_quote_counterexample :
    lexC ('"' :: (oldEscDep "\\\" x".toList ++ ['"'])) ≠ [.str false] := by decide

/-! ## the bytes on disk; stages after the filter; length

The theorems above are about the *rendered* text. They are theorems about the generated file because the writer is the
identity (`written`, compared with the real `FileReaderWriter` on every text of every run). They would not survive a stage
that deletes characters from the rendered file: the filter looks for the exact sequences `*/`, `\u`, backslash + end of
line, and an invisible character between the two halves keeps them apart only as long as it is there. Deleting the same
character *before* the filter is harmless (the theorems hold for every text). Likewise `string_literal` has to escape
*every* character of its table, however many there are. -/

/-- **written_block_comment_lexC**: the `/** … */` comment as it stands in the file -/
theorem written_block_comment_lexC (ind : Nat) (s pre suf : List Char) (tp : List Tok) (hpre : run true init pre = (init, tp)) :
    lexC (written (pre ++ commentBlock blockStyle ind (cfLines s) ++ suf)) = tp ++ [.comment] ++ lexC suf :=
  block_comment_lexC ind s pre suf tp hpre

/-- **written_line_comment_lexC**: the `///` comment as it stands in the file -/
theorem written_line_comment_lexC (ind : Nat) (s pre suf : List Char) (tp : List Tok) (hpre : run true init pre = (init, tp)) :
    lexC (written (pre ++ commentBlock lineStyle ind (cfLines s) ++ '\n' :: suf)) =
      tp ++ ((cfLines s).tail.map (fun _ => lineSepToks ind)).flatten ++ [.comment, .ch '\n'] ++ lexC suf :=
  line_comment_lexC ind s pre suf tp hpre

/-- **erase_before_filter_contained**: taking a character out of the text before the filter sees it is harmless -/
theorem erase_before_filter_contained (z : Char) (sp : Bool) (ind : Nat) (s : List Char) :
    run sp init (commentBlock blockStyle ind (cfLines (eraseChar z s))) = (init, [.comment]) :=
  block_comment_contained sp ind (eraseChar z s)

/-- … taking it out of the rendered file is not: `*` U+FEFF `/` is no closer for the filter, and is one afterwards -/
theorem erase_after_filter_block_counterexample :
    noPair closerP "ends *\uFEFF/ int injected;".toList = true ∧
    lexC ("int y;\n".toList ++ eraseChar '\uFEFF' (commentFilter blockStyle "ends *\uFEFF/ int injected;".toList) ++ "\nint x;".toList)
      ≠ lexC "int y;\n".toList ++ [.comment] ++ lexC "\nint x;".toList := by decide

/-- … a `///` line that ends in backslash, U+200B swallows the next generated line once the U+200B is gone -/
theorem erase_after_filter_line_counterexample :
    lexC (eraseChar '\u200B' (commentFilter lineStyle "path is C:\\\u200B".toList) ++ "\nint x;\n".toList) = [.comment, .ch '\n'] := by decide

/-- … and backslash, NUL, `u002a/` is the end of the Javadoc comment for javac once the NUL is gone -/
theorem erase_after_filter_java_counterexample :
    lexJava (commentFilter blockStyle "\\\x00u002a/ x".toList) = some [.comment] ∧
    lexJava (eraseChar '\x00' (commentFilter blockStyle "\\\x00u002a/ x".toList)) ≠ some [.comment] := by decide

theorem escDepN_enough (n : Nat) (s : List Char) (h : (s.filter needsEsc).length ≤ n) : escDepN n s = escDep s := by
  induction s generalizing n with
  | nil => rfl
  | cons c r ih =>
    by_cases hc : needsEsc c = true
    · simp only [List.filter_cons, hc, if_true, List.length_cons] at h
      cases n with
      | zero => omega
      | succ k =>
        simp only [escDepN, hc, if_true, escDep, List.flatMap_cons]
        rw [ih k (by omega)]; rfl
    · simp only [List.filter_cons, hc] at h
      have hget : tableGet escTable c = none := by
        simp only [needsEsc] at hc
        cases hg : tableGet escTable c with
        | none => rfl
        | some e => simp [hg] at hc
      simp only [escDepN, hc, escDep, List.flatMap_cons]
      rw [ih n (by simpa using h)]
      simp [escChar, hget, escDep]

/-- **limited_escape_wellformed**: an escaper that stops after `n` escape sequences is as good as `string_literal` on every
    message with at most `n` characters to escape — which is why short messages cannot tell them apart -/
theorem limited_escape_wellformed (n : Nat) (m : List Char) (h : (m.filter needsEsc).length ≤ n) :
    run true init ('"' :: (escDepN n m ++ ['"'])) = (init, [.str false]) := by
  rw [escDepN_enough n m h]; exact deprecated_literal_wellformed m

/-- … and not on the first longer one: the 17th quote of a message ends the literal when only 16 are escaped -/
theorem limited_escape_counterexample :
    lexC ('"' :: (escDepN 16 (List.replicate 17 '"') ++ ['"'])) ≠ [.str false] ∧
    lexC ('"' :: (escDepN 16 (List.replicate 16 '"') ++ ['"'])) = [.str false] ∧
    lexC ('"' :: (escDepN 16 (List.replicate 17 '\\') ++ ['"'])) = [.err] := by decide

end Pydjinni.C12
