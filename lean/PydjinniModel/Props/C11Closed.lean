import PydjinniModel.Props.C11
import PydjinniModel.Props.C05Front
/-!
# C11 — dependency-closed splits: the ordered reading is the whole-program reading

The implementation reads each file against the declarations of the files finished no later than itself
(`violationsOrdered`); the layout-independence results of `Props/C11.lean` are stated for the whole-program reading
(`violations`). Here the two are connected:

* `declRules_congr_on`   a declaration's violations depend on the registry only through the lexical lookup of the
                         names that actually occur in the declaration (`.data name ..` nodes of
                         `(topTypes d).flatMap dataNodesT`)
* `Closed pre p`         every reference written in file number `i` either does not resolve in the whole program
                         or resolves to a definition of `regUpTo pre p i`; registry keys are unique
* `violationsOrdered_eq_violations_of_closed`   for closed programs the two readings are equal (as lists)
* `split_invariance`, `split_invariance_accepted`   what the implementation reports is invariant under
                         dependency-closed re-partitioning and reordering of the declarations
* examples: a closed two-file program with violations; a non-closed one where the two readings differ.
-/
namespace Pydjinni.Front

/-! ### the node enumerations as `flatMap`s -/

theorem dataNodesTs_eq (ts : List TypeRef) : dataNodesTs ts = ts.flatMap dataNodesT := by
  induction ts with
  | nil => simp [dataNodesTs]
  | cons t ts ih => simp [dataNodesTs, ih]

theorem dataNodesPs_eq (ps : List Param) : dataNodesPs ps = (ps.map paramType).flatMap dataNodesT := by
  induction ps with
  | nil => simp [dataNodesPs]
  | cons p ps ih => cases p with | mk n t pos => simp [dataNodesPs, paramType, ih]

theorem dataNodesOT_eq (o : Option TypeRef) : dataNodesOT o = o.toList.flatMap dataNodesT := by
  cases o <;> simp [dataNodesOT]

theorem dataNodesOTs_eq (o : Option (List TypeRef)) : dataNodesOTs o = (o.getD []).flatMap dataNodesT := by
  cases o <;> simp [dataNodesOTs, dataNodesTs_eq]

theorem fnNodesTs_eq (ts : List TypeRef) : fnNodesTs ts = ts.flatMap fnNodesT := by
  induction ts with
  | nil => simp [fnNodesTs]
  | cons t ts ih => simp [fnNodesTs, ih]

theorem fnNodesPs_eq (ps : List Param) : fnNodesPs ps = (ps.map paramType).flatMap fnNodesT := by
  induction ps with
  | nil => simp [fnNodesPs]
  | cons p ps ih => cases p with | mk n t pos => simp [fnNodesPs, paramType, ih]

theorem fnNodesOT_eq (o : Option TypeRef) : fnNodesOT o = o.toList.flatMap fnNodesT := by
  cases o <;> simp [fnNodesOT]

theorem fnNodesOTs_eq (o : Option (List TypeRef)) : fnNodesOTs o = (o.getD []).flatMap fnNodesT := by
  cases o <;> simp [fnNodesOTs, fnNodesTs_eq]

/-! ### every type the signature rules look at is a data node of the declaration (or an inline function) -/

/-- the types `sigRules` applies `specPrim` to -/
def sigTypes (s : SigU) : List TypeRef := s.params ++ s.ret.toList ++ s.throwing.getD []

theorem mem_dataNodesT_self (u : TypeRef) (h : isFn u = false) : u ∈ dataNodesT u := by
  cases u with
  | data name args o pos => simp [dataNodesT]
  | fn sig pos => simp [isFn] at h

theorem mem_flatMap_dataNodesT_self (l : List TypeRef) (u : TypeRef) (hu : u ∈ l) (h : isFn u = false) :
    u ∈ l.flatMap dataNodesT :=
  List.mem_flatMap.mpr ⟨u, hu, mem_dataNodesT_self u h⟩

/-- the parameter / return / throws types of a signature are data nodes of the signature -/
theorem sigTypes_sub_dataNodesF (sig : FnSig) (u : TypeRef) (hu : u ∈ sigTypes (sigOfFn sig)) (h : isFn u = false) :
    u ∈ dataNodesF sig := by
  cases sig with
  | mk fl fp params thr ret =>
    simp only [sigTypes, sigOfFn, List.mem_append] at hu
    simp only [dataNodesF, dataNodesPs_eq, dataNodesOT_eq, dataNodesOTs_eq, List.mem_append]
    rcases hu with (hu | hu) | hu
    · exact Or.inl (Or.inl (mem_flatMap_dataNodesT_self _ u hu h))
    · exact Or.inr (mem_flatMap_dataNodesT_self _ u hu h)
    · exact Or.inl (Or.inr (mem_flatMap_dataNodesT_self _ u hu h))

mutual
/-- the types of an inline function signature, at any depth below `t`, are data nodes of `t` -/
theorem sigTypes_fnNodesT (t : TypeRef) (sig : FnSig) (hs : sig ∈ fnNodesT t) (u : TypeRef)
    (hu : u ∈ sigTypes (sigOfFn sig)) (h : isFn u = false) : u ∈ dataNodesT t := by
  cases t with
  | data name args o pos =>
    simp only [fnNodesT] at hs
    simp only [dataNodesT]
    exact List.mem_cons_of_mem _ (sigTypes_fnNodesTs args sig hs u hu h)
  | fn sg pos =>
    simp only [fnNodesT, List.mem_cons] at hs
    simp only [dataNodesT]
    rcases hs with hs | hs
    · subst hs; exact sigTypes_sub_dataNodesF sig u hu h
    · exact sigTypes_fnNodesF sg sig hs u hu h
theorem sigTypes_fnNodesTs (ts : List TypeRef) (sig : FnSig) (hs : sig ∈ fnNodesTs ts) (u : TypeRef)
    (hu : u ∈ sigTypes (sigOfFn sig)) (h : isFn u = false) : u ∈ dataNodesTs ts := by
  cases ts with
  | nil => simp [fnNodesTs] at hs
  | cons t ts =>
    simp only [fnNodesTs, List.mem_append] at hs
    simp only [dataNodesTs, List.mem_append]
    rcases hs with hs | hs
    · exact Or.inl (sigTypes_fnNodesT t sig hs u hu h)
    · exact Or.inr (sigTypes_fnNodesTs ts sig hs u hu h)
theorem sigTypes_fnNodesF (sg : FnSig) (sig : FnSig) (hs : sig ∈ fnNodesF sg) (u : TypeRef)
    (hu : u ∈ sigTypes (sigOfFn sig)) (h : isFn u = false) : u ∈ dataNodesF sg := by
  cases sg with
  | mk fl fp params thr ret =>
    simp only [fnNodesF, List.mem_append] at hs
    simp only [dataNodesF, List.mem_append]
    rcases hs with (hs | hs) | hs
    · exact Or.inl (Or.inl (sigTypes_fnNodesPs params sig hs u hu h))
    · exact Or.inl (Or.inr (sigTypes_fnNodesOTs thr sig hs u hu h))
    · exact Or.inr (sigTypes_fnNodesOT ret sig hs u hu h)
theorem sigTypes_fnNodesPs (ps : List Param) (sig : FnSig) (hs : sig ∈ fnNodesPs ps) (u : TypeRef)
    (hu : u ∈ sigTypes (sigOfFn sig)) (h : isFn u = false) : u ∈ dataNodesPs ps := by
  cases ps with
  | nil => simp [fnNodesPs] at hs
  | cons p ps =>
    cases p with
    | mk n t pos =>
      simp only [fnNodesPs, List.mem_append] at hs
      simp only [dataNodesPs, List.mem_append]
      rcases hs with hs | hs
      · exact Or.inl (sigTypes_fnNodesT t sig hs u hu h)
      · exact Or.inr (sigTypes_fnNodesPs ps sig hs u hu h)
theorem sigTypes_fnNodesOT (o : Option TypeRef) (sig : FnSig) (hs : sig ∈ fnNodesOT o) (u : TypeRef)
    (hu : u ∈ sigTypes (sigOfFn sig)) (h : isFn u = false) : u ∈ dataNodesOT o := by
  cases o with
  | none => simp [fnNodesOT] at hs
  | some t =>
    simp only [fnNodesOT] at hs
    simp only [dataNodesOT]
    exact sigTypes_fnNodesT t sig hs u hu h
theorem sigTypes_fnNodesOTs (o : Option (List TypeRef)) (sig : FnSig) (hs : sig ∈ fnNodesOTs o) (u : TypeRef)
    (hu : u ∈ sigTypes (sigOfFn sig)) (h : isFn u = false) : u ∈ dataNodesOTs o := by
  cases o with
  | none => simp [fnNodesOTs] at hs
  | some ts =>
    simp only [fnNodesOTs] at hs
    simp only [dataNodesOTs]
    exact sigTypes_fnNodesTs ts sig hs u hu h
end

/-- signatures of inline functions below the types `l`: their types are data nodes of `l` -/
theorem sigTypes_fnNodes_list (l : List TypeRef) (s : SigU) (hs : s ∈ (l.flatMap fnNodesT).map sigOfFn) (u : TypeRef)
    (hu : u ∈ sigTypes s) (h : isFn u = false) : u ∈ l.flatMap dataNodesT := by
  obtain ⟨sig, hsig, rfl⟩ := List.mem_map.mp hs
  obtain ⟨t, ht, hst⟩ := List.mem_flatMap.mp hsig
  exact List.mem_flatMap.mpr ⟨t, ht, sigTypes_fnNodesT t sig hst u hu h⟩

/-- **Inclusion**: every type that `sigRules` looks at, for any signature of `sigsOf d`, is an inline function
    (for which `specPrim` ignores the registry) or a member of `(topTypes d).flatMap dataNodesT`. -/
theorem sigsOf_types_covered (d : Decl) (s : SigU) (hs : s ∈ sigsOf d) (u : TypeRef) (hu : u ∈ sigTypes s)
    (h : isFn u = false) : u ∈ (topTypes d).flatMap dataNodesT := by
  cases d with
  | enum n c items pos => exact sigTypes_fnNodes_list _ s hs u hu h
  | flags n c items pos => exact sigTypes_fnNodes_list _ s hs u hu h
  | record n c fl fp fields der pos => exact sigTypes_fnNodes_list _ s hs u hu h
  | error n c codes pos => exact sigTypes_fnNodes_list _ s hs u hu h
  | interface n c main fl fp methods props pos =>
    simp only [sigsOf, List.mem_append] at hs
    rcases hs with hs | hs
    · obtain ⟨m, hm, rfl⟩ := List.mem_map.mp hs
      apply mem_flatMap_dataNodesT_self _ u _ h
      simp only [topTypes, List.mem_append, List.mem_flatMap]
      refine Or.inl ⟨m, hm, ?_⟩
      simpa [sigTypes, sigOfMethod, or_assoc] using hu
    · exact sigTypes_fnNodes_list _ s hs u hu h
  | function n c sig pos =>
    cases sig with
    | mk fl fp params thr ret =>
      simp only [sigsOf, List.mem_cons] at hs
      rcases hs with hs | hs
      · subst hs
        apply mem_flatMap_dataNodesT_self _ u _ h
        simp only [sigTypes, sigOfFn, List.mem_append] at hu
        simp only [topTypes, List.mem_append]
        rcases hu with (hu | hu) | hu
        · exact Or.inl (Or.inl hu)
        · exact Or.inr hu
        · exact Or.inl (Or.inr hu)
      · have e : fnNodesF (.mk fl fp params thr ret)
            = (topTypes (.function n c (.mk fl fp params thr ret) pos)).flatMap fnNodesT := by
          simp only [fnNodesF, fnNodesPs_eq, fnNodesOT_eq, fnNodesOTs_eq, topTypes, List.flatMap_append]
        rw [e] at hs
        exact sigTypes_fnNodes_list _ s hs u hu h

/-- the record-field filters look at the field types, which are top types of the record -/
theorem field_ty_covered (n : String) (c : List String) (fl : List String) (fp : Pos) (fields : List Field)
    (der : Option (List (String × Pos))) (pos : Pos) (f : Field) (hf : f ∈ fields) (h : isFn f.ty = false) :
    f.ty ∈ (topTypes (.record n c fl fp fields der pos)).flatMap dataNodesT := by
  apply mem_flatMap_dataNodesT_self _ _ _ h
  simp only [topTypes]
  exact List.mem_map.mpr ⟨f, hf, rfl⟩

/-! ### congruence of the rules on the names that occur -/

/-- the two environments bind every name written in `D` (as a `.data` node, read in namespace `ns`) alike -/
def AgreeOn (e e' : SpecEnv) (ns : List String) (D : List TypeRef) : Prop :=
  ∀ name args o pos, TypeRef.data name args o pos ∈ D → lexicalLookup e.reg ns name = lexicalLookup e'.reg ns name

theorem specPrim_congr_on (e e' : SpecEnv) (ns : List String) (D : List TypeRef) (ha : AgreeOn e e' ns D)
    (t : TypeRef) (ht : isFn t = false → t ∈ D) : specPrim e ns t = specPrim e' ns t := by
  cases t with
  | data name args o pos => simp only [specPrim]; rw [ha name args o pos (ht rfl)]
  | fn sig pos => rfl

theorem refRule_congr_on (e e' : SpecEnv) (file : String) (ns : List String) (D : List TypeRef) (ha : AgreeOn e e' ns D)
    (t : TypeRef) (ht : t ∈ D) : refRule e file ns t = refRule e' file ns t := by
  cases t with
  | data name args o pos => simp only [refRule]; rw [ha name args o pos ht]
  | fn sig pos => rfl

theorem sigRules_congr_on (e e' : SpecEnv) (file : String) (ns : List String) (s : SigU)
    (h : ∀ u ∈ sigTypes s, specPrim e ns u = specPrim e' ns u) : sigRules e file ns s = sigRules e' file ns s := by
  obtain ⟨params, ret, thr⟩ := s
  simp only [sigTypes, List.mem_append] at h
  have h1 : params.filter (fun t => specPrim e ns t == some Prim.error) = params.filter (fun t => specPrim e' ns t == some Prim.error) :=
    List.filter_congr (fun u hu => by rw [h u (Or.inl (Or.inl hu))])
  simp only [sigRules]
  congr 1
  · congr 1
    · rw [h1]
    · cases ret with
      | none => rfl
      | some t => simp only; rw [h t (Or.inl (Or.inr (by simp)))]
  · congr 1
    apply List.filter_congr
    intro u hu
    rw [h u (Or.inr hu)]

theorem flatMap_congr_mem {α β : Type} (l : List α) (f g : α → List β) (h : ∀ x ∈ l, f x = g x) :
    l.flatMap f = l.flatMap g := by
  induction l with
  | nil => rfl
  | cons a l ih =>
    rw [List.flatMap_cons, List.flatMap_cons, h a (List.mem_cons_self ..),
      ih (fun x hx => h x (List.mem_cons_of_mem _ hx))]

/-- **A declaration's violations depend on the registry only through the lexical lookup of the names that occur
    in the declaration**: the `.data name ..` nodes, at any depth, of its top types. -/
theorem declRules_congr_on (e e' : SpecEnv) (hk : e.keys = e'.keys) (hd : e.defaultDeriving = e'.defaultDeriving)
    (file : String) (ns : List String) (d : Decl)
    (h : ∀ name args o pos, TypeRef.data name args o pos ∈ (topTypes d).flatMap dataNodesT →
          lexicalLookup e.reg ns name = lexicalLookup e'.reg ns name) :
    declRules e file ns d = declRules e' file ns d := by
  have ha : AgreeOn e e' ns ((topTypes d).flatMap dataNodesT) := h
  have hu : unknownTargets e file = unknownTargets e' file := by
    funext fl p; simp [unknownTargets, hk]
  have p1 : ((topTypes d).flatMap dataNodesT).flatMap (refRule e file ns)
      = ((topTypes d).flatMap dataNodesT).flatMap (refRule e' file ns) :=
    flatMap_congr_mem _ _ _ (fun t ht => refRule_congr_on e e' file ns _ ha t ht)
  have p2 : (sigsOf d).flatMap (sigRules e file ns) = (sigsOf d).flatMap (sigRules e' file ns) :=
    flatMap_congr_mem _ _ _ (fun s hs => sigRules_congr_on e e' file ns s
      (fun u hu => specPrim_congr_on e e' ns _ ha u (sigsOf_types_covered d s hs u hu)))
  unfold declRules
  rw [p1, p2, hu]
  congr 1
  cases d with
  | enum n c items pos => rfl
  | flags n c items pos => rfl
  | function n c sig pos => rfl
  | error n c codes pos => rfl
  | interface n c main fl fp methods props pos => simp only [hk]
  | record n c fl fp fields der pos =>
    have hf : ∀ (q : Prim), fields.filter (fun f => specPrim e ns f.ty == some q)
        = fields.filter (fun f => specPrim e' ns f.ty == some q) := fun q =>
      List.filter_congr (fun f hf => by
        rw [specPrim_congr_on e e' ns _ ha f.ty (field_ty_covered n c fl fp fields der pos f hf)])
    simp only [hf, hd]

/-! ### reading against a prefix of the registry -/

theorem lexicalLookup_none_of_append_none (r extra : Registry) (ns : List String) (name : String)
    (h : lexicalLookup (r ++ extra) ns name = none) : lexicalLookup r ns name = none := by
  unfold lexicalLookup at *
  split at h
  · next hdot => rw [if_pos hdot]; exact get_none_of_append_none r extra _ h
  · next hdot =>
    rw [if_neg hdot]
    generalize prefixesLongestFirst ns.reverse = ps at h
    induction ps with
    | nil => rfl
    | cons p ps ih =>
      rw [List.findSome?_cons] at h ⊢
      cases hp : (r ++ extra).get (regKey p name) with
      | some x => rw [hp] at h; simp at h
      | none =>
        rw [hp] at h
        rw [get_none_of_append_none r extra _ hp]
        exact ih h

theorem progDecls_append (a b : List ProgFile) : progDecls (a ++ b) = progDecls a ++ progDecls b := by
  simp [progDecls]

/-- the whole-program registry is the registry file `i` is read against, followed by the declarations of the
    files finished later -/
theorem progRegistry_eq_regUpTo_append (pre : Registry) (p : List ProgFile) (i : Nat) :
    progRegistry pre p = regUpTo pre p i
      ++ (progDecls (p.drop (i + 1))).map (fun (_, ns, d) => { key := declKey ns d, prim := declPrim d, arity := 0 }) := by
  conv => lhs; rw [← List.take_append_drop (i + 1) p]
  simp only [progRegistry, regUpTo, progDecls_append, List.map_append, List.append_assoc]

/-! ### closed programs -/

/-- the name of a data reference -/
def dataRefName : TypeRef → Option String
  | .data name _ _ _ => some name
  | .fn .. => none

/-- the names written in a declaration: its data references at any depth -/
def refNames (d : Decl) : List String := ((topTypes d).flatMap dataNodesT).filterMap dataRefName

theorem mem_refNames (d : Decl) (name : String) :
    name ∈ refNames d ↔ ∃ args o pos, TypeRef.data name args o pos ∈ (topTypes d).flatMap dataNodesT := by
  unfold refNames
  rw [List.mem_filterMap]
  constructor
  · rintro ⟨t, ht, hn⟩
    cases t with
    | data n args o pos =>
      simp only [dataRefName, Option.some.injEq] at hn
      subst hn
      exact ⟨args, o, pos, ht⟩
    | fn sig pos => simp [dataRefName] at hn
  · rintro ⟨args, o, pos, ht⟩
    exact ⟨_, ht, rfl⟩

/-- in the registry `whole`, the reference `name` (read in namespace `ns`) does not resolve, or resolves to a
    definition of `part` -/
def ResolvesWithin (whole part : Registry) (ns : List String) (name : String) : Prop :=
  lexicalLookup whole ns name = none ∨ ∃ df ∈ part, lexicalLookup whole ns name = some df

instance (whole part : Registry) (ns : List String) (name : String) : Decidable (ResolvesWithin whole part ns name) := by
  unfold ResolvesWithin; infer_instance

/-- **Dependency-closed program** (files in finish order): registry keys are unique, and every reference written
    in a declaration of file number `i` either fails to resolve in the whole-program registry or resolves there to a
    definition of `regUpTo pre p i` (a built-in, an external type, a declaration of the same file or of a file
    finished earlier). -/
def Closed (pre : Registry) (p : List ProgFile) : Prop :=
  ((progRegistry pre p).map (·.key)).Nodup ∧
  ∀ i (hi : i < p.length), ∀ x ∈ progDecls [p[i]], ∀ name ∈ refNames x.2.2,
    ResolvesWithin (progRegistry pre p) (regUpTo pre p i) x.2.1 name

instance (pre : Registry) (p : List ProgFile) : Decidable (Closed pre p) := by
  unfold Closed; infer_instance

/-- a reference that resolves within a prefix of the registry (or not at all) reads the same against the prefix -/
theorem lexicalLookup_prefix_of_resolvesWithin (r extra : Registry) (hn : ((r ++ extra).map (·.key)).Nodup)
    (ns : List String) (name : String) (h : ResolvesWithin (r ++ extra) r ns name) :
    lexicalLookup r ns name = lexicalLookup (r ++ extra) ns name := by
  rcases h with h | ⟨df, hin, h⟩
  · rw [h]; exact lexicalLookup_none_of_append_none r extra ns name h
  · rw [h]; exact lexicalLookup_stable r extra hn ns name df h hin

/-- in a closed program, file `i` binds each of its references as the whole program does -/
theorem closed_lookup (pre : Registry) (p : List ProgFile) (hc : Closed pre p) (i : Nat) (hi : i < p.length)
    (x : String × List String × Decl) (hx : x ∈ progDecls [p[i]]) (name : String) (hname : name ∈ refNames x.2.2) :
    lexicalLookup (regUpTo pre p i) x.2.1 name = lexicalLookup (progRegistry pre p) x.2.1 name := by
  have hr := hc.2 i hi x hx name hname
  have hsplit := progRegistry_eq_regUpTo_append pre p i
  have hn := hc.1
  rw [hsplit] at hr hn ⊢
  exact lexicalLookup_prefix_of_resolvesWithin _ _ hn _ _ hr

theorem violationsFrom_eq_of_closed (keys dd : List String) (pre : Registry) (p : List ProgFile) (hc : Closed pre p) :
    ∀ (rest : List ProgFile) (i : Nat), p.drop i = rest →
      violationsFrom keys dd pre p i rest
        = (progDecls rest).flatMap (fun x => declRules { keys := keys, defaultDeriving := dd, reg := progRegistry pre p } x.1 x.2.1 x.2.2) := by
  intro rest
  induction rest with
  | nil => intro i _; rfl
  | cons f rest ih =>
    intro i hdrop
    have hi : i < p.length := by
      rcases Nat.lt_or_ge i p.length with hlt | hge
      · exact hlt
      · rw [List.drop_eq_nil_of_le hge] at hdrop; cases hdrop
    rw [List.drop_eq_getElem_cons hi] at hdrop
    have hf : p[i] = f := (List.cons.inj hdrop).1
    have hrest : p.drop (i + 1) = rest := (List.cons.inj hdrop).2
    have hpd : progDecls (f :: rest) = progDecls [f] ++ progDecls rest := progDecls_append [f] rest
    rw [hpd, List.flatMap_append]
    unfold violationsFrom
    rw [ih (i + 1) hrest]
    congr 1
    apply flatMap_congr_mem
    intro x hx
    obtain ⟨fl, ns, d⟩ := x
    show declRules { keys := keys, defaultDeriving := dd, reg := regUpTo pre p i } fl ns d
      = declRules { keys := keys, defaultDeriving := dd, reg := progRegistry pre p } fl ns d
    refine declRules_congr_on ⟨keys, dd, regUpTo pre p i⟩ ⟨keys, dd, progRegistry pre p⟩ rfl rfl fl ns d ?_
    intro name args o pos hmem
    have hname : name ∈ refNames d := (mem_refNames d name).mpr ⟨args, o, pos, hmem⟩
    rw [← hf] at hx
    exact closed_lookup pre p hc i hi (fl, ns, d) hx name hname

/-- **For a dependency-closed program the implementation's reading (each file against the declarations of the
    files finished no later than itself) is the whole-program reading** — the same diagnostics in the same order. -/
theorem violationsOrdered_eq_violations_of_closed (keys dd : List String) (pre : Registry) (p : List ProgFile)
    (hc : Closed pre p) : violationsOrdered keys dd pre p = violations keys dd pre p := by
  unfold violationsOrdered violations
  rw [violationsFrom_eq_of_closed keys dd pre p hc p 0 (List.drop_zero ..)]

/-- **Split invariance**: two programs (files in finish order) with the same declarations — in any order and any
    grouping into files — that are both dependency-closed get the same diagnostics from the implementation's
    file-by-file reading, up to order. -/
theorem split_invariance (keys dd : List String) (pre : Registry) (p p' : List ProgFile)
    (h : (progDecls p).Perm (progDecls p')) (hc : Closed pre p) (hc' : Closed pre p') :
    (violationsOrdered keys dd pre p).Perm (violationsOrdered keys dd pre p') := by
  rw [violationsOrdered_eq_violations_of_closed keys dd pre p hc,
    violationsOrdered_eq_violations_of_closed keys dd pre p' hc']
  exact violations_perm keys dd pre p p' h hc.1

/-- acceptance form of `split_invariance` -/
theorem split_invariance_accepted (keys dd : List String) (pre : Registry) (p p' : List ProgFile)
    (h : (progDecls p).Perm (progDecls p')) (hc : Closed pre p) (hc' : Closed pre p') :
    violationsOrdered keys dd pre p = [] ↔ violationsOrdered keys dd pre p' = [] := by
  rw [violationsOrdered_eq_violations_of_closed keys dd pre p hc,
    violationsOrdered_eq_violations_of_closed keys dd pre p' hc']
  exact accepted_perm keys dd pre p p' h hc.1

/-! ### non-vacuity -/

namespace C11ClosedExamples

def pz : Pos := ⟨0, 0, 0, 0⟩
def pAt (l c : Nat) : Pos := ⟨l, c, l, c + 1⟩
def preB : Registry := [{ key := "i32", prim := .primitive, arity := 0 }]

/-- `lib` (imported, finished first): `e = error {}`, `r0 = record { x: e; }`;
    `main`: `r1 = record { y: r0; z: nope; }` -/
def closedProg : List ProgFile :=
  [ { file := "lib.pydjinni", contents :=
        [ .decl (.error "e" [] [] pz),
          .decl (.record "r0" [] [] pz [⟨"x", .data "e" [] false (pAt 2 4), [], pz⟩] none pz) ] },
    { file := "main.pydjinni", contents :=
        [ .decl (.record "r1" [] [] pz
            [⟨"y", .data "r0" [] false (pAt 1 4), [], pz⟩, ⟨"z", .data "nope" [] false (pAt 2 4), [], pz⟩] none pz) ] } ]

/-- a two-file program that is dependency-closed … -/
theorem closedProg_closed : Closed preB closedProg := by decide +kernel

/-- … and has violations in both files (so the closed-split theorems are not vacuous) -/
example : violationsOrdered ["cpp"] [] preB closedProg
    = [mk "ParsingException" "field-error" "lib.pydjinni" (pAt 2 4),
       mk "TypeResolvingException" "unknown-type" "main.pydjinni" (pAt 2 4)] := by decide +kernel

example : violations ["cpp"] [] preB closedProg = violationsOrdered ["cpp"] [] preB closedProg :=
  (violationsOrdered_eq_violations_of_closed _ _ _ _ closedProg_closed).symm

/-- `lib` cut into two units (its declarations moved into a file of their own), still in dependency order -/
def closedProgSplit : List ProgFile :=
  [ { file := "lib.pydjinni", contents := [ .decl (.error "e" [] [] pz) ] },
    { file := "lib.pydjinni", contents :=
        [ .decl (.record "r0" [] [] pz [⟨"x", .data "e" [] false (pAt 2 4), [], pz⟩] none pz) ] },
    { file := "main.pydjinni", contents :=
        [ .decl (.record "r1" [] [] pz
            [⟨"y", .data "r0" [] false (pAt 1 4), [], pz⟩, ⟨"z", .data "nope" [] false (pAt 2 4), [], pz⟩] none pz) ] } ]

theorem closedProgSplit_closed : Closed preB closedProgSplit := by decide +kernel

/-- `split_invariance` applies to the pair -/
example : (violationsOrdered ["cpp"] [] preB closedProg).Perm (violationsOrdered ["cpp"] [] preB closedProgSplit) :=
  split_invariance _ _ _ _ _ (List.Perm.of_eq (by rfl)) closedProg_closed closedProgSplit_closed

/-- finishing `main` before the second half of `lib` is *not* closed (`r0` is declared later) -/
example : ¬ Closed preB [closedProgSplit[0], closedProgSplit[2], closedProgSplit[1]] := by decide +kernel

theorem split_a : "a".splitOn "." = ["a"] := by
  simp only [String.splitOn]
  rw [String.splitOnAux]
  simp (decide := true)
  rw [String.splitOnAux]
  simp (decide := true)

/-- `lib` (imported, finished first): `t = enum {}`, `namespace a { r = record { x: t; } }`;
    `main` declares `namespace a { t = error {} }`, which captures the relative reference `t` of `lib`
    in the whole-program reading -/
def openProg : List ProgFile :=
  [ { file := "lib.pydjinni", contents :=
        [ .decl (.enum "t" [] [] pz),
          .ns "a" [] [ .decl (.record "r" [] [] pz [⟨"x", .data "t" [] false (pAt 3 6), [], pz⟩] none pz) ] pz ] },
    { file := "main.pydjinni", contents :=
        [ .ns "a" [] [ .decl (.error "t" [] [] pz) ] pz ] } ]

theorem openProg_decls : progDecls openProg =
    [("lib.pydjinni", [], .enum "t" [] [] pz),
     ("lib.pydjinni", ["a"], .record "r" [] [] pz [⟨"x", .data "t" [] false (pAt 3 6), [], pz⟩] none pz),
     ("main.pydjinni", ["a"], .error "t" [] [] pz)] := by
  simp [progDecls, openProg, declsOfContents, declsOfContent, split_a]

/-- read file by file (as the implementation does) the program is accepted: `lib` binds `t` to the enum -/
theorem openProg_ordered : violationsOrdered ["cpp"] [] preB openProg = [] := by
  simp only [violationsOrdered, violationsFrom, openProg, regUpTo, progRegistry, progDecls, List.take,
    List.flatMap_cons, List.flatMap_nil, declsOfContents, declsOfContent, split_a]
  decide +kernel

/-- read as a whole the field `x` has the error type `a.t` -/
theorem openProg_whole :
    violations ["cpp"] [] preB openProg = [mk "ParsingException" "field-error" "lib.pydjinni" (pAt 3 6)] := by
  unfold violations progRegistry
  rw [openProg_decls]
  decide +kernel

/-- **Without closedness the two readings differ.** -/
example : violationsOrdered ["cpp"] [] preB openProg ≠ violations ["cpp"] [] preB openProg := by
  rw [openProg_ordered, openProg_whole]; decide

/-- so this program is not closed (registry keys are unique; it is the reference `t` of `lib` that escapes) -/
example : ¬ Closed preB openProg := fun hc => by
  have h := violationsOrdered_eq_violations_of_closed ["cpp"] [] preB openProg hc
  rw [openProg_ordered, openProg_whole] at h
  cases h

end C11ClosedExamples

end Pydjinni.Front
