import PydjinniModel.Gen.ExportSet
/-!
# C13 — every named type of the exporting program is in the exported set, whatever file declares it

* `declaredOf_mem`             a declaration of a file of the program is listed, with that file;
* `progFilesOf_mem`            every IDL file of the finish order is a file of the program;
* `declared_of_reachable_file` every declaration of every file of `rootOrder` — the root file, a file it imports, a file that
                               one imports, … — is in `declared`: the depth at which a file is reached plays no role.
-/
namespace Pydjinni.C13
open Pydjinni.Front Pydjinni.Gen.ExportSet

theorem declaredOf_mem (prog : List ProgFile) (pf : ProgFile) (ns : List String) (d : Decl)
    (hpf : pf ∈ prog) (hd : (ns, d) ∈ declsOfContents [] pf.contents) :
    (declKey ns d, pf.file) ∈ declaredOf prog := by
  unfold declaredOf progDecls
  refine List.mem_map.mpr ⟨(pf.file, ns, d), ?_, rfl⟩
  exact List.mem_flatMap.mpr ⟨pf, hpf, List.mem_map.mpr ⟨(ns, d), hd, rfl⟩⟩

theorem progFilesOf_mem (fs : FS) (order : List APath) (prog : List ProgFile) (p : APath) (text : String) (f : File)
    (hp : p ∈ order) (hget : fs.get p = some (.idl text)) (hparse : parseText text = some f)
    (hprog : progFilesOf fs order = some prog) :
    ({ file := showPath p, contents := f.contents } : ProgFile) ∈ prog := by
  induction order generalizing prog with
  | nil => cases hp
  | cons q rest ih =>
    have hstep : progFilesOf fs (q :: rest) =
        (match fs.get q, progFilesOf fs rest with
          | some (FileContent.idl text), some l =>
            match parseText text with
            | some f => some ({ file := showPath q, contents := f.contents } :: l)
            | none => none
          | some (FileContent.idl _), none => none
          | _, acc => acc) := rfl
    rw [hstep] at hprog
    rcases List.mem_cons.mp hp with heq | hin
    · subst heq
      rw [hget] at hprog
      cases hrest : progFilesOf fs rest with
      | none => rw [hrest] at hprog; simp at hprog
      | some l =>
        rw [hrest] at hprog
        simp only [hparse] at hprog
        cases hprog
        exact List.mem_cons_self
    · cases hq : fs.get q with
      | none => rw [hq] at hprog; exact ih prog hin hprog
      | some c =>
        rw [hq] at hprog
        cases hrest : progFilesOf fs rest with
        | none =>
          rw [hrest] at hprog
          cases c <;> simp at hprog
        | some l =>
          rw [hrest] at hprog
          cases c with
          | idl t =>
            cases ht : parseText t with
            | none => simp [ht] at hprog
            | some g =>
              simp only [ht] at hprog
              cases hprog
              exact List.mem_cons_of_mem _ (ih l hin hrest)
          | ext _ => simp only at hprog; cases hprog; exact ih _ hin hrest
          | badExt => simp only at hprog; cases hprog; exact ih _ hin hrest
          | notText _ => simp only at hprog; cases hprog; exact ih _ hin hrest

/-- Every declaration of every file the parser reaches from the root — at whatever import depth — is a named type of the
    exporting program. -/
theorem declared_of_reachable_file (cfg : Cfg) (fs : List (APath × FileContent)) (root p : APath) (text : String) (f : File)
    (ns : List String) (d : Decl) (l : List (String × String))
    (hreach : p ∈ rootOrder cfg { files := fs } root)
    (hget : (FS.mk fs).get p = some (.idl text)) (hparse : parseText text = some f)
    (hd : (ns, d) ∈ declsOfContents [] f.contents)
    (hdecl : declared cfg fs root = some l) :
    (declKey ns d, showPath p) ∈ l := by
  unfold declared programInOrder at hdecl
  cases hprog : progFilesOf { files := fs } (rootOrder cfg { files := fs } root) with
  | none => rw [hprog] at hdecl; cases hdecl
  | some prog =>
    rw [hprog] at hdecl
    cases hdecl
    exact declaredOf_mem prog { file := showPath p, contents := f.contents } ns d
      (progFilesOf_mem _ _ prog p text f hreach hget hparse hprog) hd

/-! the hypotheses are satisfiable: a chain root -> a -> b; the type declared two imports below the root is a named type of the program -/
private def chainFs : List (APath × FileContent) :=
  [(["w", "exp.djinni"], .idl "@import \"a.djinni\"\nr = record { f: m; }\n"),
   (["w", "a.djinni"], .idl "@import \"b.djinni\"\nm = record { g: u; }\n"),
   (["w", "b.djinni"], .idl "u = enum { x; y; }\n")]
private def chainCfg : Cfg := { cwd := ["w"], includeDirs := [], keys := ["cpp"], defaultDeriving := [] }

#guard rootOrder chainCfg { files := chainFs } ["w", "exp.djinni"] == [["w", "b.djinni"], ["w", "a.djinni"], ["w", "exp.djinni"]]
#guard (declared chainCfg chainFs ["w", "exp.djinni"]).map (·.map (·.1)) == some ["u", "m", "r"]

end Pydjinni.C13
