import Mathlib.Data.List.Lex
import PydjinniModel.Gen.Deriving
/-!
# C09 — derived record operations behave as specified

Statements about the bodies `Gen/Deriving.lean` emits (C++ `source/record.jinja2.cpp`, Java `record.jinja2.java` +
`type.py`), evaluated with `Lang/MiniImp`; for any number of fields. A record value is a function from fields to
`Option α` (`none` = `std::nullopt` / `null`). In the second half `α` is any linear order; the *key* of a record value
is its field list, an absent optional being `[]` and a present value `[x]`, ordered lexicographically.

general operations (`Ops`):
* `evalE_conj_map`                 an `&&` chain is the conjunction of its terms; no term at all is ill-formed (`stuck`)
* `cpp_eq_allEq`, `cpp_lt_lexLt`   `==` is "all fields equal"; the if-ladder is the lexicographic comparison
* `java_equals_allEq`              `equals` is "all fields equal" (`null` only equals `null`), never throws on well-formed objects
* `java_hash_value`                `hashCode` = fold `h ↦ h·31 + hash(field)` from 17 in 32-bit arithmetic; never throws
* `java_equals_hash`               `a.equals(b)` ⇒ `a.hashCode() == b.hashCode()` whenever the field hashes respect field equality
* `java_compare_lexCmp`            `compareTo` = sign of the first differing field
* `java_compare_null_throws`       a `null` in a compared field throws (DESIGN §9 row 42: optionals under `ord`)

over a linear order:
* `cpp_eq_spec`, `cpp_ne_spec`     `==` ⇔ all fields equal, `!=` its negation
* `cpp_lt_lex`, `cpp_gt_spec`, `cpp_le_spec`, `cpp_ge_spec`   `<` is the lexicographic order of the keys; `>`, `<=`, `>=` accordingly
* `cpp_lt_irrefl`, `cpp_lt_trans`, `cpp_lt_trichotomous`, `cpp_eq_equivalence`   strict total order consistent with `==`
* `java_equals_spec`, `java_compare_lex`, `java_compare_antisymm`, `java_compare_consistent_equals`
* `tostring_mentions_all`, `cpp_tostring_args`   the string form mentions every field
* `cpp_declared_defined`, `java_members_consistent`   emission decisions
* `parse_eq_map`, `parse_default_eq`, `parse_default_ord`, `parse_explicit_kept`, `parse_no_default`   a record derives
  `explicit ∪ generate.default_deriving` in whatever file of the import graph it is declared
* `default_eq_emitted`, `default_ord_emitted`, `withDefault_none`   the configured default reaches the emission decisions
-/
namespace Pydjinni.Gen
open Pydjinni.Lang.MiniImp

/-! ## general operations -/
section general
variable {φ α : Type} (ops : Ops α)

/-- an `&&` chain whose terms all evaluate to booleans evaluates to their conjunction (and is well-formed iff there is a term) -/
theorem evalE_conj_map (env : Env φ α) (v : Int) (t : φ → E φ) (q : φ → Bool) (fs : List φ) (hne : fs ≠ [])
    (h : ∀ f ∈ fs, evalE ops env v (t f) = .ok (.bool (q f))) :
    evalE ops env v (conj (fs.map t)) = .ok (.bool (fs.all q)) := by
  induction fs with
  | nil => exact absurd rfl hne
  | cons f fs ih =>
    cases fs with
    | nil => simpa [conj] using h f (by simp)
    | cons g gs =>
      have hf := h f (by simp)
      have ih' := ih (by simp) (fun x hx => h x (by simp [hx]))
      simp only [List.map_cons, conj, evalE, hf, List.all_cons] at ih' ⊢
      cases hq : q f
      · simp
      · simp [ih']

theorem evalE_conj_nil (env : Env φ α) (v : Int) : evalE ops env v (conj ([] : List (E φ))) = .stuck := rfl

theorem allEq_map (a b : φ → Option α) (fs : List φ) :
    allEq ops (fs.map a) (fs.map b) = fs.all (fun f => optEq ops (a f) (b f)) := by
  induction fs with
  | nil => rfl
  | cons f fs ih => simp [allEq, ih]

/-- C++ `operator==`: for a record with at least one field, the `&&` chain is "all fields equal" -/
theorem cpp_eq_allEq (fs : List φ) (hne : fs ≠ []) (a b : φ → Option α) :
    cppOp ops fs ⟨a, b⟩ .eq = .ok (.bool (allEq ops (fs.map a) (fs.map b))) := by
  simp only [cppOp, run, cppEqBody, exec]
  rw [evalE_conj_map ops ⟨a, b⟩ 0 .eqV (fun f => optEq ops (a f) (b f)) fs hne (fun f _ => rfl), allEq_map]

/-- C++ `operator<`: the if-ladder is the lexicographic comparison of the field lists -/
theorem cpp_lt_lexLt (fs : List φ) (a b : φ → Option α) (v : Int) :
    exec ops ⟨a, b⟩ v (cppLtBody fs) = .ok (.bool (lexLt ops (fs.map a) (fs.map b))) := by
  induction fs with
  | nil => rfl
  | cons f fs ih =>
    simp only [cppLtBody, exec, evalE, Env.get, Side.swap, List.map_cons, lexLt]
    cases h1 : optLt ops (a f) (b f) <;> cases h2 : optLt ops (b f) (a f) <;> simp [ih]

/-! ### Java -/

/-- non-optional fields of a Java record object are not `null` -/
def NonNull (fs : List Field) (a : Field → Option α) : Prop := ∀ f ∈ fs, f.optional = false → (a f).isSome = true

theorem javaEqualsTerm_eval (f : Field) (a b : Field → Option α) (v : Int) (h : f.optional = false → (a f).isSome = true) :
    evalE ops ⟨a, b⟩ v (javaEqualsTerm f) = .ok (.bool (optEq ops (a f) (b f))) := by
  unfold javaEqualsTerm
  cases hb : f.isBinary
  case true => simp [evalE]
  simp only [Bool.false_eq_true, if_false]
  cases ho : f.optional
  · have := h ho
    cases hx : a f with
    | none => simp [hx] at this
    | some x =>
      cases he : f.isEnum <;> cases hr : f.ref <;> cases hy : b f <;> simp [evalE, optEq, hx, hy]
  · cases hx : a f <;> cases hy : b f <;> simp [evalE, Env.get, optEq, hx, hy]

/-- Java `equals` (same class): for a record with at least one field, exactly "all fields equal" — never an exception
on objects whose non-optional fields are non-null -/
theorem java_equals_allEq (fs : List Field) (hne : fs ≠ []) (a b : Field → Option α) (ha : NonNull fs a) :
    run ops ⟨a, b⟩ (javaEqualsBody fs) = .ok (.bool (allEq ops (fs.map a) (fs.map b))) := by
  simp only [run, javaEqualsBody, exec]
  rw [evalE_conj_map ops ⟨a, b⟩ 0 javaEqualsTerm (fun f => optEq ops (a f) (b f)) fs hne
    (fun f hf => javaEqualsTerm_eval ops f a b 0 (ha f hf)), allEq_map]

/-- the hash contribution of one field: `0` for `null`, `x.hashCode()` for references and boxed optionals,
the primitive expression otherwise -/
def fieldHash (f : Field) : Option α → Int
  | none => 0
  | some x => if f.isBinary || f.optional || f.ref then ops.hashObj x else ops.hashPrim x

def hashFold (a : Field → Option α) : List Field → Int → Int
  | [], h => h
  | f :: fs, h => hashFold a fs (wrap32 (wrap32 (h * 31) + fieldHash ops f (a f)))

theorem javaHashTerm_eval (f : Field) (a b : Field → Option α) (v : Int) (h : f.optional = false → (a f).isSome = true) :
    evalE ops ⟨a, b⟩ v (javaHashTerm f) = .ok (.int (fieldHash ops f (a f))) := by
  unfold javaHashTerm
  cases hb : f.isBinary
  case true => cases hx : a f <;> simp [evalE, Env.get, fieldHash, hx, hb]
  simp only [Bool.false_eq_true, if_false]
  cases ho : f.optional
  · have := h ho
    cases hx : a f with
    | none => simp [hx] at this
    | some x => cases hr : f.ref <;> simp [evalE, fieldHash, hx, ho, hr, hb]
  · cases hx : a f <;> simp [evalE, Env.get, fieldHash, hx, ho, hb]

theorem javaHashSteps_eval (fs : List Field) (a b : Field → Option α) (v : Int) (ha : NonNull fs a) :
    exec ops ⟨a, b⟩ v (javaHashSteps fs) = .ok (.int (hashFold ops a fs v)) := by
  induction fs generalizing v with
  | nil => rfl
  | cons f fs ih =>
    have hf := javaHashTerm_eval ops f a b v (ha f (by simp))
    simp only [javaHashSteps, exec, evalE, hf, hashFold]
    exact ih _ (fun g hg => ha g (by simp [hg]))

/-- `hashCode()` is the fold `h ↦ h·31 + hash(field)` from 17 in 32-bit arithmetic; it never throws on well-formed objects -/
theorem java_hash_value (fs : List Field) (a b : Field → Option α) (ha : NonNull fs a) :
    run ops ⟨a, b⟩ (javaHashBody fs) = .ok (.int (hashFold ops a fs 17)) := by
  simp only [run, javaHashBody, exec, evalE]
  exact javaHashSteps_eval ops fs a b 17 ha

theorem fieldHash_congr (f : Field) (x y : Option α)
    (hP : ∀ u w, ops.eq u w = true → ops.hashPrim u = ops.hashPrim w) (hO : ∀ u w, ops.eq u w = true → ops.hashObj u = ops.hashObj w)
    (h : optEq ops x y = true) : fieldHash ops f x = fieldHash ops f y := by
  cases x <;> cases y <;> simp [optEq] at h <;> simp only [fieldHash]
  split
  · exact hO _ _ h
  · exact hP _ _ h

theorem hashFold_congr (fs : List Field) (a b : Field → Option α) (v : Int)
    (hP : ∀ u w, ops.eq u w = true → ops.hashPrim u = ops.hashPrim w) (hO : ∀ u w, ops.eq u w = true → ops.hashObj u = ops.hashObj w)
    (h : allEq ops (fs.map a) (fs.map b) = true) : hashFold ops a fs v = hashFold ops b fs v := by
  induction fs generalizing v with
  | nil => rfl
  | cons f fs ih =>
    simp only [List.map_cons, allEq, Bool.and_eq_true] at h
    simp only [hashFold, fieldHash_congr ops f _ _ hP hO h.1]
    exact ih _ h.2

/-- **java_equals_hash**: if the field hashes respect field equality, then `a.equals(b)` implies `a.hashCode() == b.hashCode()`
— for any number and mix of fields. -/
theorem java_equals_hash (fs : List Field) (hne : fs ≠ []) (a b : Field → Option α) (ha : NonNull fs a) (hb : NonNull fs b)
    (hP : ∀ u w, ops.eq u w = true → ops.hashPrim u = ops.hashPrim w) (hO : ∀ u w, ops.eq u w = true → ops.hashObj u = ops.hashObj w)
    (h : run ops ⟨a, b⟩ (javaEqualsBody fs) = .ok (.bool true)) :
    run ops ⟨a, b⟩ (javaHashBody fs) = run ops ⟨b, a⟩ (javaHashBody fs) := by
  rw [java_equals_allEq ops fs hne a b ha] at h
  simp only [Res.ok.injEq, Val.bool.injEq] at h
  rw [java_hash_value ops fs a b ha, java_hash_value ops fs b a hb, hashFold_congr ops fs a b 17 hP hO h]

/-- sign of the first field that differs -/
def lexCmp : List (Option α) → List (Option α) → Int
  | some x :: as, some y :: bs => if cmpSign ops x y != 0 then cmpSign ops x y else lexCmp as bs
  | _, _ => 0

/-- both objects have a value in every field (no `null` reaches a comparison) -/
def AllPresent (fs : List Field) (a b : Field → Option α) : Prop := ∀ f ∈ fs, (a f).isSome = true ∧ (b f).isSome = true

theorem javaCompareTerm_eval (f : Field) (a b : Field → Option α) (v : Int) (x y : α) (hx : a f = some x) (hy : b f = some y) :
    evalE ops ⟨a, b⟩ v (javaCompareTerm f) = .ok (.int (cmpSign ops x y)) := by
  unfold javaCompareTerm
  cases hr : f.ref
  · simp only [Bool.false_eq_true, if_false, evalE, Env.get, Side.swap, hx, hy, cmpSign]
    cases h1 : ops.lt x y <;> cases h2 : ops.lt y x <;> simp
  · simp [evalE, hx, hy]

/-- Java `compareTo`: the sign of the first field (in declaration order) that differs -/
theorem java_compare_lexCmp (fs : List Field) (a b : Field → Option α) (v : Int) (h : AllPresent fs a b) :
    exec ops ⟨a, b⟩ v (javaCompareBody fs) = .ok (.int (lexCmp ops (fs.map a) (fs.map b))) := by
  induction fs generalizing v with
  | nil => rfl
  | cons f fs ih =>
    obtain ⟨hx, hy⟩ := h f (by simp)
    obtain ⟨x, hx⟩ := Option.isSome_iff_exists.mp hx
    obtain ⟨y, hy⟩ := Option.isSome_iff_exists.mp hy
    have ih' := fun v => ih v (fun g hg => h g (by simp [hg]))
    simp only [javaCompareBody, exec, javaCompareTerm_eval ops f a b v x y hx hy, evalE, List.map_cons, hx, hy, lexCmp]
    cases hc : (cmpSign ops x y != 0) <;> simp [ih']

/-- row 42: a `null` in a compared field throws (optionals under `deriving(ord)`) -/
theorem java_compare_null_throws (f : Field) (fs : List Field) (a b : Field → Option α) (v : Int) (hx : a f = none) :
    exec ops ⟨a, b⟩ v (javaCompareBody (f :: fs)) = .npe := by
  simp only [javaCompareBody, exec, javaCompareTerm]
  cases hr : f.ref <;> simp [evalE, Env.get, hx]

end general

/-! ## field values from a linear order -/
section linear
variable {φ α : Type} [LinearOrder α]

/-- the operations of a linearly ordered value type (hashes and string form arbitrary) -/
def stdOps (hp ho : α → Int) (st : α → String) : Ops α :=
  ⟨fun a b => decide (a = b), fun a b => decide (a < b), hp, ho, st⟩

/-- the field list of a record value; an absent optional is `[]`, a present value `[x]`, so that in the
lexicographic order of `List (List α)` an absent optional comes before every present value -/
def key (fs : List φ) (a : φ → Option α) : List (List α) := fs.map (fun f => (a f).toList)

variable (hp ho : α → Int) (st : α → String)

theorem optEq_std (x y : Option α) : optEq (stdOps hp ho st) x y = decide (x.toList = y.toList) := by
  cases x <;> cases y <;> simp [optEq, stdOps]

theorem optLt_std (x y : Option α) : optLt (stdOps hp ho st) x y = decide (x.toList < y.toList) := by
  cases x <;> cases y <;> simp [optLt, stdOps, List.cons_lt_cons_iff]

theorem allEq_std (fs : List φ) (a b : φ → Option α) :
    allEq (stdOps hp ho st) (fs.map a) (fs.map b) = decide (key fs a = key fs b) := by
  induction fs with
  | nil => simp [allEq, key]
  | cons f fs ih =>
    simp only [List.map_cons, allEq, ih, optEq_std, key, List.cons.injEq]
    by_cases h1 : (a f).toList = (b f).toList <;> simp [h1]

theorem lexLt_std (fs : List φ) (a b : φ → Option α) :
    lexLt (stdOps hp ho st) (fs.map a) (fs.map b) = decide (key fs a < key fs b) := by
  induction fs with
  | nil => simp [lexLt, key]
  | cons f fs ih =>
    simp only [List.map_cons, lexLt, ih, optLt_std, key, List.cons_lt_cons_iff]
    rcases lt_trichotomy (a f).toList (b f).toList with h | h | h
    · simp [h]
    · simp only [h, lt_self_iff_false, decide_false, Bool.not_false, Bool.true_and, Bool.false_or, true_and, false_or]
      congr
    · have h1 : ¬ (a f).toList < (b f).toList := not_lt_of_gt h
      have h2 : ¬ (a f).toList = (b f).toList := ne_of_gt h
      simp [h, h1, h2]

omit [LinearOrder α] in
theorem key_eq_iff (fs : List φ) (a b : φ → Option α) : key fs a = key fs b ↔ ∀ f ∈ fs, a f = b f := by
  induction fs with
  | nil => simp [key]
  | cons f fs ih =>
    simp only [key, List.map_cons, List.cons.injEq, List.mem_cons, forall_eq_or_imp] at ih ⊢
    rw [ih]
    constructor
    · rintro ⟨h1, h2⟩
      refine ⟨?_, h2⟩
      cases hx : a f <;> cases hy : b f <;> simp_all
    · rintro ⟨h1, h2⟩; exact ⟨by rw [h1], h2⟩

/-- **cpp_eq_spec**: `==` of a record with at least one field holds exactly when all fields are equal. -/
theorem cpp_eq_spec (fs : List φ) (hne : fs ≠ []) (a b : φ → Option α) :
    cppOp (stdOps hp ho st) fs ⟨a, b⟩ .eq = .ok (.bool (decide (∀ f ∈ fs, a f = b f))) := by
  rw [cpp_eq_allEq _ fs hne, allEq_std]
  congr 3
  exact propext (key_eq_iff fs a b)

/-- `!=` is the negation of `==` -/
theorem cpp_ne_spec (fs : List φ) (hne : fs ≠ []) (a b : φ → Option α) :
    cppOp (stdOps hp ho st) fs ⟨a, b⟩ .ne = .ok (.bool (!decide (∀ f ∈ fs, a f = b f))) := by
  have h := cpp_eq_spec hp ho st fs hne a b
  simp only [cppOp] at h ⊢
  rw [h]; simp [notRes]

/-- **cpp_lt_lex**: `<` is the lexicographic order of the field lists in declaration order (any number of fields). -/
theorem cpp_lt_lex (fs : List φ) (a b : φ → Option α) :
    cppOp (stdOps hp ho st) fs ⟨a, b⟩ .lt = .ok (.bool (decide (key fs a < key fs b))) := by
  simp only [cppOp, run]; rw [cpp_lt_lexLt, lexLt_std]

theorem cpp_gt_spec (fs : List φ) (a b : φ → Option α) :
    cppOp (stdOps hp ho st) fs ⟨a, b⟩ .gt = .ok (.bool (decide (key fs b < key fs a))) := by
  simp only [cppOp, run, Env.swap]; rw [cpp_lt_lexLt, lexLt_std]

theorem cpp_le_spec (fs : List φ) (a b : φ → Option α) :
    cppOp (stdOps hp ho st) fs ⟨a, b⟩ .le = .ok (.bool (decide (key fs a ≤ key fs b))) := by
  simp only [cppOp, run, Env.swap]; rw [cpp_lt_lexLt, lexLt_std]
  by_cases h : key fs a ≤ key fs b
  · simp [notRes, h, not_lt_of_ge h]
  · simp [notRes, h, lt_of_not_ge h]

theorem cpp_ge_spec (fs : List φ) (a b : φ → Option α) :
    cppOp (stdOps hp ho st) fs ⟨a, b⟩ .ge = .ok (.bool (decide (key fs b ≤ key fs a))) := by
  simp only [cppOp, run]; rw [cpp_lt_lexLt, lexLt_std]
  by_cases h : key fs b ≤ key fs a
  · simp [notRes, h, not_lt_of_ge h]
  · simp [notRes, h, lt_of_not_ge h]

/-- the relation computed by the generated `operator<` -/
def cppLess (fs : List φ) (a b : φ → Option α) : Prop := cppOp (stdOps hp ho st) fs ⟨a, b⟩ .lt = .ok (.bool true)
/-- the relation computed by the generated `operator==` -/
def cppEqual (fs : List φ) (a b : φ → Option α) : Prop := cppOp (stdOps hp ho st) fs ⟨a, b⟩ .eq = .ok (.bool true)

theorem cppLess_iff (fs : List φ) (a b : φ → Option α) : cppLess hp ho st fs a b ↔ key fs a < key fs b := by
  simp [cppLess, cpp_lt_lex]

theorem cppEqual_iff (fs : List φ) (hne : fs ≠ []) (a b : φ → Option α) : cppEqual hp ho st fs a b ↔ key fs a = key fs b := by
  simp [cppEqual, cpp_eq_spec hp ho st fs hne, key_eq_iff]

/-- `<` is irreflexive -/
theorem cpp_lt_irrefl (fs : List φ) (a : φ → Option α) : ¬ cppLess hp ho st fs a a := by
  rw [cppLess_iff]; exact lt_irrefl _

/-- `<` is transitive -/
theorem cpp_lt_trans (fs : List φ) (a b c : φ → Option α) (h1 : cppLess hp ho st fs a b) (h2 : cppLess hp ho st fs b c) :
    cppLess hp ho st fs a c := by
  rw [cppLess_iff] at *; exact lt_trans h1 h2

/-- `<` is total up to `==`: exactly one of `a < b`, `a == b`, `b < a` (strict total order consistent with `==`) -/
theorem cpp_lt_trichotomous (fs : List φ) (hne : fs ≠ []) (a b : φ → Option α) :
    (cppLess hp ho st fs a b ∧ ¬ cppEqual hp ho st fs a b ∧ ¬ cppLess hp ho st fs b a)
    ∨ (¬ cppLess hp ho st fs a b ∧ cppEqual hp ho st fs a b ∧ ¬ cppLess hp ho st fs b a)
    ∨ (¬ cppLess hp ho st fs a b ∧ ¬ cppEqual hp ho st fs a b ∧ cppLess hp ho st fs b a) := by
  simp only [cppLess_iff, cppEqual_iff hp ho st fs hne]
  rcases lt_trichotomy (key fs a) (key fs b) with h | h | h
  · exact Or.inl ⟨h, ne_of_lt h, not_lt_of_gt h⟩
  · exact Or.inr (Or.inl ⟨by rw [h]; exact lt_irrefl _, h, by rw [h]; exact lt_irrefl _⟩)
  · exact Or.inr (Or.inr ⟨not_lt_of_gt h, ne_of_gt h, h⟩)

/-- `==` of the generated code is an equivalence relation (it is equality of the field lists) -/
theorem cpp_eq_equivalence (fs : List φ) (hne : fs ≠ []) :
    (∀ a, cppEqual hp ho st fs a a) ∧ (∀ a b, cppEqual hp ho st fs a b → cppEqual hp ho st fs b a)
    ∧ (∀ a b c, cppEqual hp ho st fs a b → cppEqual hp ho st fs b c → cppEqual hp ho st fs a c) := by
  refine ⟨fun a => ?_, fun a b h => ?_, fun a b c h1 h2 => ?_⟩
  · rw [cppEqual_iff hp ho st fs hne]
  · rw [cppEqual_iff hp ho st fs hne] at *; exact h.symm
  · rw [cppEqual_iff hp ho st fs hne] at *; exact h1.trans h2

/-! ### Java over a linear order -/

/-- **java_equals_spec**: `equals` (same class, at least one field, non-optional fields non-null) holds exactly when all
fields are equal; for optional fields `null` equals only `null`. -/
theorem java_equals_spec (fs : List Field) (hne : fs ≠ []) (a b : Field → Option α) (ha : NonNull fs a) :
    run (stdOps hp ho st) ⟨a, b⟩ (javaEqualsBody fs) = .ok (.bool (decide (∀ f ∈ fs, a f = b f))) := by
  rw [java_equals_allEq _ fs hne a b ha, allEq_std]
  congr 3
  exact propext (key_eq_iff fs a b)

/-- three-way comparison of the field lists -/
def cmp3 (x y : List (List α)) : Int := if x < y then -1 else if y < x then 1 else 0

theorem cons_lt_cons_iff' {β : Type} [LinearOrder β] (p q : β) (ps qs : List β) :
    p :: ps < q :: qs ↔ p < q ∨ p = q ∧ ps < qs := List.cons_lt_cons_iff

theorem singleton_lt_iff (x y : α) : ([x] : List α) < [y] ↔ x < y := by
  rw [cons_lt_cons_iff']; simp

theorem cmp3_cons (x y : List α) (xs ys : List (List α)) :
    cmp3 (x :: xs) (y :: ys) = if x < y then -1 else if y < x then 1 else cmp3 xs ys := by
  unfold cmp3
  rcases lt_trichotomy x y with h | h | h
  · have h1 : x :: xs < y :: ys := (cons_lt_cons_iff' ..).mpr (Or.inl h)
    rw [if_pos h1, if_pos h]
  · subst h
    have e1 : x :: xs < x :: ys ↔ xs < ys := by rw [cons_lt_cons_iff']; simp
    have e2 : x :: ys < x :: xs ↔ ys < xs := by rw [cons_lt_cons_iff']; simp
    rw [if_neg (lt_irrefl x), if_neg (lt_irrefl x)]
    by_cases c1 : xs < ys
    · rw [if_pos (e1.mpr c1), if_pos c1]
    · rw [if_neg (fun hh => c1 (e1.mp hh)), if_neg c1]
      by_cases c2 : ys < xs
      · rw [if_pos (e2.mpr c2), if_pos c2]
      · rw [if_neg (fun hh => c2 (e2.mp hh)), if_neg c2]
  · have h1 : y :: ys < x :: xs := (cons_lt_cons_iff' ..).mpr (Or.inl h)
    rw [if_neg (not_lt_of_gt h1), if_pos h1, if_neg (not_lt_of_gt h), if_pos h]

theorem lexCmp_std (fs : List Field) (a b : Field → Option α) (h : AllPresent fs a b) :
    lexCmp (stdOps hp ho st) (fs.map a) (fs.map b) = cmp3 (key fs a) (key fs b) := by
  induction fs with
  | nil => simp [lexCmp, cmp3, key]
  | cons f fs ih =>
    obtain ⟨hx, hy⟩ := h f (by simp)
    obtain ⟨x, hx⟩ := Option.isSome_iff_exists.mp hx
    obtain ⟨y, hy⟩ := Option.isSome_iff_exists.mp hy
    have ih' := ih (fun g hg => h g (by simp [hg]))
    have hk : key (f :: fs) a = [x] :: key fs a := by simp [key, hx]
    have hk' : key (f :: fs) b = [y] :: key fs b := by simp [key, hy]
    rw [hk, hk', cmp3_cons]
    simp only [List.map_cons, hx, hy, lexCmp, cmpSign, stdOps, decide_eq_true_eq]
    rcases lt_trichotomy x y with hlt | heq | hgt
    · rw [if_pos ((singleton_lt_iff x y).mpr hlt)]; simp [hlt]
    · subst heq
      rw [if_neg (lt_irrefl _), if_neg (lt_irrefl _)]; simp; exact ih'
    · rw [if_neg (fun hh => not_lt_of_gt hgt ((singleton_lt_iff x y).mp hh)), if_pos ((singleton_lt_iff y x).mpr hgt)]
      simp [hgt, not_lt_of_gt hgt]

/-- **java_compare_lex**: `compareTo` returns the sign of the lexicographic comparison of the field lists in declaration
order (when no compared field is `null`; see `java_compare_null_throws`). -/
theorem java_compare_lex (fs : List Field) (a b : Field → Option α) (h : AllPresent fs a b) :
    run (stdOps hp ho st) ⟨a, b⟩ (javaCompareBody fs) = .ok (.int (cmp3 (key fs a) (key fs b))) := by
  simp only [run]; rw [java_compare_lexCmp _ fs a b 0 h, lexCmp_std hp ho st fs a b h]

theorem cmp3_antisymm (x y : List (List α)) : cmp3 x y = - cmp3 y x := by
  unfold cmp3
  rcases lt_trichotomy x y with h | h | h
  · simp [h, not_lt_of_gt h]
  · subst h; simp
  · simp [h, not_lt_of_gt h]

theorem cmp3_eq_zero_iff (x y : List (List α)) : cmp3 x y = 0 ↔ x = y := by
  unfold cmp3
  rcases lt_trichotomy x y with h | h | h
  · simp [h, ne_of_lt h]
  · subst h; simp
  · simp [h, not_lt_of_gt h, ne_of_gt h]

/-- `sgn(a.compareTo(b)) = -sgn(b.compareTo(a))` -/
theorem java_compare_antisymm (fs : List Field) (a b : Field → Option α) (h : AllPresent fs a b) :
    ∃ c, run (stdOps hp ho st) ⟨a, b⟩ (javaCompareBody fs) = .ok (.int c)
       ∧ run (stdOps hp ho st) ⟨b, a⟩ (javaCompareBody fs) = .ok (.int (-c)) := by
  refine ⟨_, java_compare_lex hp ho st fs a b h, ?_⟩
  rw [java_compare_lex hp ho st fs b a (fun f hf => ⟨(h f hf).2, (h f hf).1⟩), cmp3_antisymm]

/-- `compareTo` is consistent with `equals`: `a.compareTo(b) == 0` exactly when `a.equals(b)` -/
theorem java_compare_consistent_equals (fs : List Field) (hne : fs ≠ []) (a b : Field → Option α) (h : AllPresent fs a b) :
    run (stdOps hp ho st) ⟨a, b⟩ (javaCompareBody fs) = .ok (.int 0)
      ↔ run (stdOps hp ho st) ⟨a, b⟩ (javaEqualsBody fs) = .ok (.bool true) := by
  have ha : NonNull fs a := fun f hf _ => (h f hf).1
  rw [java_compare_lex hp ho st fs a b h, java_equals_spec hp ho st fs hne a b ha]
  simp only [Res.ok.injEq, Val.int.injEq, Val.bool.injEq, decide_eq_true_eq, cmp3_eq_zero_iff, key_eq_iff]

end linear

/-! ## string forms -/

theorem mem_javaToStringParts {α : Type} (ops : Ops α) (env : Env Field α) (fs : List Field) (first : Bool) (f : Field) (hf : f ∈ fs) :
    ∃ p ∈ javaToStringParts ops env fs first, (f.javaName ++ "=").toList <:+ p.toList := by
  induction fs generalizing first with
  | nil => cases hf
  | cons g gs ih =>
    simp only [javaToStringParts, List.mem_cons]
    rcases List.mem_cons.mp hf with rfl | hmem
    · refine ⟨_, Or.inl rfl, ?_⟩
      simp only [String.toList_append, List.append_assoc]
      exact List.suffix_append _ _
    · obtain ⟨p, hp, hs⟩ := ih false hmem
      exact ⟨p, Or.inr (Or.inr hp), hs⟩

/-- **tostring_mentions_all**: the Java string form contains `<field name>=` for every field of the record. -/
theorem tostring_mentions_all {α : Type} (ops : Ops α) (typename : String) (fs : List Field) (env : Env Field α) (f : Field) (hf : f ∈ fs) :
    (f.javaName ++ "=").toList <:+: (javaToString ops typename fs env).toList := by
  obtain ⟨p, hp, hs⟩ := mem_javaToStringParts ops env fs true f hf
  have hmem : p.toList ∈ ((typename ++ "{") :: javaToStringParts ops env fs true ++ ["}"]).map String.toList :=
    List.mem_map.mpr ⟨p, by simp [hp], rfl⟩
  have := List.infix_of_mem_flatten hmem
  rw [javaToString, String.toList_join, List.flatMap_def]
  exact List.IsInfix.trans hs.isInfix this

/-- the C++ `std::format` call passes every field, in order -/
theorem cpp_tostring_args (typename : String) (fs : List Field) :
    (cppToStringFormat typename fs).2 = fs.map (·.cppName) := rfl

/-! ## what is emitted -/

/-- every operator the header declares is defined in the source file (and the source file is written) -/
theorem cpp_declared_defined (c : RecordCfg) :
    (cppDeclaresEq c = true → cppDefinesEq c = true) ∧ (cppDeclaresOrd c = true → cppDefinesOrd c = true) := by
  cases c with | mk eq ord n ss base jss =>
  simp only [cppDeclaresEq, cppDefinesEq, cppDeclaresOrd, cppDefinesOrd, cppWritesSource]
  cases eq <;> cases ord <;> simp

/-- `compareTo` is only emitted together with `implements Comparable`, `equals` only together with `hashCode` -/
theorem java_members_consistent (c : RecordCfg) :
    javaHasCompareTo c = javaImplementsComparable c ∧ javaHasEquals c = javaHasHashCode c := ⟨rfl, rfl⟩

/-! ## `generate.default_deriving` and `@import` -/

mutual
/-- a record derives its explicit set united with `generate.default_deriving` — in whatever file of the import graph,
at whatever depth, it is declared -/
theorem parse_eq_map (dEq dOrd : Bool) : ∀ f : IdlFile, f.parse dEq dOrd = f.decls.map (RecDecl.withDefault dEq dOrd)
  | .mk imports records => by
    simp only [IdlFile.parse, IdlFile.decls, List.map_append, parseAll_eq_map dEq dOrd imports]
theorem parseAll_eq_map (dEq dOrd : Bool) : ∀ fs : List IdlFile,
    IdlFile.parseAll dEq dOrd fs = (IdlFile.declsAll fs).map (RecDecl.withDefault dEq dOrd)
  | [] => by simp [IdlFile.parseAll, IdlFile.declsAll]
  | f :: fs => by
    simp only [IdlFile.parseAll, IdlFile.declsAll, List.map_append, parse_eq_map dEq dOrd f, parseAll_eq_map dEq dOrd fs]
end

/-- with `default_deriving: [eq]` every record of every file derives `eq` (likewise `ord`) -/
theorem parse_default_eq (dOrd : Bool) (f : IdlFile) : ∀ r ∈ f.parse true dOrd, r.eq = true := by
  rw [parse_eq_map]; intro r hr
  obtain ⟨q, _, rfl⟩ := List.mem_map.mp hr
  simp [RecDecl.withDefault]

theorem parse_default_ord (dEq : Bool) (f : IdlFile) : ∀ r ∈ f.parse dEq true, r.ord = true := by
  rw [parse_eq_map]; intro r hr
  obtain ⟨q, _, rfl⟩ := List.mem_map.mp hr
  simp [RecDecl.withDefault]

/-- what is written explicitly is never lost, and without a default the declarations are taken as written -/
theorem parse_explicit_kept (dEq dOrd : Bool) (f : IdlFile) :
    ∀ r ∈ f.parse dEq dOrd, ∃ q ∈ f.decls, r.name = q.name ∧ (q.eq = true → r.eq = true) ∧ (q.ord = true → r.ord = true) := by
  rw [parse_eq_map]; intro r hr
  obtain ⟨q, hq, rfl⟩ := List.mem_map.mp hr
  exact ⟨q, hq, rfl, by simp [RecDecl.withDefault]; intro h; simp [h], by simp [RecDecl.withDefault]; intro h; simp [h]⟩

theorem parse_no_default (f : IdlFile) : f.parse false false = f.decls := by
  rw [parse_eq_map]
  have : RecDecl.withDefault false false = id := by funext r; cases r; simp [RecDecl.withDefault]
  rw [this, List.map_id]

/-- a record with fields that gets `eq` (`ord`) from the configuration gets the operators in both targets, declared and defined -/
theorem default_eq_emitted (c : RecordCfg) (dOrd : Bool) (h : c.nFields ≠ 0) :
    cppDeclaresEq (c.withDefault true dOrd) = true ∧ cppDefinesEq (c.withDefault true dOrd) = true ∧
    javaHasEquals (c.withDefault true dOrd) = true ∧ javaHasHashCode (c.withDefault true dOrd) = true := by
  cases c with | mk eq ord n ss base jss =>
  simp only [RecordCfg.withDefault, cppDeclaresEq, cppDefinesEq, cppWritesSource, javaHasEquals, javaHasHashCode] at *
  simp [h]

theorem default_ord_emitted (c : RecordCfg) (dEq : Bool) (h : c.nFields ≠ 0) :
    cppDeclaresOrd (c.withDefault dEq true) = true ∧ cppDefinesOrd (c.withDefault dEq true) = true ∧
    javaHasCompareTo (c.withDefault dEq true) = true ∧ javaImplementsComparable (c.withDefault dEq true) = true := by
  cases c with | mk eq ord n ss base jss =>
  simp only [RecordCfg.withDefault, cppDeclaresOrd, cppDefinesOrd, cppWritesSource, javaHasCompareTo, javaImplementsComparable] at *
  simp [h]

theorem withDefault_none (c : RecordCfg) : c.withDefault false false = c := by
  cases c; simp [RecordCfg.withDefault]

/-- two levels of `@import`, the deepest record without explicit deriving, `default_deriving: [eq]` -/
example : (IdlFile.mk [.mk [.mk [] [⟨"p", false, false⟩]] [⟨"q", false, true⟩]] [⟨"r", true, false⟩]).parse true false
    = [⟨"p", true, false⟩, ⟨"q", true, true⟩, ⟨"r", true, false⟩] := by decide

/-- with `string_serialization` an empty record's `to_string` is declared but its source file is not written -/
theorem cpp_tostring_declared_not_defined_example :
    cppDeclaresToString ⟨false, false, 0, true, false, false⟩ = true ∧ cppDefinesToString ⟨false, false, 0, true, false, false⟩ = false := by decide

/-! ## examples: the hypotheses are satisfiable, and the results on a concrete record -/

def exA : Field := ⟨0, "a", "a", false, false, false, false⟩
def exB : Field := ⟨1, "b", "b", true, true, false, false⟩
def exOps : Ops Nat := ⟨fun a b => a == b, fun a b => decide (a < b), fun x => x, fun x => x + 1, fun x => toString x⟩
def exEnv (l r : List (Option Nat)) : Env Field Nat := ⟨fun f => (l[f.idx]?).join, fun f => (r[f.idx]?).join⟩

example : cppOp exOps [exA, exB] (exEnv [some 1, none] [some 1, some 0]) .lt = .ok (.bool true) := by decide
example : cppOp exOps [exA, exB] (exEnv [some 1, none] [some 1, none]) .eq = .ok (.bool true) := by decide
example : cppOp exOps ([] : List Field) (exEnv [] []) .eq = .stuck := by decide
example : run exOps (exEnv [some 1, none] [some 1, none]) (javaEqualsBody [exA, exB]) = .ok (.bool true) := by decide
example : run exOps (exEnv [some 1, none] [some 1, some 3]) (javaEqualsBody [exA, exB]) = .ok (.bool false) := by decide
example : run exOps (exEnv [some 1, some 5] [some 1, some 3]) (javaCompareBody [exA, exB]) = .ok (.int 1) := by decide
example : run exOps (exEnv [some 1, none] [some 1, some 3]) (javaCompareBody [exA, exB]) = .npe := by decide
example : run exOps (exEnv [some 1, none] [some 2, some 3]) (javaCompareBody [exA, exB]) = .ok (.int (-1)) := by decide
example : run exOps (exEnv [some 2, some 4] []) (javaHashBody [exA, exB]) = .ok (.int ((17 * 31 + 2) * 31 + 5)) := by decide
example : javaToString exOps "p.R" [exA, exB] (exEnv [some 2, none] []) = "p.R{a=2,b=null}" := by decide

/-! ## the declaration order is part of the specification

`cpp_lt_lex` / `java_compare_lex` are statements about the field list `fs` *in the order of the declaration*. Code that was
emitted for another order of the same fields — the files of an earlier run that are still on disk after the declaration was
edited — implements another relation: the compiled drivers are judged against the declaration as it is now, with every
field read back by its declared name (`c09.spec`, clause "a field read by its declared name …"). -/

def exC9 : Field := ⟨1, "c", "c", false, false, false, false⟩

/-- two objects that the order by (`a`, `c`) and the order by (`c`, `a`) rank differently: `<`, `compareTo` and the
    constructor argument order of the stale code disagree with the edited declaration -/
theorem stale_field_order_counterexample :
    cppOp exOps [exA, exC9] (exEnv [some 1, some 2] [some 2, some 1]) .lt = .ok (.bool true) ∧
    cppOp exOps [exC9, exA] (exEnv [some 1, some 2] [some 2, some 1]) .lt = .ok (.bool false) ∧
    run exOps (exEnv [some 1, some 2] [some 2, some 1]) (javaCompareBody [exA, exC9]) = .ok (.int (-1)) ∧
    run exOps (exEnv [some 1, some 2] [some 2, some 1]) (javaCompareBody [exC9, exA]) = .ok (.int 1) := by decide

/-- **field_order_matters**: over any linear order with two different values, the `<` emitted for `[f, g]` and the `<`
    emitted for `[g, f]` differ on some pair of objects -/
theorem field_order_matters {φ α : Type} [LinearOrder α] (hp ho : α → Int) (st : α → String) (f g : φ) (hfg : f ≠ g) [DecidableEq φ]
    (x y : α) (hxy : x < y) :
    ∃ a b : φ → Option α,
      cppOp (stdOps hp ho st) [f, g] ⟨a, b⟩ .lt = .ok (.bool true) ∧ cppOp (stdOps hp ho st) [g, f] ⟨a, b⟩ .lt = .ok (.bool false) := by
  refine ⟨fun h => if h = f then some x else some y, fun h => if h = f then some y else some x, ?_, ?_⟩
  · rw [cpp_lt_lex]
    have hgf : g ≠ f := fun h => hfg h.symm
    simp only [key, List.map_cons, List.map_nil, if_true, hgf, if_false, Option.toList]
    congr 2
    simp only [decide_eq_true_eq]
    exact List.Lex.rel (List.Lex.rel hxy)
  · rw [cpp_lt_lex]
    have hgf : g ≠ f := fun h => hfg h.symm
    simp only [key, List.map_cons, List.map_nil, if_true, hgf, if_false, Option.toList]
    congr 2
    simp only [decide_eq_false_iff_not]
    exact lt_asymm (show ([[x], [y]] : List (List α)) < [[y], [x]] from List.Lex.rel (List.Lex.rel hxy))

end Pydjinni.Gen
